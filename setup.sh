#!/bin/sh
# Builds the checker from files on disk only (module cache), offline.
set -e
cd "$(dirname "$0")/checker"
export GOFLAGS=-mod=mod GOPROXY=off GOSUMDB=off GOTOOLCHAIN=local GOWORK=off
mkdir -p ../bin
go build -o ../bin/psv ./cmd/psv
echo "built $(cd .. && pwd)/bin/psv"
# warm the Go build cache with the export data of /repo's dependencies (best effort)
../bin/psv warm || true
