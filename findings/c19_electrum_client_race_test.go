package electrum

// Demonstration for the C19 finding "electrumClient replaces its connection
// without synchronisation" (fixed in /repo by the commit recorded in
// known_findings.txt). Copy into /repo/electrum and run
//   go test -race -vet=off -count=1 -run TestC19ElectrumClientReconnectRace ./electrum/
// Before the fix the race detector reports a write of electrumClient.client in
// (*electrumClient).Reboot (client.go, `c.client = client`) against a read in
// (*electrumClient).reconnect / Ping from the other goroutine. After the fix
// that report is gone; what remains (and still fails the run under -race) is a
// race inside the go-electrum library itself between (*Client).Shutdown and
// its listen goroutine, which is outside this repository.

import (
	"bufio"
	"context"
	"encoding/json"
	"fmt"
	"net"
	"sync"
	"testing"
	"time"
)

// fakeElectrum answers every json-rpc request with a null result.
func fakeElectrum(t *testing.T) string {
	l, err := net.Listen("tcp", "127.0.0.1:0")
	if err != nil {
		t.Fatal(err)
	}
	t.Cleanup(func() { l.Close() })
	go func() {
		for {
			conn, err := l.Accept()
			if err != nil {
				return
			}
			go func(c net.Conn) {
				defer c.Close()
				r := bufio.NewReader(c)
				for {
					line, err := r.ReadBytes('\n')
					if err != nil {
						return
					}
					var req struct {
						ID uint64 `json:"id"`
					}
					if json.Unmarshal(line, &req) != nil {
						continue
					}
					fmt.Fprintf(c, "{\"jsonrpc\":\"2.0\",\"id\":%d,\"result\":null}\n", req.ID)
				}
			}(conn)
		}
	}()
	return l.Addr().String()
}

func TestC19ElectrumClientReconnectRace(t *testing.T) {
	ctx, cancel := context.WithTimeout(context.Background(), 20*time.Second)
	defer cancel()
	rpc, err := NewElectrumClient(ctx, fakeElectrum(t), false)
	if err != nil {
		t.Fatal(err)
	}
	var wg sync.WaitGroup
	wg.Add(2)
	// the header goroutine of the LWK watcher re-opens the connection periodically ...
	go func() {
		defer wg.Done()
		for i := 0; i < 20; i++ {
			if err := rpc.Reboot(ctx); err != nil {
				t.Errorf("reboot: %v", err)
				return
			}
		}
	}()
	// ... while tx observers and the wallet issue requests from other goroutines.
	go func() {
		defer wg.Done()
		for i := 0; i < 200; i++ {
			_ = rpc.Ping(ctx)
		}
	}()
	wg.Wait()
}
