package peersync

// Demonstration for the C28 finding "poller writes back a stale record"
// (fixed in /repo by the commit recorded in known_findings.txt). Copy into
// /repo/peersync and run
//   go test -vet=off -count=1 -run TestC28PollerDoesNotOverwriteNewerCapability ./peersync/
// It fails on the tree before the fix and passes after it.

import (
	"context"
	"path/filepath"
	"testing"
	"time"

	"github.com/elementsproject/peerswap/messages"
	"github.com/elementsproject/peerswap/premium"
)

func TestC28PollerDoesNotOverwriteNewerCapability(t *testing.T) {
	store, err := NewStore(filepath.Join(t.TempDir(), "peers.db"))
	if err != nil {
		t.Fatal(err)
	}
	defer store.Close()
	id, _ := NewPeerID("peer-x")
	mk := func(outRate int64) *PeerCapability {
		return NewPeerCapability(NewVersion(5), []Asset{AssetBTC}, true,
			premium.NewPPM(0), premium.NewPPM(outRate), premium.NewPPM(0), premium.NewPPM(0))
	}
	peer := NewPeer(id, "")
	peer.UpdateCapability(mk(100))
	if err := store.SavePeerState(peer); err != nil {
		t.Fatal(err)
	}
	// While the poller is busy sending to the peer, the peer's own poll
	// (swap-out rate 200) arrives and is stored, as the message handler does.
	send := func(ctx context.Context, to PeerID, _ messages.MessageType) error {
		cur, err := store.GetPeerState(to)
		if err != nil {
			return err
		}
		cur.UpdateCapability(mk(200))
		return store.SavePeerState(cur)
	}
	p := newPoller(NewSyncLogic(), store, nil, nil, send, time.Second, time.Second, time.Hour, time.Minute)
	p.pollPeers(context.Background(), true)

	got, err := store.GetPeerState(id)
	if err != nil {
		t.Fatal(err)
	}
	if r := got.Capability().PremiumRateValue(premium.BTC, premium.SwapOut); r != 200 {
		t.Fatalf("stored capability is not the peer's most recent poll: btc swap-out rate %d, want 200", r)
	}
	if got.LastPollAt().IsZero() {
		t.Fatalf("poll time not recorded")
	}
}
