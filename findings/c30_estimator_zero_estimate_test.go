package onchain

// Demonstration for the C30 finding "bitcoind estimator answers the relay
// floor instead of the configured fallback when estimatesmartfee has no
// estimate" (fixed in /repo by the commit recorded in known_findings.txt).
// Copy into /repo/onchain and run
//   go test -vet=off -count=1 -run TestC30ZeroEstimateFallsBackToConfiguredRate ./onchain/
// It fails on the tree before the fix and passes after it.

import (
	"testing"

	"github.com/btcsuite/btcd/btcutil"
	"github.com/elementsproject/glightning/gbitcoin"
)

func TestC30ZeroEstimateFallsBackToConfiguredRate(t *testing.T) {
	backend := &GBitcoinBackendMock{PingReturn: true}
	const fallback = btcutil.Amount(6250)
	est, err := NewGBitcoindEstimator(backend, "ECONOMICAL", fallback, LegacyFeeFloorSatPerKw)
	if err != nil {
		t.Fatal(err)
	}
	// estimatesmartfee without enough data: no rpc error, no feerate.
	backend.EstimateFeeReturn = &gbitcoin.FeeResponse{Errors: []string{"Insufficient data or no feerate found"}}
	got, err := est.EstimateFeePerKW(6)
	if err != nil {
		t.Fatal(err)
	}
	if got != fallback {
		t.Fatalf("zero estimate: got %d sat/kw, want the configured fallback %d", got, fallback)
	}
}
