#!/usr/bin/env python3
"""Print the seeder prompt for one property: seedprompt.py <PROP> <worktree> [prompt file]"""
import json, os, sys
VERIF = os.path.dirname(os.path.dirname(os.path.abspath(__file__)))
prop, wt = sys.argv[1], sys.argv[2]
tmpl = open(sys.argv[3] if len(sys.argv) > 3 else os.path.join(VERIF, "docs", "SEEDER_PROMPT2.md")).read().split("\n---\n", 1)[1]
for l in open(os.path.join(VERIF, "properties.jsonl")):
    r = json.loads(l)
    if r["id"] == prop:
        print(tmpl.replace("{WORKTREE}", wt).replace("{ID}", prop).replace("{TITLE}", r["title"])
              .replace("{STATEMENT}", r["statement"]).replace("{QUANTIFIER}", r["quantifier"]["text"]))
        break
else:
    sys.exit("unknown property")
