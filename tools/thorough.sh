#!/bin/sh
# Thorough tier of one property: the rules on /repo with both build-tag sets,
# then the mutant self-test (every committed mutant of the property must be
# reported by the rule it targets). Exit code = verdict on /repo only.
cd "$(dirname "$0")/.." || exit 2
./bin/psv check "$1" --tier thorough
rc=$?
python3 tools/mut.py selftest "$1"
# behaviour-preserving refactors must stay quiet (false-alarm regression)
python3 tools/benign.py "$1" | sed "s/^/BENIGN: /"
exit $rc
