#!/usr/bin/env python3
"""False-alarm regression: behaviour-preserving refactors under /verif/benign must
leave every affected check at exit 0. Usage: benign.py [PROP...]"""
import os, re, subprocess, sys, tempfile, shutil
VERIF = os.path.dirname(os.path.dirname(os.path.abspath(__file__)))
ENV = dict(os.environ, GOFLAGS="-mod=mod", GOPROXY="off", GOSUMDB="off", GOTOOLCHAIN="local", GOWORK="off")
def props_of(path):
    ids = re.findall(r'[cC](\d\d)', os.path.relpath(path, os.path.join(VERIF, 'benign')))
    return sorted({f'C{i}' for i in ids})
bad = 0
# `benign.py --on C07 [C09 ...]`: run the given checks against EVERY benign patch
# (a refactor filed under one property can disturb the rules of another).
ON = sys.argv[2:] if sys.argv[1:2] == ['--on'] else None
PSV = os.environ.get('PSV_BIN', os.path.join(VERIF, 'bin', 'psv'))
for root, _, files in sorted(os.walk(os.path.join(VERIF, 'benign'))):
    for f in sorted(files):
        if not f.endswith('.patch'): continue
        p = os.path.join(root, f)
        props = ON if ON else props_of(p)
        if not ON and sys.argv[1:] and not set(props) & set(sys.argv[1:]): continue
        if not ON and sys.argv[1:]:
            props = [x for x in props if x in sys.argv[1:]]
        d = tempfile.mkdtemp(prefix='psv-ben-')
        try:
            subprocess.check_call(['rsync','-a','--exclude','.git','/repo/', d+'/'])
            r = subprocess.run(['patch','-p1','-s','-i',p], cwd=d, capture_output=True, text=True)
            if r.returncode != 0:
                print('SKIPPED', os.path.relpath(p, VERIF), '(does not apply)'); continue
            for prop in props:
                r = subprocess.run([PSV,'check',prop,'--repo',d,'--no-evidence','--verif',VERIF], capture_output=True, text=True, env=ENV)
                ok = r.returncode == 0
                bad += 0 if ok else 1
                print('QUIET  ' if ok else 'ALARM  ', prop, os.path.relpath(p, VERIF), '' if ok else ' | '.join(l[:200] for l in r.stdout.splitlines() if l.startswith(('violated','ERROR'))))
        finally:
            shutil.rmtree(d, ignore_errors=True)
sys.exit(1 if bad else 0)
