#!/usr/bin/env python3
"""False-alarm regression: behaviour-preserving refactors under /verif/benign must
leave every affected check at exit 0.

  benign.py [PROP...]        each patch against the properties named in its path (default: all patches)
  benign.py --on PROP...     the given checks against EVERY patch (a refactor filed under one
                             property can disturb the rules of another)
  benign.py --all            every check against every patch: one `psv check all` per patch, the
                             properties are run one by one only when that is not quiet

Patches are applied to rsync scratch copies of /repo under /tmp (removed afterwards);
PSV_JOBS patches are handled in parallel (default 8)."""
import os, re, subprocess, sys, tempfile, shutil
from concurrent.futures import ThreadPoolExecutor
VERIF = os.path.dirname(os.path.dirname(os.path.abspath(__file__)))
ENV = dict(os.environ, GOFLAGS="-mod=mod", GOPROXY="off", GOSUMDB="off", GOTOOLCHAIN="local", GOWORK="off")
PSV = os.environ.get('PSV_BIN', os.path.join(VERIF, 'bin', 'psv'))
JOBS = int(os.environ.get('PSV_JOBS', '8'))
args = sys.argv[1:]
ALL = args[:1] == ['--all']
ON = args[1:] if args[:1] == ['--on'] else None


def props_of(path):
    ids = re.findall(r'[cC](\d\d)', os.path.relpath(path, os.path.join(VERIF, 'benign')))
    return sorted({f'C{i}' for i in ids})


def psv(prop, d):
    r = subprocess.run([PSV, 'check', prop, '--repo', d, '--no-evidence', '--verif', VERIF], capture_output=True, text=True, env=ENV)
    return r.returncode, ' | '.join(l[:200] for l in r.stdout.splitlines() if l.startswith(('violated', 'ERROR')))


def one(p):
    rel = os.path.relpath(p, VERIF)
    out, bad = [], 0
    if ALL:
        props = subprocess.run([PSV, 'list'], capture_output=True, text=True, env=ENV).stdout.split()
    elif ON:
        props = ON
    else:
        props = props_of(p)
        if args:
            if not set(props) & set(args):
                return out, bad
            props = [x for x in props if x in args]
    d = tempfile.mkdtemp(prefix='psv-ben-')
    try:
        subprocess.check_call(['rsync', '-a', '--exclude', '.git', '/repo/', d + '/'])
        r = subprocess.run(['patch', '-p1', '-s', '-i', p], cwd=d, capture_output=True, text=True)
        if r.returncode != 0:
            return [f'SKIPPED {rel} (does not apply)'], 0
        if ALL:
            rc, _ = psv('all', d)
            if rc == 0:
                return [f'QUIET   all {rel}'], 0
        for prop in props:
            rc, why = psv(prop, d)
            if rc != 0:
                bad += 1
            if rc != 0 or not ALL:
                out.append(('QUIET   ' if rc == 0 else 'ALARM(%d) ' % rc) + f'{prop} {rel} {why}')
    finally:
        shutil.rmtree(d, ignore_errors=True)
    return out, bad


patches = []
for root, _, files in sorted(os.walk(os.path.join(VERIF, 'benign'))):
    patches += [os.path.join(root, f) for f in sorted(files) if f.endswith('.patch')]
total = 0
with ThreadPoolExecutor(JOBS) as ex:
    for out, bad in ex.map(one, patches):
        total += bad
        for l in out:
            print(l, flush=True)
print(f'{len(patches)} patches, {total} alarms')
sys.exit(1 if total else 0)
