#!/usr/bin/env python3
"""Confirm and evaluate a seeded change delivered by an independent seeder.

  seed.py take <PROP> <worktree> [name [subdir]]   copy <worktree>/<subdir or _seed> into /verif/seeded/<name or PROP>/
  seed.py confirm <name> <worktree>        in the (clean) worktree: apply patch.diff, build, run the
                                           existing tests of the touched packages (must pass) and the
                                           demonstration (must fail); revert; demonstration must pass.
                                           Result is written into seeded/<name>/meta.json ("confirmed").
  seed.py check <name> [PROP...]           apply the patch to a scratch copy of /repo and run the given
                                           checks (default: all) with --repo; records which fire.
  seed.py inrepo <name> [PROP...]          same, but the way the brief describes it: git -C /repo apply,
                                           run, git -C /repo checkout -- .  (only when nothing else uses /repo)
"""
import json, os, re, shutil, subprocess, sys, tempfile

VERIF = os.path.dirname(os.path.dirname(os.path.abspath(__file__)))
ENV = dict(os.environ, GOFLAGS="-mod=mod", GOPROXY="off", GOSUMDB="off", GOTOOLCHAIN="local", GOWORK="off")


def sh(cmd, cwd=None, timeout=3000):
    r = subprocess.run(cmd, cwd=cwd, env=ENV, capture_output=True, text=True, timeout=timeout)
    return r.returncode, (r.stdout + r.stderr)


def sdir(name):
    return os.path.join(VERIF, "seeded", name)


def load_meta(name):
    p = os.path.join(sdir(name), "meta.json")
    try:
        return json.load(open(p))
    except Exception:
        return {}


def save_meta(name, m):
    json.dump(m, open(os.path.join(sdir(name), "meta.json"), "w"), indent=1)


def touched_pkgs(patch):
    pk = set()
    for l in open(patch):
        m = re.match(r"\+\+\+ b/(.+)", l)
        if m and m.group(1).endswith(".go"):
            pk.add("./" + os.path.dirname(m.group(1)) + "/")
    return sorted(pk)


def take(prop, wt, name=None, sub="_seed"):
    name = name or prop
    src = os.path.join(wt, sub)
    if not os.path.isdir(src):
        sys.exit("no _seed in " + wt)
    d = sdir(name)
    if os.path.exists(d):
        shutil.rmtree(d)
    shutil.copytree(src, d)
    m = load_meta(name)
    m["property"] = prop
    save_meta(name, m)
    print("copied to", d, sorted(os.listdir(d)))


def demo_files(name):
    return [f for f in os.listdir(sdir(name)) if f.endswith("_test.go")]


def confirm(name, wt):
    d = sdir(name)
    patch = os.path.join(d, "patch.diff")
    m = load_meta(name)
    log = []
    rc, out = sh(["git", "status", "--porcelain", "--untracked-files=no"], cwd=wt)
    if out.strip():
        sys.exit("worktree not clean: " + out)
    pk = touched_pkgs(patch)
    demos = demo_files(name)
    demo_cmd = m.get("demo_cmd", "")
    # place the demonstration test files next to the code they test
    placed = []
    for f in demos:
        # find the package directory from the seeder's own copy in the worktree
        rc, out = sh(["git", "ls-files", "--others", "--exclude-standard"], cwd=wt)
        target = None
        for l in out.splitlines():
            if os.path.basename(l) == f and not l.startswith("_seed"):
                target = l
        if target is None:
            # fall back: package named in the file
            pkgname = re.search(r"^package (\w+)", open(os.path.join(d, f)).read(), re.M).group(1).replace("_test", "")
            cands = [p for p in pk if p.strip("./").split("/")[-1] == pkgname]
            if not cands:
                # the demonstration lives in another package than the change (e.g. drives it through swap)
                rc2, out2 = sh(["git", "ls-files", "*.go"], cwd=wt)
                cands = sorted({"./" + os.path.dirname(l) + "/" for l in out2.splitlines()
                                if os.path.basename(os.path.dirname(l)) == pkgname})
            cands = cands or pk
            target = os.path.join(cands[0].strip("./"), f)
            shutil.copy(os.path.join(d, f), os.path.join(wt, target))
        placed.append(target)
    run = "|".join(sorted(set(re.findall(r"func (Test\w+)", "".join(open(os.path.join(d, f)).read() for f in demos)))))
    demo_pk = sorted({"./" + os.path.dirname(p) + "/" for p in placed})
    res = {"touched_packages": pk, "demo": placed, "demo_tests": run}
    race = ["-race"] if "-race" in demo_cmd else []  # a data-race demonstration only fails under the race detector
    res["demo_flags"] = race
    try:
        rc, out = sh(["git", "apply", patch], cwd=wt)
        if rc:
            sys.exit("patch does not apply: " + out)
        rc, out = sh(["go", "build", "./..."], cwd=wt)
        res["builds_with_change"] = rc == 0
        # existing tests of the touched packages, without the demonstration
        rc, out = sh(["go", "test", "-vet=off", "-count=1", "-timeout", "25m", "-skip", run or "^$"] + pk, cwd=wt)
        res["existing_tests_pass_with_change"] = rc == 0
        res["existing_tests_tail"] = out.strip().splitlines()[-4:]
        rc, out = sh(["go", "test", "-vet=off", "-count=1", "-tags", "fast_test", "-run", run] + race + demo_pk, cwd=wt)
        res["demo_fails_with_change"] = rc != 0
        res["demo_with_change_tail"] = out.strip().splitlines()[-6:]
    finally:
        sh(["git", "checkout", "--", "."], cwd=wt)
    rc, out = sh(["go", "test", "-vet=off", "-count=1", "-tags", "fast_test", "-run", run] + race + demo_pk, cwd=wt)
    res["demo_passes_without_change"] = rc == 0
    res["demo_without_change_tail"] = out.strip().splitlines()[-3:]
    res["ok"] = all(res.get(k) for k in ("builds_with_change", "existing_tests_pass_with_change", "demo_fails_with_change", "demo_passes_without_change"))
    m["confirmed"] = res
    save_meta(name, m)
    print(json.dumps(res, indent=1))


def run_checks(repo, props):
    psv = os.path.join(VERIF, "bin", "psv")
    rc, out = sh([psv, "list"])
    allp = out.split()
    fired = {}
    for p in props or allp:
        rc, out = sh([psv, "check", p, "--repo", repo, "--no-evidence", "--verif", VERIF])
        lines = [l[:400] for l in out.splitlines() if l.startswith(("violated:", "ERROR"))]
        if rc != 0:
            fired[p] = {"exit": rc, "lines": lines[:6]}
    return fired


def check(name, props, inrepo=False):
    patch = os.path.join(sdir(name), "patch.diff")
    m = load_meta(name)
    if inrepo:
        rc, out = sh(["git", "-C", "/repo", "status", "--porcelain", "--untracked-files=no"])
        if out.strip():
            sys.exit("/repo not clean")
        rc, out = sh(["git", "-C", "/repo", "apply", patch])
        if rc:
            sys.exit("does not apply: " + out)
        try:
            fired = run_checks("/repo", props)
        finally:
            sh(["git", "-C", "/repo", "checkout", "--", "."])
        key = "checks_fired_in_repo"
    else:
        d = tempfile.mkdtemp(prefix="psv-seed-")
        try:
            subprocess.check_call(["rsync", "-a", "--exclude", ".git", "/repo/", d + "/"])
            rc, out = sh(["patch", "-p1", "-s", "-i", patch], cwd=d)
            if rc:
                sys.exit("does not apply: " + out)
            fired = run_checks(d, props)
        finally:
            shutil.rmtree(d, ignore_errors=True)
        key = "checks_fired"
    if not props:
        m[key] = fired
        m["caught_by_own_property"] = m.get("property") in {p for p, v in fired.items() if v["exit"] == 1}
        save_meta(name, m)
    for p, v in fired.items():
        print(p, "exit", v["exit"])
        for l in v["lines"]:
            print("   ", l[:300])
    if not fired:
        print("no check fired")


if __name__ == "__main__":
    a = sys.argv[1:]
    if len(a) >= 3 and a[0] == "take":
        take(*a[1:5])
    elif len(a) == 3 and a[0] == "confirm":
        confirm(a[1], a[2])
    elif len(a) >= 2 and a[0] == "check":
        check(a[1], a[2:])
    elif len(a) >= 2 and a[0] == "inrepo":
        check(a[1], a[2:], inrepo=True)
    else:
        sys.exit(__doc__)
