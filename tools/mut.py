#!/usr/bin/env python3
"""Mutant self-test harness for psv (thorough tier and development).

  mut.py new  <PROP> <name> "<RULE construct-substring>" <file> <old> <new>
        create /verif/mutants/<PROP>/<name>.patch by replacing exactly one
        occurrence of <old> by <new> in <file> (relative to the repo root)
  mut.py test <PROP>|all [name]
        for each patch: scratch copy of /repo under /tmp, apply, run `psv check <PROP> --repo <copy>`, require the tree to type-check,
        exit 1 and a `violated:` line containing the rule id and the substring
        from the `# expects:` header; the scratch copy is removed afterwards.

Nothing here touches /repo. Patches are plain unified diffs (`patch -p1`).
"""
import difflib, json, os, shutil, subprocess, sys, tempfile

VERIF = os.path.dirname(os.path.dirname(os.path.abspath(__file__)))
REPO = os.environ.get("PSV_REPO", "/repo")
ENV = dict(os.environ, GOFLAGS="-mod=mod", GOPROXY="off", GOSUMDB="off", GOTOOLCHAIN="local", GOWORK="off")


def scratch():
    d = tempfile.mkdtemp(prefix="psv-mut-")
    subprocess.check_call(["rsync", "-a", "--exclude", ".git", REPO + "/", d + "/"])
    return d


def cmd_new(prop, name, expects, file, old, new):
    src = open(os.path.join(REPO, file)).read()
    n = src.count(old)
    if n != 1:
        sys.exit(f"'{old[:60]}' occurs {n} times in {file}, need exactly 1")
    dst = src.replace(old, new)
    diff = difflib.unified_diff(src.splitlines(True), dst.splitlines(True), "a/" + file, "b/" + file)
    os.makedirs(os.path.join(VERIF, "mutants", prop), exist_ok=True)
    p = os.path.join(VERIF, "mutants", prop, name + ".patch")
    with open(p, "w") as f:
        f.write(f"# expects: {expects}\n")
        f.writelines(diff)
    print("wrote", p)
    return p


def test_one(prop, patch, psv=None, quiet=False):
    psv = psv or os.path.join(VERIF, "bin", "psv")
    hdr = open(patch).readline().strip()
    if not hdr.startswith("# expects:"):
        return dict(patch=patch, ok=False, why="no '# expects:' header")
    exp = hdr[len("# expects:"):].strip()
    rule, _, sub = exp.partition(" ")
    d = scratch()
    try:
        r = subprocess.run(["patch", "-p1", "-s", "-i", patch], cwd=d, capture_output=True, text=True)
        if r.returncode != 0:
            return dict(patch=patch, ok=None, why="patch does not apply to the current tree (skipped): " + r.stdout.strip()[:200])
        # psv type-checks the whole module from source (go/types); a mutant that does
        # not type-check is rejected there, so no separate `go build` (which would
        # link every main package) is needed.
        r = subprocess.run([psv, "check", prop, "--repo", d, "--no-evidence", "--verif", VERIF], capture_output=True, text=True, env=ENV)
        if r.returncode == 2 and "does not type-check" in r.stdout:
            return dict(patch=patch, ok=False, why="mutant does not compile: " + r.stdout.strip()[:300])
        hit = [l for l in r.stdout.splitlines() if l.startswith("violated:") and rule in l and sub in l]
        ok = r.returncode == 1 and len(hit) > 0
        why = hit[0][:300] if hit else ("exit %d; " % r.returncode) + " | ".join(l[:160] for l in r.stdout.splitlines() if l.startswith(("violated:", "ERROR")))[:600]
        return dict(patch=os.path.relpath(patch, VERIF), ok=ok, why=why, expects=exp)
    finally:
        shutil.rmtree(d, ignore_errors=True)


def cmd_test(prop, name=None, jobs=None):
    from concurrent.futures import ThreadPoolExecutor
    props = [prop]
    if prop == "all":
        props = sorted(os.listdir(os.path.join(VERIF, "mutants")))
    todo = []
    for p in props:
        d = os.path.join(VERIF, "mutants", p)
        if not os.path.isdir(d):
            continue
        for f in sorted(os.listdir(d)):
            if not f.endswith(".patch") or (name and f != name + ".patch"):
                continue
            todo.append((p, os.path.join(d, f)))
    jobs = jobs or int(os.environ.get("PSV_JOBS", "6"))
    with ThreadPoolExecutor(max_workers=jobs) as ex:
        res = list(ex.map(lambda a: test_one(*a), todo))
    for (p, f), r in zip(todo, res):
        tag = {True: "KILLED ", False: "MISSED ", None: "SKIPPED"}[r["ok"]]
        print(f"{tag} {p}/{os.path.basename(f)}: {r['why']}")
    bad = [r for r in res if r["ok"] is False]
    print(f"{len(res)} mutants, {sum(1 for r in res if r['ok'])} killed, {len(bad)} missed, {sum(1 for r in res if r['ok'] is None)} skipped")
    return res


if __name__ == "__main__":
    a = sys.argv[1:]
    if len(a) >= 7 and a[0] == "new":
        p = cmd_new(*a[1:7])
        r = test_one(a[1], p)
        print({True: "KILLED", False: "MISSED", None: "SKIPPED"}[r["ok"]], r["why"])
        sys.exit(0 if r["ok"] else 1)
    elif len(a) == 2 and a[0] == "selftest":
        # thorough tier: run the property's mutants and merge the result into its evidence file
        res = cmd_test(a[1])
        ev = os.path.join(VERIF, "evidence", a[1] + ".json")
        try:
            doc = json.load(open(ev))
            doc["coverage"]["mutant_selftest"] = {
                "rule": "each committed mutant (one seeded breakage of /repo per patch) is applied to a scratch copy, must type-check, and the named rule must report the named construct",
                "total": len(res), "killed": sum(1 for r in res if r["ok"]), "missed": [r["patch"] for r in res if r["ok"] is False],
                "skipped": [r["patch"] for r in res if r["ok"] is None],
                "results": [{"patch": r["patch"], "killed": r["ok"], "report": r["why"]} for r in res],
            }
            json.dump(doc, open(ev, "w"), indent=1)
        except Exception as e:  # evidence stays as psv wrote it
            print("SELFTEST: cannot merge into evidence:", e)
        for r in res:
            if r["ok"] is False:
                print("SELFTEST-MISSED:", r["patch"], r["why"])
        sys.exit(0)
    elif len(a) >= 2 and a[0] == "test":
        res = cmd_test(*a[1:3])
        if "--json" in a:
            print(json.dumps(res))
        sys.exit(1 if any(r["ok"] is False for r in res) else 0)
    else:
        sys.exit(__doc__)
