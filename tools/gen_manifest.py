#!/usr/bin/env python3
"""Regenerates /verif/MANIFEST.json from the rule sets registered in bin/psv.

A property is claimed iff psv has a rule set for it; every other property of
properties.jsonl is listed under not_applicable with the reason from NA below
(or a generic one). Run after ./setup.sh.
"""
import json, os, subprocess, sys

VERIF = os.path.dirname(os.path.dirname(os.path.abspath(__file__)))

TECH = {
    "C01": "SSA dominance/guard facts + backward value-flow slices (validate-before-pay, invoice binding, validator guards) + the watchers' depth facts (shared with C20)",
    "C02": "SSA extraction of the ScriptBuilder call chain vs protocol template; constant evaluation",
    "C03": "value-flow slices over the nine spend builders; sibling agreement across back-ends",
    "C04": "constant evaluation of the timelock table + linear guard facts (width-aware) + CFG must-pass in the retry loop",
    "C05": "extraction of comparison constants from guard facts; constant inequality over the worst case",
    "C06": "FSM-table reachability over all events + effect summaries + guard dominance on the payment call",
    "C07": "FSM-table reachability + post-success CFG reachability in actions and wallet adapters + value flow of the CSV watch arguments + register-or-rollback typestate and stale-write-back (lost update) check in the watchers",
    "C08": "backward value-flow slices from the message fields and from each wallet adapter's results",
    "C09": "switch-arm dominance in the message router + existence-oracle must-pass and adjacency + delivery must-pass-through + owner-only eviction from the active-swap map + guard order in SendEvent",
    "C10": "who-may-write on activeSwaps + value flow of the compared channel ids to normalisers",
    "C11": "guard-set dominance in the request wrapper and handlers + table placement",
    "C12": "guard facts (premium/fee bounds) + value flow of amounts",
    "C13": "must-pass-through with cut edges (Liquid-v7 side), who-writes enumeration, SendEvent persistence path check",
    "C14": "struct-tag / codec-pairing discipline over go/types + cross-state field read/write sets",
    "C15": "effect-guard dominance + FSM-table flags + recovery binding extraction",
    "C16": "FSM-table graph analysis with effect-classified exits (silent-peer sink detection)",
    "C17": "FSM-table path analysis + constant folding of timeout durations + event-source typing",
    "C18": "lock-order graph from flow-sensitive held-lock analysis + VTA call graph (cycle detection) + blocking channel operations under a lock against their counterparts",
    "C19": "static lockset (guarded-by table) over SSA with held-lock summaries + reference-escape and stale-write-back checks + unguarded post-publication writes reachable from several goroutine roots",
    "C20": "guard facts (exact operands, leaf-based) dominating watcher callbacks + serialisation of report sites (held locks) + monotone-tip store dominance",
    "C21": "go/constant evaluation of the message-type table + partial evaluation of the pure type parser over sample numbers (SSA interpreter, no repository code is run) + narrowing-conversion taint + fallible-decode error discipline + guard dominance in the router",
    "C22": "FSM-table successor analysis + must-pass-through of RemoveSender + select-arm CFG check",
    "C23": "taint analysis (backward slices from every message field / payload sink)",
    "C24": "value-flow slices and guard facts in the CLN route / LND request builders",
    "C25": "who-writes on Policy fields + must-pass-through (file write then reload) + format-string agreement",
    "C26": "FSM-table effect placement + guard dominance at every admission / peer-sync site",
    "C27": "resolver-chain CFG shape, symbolic integer expression of PPM.Compute (int64 and math/big vocabulary) compared on witnesses, enum value flow end to end",
    "C28": "comparison-direction facts, field-coverage of record converters, guard dominance of delete/send",
    "C29": "who-may-call SetVersion + guard dominance + start-up order in both mains",
    "C30": "clamp must-pass in GetFee (path walker), partial evaluation of the pure floor table and version comparison over a finite grid (SSA interpreter, no repository code is run), two-sided comparison shape",
}

NA = {}


def main():
    props = [json.loads(l) for l in open(os.path.join(VERIF, "properties.jsonl"))]
    reg = json.loads(subprocess.check_output([os.path.join(VERIF, "bin", "psv"), "list", "--json"]))
    reg = {r["id"]: r for r in reg}
    checks, na = [], []
    for p in props:
        pid = p["id"]
        if pid not in reg:
            na.append({"property_id": pid, "reason": NA.get(pid, "no sound static rule set has been built for this property yet")})
            continue
        r = reg[pid]
        checks.append({
            "property_id": pid,
            "quick_cmd": f"./bin/psv check {pid} --tier quick",
            "thorough_cmd": f"./tools/thorough.sh {pid}",
            "evidence_file": f"evidence/{pid}.json",
            "replay_cmd_template": "./bin/psv explain {path}",
            "engine": "psv",
            "level_claimed": {
                "category": "other",
                "text": "Static analysis (no execution): structural necessary conditions of the property are decided for ALL states, edges, call sites and paths of the type-checked program. " + r["decides"],
                "design_ref": f"DESIGN.md §3 {pid}",
            },
            "level_note": "Not decided: " + r["not_decided"] + " Trusted: go/types, go/ssa, VTA call graph (x/tools v0.29.0); third-party libraries behave as documented; frozen repo-specific tables in the rule source.",
            "technique": TECH.get(pid, "static analysis over SSA"),
        })
    m = {
        "version": 1,
        "setup_cmd": "./setup.sh",
        "hooks": {
            "guard": "verif",
            "enable": "none needed: static analysis reads /repo's working tree through go/packages; no instrumentation, no build tag is used",
            "baseline_off_cmd": "cd /repo && go test -mod=mod -vet=off -count=1 -timeout 25m ./...",
            "source_commits": [],
            "add_only": True,
        },
        "engines": [{
            "name": "psv",
            "path": "checker",
            "serves_properties": [c["property_id"] for c in checks],
            "kind_free_text": "repo-specific Go static analyser: go/packages type-checked syntax, go/ssa, VTA call graph; FSM-table extractor, effect summaries, guard/dominance facts, value-flow slices, lock analysis",
        }],
        "checks": checks,
        "notes": "All claims are at level `other`: each check decides named structural necessary conditions by static analysis and says what it does not decide (DESIGN.md §3). Exit 0 = all obligations discharged (known findings printed as KNOWN-FINDING), 1 = VIOLATION, 2 = the analysis could not decide (unresolved anchor). Known findings: known_findings.txt.",
        "not_applicable": na,
    }
    json.dump(m, open(os.path.join(VERIF, "MANIFEST.json"), "w"), indent=1)
    print(f"{len(checks)} checks, {len(na)} not applicable")


if __name__ == "__main__":
    main()
