package main

import (
	"fmt"
	"sort"
	"strings"

	"golang.org/x/tools/go/ssa"

	"psv/internal/an"
)

func cmdDump(args []string) int {
	o := parse(args)
	if len(o.rest) < 1 {
		usage()
	}
	w, err := an.Load(o.repo, o.tags)
	if err != nil {
		fmt.Println("ERROR:", err)
		return 2
	}
	switch o.rest[0] {
	case "fsm":
		f, err := w.FSM()
		if err != nil {
			fmt.Println("ERROR:", err)
			return 2
		}
		for _, t := range f.Tables {
			fmt.Printf("== %s %s ctor=%s (%d states)\n", t.Func, t.Name(), t.Constructor, len(t.States))
			for _, s := range t.Order {
				e := t.States[s]
				ss := w.StateSummary(f, e)
				var evs []string
				for ev := range ss.Events {
					evs = append(evs, ev)
				}
				sort.Strings(evs)
				fmt.Printf("  %-50q actions=%v failOnRecover=%v returns=%v unknown=%v\n", s, e.ActionNames(), e.FailOnRecover, evs, ss.Unknown)
				for _, ev := range e.SortedEvents() {
					fmt.Printf("      %-40s -> %s\n", ev, e.Events[ev])
				}
				seen := map[string]bool{}
				for _, ef := range ss.Effects {
					if (strings.HasPrefix(ef.Name, "iface:") || strings.Contains(ef.Name, "addNewTimeOut")) && !seen[ef.Name] {
						seen[ef.Name] = true
						fmt.Printf("      effect %s\n", ef.Name)
					}
				}
			}
		}
	case "facts":
		if len(o.rest) != 3 {
			usage()
		}
		fn := w.Func(o.rest[1], o.rest[2])
		if fn == nil {
			fmt.Println("ERROR: no such function")
			return 2
		}
		dumpFacts(w, fn)
		for _, a := range fn.AnonFuncs {
			dumpFacts(w, a)
		}
	case "ssa":
		if len(o.rest) != 3 {
			usage()
		}
		fn := w.Func(o.rest[1], o.rest[2])
		if fn == nil {
			fmt.Println("ERROR: no such function")
			return 2
		}
		fn.WriteTo(os_stdout{})
	default:
		usage()
	}
	return 0
}

type os_stdout struct{}

func (os_stdout) Write(p []byte) (int, error) { fmt.Print(string(p)); return len(p), nil }

func dumpFacts(w *an.World, fn *ssa.Function) {
	fmt.Printf("== %s\n", w.FuncName(fn))
	for _, f := range w.Facts(fn) {
		fmt.Printf("  b%d->b%d  %s\n", f.Edge.From.Index, f.Edge.To().Index, f.String())
	}
	for _, c := range an.Calls(fn) {
		ci := w.Info(c)
		fmt.Printf("  call b%d %s @%s\n", c.Block().Index, ci.Name, w.Pos(c.Pos()))
		fs := w.FactsDominating(c)
		for _, f := range fs {
			fmt.Printf("        under: %s\n", f.String())
		}
	}
}
