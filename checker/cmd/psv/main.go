// psv — static checks of the peerswap properties (see /verif/DESIGN.md).
//
//	psv check <Cxx|all> [--tier quick|thorough] [--repo DIR] [--verif DIR] [--no-evidence]
//	psv dump fsm|facts <pkg> <func>|summary <action>
//	psv explain <replay.json>
package main

import (
	"encoding/json"
	"fmt"
	"os"
	"path/filepath"
	"runtime/debug"
	"strconv"
	"strings"

	"psv/internal/an"
	"psv/internal/rules"
)

func usage() {
	fmt.Fprintln(os.Stderr, "usage: psv check <Cxx|all> [--tier quick|thorough] [--repo DIR] [--verif DIR] [--no-evidence] | psv dump ... | psv explain <file>")
	os.Exit(2)
}

func main() {
	if len(os.Args) < 2 {
		usage()
	}
	switch os.Args[1] {
	case "check":
		os.Exit(cmdCheck(os.Args[2:]))
	case "dump":
		os.Exit(cmdDump(os.Args[2:]))
	case "explain":
		os.Exit(cmdExplain(os.Args[2:]))
	case "warm":
		// compiles the export data of /repo's dependencies into the Go build
		// cache (what go/packages needs), so that the first check is fast
		o := parse(os.Args[2:])
		w, err := an.Load(o.repo, "")
		if err != nil {
			fmt.Printf("warm: %v\n", err)
			return
		}
		fmt.Printf("warm: %d packages, %d functions, %.1fs\n", len(w.Pkgs), w.CountFuncs(), w.LoadSeconds)
	case "list":
		if len(os.Args) > 2 && os.Args[2] == "--json" {
			var out []map[string]string
			for _, id := range rules.IDs() {
				p := rules.Get(id)
				out = append(out, map[string]string{"id": id, "decides": p.Expl, "not_decided": p.NotD})
			}
			b, _ := json.MarshalIndent(out, "", " ")
			fmt.Println(string(b))
			return
		}
		for _, id := range rules.IDs() {
			fmt.Println(id)
		}
	default:
		usage()
	}
}

type opts struct {
	tier, repo, verif, tags string
	noEvidence              bool
	rest                    []string
}

func parse(args []string) opts {
	o := opts{tier: os.Getenv("VERIF_TIER"), repo: os.Getenv("PSV_REPO"), verif: os.Getenv("PSV_VERIF")}
	for i := 0; i < len(args); i++ {
		a := args[i]
		next := func() string {
			if i+1 >= len(args) {
				usage()
			}
			i++
			return args[i]
		}
		switch a {
		case "--tier":
			o.tier = next()
		case "--repo":
			o.repo = next()
		case "--verif":
			o.verif = next()
		case "--tags":
			o.tags = next()
		case "--no-evidence":
			o.noEvidence = true
		default:
			o.rest = append(o.rest, a)
		}
	}
	if o.tier != "thorough" {
		o.tier = "quick"
	}
	if o.repo == "" {
		o.repo = "/repo"
	}
	if o.verif == "" {
		// default: the directory that holds bin/psv, else cwd
		if exe, err := os.Executable(); err == nil {
			d := filepath.Dir(filepath.Dir(exe))
			if _, err := os.Stat(filepath.Join(d, "MANIFEST.json")); err == nil {
				o.verif = d
			}
		}
		if o.verif == "" {
			o.verif, _ = os.Getwd()
		}
	}
	return o
}

func cmdCheck(args []string) (exit int) {
	o := parse(args)
	if len(o.rest) != 1 {
		usage()
	}
	ids := []string{o.rest[0]}
	if o.rest[0] == "all" {
		ids = rules.IDs()
	}
	for _, id := range ids {
		if rules.Get(id) == nil {
			fmt.Printf("ERROR: no rule set for property %s\n", id)
			return 2
		}
	}
	seed, _ := strconv.ParseInt(os.Getenv("VERIF_SEED"), 10, 64)
	w, err := an.Load(o.repo, o.tags)
	if err != nil {
		fmt.Printf("ERROR: cannot analyse %s: %v\n", o.repo, err)
		return 2
	}
	worst := 0
	for _, id := range ids {
		r := runOne(w, id, o, seed)
		if r == 1 || (r == 2 && worst == 0) {
			worst = r
		}
	}
	if o.tier == "thorough" && len(ids) == 1 {
		// second build configuration: the only tags of the module
		w2, err := an.Load(o.repo, "dev,fast_test")
		if err != nil {
			fmt.Printf("ERROR: cannot analyse %s with tags dev,fast_test: %v\n", o.repo, err)
			return 2
		}
		o2 := o
		o2.noEvidence = true
		fmt.Println("--- tags dev,fast_test ---")
		r := runOne(w2, ids[0], o2, seed)
		if r == 1 || (r == 2 && worst == 0) {
			worst = r
		}
	}
	return worst
}

func runOne(w *an.World, id string, o opts, seed int64) (exit int) {
	p := rules.Get(id)
	c := an.NewCheck(id, o.tier, w)
	c.Seed = seed
	c.Explanation = p.Expl
	c.NotDecided = p.NotD
	func() {
		defer func() {
			if r := recover(); r != nil {
				c.Anchor("analysis panicked: %v\n%s", r, strings.Join(strings.Split(string(debug.Stack()), "\n")[:24], "\n"))
			}
		}()
		p.Run(c)
	}()
	res := c.Finish(o.verif, !o.noEvidence)
	return res.Exit
}

func cmdExplain(args []string) int {
	if len(args) != 1 {
		usage()
	}
	b, err := os.ReadFile(args[0])
	if err != nil {
		fmt.Println("ERROR:", err)
		return 2
	}
	var m map[string]interface{}
	if err := json.Unmarshal(b, &m); err != nil {
		fmt.Println("ERROR:", err)
		return 2
	}
	fmt.Printf("property : %v\nrule     : %v\n           %v\nconstruct: %v\nat       : %v\nwhy      : %v\n", m["property"], m["rule"], m["rule_text"], m["construct"], m["pos"], m["detail"])
	if p, ok := m["path"].([]interface{}); ok {
		for _, s := range p {
			fmt.Printf("    %v\n", s)
		}
	}
	fmt.Printf("re-check : ./bin/psv check %v   (re-analyses %v from source)\n", m["property"], "/repo")
	return 0
}
