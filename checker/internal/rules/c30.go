package rules

import (
	"fmt"
	"go/constant"
	"go/token"
	"go/types"
	"math/big"
	"regexp"
	"sort"
	"strings"

	"golang.org/x/tools/go/ssa"

	"psv/internal/an"
)

func init() {
	Register(&Prop{
		ID:   "C30",
		Expl: "Decides: (R1) by enumerating every acyclic path of BitcoinOnChain.GetFee under the three estimator outcomes (error / zero / non-zero rate) and both outcomes of every comparison with the floor field, that the rate factor of the returned fee is max(base, b.feeFloorSatPerKw) with base = b.fallbackFeeRateSatPerKw when the estimator failed or answered 0 and the estimator's answer otherwise, that the returned fee is the monomial rate*txSize*4/1000 without a truncation before the scaling, and that GetFee is the choke point (only caller of Estimator.EstimateFeePerKW; the two rate fields are written only by NewBitcoinOnChain from the matching parameters; every fee argument of PrepareSpendingTransaction and every fee returned by the Bitcoin wallet adapters comes from GetFee); (R2) by evaluating DetermineFeeFloor on a grid of (major, minor) pairs that contains every constant it compares with and its neighbours, that it returns 25 iff (major,minor) >= (29,2) and 253 otherwise and for an unparsable string, and that major/minor are the submatches 1/2 of the version pattern (the pattern constant is evaluated on sample subversion strings); (R3) that the floor handed to NewBitcoinOnChain / NewGBitcoindEstimator is DetermineFeeFloor's result (CLN main) or a constant >= every floor of the table; (R4) in CompareVersionStrings: Atoi errors are returned, components of a and b are compared at the same index, `false` is returned only under a[i]<b[i], `true` inside the loop only under a[i]>b[i], the loop continues only when both a[i]>=b[i] and b[i]>=a[i] are known, the result after the loop is true, and both slices are padded with the constant \"0\" under the matching length comparison.",
		NotD: "Totality/transitivity of the version order as a mathematical fact (follows from R4 by the lexicographic argument, not machine-checked); the number of padding iterations in CompareVersionStrings; float rounding of the fee; the Liquid fee path (no Bitcoin Core floor applies); what the estimators themselves return.",
		Run:  runC30,
	})
}

const (
	c30IfEstimate = "iface:onchain.Estimator.EstimateFeePerKW"
	c30FnGetFee   = "func:(*onchain.BitcoinOnChain).GetFee"
	c30FnFloor    = "func:onchain.DetermineFeeFloor"
	c30FnNewChain = "func:onchain.NewBitcoinOnChain"
	c30FnNewGEst  = "func:onchain.NewGBitcoindEstimator"
	c30FnPrepare  = "func:(*onchain.BitcoinOnChain).PrepareSpendingTransaction"
	c30FldFloor   = "BitcoinOnChain.feeFloorSatPerKw"
	c30FldFallbk  = "BitcoinOnChain.fallbackFeeRateSatPerKw"
)

func runC30(c *an.Check) {
	c.Rule("C30.R1", "GetFee: on every path the rate factor of the fee is max(base, floor field), base = fallback field iff the estimator failed or answered 0; fee = rate*txSize*4/1000; GetFee is the only consumer of the estimator and the only source of Bitcoin fees")
	c.Rule("C30.R2", "DetermineFeeFloor returns 25 iff (major,minor) >= (29,2), else 253 (also when unparsable); major/minor are submatch 1/2 of the version pattern")
	c.Rule("C30.R3", "the floor wired into NewBitcoinOnChain / NewGBitcoindEstimator is DetermineFeeFloor's result or a constant >= the legacy floor")
	c.Rule("C30.R4", "CompareVersionStrings: two-sided component comparison at equal indices, equal => true, Atoi errors returned, both sides padded with \"0\"")
	w := c.W
	getFee := w.Func("onchain", "(*BitcoinOnChain).GetFee")
	floorFn := w.Func("onchain", "DetermineFeeFloor")
	newChain := w.Func("onchain", "NewBitcoinOnChain")
	cmp := w.Func("version", "CompareVersionStrings")
	for n, f := range map[string]*ssa.Function{"onchain.(*BitcoinOnChain).GetFee": getFee, "onchain.DetermineFeeFloor": floorFn, "onchain.NewBitcoinOnChain": newChain, "version.CompareVersionStrings": cmp} {
		if f == nil || f.Blocks == nil {
			c.Anchor("function %s does not resolve", n)
		}
	}
	if !ifaceMethodExists(w, c30IfEstimate) {
		c.Anchor("interface method %s does not resolve", c30IfEstimate)
	}
	legacy, ok1 := c30ConstInt(w, "onchain", "LegacyFeeFloorSatPerKw")
	modern, ok2 := c30ConstInt(w, "onchain", "ModernFeeFloorSatPerKw")
	if !ok1 || !ok2 {
		c.Anchor("constants onchain.LegacyFeeFloorSatPerKw / ModernFeeFloorSatPerKw do not resolve")
	}
	if len(c.Anchors) > 0 {
		return
	}
	c30R1(c, getFee, newChain)
	c30R2(c, floorFn, legacy, modern)
	c30R3(c, legacy)
	c30R4(c, cmp)
}

// c30ConstInt reads a package-level integer constant through go/types.
func c30ConstInt(w *an.World, rel, name string) (int64, bool) {
	p := w.ByRel[rel]
	if p == nil {
		return 0, false
	}
	k, ok := p.Types.Scope().Lookup(name).(*types.Const)
	if !ok || k.Val().Kind() != constant.Int {
		return 0, false
	}
	return constant.Int64Val(k.Val())
}

// ---- path enumeration ----------------------------------------------------------

type c30Path struct {
	blocks []*ssa.BasicBlock
	facts  []string
}

func (p *c30Path) clone() *c30Path {
	return &c30Path{blocks: append([]*ssa.BasicBlock{}, p.blocks...), facts: append([]string{}, p.facts...)}
}

// resolve follows phis along the path (nil when the incoming edge is ambiguous).
func (p *c30Path) resolve(v ssa.Value) ssa.Value {
	for depth := 0; depth < 32; depth++ {
		switch x := v.(type) {
		case *ssa.ChangeType:
			v = x.X
			continue
		case *ssa.Convert:
			v = x.X
			continue
		case *ssa.Phi:
			b := x.Block()
			at := -1
			for i := len(p.blocks) - 1; i > 0; i-- {
				if p.blocks[i] == b {
					at = i
					break
				}
			}
			if at < 1 {
				return nil
			}
			pred := p.blocks[at-1]
			var got ssa.Value
			for i, pr := range b.Preds {
				if pr == pred {
					if got != nil && got != x.Edges[i] {
						return nil
					}
					got = x.Edges[i]
				}
			}
			if got == nil {
				return nil
			}
			v = got
			continue
		}
		return v
	}
	return nil
}

// c30Walk enumerates the acyclic paths of fn. decide is asked at every If and
// answers which edges to follow and which fact to record on each; ret is called
// at every return. It reports false when the CFG has a cycle on an explored
// path or too many paths.
func c30Walk(fn *ssa.Function, decide func(i *ssa.If, p *c30Path) (t, f bool, tFact, fFact string, ok bool), ret func(r *ssa.Return, p *c30Path)) (ok bool, why string) {
	n := 0
	ok = true
	var rec func(b *ssa.BasicBlock, p *c30Path)
	rec = func(b *ssa.BasicBlock, p *c30Path) {
		if !ok {
			return
		}
		for _, x := range p.blocks {
			if x == b {
				ok, why = false, "a loop lies on an explored path"
				return
			}
		}
		p.blocks = append(p.blocks, b)
		switch x := b.Instrs[len(b.Instrs)-1].(type) {
		case *ssa.Return:
			n++
			if n > 512 {
				ok, why = false, "too many paths"
				return
			}
			ret(x, p)
		case *ssa.Jump:
			rec(b.Succs[0], p)
		case *ssa.If:
			t, f, tf, ff, dok := decide(x, p)
			if !dok {
				ok, why = false, "a branch condition could not be interpreted"
				return
			}
			if t {
				q := p.clone()
				if tf != "" {
					q.facts = append(q.facts, tf)
				}
				rec(b.Succs[0], q)
			}
			if f {
				q := p.clone()
				if ff != "" {
					q.facts = append(q.facts, ff)
				}
				rec(b.Succs[1], q)
			}
		case *ssa.Panic:
		default:
			ok, why = false, fmt.Sprintf("unsupported terminator %T", x)
		}
	}
	rec(fn.Blocks[0], &c30Path{})
	return
}

// relation helpers: rel is the relation `X rel Y` that holds on the edge.
func c30RelOn(op token.Token, taken bool) string {
	if !taken {
		switch op {
		case token.EQL:
			op = token.NEQ
		case token.NEQ:
			op = token.EQL
		case token.LSS:
			op = token.GEQ
		case token.LEQ:
			op = token.GTR
		case token.GTR:
			op = token.LEQ
		case token.GEQ:
			op = token.LSS
		}
	}
	return op.String()
}

func c30Flip(rel string) string {
	switch rel {
	case "<":
		return ">"
	case "<=":
		return ">="
	case ">":
		return "<"
	case ">=":
		return "<="
	}
	return rel
}

func c30IsCmp(op token.Token) bool {
	switch op {
	case token.EQL, token.NEQ, token.LSS, token.LEQ, token.GTR, token.GEQ:
		return true
	}
	return false
}

func c30EvalRel(a int64, rel string, b int64) bool {
	switch rel {
	case "==":
		return a == b
	case "!=":
		return a != b
	case "<":
		return a < b
	case "<=":
		return a <= b
	case ">":
		return a > b
	case ">=":
		return a >= b
	}
	return false
}

// ---- R1 ------------------------------------------------------------------------------

// c30Mono normalises a product: coef * Π leaves. trunc reports an integer
// division / float->int conversion whose result is scaled further.
type c30Mono struct {
	coef     *big.Rat
	leaves   []ssa.Value
	hasTrunc bool // subtree contains a truncating op
	bad      bool // truncation happens before a multiplication by a non-constant
	ok       bool
}

func c30IsFloat(t types.Type) bool {
	b, ok := t.Underlying().(*types.Basic)
	return ok && b.Info()&types.IsFloat != 0
}

func c30IsInt(t types.Type) bool {
	b, ok := t.Underlying().(*types.Basic)
	return ok && b.Info()&types.IsInteger != 0
}

func c30MonoOf(v ssa.Value, depth int) c30Mono {
	one := func() *big.Rat { return big.NewRat(1, 1) }
	if depth > 16 {
		return c30Mono{}
	}
	switch x := v.(type) {
	case *ssa.Const:
		if x.Value == nil {
			return c30Mono{}
		}
		r, ok := new(big.Rat).SetString(constant.ToFloat(x.Value).ExactString())
		if !ok {
			return c30Mono{}
		}
		return c30Mono{coef: r, ok: true}
	case *ssa.ChangeType:
		return c30MonoOf(x.X, depth+1)
	case *ssa.Convert:
		m := c30MonoOf(x.X, depth+1)
		if m.ok && c30IsInt(x.Type()) && c30IsFloat(x.X.Type()) {
			m.hasTrunc = true
		}
		return m
	case *ssa.BinOp:
		switch x.Op {
		case token.MUL:
			l, r := c30MonoOf(x.X, depth+1), c30MonoOf(x.Y, depth+1)
			if !l.ok || !r.ok {
				return c30Mono{}
			}
			m := c30Mono{coef: new(big.Rat).Mul(l.coef, r.coef), leaves: append(append([]ssa.Value{}, l.leaves...), r.leaves...), ok: true}
			m.hasTrunc = l.hasTrunc || r.hasTrunc
			m.bad = l.bad || r.bad || (l.hasTrunc && len(r.leaves) > 0) || (r.hasTrunc && len(l.leaves) > 0)
			return m
		case token.QUO:
			l, r := c30MonoOf(x.X, depth+1), c30MonoOf(x.Y, depth+1)
			if !l.ok || !r.ok || len(r.leaves) > 0 || r.coef.Sign() == 0 {
				return c30Mono{}
			}
			m := c30Mono{coef: new(big.Rat).Quo(l.coef, r.coef), leaves: l.leaves, ok: true, hasTrunc: l.hasTrunc, bad: l.bad}
			if c30IsInt(x.Type()) {
				m.hasTrunc = true
			}
			return m
		}
	}
	return c30Mono{coef: one(), leaves: []ssa.Value{v}, ok: true}
}

func c30R1(c *an.Check, getFee, newChain *ssa.Function) {
	w := c.W
	pos := w.Pos(getFee.Pos())
	// --- the estimator call
	ests := callsNamed(w, getFee, c30IfEstimate)
	if len(ests) != 1 {
		c.Unknown("C30.R1", "GetFee estimator call", pos, fmt.Sprintf("expected exactly one EstimateFeePerKW call in GetFee, found %d", len(ests)))
		return
	}
	ec, ok := ests[0].(*ssa.Call)
	if !ok {
		c.Unknown("C30.R1", "GetFee estimator call", pos, "estimator called with go/defer")
		return
	}
	var rateV, errV ssa.Value
	if vs := an.ResultValues(ec, 0); len(vs) == 1 {
		rateV = vs[0]
	}
	if vs := an.ResultValues(ec, 1); len(vs) == 1 {
		errV = vs[0]
	}
	if errV == nil {
		c.Bad("C30.R1", "GetFee rate when the estimator fails", w.Pos(ec.Pos()), "the error of EstimateFeePerKW is discarded: a failed estimation cannot select the fallback rate")
		return
	}
	recv := getFee.Params[0]
	classify := func(v ssa.Value, p *c30Path) string {
		v = p.resolve(v)
		if v == nil {
			return "?"
		}
		if rateV != nil && v == rateV {
			return "est"
		}
		switch x := v.(type) {
		case *ssa.UnOp:
			if x.Op == token.MUL {
				if fa, ok := x.X.(*ssa.FieldAddr); ok && fa.X == recv {
					return "field:" + an.FieldName(fa.X.Type(), fa.Field)
				}
			}
		case *ssa.Const:
			if i, ok := an.ConstInt(x); ok {
				return fmt.Sprintf("const:%d", i)
			}
		case *ssa.Call:
			if b, ok := x.Call.Value.(*ssa.Builtin); ok && b.Name() == "max" {
				return "max"
			}
		}
		return "?:" + w.Term(v)
	}
	// max(...) needs its arguments classified on the same path
	classifyMax := func(v ssa.Value, p *c30Path) []string {
		v = p.resolve(v)
		cl, ok := v.(*ssa.Call)
		if !ok {
			return nil
		}
		var as []string
		for _, a := range cl.Call.Args {
			as = append(as, classify(a, p))
		}
		sort.Strings(as)
		return as
	}
	floor := "field:" + c30FldFloor
	fallbk := "field:" + c30FldFallbk

	type outcome struct{ name, cons, base string }
	outcomes := []outcome{
		{"fails", "GetFee rate when the estimator fails", fallbk},
		{"zero", "GetFee rate when the estimator answers 0", fallbk},
		{"rate", "GetFee rate when the estimator answers a rate", "est"},
	}
	formulaSeen := false
	for _, oc := range outcomes {
		oc := oc
		var bad, unk []string
		nOK := 0
		decide := func(i *ssa.If, p *c30Path) (t, f bool, tf, ff string, ok bool) {
			cond := i.Cond
			neg := false
			for {
				u, isU := cond.(*ssa.UnOp)
				if !isU || u.Op != token.NOT {
					break
				}
				neg, cond = !neg, u.X
			}
			bo, isB := cond.(*ssa.BinOp)
			if !isB || !c30IsCmp(bo.Op) {
				return true, true, "", "", true // unknown condition: both ways
			}
			swap := func(t, f bool, tf, ff string) (bool, bool, string, string, bool) {
				if neg {
					return f, t, ff, tf, true
				}
				return t, f, tf, ff, true
			}
			x, y := p.resolve(bo.X), p.resolve(bo.Y)
			// err ? nil
			if (x == errV && an.IsNilConst(bo.Y)) || (y == errV && an.IsNilConst(bo.X)) {
				isNil := oc.name != "fails"
				holds := (bo.Op == token.EQL) == isNil
				return swap(holds, !holds, "", "")
			}
			cx, cy := classify(bo.X, p), classify(bo.Y, p)
			// est ? 0
			if (cx == "est" && cy == "const:0") || (cy == "est" && cx == "const:0") {
				if oc.name == "fails" || (bo.Op != token.EQL && bo.Op != token.NEQ) {
					return swap(true, true, "", "")
				}
				isZero := oc.name == "zero"
				holds := (bo.Op == token.EQL) == isZero
				return swap(holds, !holds, "", "")
			}
			// x ? floor
			if cy == floor && cx != floor {
				return swap(true, true, cx+" "+c30RelOn(bo.Op, true)+" floor", cx+" "+c30RelOn(bo.Op, false)+" floor")
			}
			if cx == floor && cy != floor {
				return swap(true, true, cy+" "+c30Flip(c30RelOn(bo.Op, true))+" floor", cy+" "+c30Flip(c30RelOn(bo.Op, false))+" floor")
			}
			return swap(true, true, "", "")
		}
		ret := func(r *ssa.Return, p *c30Path) {
			if len(r.Results) != 2 {
				unk = append(unk, "unexpected result arity at "+w.Pos(r.Pos()))
				return
			}
			if !an.IsNilConst(r.Results[1]) {
				if oc.name == "fails" {
					bad = append(bad, "GetFee returns an error at "+w.Pos(r.Pos())+" instead of falling back to the configured rate")
				} else {
					unk = append(unk, "GetFee may return an error at "+w.Pos(r.Pos()))
				}
				return
			}
			m := c30MonoOf(r.Results[0], 0)
			if !m.ok {
				unk = append(unk, "the returned fee is not a product of a rate, the size and constants at "+w.Pos(r.Pos()))
				return
			}
			var rates []ssa.Value
			nSize := 0
			for _, l := range m.leaves {
				if pv := p.resolve(l); pv != nil && len(getFee.Params) > 1 && pv == getFee.Params[1] {
					nSize++
					continue
				}
				rates = append(rates, l)
			}
			if !formulaSeen {
				formulaSeen = true
				want := big.NewRat(4, 1000)
				switch {
				case nSize != 1 || len(rates) != 1:
					c.Unknown("C30.R1", "GetFee fee formula", w.Pos(r.Pos()), fmt.Sprintf("the fee is not rate*txSize*const (%d size factors, %d other factors)", nSize, len(rates)))
				case m.bad:
					c.Bad("C30.R1", "GetFee fee formula", w.Pos(r.Pos()), "an integer division / float->int conversion truncates the rate before it is multiplied by the size: 25 sat/kw * 4 / 1000 becomes 0 sat/vb and the fee 0")
				default:
					c.Decide(m.coef.Cmp(want) == 0, "C30.R1", "GetFee fee formula", w.Pos(r.Pos()),
						"fee = rate[sat/kw] * txSize[vb] * 4/1000",
						"the constant factor of rate*txSize is "+m.coef.RatString()+", not 4/1000 (sat/kw -> sat/vb): the effective rate differs from the clamped one")
				}
			}
			if len(rates) != 1 {
				unk = append(unk, "cannot single out the rate factor at "+w.Pos(r.Pos()))
				return
			}
			rc := classify(rates[0], p)
			facts := strings.Join(p.facts, ", ")
			has := func(rels ...string) bool {
				for _, f := range p.facts {
					for _, rel := range rels {
						if f == oc.base+" "+rel+" floor" {
							return true
						}
					}
				}
				return false
			}
			switch {
			case rc == "max":
				as := classifyMax(rates[0], p)
				if len(as) == 2 && ((as[0] == oc.base && as[1] == floor) || (as[1] == oc.base && as[0] == floor)) {
					nOK++
				} else {
					bad = append(bad, fmt.Sprintf("rate is max(%s), expected max(%s, floor)", strings.Join(as, ","), oc.base))
				}
			case rc == floor && has("<", "<=", "=="):
				nOK++
			case rc == oc.base && has(">=", ">", "=="):
				nOK++
			case rc == floor:
				bad = append(bad, fmt.Sprintf("the floor is used although %s is not known to be below it (path facts: %s)", oc.base, facts))
			case rc == oc.base:
				bad = append(bad, fmt.Sprintf("%s is used without being known to be >= the floor (path facts: %s)", oc.base, facts))
			default:
				bad = append(bad, fmt.Sprintf("rate is %s, expected max(%s, floor) (path facts: %s)", rc, oc.base, facts))
			}
		}
		okW, why := c30Walk(getFee, decide, ret)
		switch {
		case !okW:
			c.Unknown("C30.R1", oc.cons, pos, "cannot enumerate the paths of GetFee: "+why)
		case len(bad) > 0:
			c.Bad("C30.R1", oc.cons, pos, "on some path the rate that is multiplied into the fee is not max(base, floor): "+strings.Join(bad, " | "))
		case len(unk) > 0:
			c.Unknown("C30.R1", oc.cons, pos, strings.Join(unk, " | "))
		case nOK == 0:
			c.Unknown("C30.R1", oc.cons, pos, "no path reaches a return under this estimator outcome")
		default:
			c.OK("C30.R1", oc.cons, pos, fmt.Sprintf("%d paths: rate = max(%s, floor)", nOK, oc.base))
		}
	}

	// --- choke point: estimator consumers
	nEst := 0
	for _, fn := range prodFuncs(w) {
		for _, call := range an.Calls(fn) {
			ci := w.Info(call)
			isEst := ci.Name == c30IfEstimate
			if !isEst && ci.Static != nil && ci.Method == "EstimateFeePerKW" && w.FnRel(ci.Static) == "onchain" {
				isEst = true
			}
			if !isEst {
				continue
			}
			nEst++
			c.Decide(an.EnclosingTop(fn) == getFee, "C30.R1", w.FuncName(fn)+" call EstimateFeePerKW", w.Pos(call.Pos()),
				"the estimator is consulted only inside GetFee (which clamps)",
				"an estimator rate is obtained outside GetFee and so bypasses the floor/fallback logic")
		}
	}
	c.AtLeast("C30.R1", "EstimateFeePerKW call sites", nEst, 1)

	// --- the two rate fields are set once, from the matching constructor parameter
	for _, fp := range []struct {
		field string
		param int
	}{{c30FldFloor, 2}, {c30FldFallbk, 1}} {
		n := 0
		for _, st := range w.FieldWriters(fp.field) {
			fn := st.Parent()
			if an.IsTestSupport(w.FnRel(fn)) {
				continue
			}
			n++
			cons := w.FuncName(fn) + " store " + fp.field
			switch {
			case fn != newChain:
				c.Bad("C30.R1", cons, w.Pos(st.Pos()), "the field is written outside NewBitcoinOnChain: the rate GetFee clamps against is no longer the wired one")
			case fp.param >= len(fn.Params) || st.Val != fn.Params[fp.param]:
				c.Bad("C30.R1", cons, w.Pos(st.Pos()), fmt.Sprintf("the field is initialised from %s, not from constructor parameter #%d", w.Term(st.Val), fp.param))
			default:
				c.OK("C30.R1", cons, w.Pos(st.Pos()), fmt.Sprintf("initialised from constructor parameter #%d", fp.param))
			}
		}
		c.AtLeast("C30.R1", "writers of "+fp.field, n, 1)
	}

	// --- fee arguments of the spend builder
	fromGetFee := func(v ssa.Value) (bool, []string) {
		ss := w.Sources(v, an.FlowOpts{IntoCallees: true, StopAt: map[string]bool{c30FnGetFee: true}})
		good := ss.OnlyFrom(func(s an.Src) bool {
			return (s.Kind == "call" && s.Name == c30FnGetFee+"#0") || (s.Kind == "const" && s.Name == "0")
		})
		return good, ss.Names()
	}
	preps := findCallSites(w, c30FnPrepare)
	c.AtLeast("C30.R1", "PrepareSpendingTransaction call sites", len(preps), 6)
	for _, p := range preps {
		args := p.Common().Args
		if len(args) != 7 {
			c.Unknown("C30.R1", w.FuncName(p.Parent())+" PrepareSpendingTransaction fee argument", w.Pos(p.Pos()), "unexpected arity")
			continue
		}
		good, names := fromGetFee(args[6])
		c.Decide(good, "C30.R1", w.FuncName(p.Parent())+" PrepareSpendingTransaction fee argument", w.Pos(p.Pos()),
			"prepared fee is 0 (GetFee is called inside) or a GetFee result",
			fmt.Sprintf("the fee of a spending transaction comes from %v, not from BitcoinOnChain.GetFee: the floor does not apply", names))
	}
	if prep := w.Func("onchain", "(*BitcoinOnChain).PrepareSpendingTransaction"); prep == nil || len(prep.Params) != 7 {
		c.Anchor("onchain.(*BitcoinOnChain).PrepareSpendingTransaction does not resolve with 7 parameters")
	} else {
		pf := prep.Params[6]
		nPhi := 0
		if pf.Referrers() != nil {
			for _, r := range *pf.Referrers() {
				switch x := r.(type) {
				case *ssa.Phi:
					nPhi++
					good := true
					var names []string
					for _, e := range x.Edges {
						if e == pf {
							continue
						}
						g, nn := fromGetFee(e)
						if !g || len(nn) != 1 || nn[0] == "const:0" {
							good = false
						}
						names = append(names, nn...)
					}
					c.Decide(good, "C30.R1", "PrepareSpendingTransaction fee when none is prepared", w.Pos(x.Pos()),
						"without a prepared fee the spend pays a GetFee result",
						fmt.Sprintf("without a prepared fee the spend pays %v instead of a GetFee result", names))
				case *ssa.BinOp:
					if !c30IsCmp(x.Op) {
						c.Unknown("C30.R1", "PrepareSpendingTransaction fee when none is prepared", w.Pos(x.Pos()), "the prepared fee is used in arithmetic directly")
					}
				}
			}
		}
		c.AtLeast("C30.R1", "merge points of preparedFee with a GetFee result", nPhi, 1)
	}

	// --- fee getters of the Bitcoin wallet adapters
	walletT := w.Named("swap", "Wallet")
	chainT := w.Named("onchain", "BitcoinOnChain")
	if walletT == nil || chainT == nil {
		c.Anchor("swap.Wallet / onchain.BitcoinOnChain do not resolve")
		return
	}
	wi, _ := walletT.Underlying().(*types.Interface)
	nAd := 0
	for _, rel := range c30SortedRels(w) {
		if an.IsTestSupport(rel) {
			continue
		}
		scope := w.ByRel[rel].Types.Scope()
		for _, name := range scope.Names() {
			tn, ok := scope.Lookup(name).(*types.TypeName)
			if !ok {
				continue
			}
			nt, ok := tn.Type().(*types.Named)
			if !ok || wi == nil {
				continue
			}
			st, ok := nt.Underlying().(*types.Struct)
			if !ok || !(types.Implements(types.NewPointer(nt), wi) || types.Implements(nt, wi)) {
				continue
			}
			holdsChain := false
			for i := 0; i < st.NumFields(); i++ {
				if an.NamedOf(st.Field(i).Type()) == chainT {
					holdsChain = true
				}
			}
			if !holdsChain {
				continue
			}
			nAd++
			for _, mname := range []string{"GetRefundFee", "GetFlatOpeningTXFee"} {
				m := w.Method(nt, mname)
				cons := rel + "." + nt.Obj().Name() + "." + mname
				if m == nil || m.Blocks == nil {
					c.Unknown("C30.R1", cons, "-", "method not found")
					continue
				}
				good := true
				var names []string
				for _, r := range an.Returns(m) {
					ss := w.Sources(r.Results[0], an.FlowOpts{IntoCallees: true, StopAt: map[string]bool{c30FnGetFee: true}})
					if !ss.OnlyFrom(func(s an.Src) bool { return s.Kind == "call" && s.Name == c30FnGetFee+"#0" }) {
						good = false
					}
					names = append(names, ss.Names()...)
				}
				c.Decide(good, "C30.R1", cons, w.Pos(m.Pos()), "the Bitcoin wallet adapter reports a GetFee result",
					fmt.Sprintf("the Bitcoin wallet adapter reports a fee from %v, not from BitcoinOnChain.GetFee", names))
			}
		}
	}
	c.AtLeast("C30.R1", "Bitcoin wallet adapters (swap.Wallet implementations holding a *BitcoinOnChain)", nAd, 2)
}

func c30SortedRels(w *an.World) []string {
	var out []string
	for r := range w.ByRel {
		out = append(out, r)
	}
	sort.Strings(out)
	return out
}

// ---- R2 ------------------------------------------------------------------------------

func c30R2(c *an.Check, fn *ssa.Function, legacy, modern int64) {
	w := c.W
	pos := w.Pos(fn.Pos())
	c.Decide(legacy == 253 && modern == 25, "C30.R2", "fee floor constants", pos, "LegacyFeeFloorSatPerKw = 253, ModernFeeFloorSatPerKw = 25",
		fmt.Sprintf("LegacyFeeFloorSatPerKw = %d, ModernFeeFloorSatPerKw = %d; the protocol floors are 253 and 25 sat/kw", legacy, modern))

	// the parsed version value
	var parsed *ssa.Call
	for _, call := range an.Calls(fn) {
		if cc, ok := call.(*ssa.Call); ok && w.Info(call).Name == "func:onchain.normalizeBitcoinVersion" {
			if parsed != nil {
				c.Unknown("C30.R2", "DetermineFeeFloor table", pos, "more than one normalizeBitcoinVersion call")
				return
			}
			parsed = cc
		}
	}
	if parsed == nil {
		c.Unknown("C30.R2", "DetermineFeeFloor table", pos, "DetermineFeeFloor does not call normalizeBitcoinVersion; the version fields cannot be located")
		return
	}
	fieldOf := func(v ssa.Value) string {
		u, ok := v.(*ssa.UnOp)
		if !ok || u.Op != token.MUL {
			return ""
		}
		fa, ok := u.X.(*ssa.FieldAddr)
		if !ok || fa.X != parsed {
			return ""
		}
		return an.FieldName(fa.X.Type(), fa.Field)
	}
	// grid: every compared constant and its neighbours
	gm := map[int64]bool{0: true, 1: true, 28: true, 29: true, 30: true, 31: true, 100: true}
	gn := map[int64]bool{0: true, 1: true, 2: true, 3: true, 10: true, 99: true}
	for _, b := range fn.Blocks {
		for _, in := range b.Instrs {
			bo, ok := in.(*ssa.BinOp)
			if !ok || !c30IsCmp(bo.Op) {
				continue
			}
			for _, pair := range [][2]ssa.Value{{bo.X, bo.Y}, {bo.Y, bo.X}} {
				k, isK := an.ConstInt(pair[1])
				if !isK {
					continue
				}
				switch fieldOf(pair[0]) {
				case "bitcoinVersion.major":
					gm[k-1], gm[k], gm[k+1] = true, true, true
				case "bitcoinVersion.minor":
					gn[k-1], gn[k], gn[k+1] = true, true, true
				}
			}
		}
	}
	type pt struct {
		nilV         bool
		major, minor int64
	}
	var pts []pt
	for _, M := range c30Keys(gm) {
		for _, N := range c30Keys(gn) {
			if M >= 0 && N >= 0 {
				pts = append(pts, pt{false, M, N})
			}
		}
	}
	run := func(p pt) (got []int64, ok bool, why string) {
		decide := func(i *ssa.If, _ *c30Path) (t, f bool, tf, ff string, ok bool) {
			cond := i.Cond
			neg := false
			for {
				u, isU := cond.(*ssa.UnOp)
				if !isU || u.Op != token.NOT {
					break
				}
				neg, cond = !neg, u.X
			}
			bo, isB := cond.(*ssa.BinOp)
			if !isB || !c30IsCmp(bo.Op) {
				return false, false, "", "", false
			}
			var holds bool
			switch {
			case (bo.X == ssa.Value(parsed) && an.IsNilConst(bo.Y)) || (bo.Y == ssa.Value(parsed) && an.IsNilConst(bo.X)):
				holds = (bo.Op == token.EQL) == p.nilV
			default:
				val := func(v ssa.Value) (int64, bool) {
					if k, ok := an.ConstInt(v); ok {
						return k, true
					}
					if p.nilV {
						return 0, false
					}
					switch fieldOf(v) {
					case "bitcoinVersion.major":
						return p.major, true
					case "bitcoinVersion.minor":
						return p.minor, true
					}
					return 0, false
				}
				a, ok1 := val(bo.X)
				b, ok2 := val(bo.Y)
				if !ok1 || !ok2 {
					return false, false, "", "", false
				}
				holds = c30EvalRel(a, bo.Op.String(), b)
			}
			if neg {
				holds = !holds
			}
			return holds, !holds, "", "", true
		}
		ret := func(r *ssa.Return, _ *c30Path) {
			if k, isK := an.ConstInt(r.Results[0]); isK {
				got = append(got, k)
			} else {
				got = append(got, -1)
			}
		}
		ok, why = c30Walk(fn, decide, ret)
		return
	}
	// unparsable
	got, okW, why := run(pt{nilV: true})
	switch {
	case !okW:
		c.Unknown("C30.R2", "DetermineFeeFloor(unparsable)", pos, "cannot evaluate: "+why)
	default:
		c.Decide(len(got) == 1 && got[0] == 253, "C30.R2", "DetermineFeeFloor(unparsable)", pos, "an unparsable version string yields 253",
			fmt.Sprintf("an unparsable version string yields %v, expected the legacy floor 253", got))
	}
	var wrong []string
	unknown := ""
	for _, p := range pts {
		got, okW, why := run(p)
		if !okW {
			unknown = why
			break
		}
		want := int64(253)
		if p.major > 29 || (p.major == 29 && p.minor >= 2) {
			want = 25
		}
		if len(got) != 1 || got[0] != want {
			wrong = append(wrong, fmt.Sprintf("%d.%d -> %v (expected %d)", p.major, p.minor, got, want))
		}
	}
	switch {
	case unknown != "":
		c.Unknown("C30.R2", "DetermineFeeFloor table", pos, "cannot evaluate DetermineFeeFloor: "+unknown+" (only comparisons of version.major/minor with constants are interpreted)")
	case len(wrong) > 0:
		if len(wrong) > 8 {
			wrong = append(wrong[:8], fmt.Sprintf("… %d more", len(wrong)-8))
		}
		c.Bad("C30.R2", "DetermineFeeFloor table", pos, "the floor table deviates from `25 iff version >= 29.2, else 253`: "+strings.Join(wrong, "; "))
	default:
		c.OK("C30.R2", "DetermineFeeFloor table", pos, fmt.Sprintf("%d (major,minor) points incl. every compared constant ±1 agree with `25 iff >= 29.2 else 253`", len(pts)))
	}
	c.AtLeast("C30.R2", "grid points", len(pts), 42)

	// --- which submatch feeds which field
	c30R2Parse(c)
}

func c30Keys(m map[int64]bool) []int64 {
	var out []int64
	for k := range m {
		out = append(out, k)
	}
	sort.Slice(out, func(i, j int) bool { return out[i] < out[j] })
	return out
}

func c30R2Parse(c *an.Check) {
	w := c.W
	norm := w.Func("onchain", "normalizeBitcoinVersion")
	seg := w.Func("onchain", "parseVersionSegment")
	if norm == nil || seg == nil {
		c.Unknown("C30.R2", "version parse wiring", "-", "normalizeBitcoinVersion / parseVersionSegment do not resolve; the parse is not checked")
		return
	}
	pos := w.Pos(norm.Pos())
	// submatch call
	var sub *ssa.Call
	for _, call := range an.Calls(norm) {
		if cc, ok := call.(*ssa.Call); ok && w.Info(call).Name == "func:(*regexp.Regexp).FindStringSubmatch" {
			sub = cc
		}
	}
	if sub == nil {
		c.Unknown("C30.R2", "version parse wiring", pos, "no FindStringSubmatch call")
		return
	}
	// the index of the submatch that a value is parsed from: Atoi(m[k]) or parseVersionSegment(m, k)
	groupOf := func(v ssa.Value) (int64, bool) {
		for {
			if cv, ok := v.(*ssa.Convert); ok {
				v = cv.X
				continue
			}
			break
		}
		var call *ssa.Call
		switch x := v.(type) {
		case *ssa.Extract:
			call, _ = x.Tuple.(*ssa.Call)
			if x.Index != 0 {
				return 0, false
			}
		case *ssa.Call:
			call = x
		}
		if call == nil {
			return 0, false
		}
		switch w.Info(call).Name {
		case "func:strconv.Atoi":
			u, ok := call.Call.Args[0].(*ssa.UnOp)
			if !ok || u.Op != token.MUL {
				return 0, false
			}
			ia, ok := u.X.(*ssa.IndexAddr)
			if !ok || ia.X != ssa.Value(sub) {
				return 0, false
			}
			return an.ConstInt(ia.Index)
		case "func:onchain.parseVersionSegment":
			if call.Call.Args[0] != ssa.Value(sub) {
				return 0, false
			}
			return an.ConstInt(call.Call.Args[1])
		}
		return 0, false
	}
	want := map[string]int64{"major": 1, "minor": 2}
	found := 0
	for _, b := range norm.Blocks {
		for _, in := range b.Instrs {
			al, ok := in.(*ssa.Alloc)
			if !ok || an.NamedOf(al.Type()) == nil || an.NamedOf(al.Type()).Obj().Name() != "bitcoinVersion" {
				continue
			}
			for _, f := range []string{"major", "minor"} {
				v, has := an.CompositeFieldValue(al, f)
				cons := "normalizeBitcoinVersion " + f
				if !has {
					c.Bad("C30.R2", cons, w.Pos(al.Pos()), "the field is never set")
					continue
				}
				found++
				g, ok := groupOf(v)
				switch {
				case !ok:
					c.Unknown("C30.R2", cons, w.Pos(al.Pos()), "cannot tell which submatch feeds the field: "+w.Term(v))
				default:
					c.Decide(g == want[f], "C30.R2", cons, w.Pos(al.Pos()), fmt.Sprintf("parsed from submatch %d", g),
						fmt.Sprintf("%s is parsed from submatch %d of the version pattern, expected %d: the floor is chosen from the wrong version component", f, g, want[f]))
				}
			}
		}
	}
	c.AtLeast("C30.R2", "bitcoinVersion fields set by normalizeBitcoinVersion", found, 2)
	// parseVersionSegment(m, i) = Atoi(m[i]) or 0
	segOK := true
	var segNames []string
	for _, r := range an.Returns(seg) {
		ss := w.Sources(r.Results[0], an.FlowOpts{})
		segNames = append(segNames, ss.Names()...)
		for _, l := range ss.Leaves {
			switch {
			case l.Kind == "const" && l.Name == "0":
			case l.Kind == "call" && l.Name == "func:strconv.Atoi#0":
				u, ok := l.Call.Call.Args[0].(*ssa.UnOp)
				ia, ok2 := (ssa.Value)(nil), false
				if ok && u.Op == token.MUL {
					if x, isIA := u.X.(*ssa.IndexAddr); isIA {
						ia, ok2 = x, true
						if x.X != seg.Params[0] || x.Index != seg.Params[1] {
							segOK = false
						}
					}
				}
				if !ok2 || ia == nil {
					segOK = false
				}
			default:
				segOK = false
			}
		}
	}
	c.Decide(segOK, "C30.R2", "parseVersionSegment", w.Pos(seg.Pos()), "returns Atoi(matches[idx]) or 0",
		fmt.Sprintf("parseVersionSegment does not return Atoi(matches[idx]) or 0 (sources %v)", segNames))

	// the pattern constant, evaluated on sample subversion strings
	pat := ""
	nPat := 0
	if g, ok := w.SSA["onchain"].Members["bitcoinVersionPattern"].(*ssa.Global); ok {
		if l, isL := sub.Call.Args[0].(*ssa.UnOp); !isL || l.X != ssa.Value(g) {
			c.Unknown("C30.R2", "version pattern", pos, "FindStringSubmatch is not called on the package-level pattern")
			return
		}
		if g.Referrers() == nil {
			// globals have no referrer lists: scan the package initialiser
		}
		if ini := w.SSA["onchain"].Func("init"); ini != nil {
			for _, b := range ini.Blocks {
				for _, in := range b.Instrs {
					st, ok := in.(*ssa.Store)
					if !ok || st.Addr != ssa.Value(g) {
						continue
					}
					if cc, ok := st.Val.(*ssa.Call); ok && w.Info(cc).Name == "func:regexp.MustCompile" {
						if s, ok := an.ConstString(cc.Call.Args[0]); ok {
							pat = s
							nPat++
						}
					}
				}
			}
		}
	}
	if nPat != 1 {
		c.Unknown("C30.R2", "version pattern", pos, "bitcoinVersionPattern is not initialised by exactly one regexp.MustCompile(<constant>)")
		return
	}
	re, err := regexp.Compile(pat)
	if err != nil {
		c.Bad("C30.R2", "version pattern", pos, "the version pattern does not compile: "+err.Error())
		return
	}
	samples := []struct{ in, major, minor string }{
		{"/Satoshi:29.2.0/", "29", "2"},
		{"/Satoshi:29.1.0/", "29", "1"},
		{"/Satoshi:30.0.0/", "30", "0"},
		{"/Satoshi:0.21.1/", "0", "21"},
		{"/Satoshi:28.0.0(some comment)/", "28", "0"},
		{"/Satoshi:31/", "31", ""},
	}
	var wrong []string
	for _, s := range samples {
		m := re.FindStringSubmatch(s.in)
		if m == nil || len(m) < 3 || m[1] != s.major || m[2] != s.minor {
			wrong = append(wrong, fmt.Sprintf("%q -> %q", s.in, m))
		}
	}
	if m := re.FindStringSubmatch("/Satoshi:unknown/"); m != nil {
		wrong = append(wrong, fmt.Sprintf("%q -> %q (expected no match)", "/Satoshi:unknown/", m))
	}
	c.Decide(len(wrong) == 0, "C30.R2", "version pattern", pos, "submatches 1/2 of the pattern are major/minor on the sample subversion strings",
		"the version pattern does not extract major/minor: "+strings.Join(wrong, "; "))
}

// ---- R3 ------------------------------------------------------------------------------

func c30R3(c *an.Check, legacy int64) {
	w := c.W
	opts := an.FlowOpts{IntoCallees: true, StopAt: map[string]bool{c30FnFloor: true}}
	check := func(site ssa.CallInstruction, what string, arg ssa.Value, needDetected bool) {
		fn := site.Parent()
		cons := w.FuncName(fn) + " " + what
		ss := w.Sources(arg, opts)
		detected := ss.Has("call", c30FnFloor+"#0")
		good := len(ss.Leaves) > 0
		var low []string
		for _, l := range ss.Leaves {
			switch {
			case l.Kind == "call" && l.Name == c30FnFloor+"#0":
			case l.Kind == "const":
				k, ok := an.ConstInt(l.Val)
				if !ok || k < legacy {
					good = false
					low = append(low, l.String())
				}
			default:
				good = false
				low = append(low, l.String())
			}
		}
		switch {
		case !good:
			c.Bad("C30.R3", cons, w.Pos(site.Pos()), fmt.Sprintf("the floor can come from %v, which is neither DetermineFeeFloor's result nor a constant >= %d: fees below the node's relay floor become possible", low, legacy))
		case needDetected && !detected:
			c.Bad("C30.R3", cons, w.Pos(site.Pos()), fmt.Sprintf("the floor (%v) does not come from DetermineFeeFloor although this main detects the Bitcoin Core version", ss.Names()))
		default:
			c.OK("C30.R3", cons, w.Pos(site.Pos()), fmt.Sprintf("floor sources: %v", ss.Names()))
		}
	}
	chains := findCallSites(w, c30FnNewChain)
	c.AtLeast("C30.R3", "NewBitcoinOnChain call sites", len(chains), 2)
	gests := findCallSites(w, c30FnNewGEst)
	c.AtLeast("C30.R3", "NewGBitcoindEstimator call sites", len(gests), 1)
	usesBitcoind := map[*ssa.Function]bool{}
	for _, g := range gests {
		usesBitcoind[g.Parent()] = true
	}
	nDet := 0
	for _, s := range chains {
		args := s.Common().Args
		if len(args) != 4 {
			c.Unknown("C30.R3", w.FuncName(s.Parent())+" NewBitcoinOnChain floor", w.Pos(s.Pos()), "unexpected arity")
			continue
		}
		if usesBitcoind[s.Parent()] {
			nDet++
		}
		check(s, "NewBitcoinOnChain floor", args[2], usesBitcoind[s.Parent()])
	}
	for _, s := range gests {
		args := s.Common().Args
		if len(args) != 4 {
			c.Unknown("C30.R3", w.FuncName(s.Parent())+" NewGBitcoindEstimator floor", w.Pos(s.Pos()), "unexpected arity")
			continue
		}
		check(s, "NewGBitcoindEstimator floor", args[3], true)
	}
	c.AtLeast("C30.R3", "mains that wire a bitcoind-detected floor", nDet, 1)
}

// ---- R4 ------------------------------------------------------------------------------

// c30Side: which of the two string parameters a value derives from ("a", "b",
// "ab", "").
func c30Side(w *an.World, fn *ssa.Function, v ssa.Value) string {
	ss := w.Sources(v, an.FlowOpts{ThroughCalls: map[string]bool{"func:strconv.Atoi": true, "func:(*regexp.Regexp).FindAllString": true}, MaxDepth: 8})
	a, b := false, false
	for _, l := range ss.Leaves {
		if l.Kind == "param" && len(fn.Params) >= 2 {
			if l.Val == ssa.Value(fn.Params[0]) {
				a = true
			}
			if l.Val == ssa.Value(fn.Params[1]) {
				b = true
			}
		}
	}
	switch {
	case a && b:
		return "ab"
	case a:
		return "a"
	case b:
		return "b"
	}
	return ""
}

// c30Elem: v is a load of &s[idx]; returns s and idx.
func c30Elem(v ssa.Value) (s, idx ssa.Value, ok bool) {
	u, isU := v.(*ssa.UnOp)
	if !isU || u.Op != token.MUL {
		return nil, nil, false
	}
	ia, isIA := u.X.(*ssa.IndexAddr)
	if !isIA {
		return nil, nil, false
	}
	return ia.X, ia.Index, true
}

type c30Cmp struct {
	i        *ssa.If
	rel      [2]string // relation `a[i] rel b[i]` on the true / false edge
	idx      ssa.Value
	sameIdx  bool
	describe string
}

func c30R4(c *an.Check, fn *ssa.Function) {
	w := c.W
	pos := w.Pos(fn.Pos())
	if len(fn.Params) != 2 {
		c.Unknown("C30.R4", "CompareVersionStrings", pos, "unexpected signature")
		return
	}
	// (a) Atoi errors propagate
	nAtoi := 0
	for _, call := range callsNamed(w, fn, "func:strconv.Atoi") {
		cc, ok := call.(*ssa.Call)
		if !ok {
			continue
		}
		nAtoi++
		_, failE := an.OkEdges(cc)
		var errV ssa.Value
		if vs := an.ResultValues(cc, 1); len(vs) > 0 {
			errV = vs[0]
		}
		side := c30Side(w, fn, cc.Call.Args[0])
		cons := "CompareVersionStrings Atoi(" + side + ") error"
		if len(failE) == 0 {
			c.Bad("C30.R4", cons, w.Pos(call.Pos()), "the Atoi error is not tested: a malformed component silently counts as 0")
			continue
		}
		var start []*ssa.BasicBlock
		for _, e := range failE {
			start = append(start, e.To())
		}
		reach := an.ReachBlocks(start, nil, nil)
		good, n := true, 0
		for _, r := range an.Returns(fn) {
			if !reach[r.Block()] {
				continue
			}
			n++
			if !c30ErrFrom(r.Results[1], errV, 0) {
				good = false
			}
		}
		c.Decide(good && n > 0, "C30.R4", cons, w.Pos(call.Pos()), "a malformed component is returned as an error",
			"after a failed Atoi the function can return without an error that carries the Atoi failure")
	}
	c.AtLeast("C30.R4", "Atoi calls", nAtoi, 2)

	// (b) element comparisons a[i] ? b[i]
	var cmps []*c30Cmp
	for _, b := range fn.Blocks {
		i, isIf := b.Instrs[len(b.Instrs)-1].(*ssa.If)
		if !isIf {
			continue
		}
		bo, isB := i.Cond.(*ssa.BinOp)
		if !isB || !c30IsCmp(bo.Op) {
			continue
		}
		sx, ix, okx := c30Elem(bo.X)
		sy, iy, oky := c30Elem(bo.Y)
		if !okx || !oky {
			continue
		}
		sideX, sideY := c30Side(w, fn, sx), c30Side(w, fn, sy)
		cm := &c30Cmp{i: i, idx: ix, sameIdx: ix == iy}
		switch {
		case sideX == "a" && sideY == "b":
			cm.rel = [2]string{c30RelOn(bo.Op, true), c30RelOn(bo.Op, false)}
		case sideX == "b" && sideY == "a":
			cm.rel = [2]string{c30Flip(c30RelOn(bo.Op, true)), c30Flip(c30RelOn(bo.Op, false))}
		default:
			c.Unknown("C30.R4", "CompareVersionStrings component comparison", w.Pos(bo.Pos()), fmt.Sprintf("a comparison of slice elements whose operands derive from %q and %q, not from a and b", sideX, sideY))
			continue
		}
		cm.describe = fmt.Sprintf("a[i] %s b[i] at %s", cm.rel[0], w.Pos(bo.Pos()))
		cmps = append(cmps, cm)
	}
	if !c.AtLeast("C30.R4", "component comparisons a[i] ? b[i]", len(cmps), 1) {
		return
	}
	for _, cm := range cmps {
		c.Decide(cm.sameIdx, "C30.R4", "CompareVersionStrings same index "+cm.rel[0], w.Pos(cm.i.Cond.Pos()),
			"both components are read at the same index", "the components of a and b are compared at different indices")
	}
	header := c30PhiBlock(cmps[0].idx)
	if header == nil {
		c.Unknown("C30.R4", "CompareVersionStrings loop", pos, "the component index is not a loop variable")
		return
	}
	// knowledge on an edge set: relations that hold whenever `target` is
	// reached within one iteration (edges cut, start at the loop header)
	known := func(reaches func(cut an.Edge) bool) map[string]bool {
		k := map[string]bool{}
		for _, cm := range cmps {
			for e := 0; e < 2; e++ {
				edge := an.Edge{From: cm.i.Block(), Idx: e}
				if !reaches(edge) {
					k[cm.rel[e]] = true
				}
			}
		}
		return k
	}
	implies := func(k map[string]bool, rel string) bool {
		switch rel {
		case "<":
			return k["<"]
		case ">":
			return k[">"]
		case ">=":
			return k[">="] || k[">"] || k["=="]
		case "<=":
			return k["<="] || k["<"] || k["=="]
		}
		return false
	}
	kstr := func(k map[string]bool) string {
		var s []string
		for r := range k {
			s = append(s, "a[i] "+r+" b[i]")
		}
		sort.Strings(s)
		if len(s) == 0 {
			return "nothing"
		}
		return strings.Join(s, " and ")
	}
	inLoop := an.ReachBlocks(header.Succs, nil, nil)
	// (c) returns
	nRet := 0
	for _, r := range an.Returns(fn) {
		if !an.IsNilConst(r.Results[1]) {
			continue // error returns handled in (a)
		}
		val, isConst := c30ConstBool(r.Results[0])
		rb := r.Block()
		k := known(func(cut an.Edge) bool {
			return an.ReachBlocks([]*ssa.BasicBlock{header}, map[an.Edge]bool{cut: true}, nil)[rb]
		})
		// is the return inside the comparison region (dominated by some comparison edge)?
		inside := len(k) > 0
		cons := fmt.Sprintf("CompareVersionStrings return %s", w.Term(r.Results[0]))
		if inside {
			cons += " inside the loop"
		} else {
			cons += " after the loop"
		}
		nRet++
		switch {
		case !isConst:
			c.Unknown("C30.R4", cons, w.Pos(r.Pos()), "the result is not a boolean constant; only constant results under known component relations are interpreted")
		case !inside:
			c.Decide(val, "C30.R4", cons, w.Pos(r.Pos()), "all components equal => a >= b is true",
				"when all components are equal (or the loop ends) the function answers false, but equal versions satisfy a >= b")
		case val:
			c.Decide(implies(k, ">"), "C30.R4", cons, w.Pos(r.Pos()), "true is returned under a[i] > b[i]",
				"`true` is returned knowing only "+kstr(k)+": the first differing component does not decide")
		default:
			c.Decide(implies(k, "<"), "C30.R4", cons, w.Pos(r.Pos()), "false is returned under a[i] < b[i]",
				"`false` is returned knowing only "+kstr(k)+": the first differing component does not decide")
		}
	}
	c.AtLeast("C30.R4", "constant-result returns", nRet, 3)
	// (d) the loop continues only on equality
	nBack := 0
	for _, p := range header.Preds {
		if !inLoop[p] {
			continue
		}
		for si, s := range p.Succs {
			if s != header {
				continue
			}
			back := an.Edge{From: p, Idx: si}
			nBack++
			k := known(func(cut an.Edge) bool {
				if cut == back {
					return false
				}
				// can the back edge be traversed, starting at the header, without `cut`?
				reach := an.ReachBlocks(header.Succs, map[an.Edge]bool{cut: true, back: true}, nil)
				return reach[p] || p == header
			})
			bpos := p.Instrs[len(p.Instrs)-1].Pos()
			if i, isIf := p.Instrs[len(p.Instrs)-1].(*ssa.If); isIf {
				bpos = i.Cond.Pos()
			}
			c.Decide(implies(k, ">=") && implies(k, "<="), "C30.R4", "CompareVersionStrings continue edge", w.Pos(bpos),
				"the next component is examined only when a[i] == b[i] is known (both a[i]>=b[i] and b[i]>=a[i])",
				"the loop moves on to the next component knowing only "+kstr(k)+": one-sided comparison, a later component can overrule an earlier, more significant one (e.g. 2.0 vs 1.5)")
		}
	}
	c.AtLeast("C30.R4", "back edges of the comparison loop", nBack, 1)

	// (e) padding with "0" under the matching length comparison
	c30R4Pad(c, fn)
}

// c30ErrFrom: the returned error is the tested error or wraps it (fmt.Errorf
// with the error among its arguments).
func c30ErrFrom(v ssa.Value, errV ssa.Value, depth int) bool {
	if depth > 6 || v == nil {
		return false
	}
	if v == errV {
		return true
	}
	switch x := v.(type) {
	case *ssa.ChangeInterface:
		return c30ErrFrom(x.X, errV, depth+1)
	case *ssa.MakeInterface:
		return c30ErrFrom(x.X, errV, depth+1)
	case *ssa.Call:
		if f := x.Call.StaticCallee(); f != nil && f.Pkg != nil && f.Pkg.Pkg.Path() == "fmt" && f.Name() == "Errorf" {
			// variadic slice built from a local array
			for _, a := range x.Call.Args {
				sl, ok := a.(*ssa.Slice)
				if !ok {
					continue
				}
				al, ok := sl.X.(*ssa.Alloc)
				if !ok || al.Referrers() == nil {
					continue
				}
				for _, r := range *al.Referrers() {
					ia, ok := r.(*ssa.IndexAddr)
					if !ok || ia.Referrers() == nil {
						continue
					}
					for _, rr := range *ia.Referrers() {
						if st, ok := rr.(*ssa.Store); ok && c30ErrFrom(st.Val, errV, depth+1) {
							return true
						}
					}
				}
			}
		}
	case *ssa.Phi:
		for _, e := range x.Edges {
			if !c30ErrFrom(e, errV, depth+1) {
				return false
			}
		}
		return len(x.Edges) > 0
	}
	return false
}

func c30R4Pad(c *an.Check, fn *ssa.Function) {
	w := c.W
	// linear form over len(A-side), len(B-side)
	type lin struct {
		a, b, k int64
		ok      bool
	}
	var lf func(v ssa.Value, d int) lin
	lf = func(v ssa.Value, d int) lin {
		if d > 8 {
			return lin{}
		}
		if k, ok := an.ConstInt(v); ok {
			return lin{k: k, ok: true}
		}
		switch x := v.(type) {
		case *ssa.Call:
			if b, ok := x.Call.Value.(*ssa.Builtin); ok && b.Name() == "len" {
				switch c30Side(w, fn, x.Call.Args[0]) {
				case "a":
					return lin{a: 1, ok: true}
				case "b":
					return lin{b: 1, ok: true}
				}
			}
		case *ssa.BinOp:
			l, r := lf(x.X, d+1), lf(x.Y, d+1)
			if !l.ok || !r.ok {
				return lin{}
			}
			switch x.Op {
			case token.ADD:
				return lin{l.a + r.a, l.b + r.b, l.k + r.k, true}
			case token.SUB:
				return lin{l.a - r.a, l.b - r.b, l.k - r.k, true}
			case token.MUL:
				if l.a == 0 && l.b == 0 {
					return lin{l.k * r.a, l.k * r.b, l.k * r.k, true}
				}
				if r.a == 0 && r.b == 0 {
					return lin{r.k * l.a, r.k * l.b, r.k * l.k, true}
				}
			}
		}
		return lin{}
	}
	// relation between len(a) and len(b) on each edge of every If that compares them
	type lenFact struct {
		edge an.Edge
		rel  string // len(a) rel len(b)
	}
	var lfs []lenFact
	for _, b := range fn.Blocks {
		i, isIf := b.Instrs[len(b.Instrs)-1].(*ssa.If)
		if !isIf {
			continue
		}
		bo, isB := i.Cond.(*ssa.BinOp)
		if !isB || !c30IsCmp(bo.Op) {
			continue
		}
		l, r := lf(bo.X, 0), lf(bo.Y, 0)
		if !l.ok || !r.ok {
			continue
		}
		d := lin{l.a - r.a, l.b - r.b, l.k - r.k, true} // d rel 0
		if d.k != 0 || d.a == 0 || d.a != -d.b {
			continue
		}
		for e := 0; e < 2; e++ {
			rel := c30RelOn(bo.Op, e == 0)
			if d.a < 0 {
				rel = c30Flip(rel)
			}
			lfs = append(lfs, lenFact{an.Edge{From: b, Idx: e}, rel})
		}
	}
	// appends of constant strings
	seen := map[string]bool{}
	for _, call := range an.Calls(fn) {
		cc, ok := call.(*ssa.Call)
		if !ok {
			continue
		}
		if b, isB := cc.Call.Value.(*ssa.Builtin); !isB || b.Name() != "append" || len(cc.Call.Args) != 2 {
			continue
		}
		// appended constant strings
		var consts []string
		if sl, ok := cc.Call.Args[1].(*ssa.Slice); ok {
			if al, ok := sl.X.(*ssa.Alloc); ok && al.Referrers() != nil {
				for _, r := range *al.Referrers() {
					if ia, ok := r.(*ssa.IndexAddr); ok && ia.Referrers() != nil {
						for _, rr := range *ia.Referrers() {
							if st, ok := rr.(*ssa.Store); ok {
								if s, isS := an.ConstString(st.Val); isS {
									consts = append(consts, s)
								}
							}
						}
					}
				}
			}
		}
		if len(consts) == 0 {
			continue
		}
		side := c30Side(w, fn, cc.Call.Args[0])
		cons := "CompareVersionStrings padding of " + side
		if side != "a" && side != "b" {
			c.Unknown("C30.R4", "CompareVersionStrings padding", w.Pos(call.Pos()), "a constant is appended to a slice that derives from neither a nor b alone")
			continue
		}
		seen[side] = true
		wantRel := map[string][]string{"a": {"<", "<="}, "b": {">", ">="}}[side]
		guard := false
		for _, f := range lfs {
			for _, wr := range wantRel {
				if f.rel == wr && an.EdgeDominates(f.edge, call.Block()) {
					guard = true
				}
			}
		}
		switch {
		case len(consts) != 1 || consts[0] != "0":
			c.Bad("C30.R4", cons, w.Pos(call.Pos()), fmt.Sprintf("the missing components are filled with %q, not \"0\"", consts))
		case !guard:
			c.Bad("C30.R4", cons, w.Pos(call.Pos()), "the side is padded although it is not known to be the shorter one (no dominating comparison of the two lengths in the right direction)")
		default:
			c.OK("C30.R4", cons, w.Pos(call.Pos()), "missing components are filled with \"0\" when this side is shorter")
		}
	}
	for _, side := range []string{"a", "b"} {
		if !seen[side] {
			c.Bad("C30.R4", "CompareVersionStrings padding of "+side, w.Pos(fn.Pos()), "no padding of this side with \"0\": a shorter "+side+" is not treated as having zero components (index out of range or wrong order)")
		}
	}
}

func c30ConstBool(v ssa.Value) (val bool, ok bool) {
	k, isC := v.(*ssa.Const)
	if !isC || k.Value == nil || k.Value.Kind() != constant.Bool {
		return false, false
	}
	return constant.BoolVal(k.Value), true
}

// c30PhiBlock returns the block of the loop phi behind an index value (i or i+1).
func c30PhiBlock(idx ssa.Value) *ssa.BasicBlock {
	switch x := idx.(type) {
	case *ssa.Phi:
		return x.Block()
	case *ssa.BinOp:
		if p, ok := x.X.(*ssa.Phi); ok {
			return p.Block()
		}
		if p, ok := x.Y.(*ssa.Phi); ok {
			return p.Block()
		}
	}
	return nil
}
