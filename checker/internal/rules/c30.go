package rules

import (
	"errors"
	"fmt"
	"go/constant"
	"go/token"
	"go/types"
	"math/big"
	"regexp"
	"sort"
	"strconv"
	"strings"

	"golang.org/x/tools/go/ssa"

	"psv/internal/an"
)

func init() {
	Register(&Prop{
		ID:   "C30",
		Expl: "Decides: (R1) by enumerating every acyclic path of BitcoinOnChain.GetFee under the three estimator outcomes (error / zero / non-zero rate) and both outcomes of every comparison with the floor field, that the rate factor of the returned fee is max(base, b.feeFloorSatPerKw) with base = b.fallbackFeeRateSatPerKw when the estimator failed or answered 0 and the estimator's answer otherwise, that the returned fee is the monomial rate*txSize*4/1000 without a truncation before the scaling, and that GetFee is the choke point (only caller of Estimator.EstimateFeePerKW; the two rate fields are written only by NewBitcoinOnChain from the matching parameters; every fee argument of PrepareSpendingTransaction and every fee returned by the Bitcoin wallet adapters comes from GetFee); (R2) by evaluating DetermineFeeFloor on a grid of (major, minor) pairs that contains every constant it compares with and its neighbours, that it returns 25 iff (major,minor) >= (29,2) and 253 otherwise and for an unparsable string, and that major/minor are the submatches 1/2 of the version pattern (the pattern constant is evaluated on sample subversion strings); (R3) that the floor handed to NewBitcoinOnChain / NewGBitcoindEstimator is DetermineFeeFloor's result (CLN main) or a constant >= every floor of the table; (R4) in CompareVersionStrings: Atoi errors are returned, components of a and b are compared at the same index, `false` is returned only under a[i]<b[i], `true` inside the loop only under a[i]>b[i], the loop continues only when both a[i]>=b[i] and b[i]>=a[i] are known, the result after the loop is true, and both slices are padded with the constant \"0\" under the matching length comparison.",
		NotD: "Totality/transitivity of the version order as a mathematical fact (follows from R4 by the lexicographic argument, not machine-checked); the number of padding iterations in CompareVersionStrings; float rounding of the fee; the Liquid fee path (no Bitcoin Core floor applies); what the estimators themselves return.",
		Run:  runC30,
	})
}

const (
	c30IfEstimate = "iface:onchain.Estimator.EstimateFeePerKW"
	c30FnGetFee   = "func:(*onchain.BitcoinOnChain).GetFee"
	c30FnFloor    = "func:onchain.DetermineFeeFloor"
	c30FnNewChain = "func:onchain.NewBitcoinOnChain"
	c30FnNewGEst  = "func:onchain.NewGBitcoindEstimator"
	c30FnPrepare  = "func:(*onchain.BitcoinOnChain).PrepareSpendingTransaction"
	c30FldFloor   = "BitcoinOnChain.feeFloorSatPerKw"
	c30FldFallbk  = "BitcoinOnChain.fallbackFeeRateSatPerKw"
)

func runC30(c *an.Check) {
	c.Rule("C30.R1", "GetFee: on every path the rate factor of the fee is max(base, floor field), base = fallback field iff the estimator failed or answered 0; fee = rate*txSize*4/1000; GetFee is the only consumer of the estimator and the only source of Bitcoin fees")
	c.Rule("C30.R2", "DetermineFeeFloor returns 25 iff (major,minor) >= (29,2), else 253 (also when unparsable); major/minor are submatch 1/2 of the version pattern")
	c.Rule("C30.R3", "the floor wired into NewBitcoinOnChain / NewGBitcoindEstimator is DetermineFeeFloor's result or a constant >= the legacy floor")
	c.Rule("C30.R5", "in every Estimator implementation the `estimate == 0` test that selects the fallback sees a value that can be zero: it is not raised to a floor on every path before the test")
	c.Rule("C30.R4", "CompareVersionStrings: two-sided component comparison at equal indices, equal => true, Atoi errors returned, both sides padded with \"0\"")
	w := c.W
	getFee := w.Func("onchain", "(*BitcoinOnChain).GetFee")
	floorFn := w.Func("onchain", "DetermineFeeFloor")
	newChain := w.Func("onchain", "NewBitcoinOnChain")
	cmp := w.Func("version", "CompareVersionStrings")
	for n, f := range map[string]*ssa.Function{"onchain.(*BitcoinOnChain).GetFee": getFee, "onchain.DetermineFeeFloor": floorFn, "onchain.NewBitcoinOnChain": newChain, "version.CompareVersionStrings": cmp} {
		if f == nil || f.Blocks == nil {
			c.Anchor("function %s does not resolve", n)
		}
	}
	if !ifaceMethodExists(w, c30IfEstimate) {
		c.Anchor("interface method %s does not resolve", c30IfEstimate)
	}
	legacy, ok1 := c30ConstInt(w, "onchain", "LegacyFeeFloorSatPerKw")
	modern, ok2 := c30ConstInt(w, "onchain", "ModernFeeFloorSatPerKw")
	if !ok1 || !ok2 {
		c.Anchor("constants onchain.LegacyFeeFloorSatPerKw / ModernFeeFloorSatPerKw do not resolve")
	}
	if len(c.Anchors) > 0 {
		return
	}
	c30R1(c, getFee, newChain)
	c30R2(c, floorFn, legacy, modern)
	c30R3(c, legacy)
	c30R4(c, cmp)
	c30R5(c)
}

// c30ConstInt reads a package-level integer constant through go/types.
func c30ConstInt(w *an.World, rel, name string) (int64, bool) {
	p := w.ByRel[rel]
	if p == nil {
		return 0, false
	}
	k, ok := p.Types.Scope().Lookup(name).(*types.Const)
	if !ok || k.Val().Kind() != constant.Int {
		return 0, false
	}
	return constant.Int64Val(k.Val())
}

// ---- path enumeration ----------------------------------------------------------

type c30Path struct {
	blocks    []*ssa.BasicBlock
	facts     []string
	uncertain bool // a branch that depends on the scenario could not be evaluated: the path may be infeasible
}

func (p *c30Path) clone() *c30Path {
	return &c30Path{blocks: append([]*ssa.BasicBlock{}, p.blocks...), facts: append([]string{}, p.facts...), uncertain: p.uncertain}
}

// c30V is a partially known value: k == 0 unknown, 1 boolean, 2 integer,
// 3 a reference to a designated object (obj).
type c30V struct {
	k   int
	b   bool
	i   int64
	obj ssa.Value
}

// c30Env is what a scenario knows: leaf may supply the value of any
// (phi-resolved) sub-expression, field the value of a field of a designated
// object. With w set, calls of in-module functions are evaluated by descending
// into the callee with its parameters bound to the evaluated arguments.
type c30Env struct {
	w     *an.World
	leaf  func(ssa.Value) (c30V, bool)
	field func(obj ssa.Value, name string) (c30V, bool)
	depth int
}

// eval computes v along the path. leaf may supply the value of any
// sub-expression (it is asked first, with phis already resolved); constants,
// negation, comparisons and integer arithmetic are interpreted here.
func (p *c30Path) eval(v ssa.Value, env *c30Env, depth int) c30V {
	if depth > 24 || v == nil {
		return c30V{}
	}
	v = p.resolve(v)
	if v == nil {
		return c30V{}
	}
	if env != nil && env.leaf != nil {
		if r, ok := env.leaf(v); ok {
			return r
		}
	}
	leaf := env
	switch x := v.(type) {
	case *ssa.Call:
		if env != nil && env.w != nil {
			return c30EvalCall(x, p, env)
		}
	case *ssa.Const:
		if x.Value == nil {
			return c30V{}
		}
		switch x.Value.Kind() {
		case constant.Bool:
			return c30V{k: 1, b: constant.BoolVal(x.Value)}
		case constant.Int:
			if i, ok := constant.Int64Val(x.Value); ok {
				return c30V{k: 2, i: i}
			}
		}
	case *ssa.UnOp:
		if x.Op == token.MUL {
			// a field of a designated object
			if fa, ok := x.X.(*ssa.FieldAddr); ok && env != nil && env.field != nil {
				if base := p.eval(fa.X, env, depth+1); base.k == 3 {
					n := an.FieldName(fa.X.Type(), fa.Field)
					if r, ok := env.field(base.obj, n[strings.LastIndex(n, ".")+1:]); ok {
						return r
					}
				}
			}
			return c30V{}
		}
		a := p.eval(x.X, leaf, depth+1)
		switch {
		case x.Op == token.NOT && a.k == 1:
			return c30V{k: 1, b: !a.b}
		case x.Op == token.SUB && a.k == 2:
			return c30V{k: 2, i: -a.i}
		}
	case *ssa.BinOp:
		a, b := p.eval(x.X, leaf, depth+1), p.eval(x.Y, leaf, depth+1)
		switch {
		case a.k == 2 && b.k == 2:
			switch x.Op {
			case token.ADD:
				return c30V{k: 2, i: a.i + b.i}
			case token.SUB:
				return c30V{k: 2, i: a.i - b.i}
			case token.MUL:
				return c30V{k: 2, i: a.i * b.i}
			case token.QUO:
				if b.i != 0 {
					return c30V{k: 2, i: a.i / b.i}
				}
			case token.REM:
				if b.i != 0 {
					return c30V{k: 2, i: a.i % b.i}
				}
			}
			if c30IsCmp(x.Op) {
				return c30V{k: 1, b: c30EvalRel(a.i, x.Op.String(), b.i)}
			}
		case a.k == 1 && b.k == 1:
			switch x.Op {
			case token.EQL:
				return c30V{k: 1, b: a.b == b.b}
			case token.NEQ:
				return c30V{k: 1, b: a.b != b.b}
			case token.AND:
				return c30V{k: 1, b: a.b && b.b}
			case token.OR:
				return c30V{k: 1, b: a.b || b.b}
			}
		}
	}
	return c30V{}
}

// c30EvalCall evaluates a call of an in-module function by walking the callee
// with its parameters bound to the evaluated arguments. The result is known
// only if every path that is certainly feasible returns the same value and no
// path is uncertain.
func c30EvalCall(call *ssa.Call, p *c30Path, env *c30Env) c30V {
	f := call.Call.StaticCallee()
	if f == nil || f.Blocks == nil || env.depth >= 3 || !env.w.InModule(f) || len(f.Params) != len(call.Call.Args) {
		return c30V{}
	}
	res := f.Signature.Results()
	if res.Len() != 1 {
		return c30V{}
	}
	args := map[ssa.Value]c30V{}
	for i, a := range call.Call.Args {
		args[f.Params[i]] = p.eval(a, env, 1)
	}
	inner := &c30Env{w: env.w, field: env.field, depth: env.depth + 1}
	inner.leaf = func(v ssa.Value) (c30V, bool) {
		if a, ok := args[v]; ok {
			return a, true
		}
		return c30V{}, false
	}
	var out []c30V
	uncertain := false
	ok, _ := c30Walk(f, func(i *ssa.If, q *c30Path) c30Dec {
		if r := q.eval(i.Cond, inner, 0); r.k == 1 {
			return c30Dec{t: r.b, f: !r.b}
		}
		return c30Dec{t: true, f: true, uncertain: true}
	}, func(r *ssa.Return, q *c30Path) {
		if q.uncertain {
			uncertain = true
		}
		out = append(out, q.eval(r.Results[0], inner, 0))
	})
	if !ok || uncertain || len(out) == 0 {
		return c30V{}
	}
	for _, o := range out[1:] {
		if o != out[0] {
			return c30V{}
		}
	}
	return out[0]
}

// c30DependsOn: the backward slice of v (through phis, operators and
// conversions) contains one of the given values.
func c30DependsOn(v ssa.Value, on map[ssa.Value]bool) bool {
	seen := map[ssa.Value]bool{}
	var rec func(v ssa.Value) bool
	rec = func(v ssa.Value) bool {
		if v == nil || seen[v] {
			return false
		}
		seen[v] = true
		if on[v] {
			return true
		}
		switch x := v.(type) {
		case *ssa.Phi:
			for _, e := range x.Edges {
				if rec(e) {
					return true
				}
			}
			// the branch conditions that select the phi edge
			for _, pr := range x.Block().Preds {
				if i, ok := pr.Instrs[len(pr.Instrs)-1].(*ssa.If); ok && rec(i.Cond) {
					return true
				}
			}
		case *ssa.BinOp:
			return rec(x.X) || rec(x.Y)
		case *ssa.UnOp:
			return rec(x.X)
		case *ssa.Convert:
			return rec(x.X)
		case *ssa.ChangeType:
			return rec(x.X)
		case *ssa.Extract:
			return rec(x.Tuple)
		case *ssa.Call:
			for _, a := range x.Call.Args {
				if rec(a) {
					return true
				}
			}
		}
		return false
	}
	return rec(v)
}

// c30IsArith: v is an arithmetic expression (not a call or a load).
func c30IsArith(v ssa.Value) bool {
	bo, ok := v.(*ssa.BinOp)
	if !ok {
		return false
	}
	switch bo.Op {
	case token.ADD, token.SUB, token.MUL, token.QUO, token.REM, token.SHL, token.SHR:
		return true
	}
	return false
}

// c30Dec is the answer of a decide callback.
type c30Dec struct {
	t, f      bool   // edges to follow
	tf, ff    string // fact recorded on the true / false edge
	uncertain bool   // the condition depends on the scenario but could not be evaluated
}

// resolve follows phis along the path (nil when the incoming edge is ambiguous).
func (p *c30Path) resolve(v ssa.Value) ssa.Value {
	for depth := 0; depth < 32; depth++ {
		switch x := v.(type) {
		case *ssa.ChangeType:
			v = x.X
			continue
		case *ssa.Convert:
			v = x.X
			continue
		case *ssa.UnOp:
			// a load of a local slot (defer-spilled result): the last store on the path
			al, isAl := x.X.(*ssa.Alloc)
			if x.Op != token.MUL || !isAl {
				return v
			}
			var last ssa.Value
			found := false
			for bi := len(p.blocks) - 1; bi >= 0 && !found; bi-- {
				b := p.blocks[bi]
				instrs := b.Instrs
				from := len(instrs) - 1
				if b == x.Block() && bi == len(p.blocks)-1 {
					from = an.InstrIndex(x) - 1
				}
				for i := from; i >= 0; i-- {
					if st, ok := instrs[i].(*ssa.Store); ok && st.Addr == ssa.Value(al) {
						last, found = st.Val, true
						break
					}
				}
			}
			if !found {
				return v
			}
			v = last
			continue
		case *ssa.Phi:
			b := x.Block()
			at := -1
			for i := len(p.blocks) - 1; i > 0; i-- {
				if p.blocks[i] == b {
					at = i
					break
				}
			}
			if at < 1 {
				return nil
			}
			pred := p.blocks[at-1]
			var got ssa.Value
			for i, pr := range b.Preds {
				if pr == pred {
					if got != nil && got != x.Edges[i] {
						return nil
					}
					got = x.Edges[i]
				}
			}
			if got == nil {
				return nil
			}
			v = got
			continue
		}
		return v
	}
	return nil
}

// c30Walk enumerates the acyclic paths of fn. decide is asked at every If and
// answers which edges to follow and which fact to record on each; ret is called
// at every return. It reports false when the CFG has a cycle on an explored
// path or too many paths.
func c30Walk(fn *ssa.Function, decide func(i *ssa.If, p *c30Path) c30Dec, ret func(r *ssa.Return, p *c30Path)) (ok bool, why string) {
	n := 0
	ok = true
	var rec func(b *ssa.BasicBlock, p *c30Path)
	rec = func(b *ssa.BasicBlock, p *c30Path) {
		if !ok {
			return
		}
		for _, x := range p.blocks {
			if x == b {
				ok, why = false, "a loop lies on an explored path"
				return
			}
		}
		p.blocks = append(p.blocks, b)
		switch x := b.Instrs[len(b.Instrs)-1].(type) {
		case *ssa.Return:
			n++
			if n > 512 {
				ok, why = false, "too many paths"
				return
			}
			ret(x, p)
		case *ssa.Jump:
			rec(b.Succs[0], p)
		case *ssa.If:
			d := decide(x, p)
			if d.t {
				q := p.clone()
				q.uncertain = q.uncertain || d.uncertain
				if d.tf != "" {
					q.facts = append(q.facts, d.tf)
				}
				rec(b.Succs[0], q)
			}
			if d.f {
				q := p.clone()
				q.uncertain = q.uncertain || d.uncertain
				if d.ff != "" {
					q.facts = append(q.facts, d.ff)
				}
				rec(b.Succs[1], q)
			}
		case *ssa.Panic:
		default:
			ok, why = false, fmt.Sprintf("unsupported terminator %T", x)
		}
	}
	rec(fn.Blocks[0], &c30Path{})
	return
}

// relation helpers: rel is the relation `X rel Y` that holds on the edge.
func c30RelOn(op token.Token, taken bool) string {
	if !taken {
		switch op {
		case token.EQL:
			op = token.NEQ
		case token.NEQ:
			op = token.EQL
		case token.LSS:
			op = token.GEQ
		case token.LEQ:
			op = token.GTR
		case token.GTR:
			op = token.LEQ
		case token.GEQ:
			op = token.LSS
		}
	}
	return op.String()
}

func c30Flip(rel string) string {
	switch rel {
	case "<":
		return ">"
	case "<=":
		return ">="
	case ">":
		return "<"
	case ">=":
		return "<="
	}
	return rel
}

func c30IsCmp(op token.Token) bool {
	switch op {
	case token.EQL, token.NEQ, token.LSS, token.LEQ, token.GTR, token.GEQ:
		return true
	}
	return false
}

func c30EvalRel(a int64, rel string, b int64) bool {
	switch rel {
	case "==":
		return a == b
	case "!=":
		return a != b
	case "<":
		return a < b
	case "<=":
		return a <= b
	case ">":
		return a > b
	case ">=":
		return a >= b
	}
	return false
}

// ---- R1 ------------------------------------------------------------------------------

// c30Mono normalises a product: coef * Π leaves. trunc reports an integer
// division / float->int conversion whose result is scaled further.
type c30Mono struct {
	coef     *big.Rat
	leaves   []ssa.Value
	hasTrunc bool // subtree contains a truncating op
	bad      bool // truncation happens before a multiplication by a non-constant
	ok       bool
}

func c30IsFloat(t types.Type) bool {
	b, ok := t.Underlying().(*types.Basic)
	return ok && b.Info()&types.IsFloat != 0
}

func c30IsInt(t types.Type) bool {
	b, ok := t.Underlying().(*types.Basic)
	return ok && b.Info()&types.IsInteger != 0
}

func c30MonoOf(v ssa.Value, depth int) c30Mono {
	one := func() *big.Rat { return big.NewRat(1, 1) }
	if depth > 16 {
		return c30Mono{}
	}
	switch x := v.(type) {
	case *ssa.Const:
		if x.Value == nil {
			return c30Mono{}
		}
		r, ok := new(big.Rat).SetString(constant.ToFloat(x.Value).ExactString())
		if !ok {
			return c30Mono{}
		}
		return c30Mono{coef: r, ok: true}
	case *ssa.ChangeType:
		return c30MonoOf(x.X, depth+1)
	case *ssa.Convert:
		m := c30MonoOf(x.X, depth+1)
		if m.ok && c30IsInt(x.Type()) && c30IsFloat(x.X.Type()) {
			m.hasTrunc = true
		}
		return m
	case *ssa.BinOp:
		switch x.Op {
		case token.MUL:
			l, r := c30MonoOf(x.X, depth+1), c30MonoOf(x.Y, depth+1)
			if !l.ok || !r.ok {
				return c30Mono{}
			}
			m := c30Mono{coef: new(big.Rat).Mul(l.coef, r.coef), leaves: append(append([]ssa.Value{}, l.leaves...), r.leaves...), ok: true}
			m.hasTrunc = l.hasTrunc || r.hasTrunc
			m.bad = l.bad || r.bad || (l.hasTrunc && len(r.leaves) > 0) || (r.hasTrunc && len(l.leaves) > 0)
			return m
		case token.QUO:
			l, r := c30MonoOf(x.X, depth+1), c30MonoOf(x.Y, depth+1)
			if !l.ok || !r.ok || len(r.leaves) > 0 || r.coef.Sign() == 0 {
				return c30Mono{}
			}
			m := c30Mono{coef: new(big.Rat).Quo(l.coef, r.coef), leaves: l.leaves, ok: true, hasTrunc: l.hasTrunc, bad: l.bad}
			if c30IsInt(x.Type()) {
				m.hasTrunc = true
			}
			return m
		}
	}
	return c30Mono{coef: one(), leaves: []ssa.Value{v}, ok: true}
}

func c30R1(c *an.Check, getFee, newChain *ssa.Function) {
	w := c.W
	pos := w.Pos(getFee.Pos())
	// --- the estimator call
	ests := callsNamed(w, getFee, c30IfEstimate)
	if len(ests) == 0 {
		// the estimator may be consulted through a helper that hands its two
		// results back unchanged
		for _, call := range an.Calls(getFee) {
			f := w.Info(call).Static
			if f == nil || !w.InModule(f) || f.Blocks == nil {
				continue
			}
			inner := callsNamed(w, f, c30IfEstimate)
			if len(inner) != 1 {
				continue
			}
			pass := true
			for _, r := range an.Returns(f) {
				if len(r.Results) != 2 {
					pass = false
					continue
				}
				for i, res := range r.Results {
					ex, ok := res.(*ssa.Extract)
					if !ok || ex.Index != i || ex.Tuple != inner[0].Value() {
						pass = false
					}
				}
			}
			if pass {
				ests = append(ests, call)
			}
		}
	}
	// ... or in a helper of GetFee that computes the whole rate: then the paths of
	// that helper are judged and GetFee only multiplies
	rateFn := getFee
	var rateCall *ssa.Call
	if len(ests) == 0 {
		for _, call := range an.Calls(getFee) {
			cc, isCall := call.(*ssa.Call)
			f := w.Info(call).Static
			if !isCall || f == nil || !w.InModule(f) || f.Blocks == nil || f.Signature.Results().Len() != 1 || !c30IsInt(f.Signature.Results().At(0).Type()) {
				continue
			}
			if inner := callsNamed(w, f, c30IfEstimate); len(inner) == 1 && rateCall == nil {
				rateFn, rateCall, ests = f, cc, inner
			}
		}
	}
	if len(ests) != 1 {
		c.Unknown("C30.R1", "GetFee estimator call", pos, fmt.Sprintf("expected exactly one EstimateFeePerKW call in GetFee, found %d", len(ests)))
		return
	}
	ec, ok := ests[0].(*ssa.Call)
	if !ok {
		c.Unknown("C30.R1", "GetFee estimator call", pos, "estimator called with go/defer")
		return
	}
	var rateV, errV ssa.Value
	if vs := an.ResultValues(ec, 0); len(vs) == 1 {
		rateV = vs[0]
	}
	if vs := an.ResultValues(ec, 1); len(vs) == 1 {
		errV = vs[0]
	}
	if errV == nil {
		c.Bad("C30.R1", "GetFee rate when the estimator fails", w.Pos(ec.Pos()), "the error of EstimateFeePerKW is discarded: a failed estimation cannot select the fallback rate")
		return
	}
	if len(rateFn.Params) == 0 {
		c.Unknown("C30.R1", "GetFee estimator call", pos, "the rate helper has no receiver")
		return
	}
	recv := rateFn.Params[0]
	okVals, badVals := map[ssa.Value]bool{}, map[ssa.Value]bool{}
	otherField := map[string]string{}
	classify := func(v ssa.Value, p *c30Path) string {
		v = p.resolve(v)
		if v == nil {
			return "?"
		}
		if rateV != nil && v == rateV {
			return "est"
		}
		switch x := v.(type) {
		case *ssa.UnOp:
			if x.Op == token.MUL {
				if fa, ok := x.X.(*ssa.FieldAddr); ok && fa.X == recv {
					return "field:" + an.FieldName(fa.X.Type(), fa.Field)
				}
			}
		case *ssa.Const:
			if i, ok := an.ConstInt(x); ok {
				return fmt.Sprintf("const:%d", i)
			}
		case *ssa.Call:
			if b, ok := x.Call.Value.(*ssa.Builtin); ok && b.Name() == "max" {
				return "max"
			}
		}
		return "?:" + w.Term(v)
	}
	// max(...) needs its arguments classified on the same path
	classifyMax := func(v ssa.Value, p *c30Path) []string {
		v = p.resolve(v)
		cl, ok := v.(*ssa.Call)
		if !ok {
			return nil
		}
		var as []string
		for _, a := range cl.Call.Args {
			as = append(as, classify(a, p))
		}
		sort.Strings(as)
		return as
	}
	floor := "field:" + c30FldFloor
	fallbk := "field:" + c30FldFallbk

	type outcome struct{ name, cons, base string }
	outcomes := []outcome{
		{"fails", "GetFee rate when the estimator fails", fallbk},
		{"zero", "GetFee rate when the estimator answers 0", fallbk},
		{"rate", "GetFee rate when the estimator answers a rate", "est"},
	}
	formulaSeen := false
	for _, oc := range outcomes {
		oc := oc
		var bad, unk []string
		nOK := 0
		scenVals := map[ssa.Value]bool{errV: true}
		if rateV != nil {
			scenVals[rateV] = true
		}
		leaf := func(v ssa.Value) (c30V, bool) {
			if rateV != nil && v == rateV && oc.name == "zero" {
				return c30V{k: 2, i: 0}, true
			}
			bo, isB := v.(*ssa.BinOp)
			if !isB || (bo.Op != token.EQL && bo.Op != token.NEQ) {
				return c30V{}, false
			}
			return c30V{}, false
		}
		decide := func(i *ssa.If, p *c30Path) c30Dec {
			// scenario-aware evaluation of comparisons against nil / 0
			var lf func(v ssa.Value) (c30V, bool)
			lf = func(v ssa.Value) (c30V, bool) {
				if r, ok := leaf(v); ok {
					return r, true
				}
				bo, isB := v.(*ssa.BinOp)
				if !isB || (bo.Op != token.EQL && bo.Op != token.NEQ) {
					return c30V{}, false
				}
				x, y := p.resolve(bo.X), p.resolve(bo.Y)
				if (x == errV && an.IsNilConst(bo.Y)) || (y == errV && an.IsNilConst(bo.X)) {
					isNil := oc.name != "fails"
					return c30V{k: 1, b: (bo.Op == token.EQL) == isNil}, true
				}
				if oc.name == "rate" && rateV != nil {
					kx, okx := an.ConstInt(bo.X)
					ky, oky := an.ConstInt(bo.Y)
					if (x == rateV && oky && ky == 0) || (y == rateV && okx && kx == 0) {
						return c30V{k: 1, b: bo.Op == token.NEQ}, true
					}
				}
				return c30V{}, false
			}
			if r := p.eval(i.Cond, &c30Env{leaf: lf}, 0); r.k == 1 {
				return c30Dec{t: r.b, f: !r.b}
			}
			// a comparison with the floor: both ways, remembering what holds
			cond := p.resolve(i.Cond)
			neg := false
			for cond != nil {
				u, isU := cond.(*ssa.UnOp)
				if !isU || u.Op != token.NOT {
					break
				}
				neg, cond = !neg, p.resolve(u.X)
			}
			if bo, isB := cond.(*ssa.BinOp); isB && c30IsCmp(bo.Op) {
				cx, cy := classify(bo.X, p), classify(bo.Y, p)
				var d c30Dec
				switch {
				case cy == floor && cx != floor:
					d = c30Dec{t: true, f: true, tf: cx + " " + c30RelOn(bo.Op, true) + " floor", ff: cx + " " + c30RelOn(bo.Op, false) + " floor"}
				case cx == floor && cy != floor:
					d = c30Dec{t: true, f: true, tf: cy + " " + c30Flip(c30RelOn(bo.Op, true)) + " floor", ff: cy + " " + c30Flip(c30RelOn(bo.Op, false)) + " floor"}
				}
				if d.t {
					if neg {
						d.tf, d.ff = d.ff, d.tf
					}
					return d
				}
			}
			// anything else: both ways; if it depends on the estimator's answer the
			// explored path may be infeasible under this scenario
			return c30Dec{t: true, f: true, uncertain: c30DependsOn(i.Cond, scenVals)}
		}
		ret := func(r *ssa.Return, p *c30Path) {
			var rates []ssa.Value
			if rateFn != getFee {
				// the helper returns the rate itself
				rates = []ssa.Value{r.Results[0]}
			}
			if rateFn == getFee && len(r.Results) != 2 {
				unk = append(unk, "unexpected result arity at "+w.Pos(r.Pos()))
				return
			}
			if rateFn == getFee && !an.IsNilConst(r.Results[1]) {
				if oc.name == "fails" {
					bad = append(bad, "GetFee returns an error at "+w.Pos(r.Pos())+" instead of falling back to the configured rate")
				} else {
					unk = append(unk, "GetFee may return an error at "+w.Pos(r.Pos()))
				}
				return
			}
			m := c30Mono{ok: true}
			if rateFn == getFee {
				m = c30MonoOf(r.Results[0], 0)
			}
			if !m.ok {
				unk = append(unk, "the returned fee is not a product of a rate, the size and constants at "+w.Pos(r.Pos()))
				return
			}
			nSize := 0
			for _, l := range m.leaves {
				if pv := p.resolve(l); pv != nil && len(getFee.Params) > 1 && pv == getFee.Params[1] {
					nSize++
					continue
				}
				rates = append(rates, l)
			}
			if !formulaSeen && rateFn == getFee {
				formulaSeen = true
				want := big.NewRat(4, 1000)
				switch {
				case nSize != 1 || len(rates) != 1:
					c.Unknown("C30.R1", "GetFee fee formula", w.Pos(r.Pos()), fmt.Sprintf("the fee is not rate*txSize*const (%d size factors, %d other factors)", nSize, len(rates)))
				case m.bad:
					c.Bad("C30.R1", "GetFee fee formula", w.Pos(r.Pos()), "an integer division / float->int conversion truncates the rate before it is multiplied by the size: 25 sat/kw * 4 / 1000 becomes 0 sat/vb and the fee 0")
				default:
					c.Decide(m.coef.Cmp(want) == 0, "C30.R1", "GetFee fee formula", w.Pos(r.Pos()),
						"fee = rate[sat/kw] * txSize[vb] * 4/1000",
						"the constant factor of rate*txSize is "+m.coef.RatString()+", not 4/1000 (sat/kw -> sat/vb): the effective rate differs from the clamped one")
				}
			}
			if len(rates) != 1 {
				unk = append(unk, "cannot single out the rate factor at "+w.Pos(r.Pos()))
				return
			}
			rc := classify(rates[0], p)
			facts := strings.Join(p.facts, ", ")
			has := func(rels ...string) bool {
				for _, f := range p.facts {
					for _, rel := range rels {
						if f == oc.base+" "+rel+" floor" {
							return true
						}
					}
				}
				return false
			}
			// a finding on a path that may be infeasible under the scenario is
			// not a verdict
			flag := func(msg string) {
				if p.uncertain {
					unk = append(unk, msg+" (on a path whose feasibility under this estimator outcome could not be decided)")
				} else {
					bad = append(bad, msg)
				}
			}
			known := func(s string) bool { return s == "est" || s == floor || s == fallbk || strings.HasPrefix(s, "const:") }
			switch {
			case rc == "max":
				as := classifyMax(rates[0], p)
				switch {
				case len(as) == 2 && ((as[0] == oc.base && as[1] == floor) || (as[1] == oc.base && as[0] == floor)):
					nOK++
				case len(as) > 0 && func() bool {
					for _, a := range as {
						if !known(a) {
							return false
						}
					}
					return true
				}():
					flag(fmt.Sprintf("rate is max(%s), expected max(%s, floor)", strings.Join(as, ","), oc.base))
				default:
					unk = append(unk, fmt.Sprintf("rate is max(%s): an operand is not one of estimate / fallback / floor", strings.Join(as, ",")))
				}
			case rc == floor && has("<", "<=", "=="):
				nOK++
				okVals[rates[0]] = true
			case rc == oc.base && has(">=", ">", "=="):
				nOK++
				okVals[rates[0]] = true
			case strings.HasPrefix(rc, "field:") && rc != floor && rc != fallbk:
				// a rate remembered in another field (a cache): judged below by what is stored there
				otherField[strings.TrimPrefix(rc, "field:")] = w.Pos(r.Pos())
				nOK++
			case rc == floor:
				badVals[rates[0]] = true
				flag(fmt.Sprintf("the floor is used although %s is not known to be below it (path facts: %s)", oc.base, facts))
			case rc == oc.base:
				badVals[rates[0]] = true
				flag(fmt.Sprintf("%s is used without being known to be >= the floor (path facts: %s)", oc.base, facts))
			case known(rc) || c30IsArith(p.resolve(rates[0])):
				// another of the three known quantities, or arithmetic on them
				flag(fmt.Sprintf("rate is %s, expected max(%s, floor) (path facts: %s)", rc, oc.base, facts))
			default:
				unk = append(unk, fmt.Sprintf("the rate factor %s is computed by something this rule does not look into (expected max(%s, floor))", rc, oc.base))
			}
		}
		okW, why := c30Walk(rateFn, decide, ret)
		switch {
		case !okW:
			c.Unknown("C30.R1", oc.cons, pos, "cannot enumerate the paths of GetFee: "+why)
		case len(bad) > 0:
			c.Bad("C30.R1", oc.cons, pos, "on some path the rate that is multiplied into the fee is not max(base, floor): "+strings.Join(bad, " | "))
		case len(unk) > 0:
			c.Unknown("C30.R1", oc.cons, pos, strings.Join(unk, " | "))
		case nOK == 0:
			c.Unknown("C30.R1", oc.cons, pos, "no path reaches a return under this estimator outcome")
		default:
			c.OK("C30.R1", oc.cons, pos, fmt.Sprintf("%d paths: rate = max(%s, floor)", nOK, oc.base))
		}
	}

	// --- GetFee multiplies what the rate helper returns
	if rateFn != getFee {
		for _, r := range an.Returns(getFee) {
			if len(r.Results) != 2 || !an.IsNilConst(r.Results[1]) {
				continue
			}
			m := c30MonoOf(r.Results[0], 0)
			nSize, nRate, nOther := 0, 0, 0
			for _, l := range m.leaves {
				switch {
				case len(getFee.Params) > 1 && l == ssa.Value(getFee.Params[1]):
					nSize++
				case l == ssa.Value(rateCall):
					nRate++
				default:
					nOther++
				}
			}
			switch {
			case !m.ok || nSize != 1 || nRate != 1 || nOther != 0:
				c.Unknown("C30.R1", "GetFee fee formula", w.Pos(r.Pos()), "the fee is not <rate helper>*txSize*const")
			case m.bad:
				c.Bad("C30.R1", "GetFee fee formula", w.Pos(r.Pos()), "an integer division / float->int conversion truncates the rate before it is multiplied by the size: 25 sat/kw * 4 / 1000 becomes 0 sat/vb and the fee 0")
			default:
				c.Decide(m.coef.Cmp(big.NewRat(4, 1000)) == 0, "C30.R1", "GetFee fee formula", w.Pos(r.Pos()),
					"fee = rate[sat/kw] * txSize[vb] * 4/1000", "the constant factor of rate*txSize is "+m.coef.RatString()+", not 4/1000 (sat/kw -> sat/vb): the effective rate differs from the clamped one")
			}
		}
	}
	// --- a rate that is read back from another field (cache hit) must have been stored clamped
	var ofs []string
	for f := range otherField {
		ofs = append(ofs, f)
	}
	sort.Strings(ofs)
	for _, f := range ofs {
		cons := "GetFee rate read back from field " + f
		verdict, why := "unknown", "no store to the field found"
		for _, st := range w.FieldWriters(f) {
			if an.IsTestSupport(w.FnRel(st.Parent())) {
				continue
			}
			sv := st.Val
			for {
				if cv, ok := sv.(*ssa.Convert); ok {
					sv = cv.X
					continue
				}
				if ct, ok := sv.(*ssa.ChangeType); ok {
					sv = ct.X
					continue
				}
				break
			}
			if k, isK := an.ConstInt(sv); isK && k == 0 {
				continue // resetting the slot
			}
			switch {
			case okVals[sv] && !badVals[sv]:
				if verdict == "unknown" {
					verdict, why = "ok", ""
				}
			case (rateV != nil && sv == rateV) || badVals[sv]:
				verdict, why = "bad", "at "+w.Pos(st.Pos())+" the field is set to "+w.Term(sv)+", the estimate BEFORE the floor clamp"
			default:
				if verdict != "bad" {
					verdict, why = "unknown", "at "+w.Pos(st.Pos())+" the field is set to "+w.Term(sv)+", which this rule cannot relate to the clamped rate"
				}
			}
			if verdict == "bad" {
				break
			}
		}
		switch verdict {
		case "ok":
			c.OK("C30.R1", cons, otherField[f], "the remembered rate is the clamped one")
		case "bad":
			c.Bad("C30.R1", cons, otherField[f], "a path that bypasses the estimator returns b."+f[strings.LastIndex(f, ".")+1:]+" as the rate without clamping it, and "+why+": after one estimate below the floor every fee computed from the remembered rate is below the floor (second GetFee within the cache lifetime)")
		default:
			c.Unknown("C30.R1", cons, otherField[f], "a path returns the field as the rate without clamping it; "+why)
		}
	}

	// --- choke point: estimator consumers
	nEst := 0
	for _, fn := range prodFuncs(w) {
		for _, call := range an.Calls(fn) {
			ci := w.Info(call)
			isEst := ci.Name == c30IfEstimate
			if !isEst && ci.Static != nil && ci.Method == "EstimateFeePerKW" && w.FnRel(ci.Static) == "onchain" {
				isEst = true
			}
			if !isEst {
				continue
			}
			nEst++
			cons := w.FuncName(fn) + " call EstimateFeePerKW"
			switch c30OnlyCalledFrom(w, an.EnclosingTop(fn), getFee, 0) {
			case "yes":
				c.OK("C30.R1", cons, w.Pos(call.Pos()), "the estimator is consulted only inside GetFee (which clamps) or a helper that only GetFee calls")
			case "no":
				c.Bad("C30.R1", cons, w.Pos(call.Pos()), "an estimator rate is obtained outside GetFee and so bypasses the floor/fallback logic")
			default:
				c.Unknown("C30.R1", cons, w.Pos(call.Pos()), "cannot establish who calls this function (no static caller found / chain too deep)")
			}
		}
	}
	c.AtLeast("C30.R1", "EstimateFeePerKW call sites", nEst, 1)

	// --- the two rate fields are set once, from the matching constructor parameter
	for _, fp := range []struct {
		field string
		param int
	}{{c30FldFloor, 2}, {c30FldFallbk, 1}} {
		n := 0
		for _, st := range w.FieldWriters(fp.field) {
			fn := st.Parent()
			if an.IsTestSupport(w.FnRel(fn)) {
				continue
			}
			n++
			cons := w.FuncName(fn) + " store " + fp.field
			val := st.Val
			for {
				if cv, ok := val.(*ssa.Convert); ok {
					val = cv.X
					continue
				}
				if ct, ok := val.(*ssa.ChangeType); ok {
					val = ct.X
					continue
				}
				break
			}
			_, isParam := val.(*ssa.Parameter)
			_, isConst := val.(*ssa.Const)
			switch {
			case fn != newChain && c30OnlyCalledFrom(w, an.EnclosingTop(fn), newChain, 0) == "yes":
				c.Unknown("C30.R1", cons, w.Pos(st.Pos()), "the field is initialised in a helper of NewBitcoinOnChain; the parameter binding is not followed")
			case fn != newChain:
				c.Bad("C30.R1", cons, w.Pos(st.Pos()), "the field is written outside NewBitcoinOnChain: the rate GetFee clamps against is no longer the wired one")
			case fp.param < len(fn.Params) && val == ssa.Value(fn.Params[fp.param]):
				c.OK("C30.R1", cons, w.Pos(st.Pos()), fmt.Sprintf("initialised from constructor parameter #%d", fp.param))
			case isParam || isConst:
				c.Bad("C30.R1", cons, w.Pos(st.Pos()), fmt.Sprintf("the field is initialised from %s, not from constructor parameter #%d", w.Term(st.Val), fp.param))
			default:
				c.Unknown("C30.R1", cons, w.Pos(st.Pos()), fmt.Sprintf("the field is initialised from %s; cannot relate it to constructor parameter #%d", w.Term(st.Val), fp.param))
			}
		}
		c.AtLeast("C30.R1", "writers of "+fp.field, n, 1)
	}

	// --- fee arguments of the spend builder
	// feeSource: "ok" (only GetFee results, and constants 0 when zeroOK), "bad"
	// (some source is positively something else: a non-zero constant or the
	// result of another function), "unknown" (a source this rule cannot follow).
	feeSource := func(v ssa.Value, zeroOK bool) (string, []string) {
		ss := w.Sources(v, an.FlowOpts{IntoCallees: true, StopAt: map[string]bool{c30FnGetFee: true}})
		verdict := "ok"
		if len(ss.Leaves) == 0 {
			verdict = "unknown"
		}
		for _, l := range ss.Leaves {
			switch {
			case l.Kind == "call" && l.Name == c30FnGetFee+"#0":
			case l.Kind == "const" && l.Name == "0" && zeroOK:
			case l.Kind == "const", l.Kind == "call" && strings.HasPrefix(l.Name, "func:"):
				verdict = "bad"
			default:
				if verdict == "ok" {
					verdict = "unknown"
				}
			}
		}
		return verdict, ss.Names()
	}
	feeDecide := func(cons, pos string, v ssa.Value, zeroOK bool, okText, badText string) {
		switch verdict, names := feeSource(v, zeroOK); verdict {
		case "ok":
			c.OK("C30.R1", cons, pos, okText)
		case "bad":
			c.Bad("C30.R1", cons, pos, fmt.Sprintf(badText, names))
		default:
			c.Unknown("C30.R1", cons, pos, fmt.Sprintf("cannot follow the fee back to BitcoinOnChain.GetFee (sources %v)", names))
		}
	}
	preps := findCallSites(w, c30FnPrepare)
	c.AtLeast("C30.R1", "PrepareSpendingTransaction uses (call sites, a shared helper counted once per caller)", c30Instances(w, preps), 6)
	for _, p := range preps {
		args := p.Common().Args
		if len(args) != 7 {
			c.Unknown("C30.R1", w.FuncName(p.Parent())+" PrepareSpendingTransaction fee argument", w.Pos(p.Pos()), "unexpected arity")
			continue
		}
		feeDecide(w.FuncName(p.Parent())+" PrepareSpendingTransaction fee argument", w.Pos(p.Pos()), args[6], true,
			"prepared fee is 0 (GetFee is called inside) or a GetFee result",
			"the fee of a spending transaction comes from %v, not from BitcoinOnChain.GetFee: the floor does not apply")
	}
	if prep := w.Func("onchain", "(*BitcoinOnChain).PrepareSpendingTransaction"); prep == nil || len(prep.Params) != 7 {
		c.Anchor("onchain.(*BitcoinOnChain).PrepareSpendingTransaction does not resolve with 7 parameters")
	} else {
		pf := prep.Params[6]
		nPhi := 0
		if pf.Referrers() != nil {
			for _, r := range *pf.Referrers() {
				switch x := r.(type) {
				case *ssa.Phi:
					nPhi++
					for _, e := range x.Edges {
						if e == ssa.Value(pf) {
							continue
						}
						feeDecide("PrepareSpendingTransaction fee when none is prepared", w.Pos(x.Pos()), e, false,
							"without a prepared fee the spend pays a GetFee result",
							"without a prepared fee the spend pays %v instead of a GetFee result")
					}
				case *ssa.BinOp:
					if !c30IsCmp(x.Op) {
						c.Unknown("C30.R1", "PrepareSpendingTransaction fee when none is prepared", w.Pos(x.Pos()), "the prepared fee is used in arithmetic directly")
					}
				}
			}
		}
		c.AtLeast("C30.R1", "merge points of preparedFee with a GetFee result", nPhi, 1)
	}

	// --- fee getters of the Bitcoin wallet adapters
	walletT := w.Named("swap", "Wallet")
	chainT := w.Named("onchain", "BitcoinOnChain")
	if walletT == nil || chainT == nil {
		c.Anchor("swap.Wallet / onchain.BitcoinOnChain do not resolve")
		return
	}
	wi, _ := walletT.Underlying().(*types.Interface)
	nAd := 0
	for _, rel := range c30SortedRels(w) {
		if an.IsTestSupport(rel) {
			continue
		}
		scope := w.ByRel[rel].Types.Scope()
		for _, name := range scope.Names() {
			tn, ok := scope.Lookup(name).(*types.TypeName)
			if !ok {
				continue
			}
			nt, ok := tn.Type().(*types.Named)
			if !ok || wi == nil {
				continue
			}
			st, ok := nt.Underlying().(*types.Struct)
			if !ok || !(types.Implements(types.NewPointer(nt), wi) || types.Implements(nt, wi)) {
				continue
			}
			holdsChain := false
			for i := 0; i < st.NumFields(); i++ {
				if an.NamedOf(st.Field(i).Type()) == chainT {
					holdsChain = true
				}
			}
			if !holdsChain {
				continue
			}
			nAd++
			for _, mname := range []string{"GetRefundFee", "GetFlatOpeningTXFee"} {
				m := w.Method(nt, mname)
				cons := rel + "." + nt.Obj().Name() + "." + mname
				if m == nil || m.Blocks == nil {
					c.Unknown("C30.R1", cons, "-", "method not found")
					continue
				}
				for _, r := range an.Returns(m) {
					feeDecide(cons, w.Pos(m.Pos()), r.Results[0], false, "the Bitcoin wallet adapter reports a GetFee result",
						"the Bitcoin wallet adapter reports a fee from %v, not from BitcoinOnChain.GetFee")
				}
			}
		}
	}
	c.AtLeast("C30.R1", "Bitcoin wallet adapters (swap.Wallet implementations holding a *BitcoinOnChain)", nAd, 2)
}

// c30OnlyCalledFrom: every production path of static calls into fn starts in
// root ("yes"), some caller is another function ("no"), or it cannot be told
// ("unknown": no static caller, e.g. called through an interface, or too deep).
func c30OnlyCalledFrom(w *an.World, fn, root *ssa.Function, depth int) string {
	if fn == root {
		return "yes"
	}
	if c30IsAPI(fn) {
		return "no" // another entry point of the package
	}
	if depth > 3 {
		return "unknown"
	}
	n := 0
	res := "yes"
	for _, g := range prodFuncs(w) {
		for _, call := range an.Calls(g) {
			if w.Info(call).Static != fn {
				continue
			}
			n++
			switch c30OnlyCalledFrom(w, an.EnclosingTop(g), root, depth+1) {
			case "no":
				return "no"
			case "unknown":
				res = "unknown"
			}
		}
	}
	if n == 0 {
		// an exported function or method without static callers is reachable by
		// other means: not provably confined to root
		if fn.Object() != nil && fn.Object().Exported() {
			return "no"
		}
		return "unknown"
	}
	return res
}

// c30Instances counts uses: a call site inside a helper that has static
// production callers counts once per caller (so that folding repeated code into
// one helper does not reduce the count).
func c30Instances(w *an.World, sites []ssa.CallInstruction) int {
	n := 0
	for _, s := range sites {
		fn := an.EnclosingTop(s.Parent())
		k := 0
		for _, g := range prodFuncs(w) {
			for _, call := range an.Calls(g) {
				if w.Info(call).Static == fn {
					k++
				}
			}
		}
		if k < 1 {
			k = 1
		}
		n += k
	}
	return n
}

func c30SortedRels(w *an.World) []string {
	var out []string
	for r := range w.ByRel {
		out = append(out, r)
	}
	sort.Strings(out)
	return out
}

// ---- R2 ------------------------------------------------------------------------------

func c30R2(c *an.Check, fn *ssa.Function, legacy, modern int64) {
	w := c.W
	pos := w.Pos(fn.Pos())
	c.Decide(legacy == 253 && modern == 25, "C30.R2", "fee floor constants", pos, "LegacyFeeFloorSatPerKw = 253, ModernFeeFloorSatPerKw = 25",
		fmt.Sprintf("LegacyFeeFloorSatPerKw = %d, ModernFeeFloorSatPerKw = %d; the protocol floors are 253 and 25 sat/kw", legacy, modern))

	// the parsed version value: the in-module call whose result is a pointer to
	// a struct with integer fields major and minor (identified by shape, not by
	// the helper's name)
	var parsed *ssa.Call
	for _, call := range an.Calls(fn) {
		cc, ok := call.(*ssa.Call)
		if !ok {
			continue
		}
		ci := w.Info(call)
		if ci.Static == nil || !w.InModule(ci.Static) || !c30IsVersionStruct(cc.Type()) {
			continue
		}
		if parsed != nil {
			c.Unknown("C30.R2", "DetermineFeeFloor table", pos, "more than one call yields a parsed version")
			return
		}
		parsed = cc
	}
	if parsed == nil {
		c.Unknown("C30.R2", "DetermineFeeFloor table", pos, "DetermineFeeFloor does not obtain a parsed version (pointer to a struct with integer fields major/minor) from an in-module call; the version fields cannot be located")
		return
	}
	fieldOf := func(v ssa.Value) string {
		u, ok := v.(*ssa.UnOp)
		if !ok || u.Op != token.MUL {
			return ""
		}
		fa, ok := u.X.(*ssa.FieldAddr)
		if !ok || fa.X != ssa.Value(parsed) {
			return ""
		}
		n := an.FieldName(fa.X.Type(), fa.Field)
		return n[strings.LastIndex(n, ".")+1:]
	}
	// grid: every compared constant and its neighbours
	gm := map[int64]bool{0: true, 1: true, 28: true, 29: true, 30: true, 31: true, 100: true}
	gn := map[int64]bool{0: true, 1: true, 2: true, 3: true, 10: true, 99: true}
	for _, b := range fn.Blocks {
		for _, in := range b.Instrs {
			bo, ok := in.(*ssa.BinOp)
			if !ok || !c30IsCmp(bo.Op) {
				continue
			}
			for _, pair := range [][2]ssa.Value{{bo.X, bo.Y}, {bo.Y, bo.X}} {
				k, isK := an.ConstInt(pair[1])
				if !isK {
					continue
				}
				switch fieldOf(pair[0]) {
				case "major":
					gm[k-1], gm[k], gm[k+1] = true, true, true
				case "minor":
					gn[k-1], gn[k], gn[k+1] = true, true, true
				}
			}
		}
	}
	// constants handed to in-module helpers (e.g. version.atLeast(29, 2)) may be
	// compared with either component
	for _, call := range an.Calls(fn) {
		if f := call.Common().StaticCallee(); f == nil || !w.InModule(f) {
			continue
		}
		for _, a := range call.Common().Args {
			if k, isK := an.ConstInt(a); isK && c30IsInt(a.Type()) && k >= 0 && k < 1000 {
				gm[k-1], gm[k], gm[k+1] = true, true, true
				gn[k-1], gn[k], gn[k+1] = true, true, true
			}
		}
	}
	type pt struct {
		nilV         bool
		major, minor int64
	}
	var pts []pt
	for _, M := range c30Keys(gm) {
		for _, N := range c30Keys(gn) {
			if M >= 0 && N >= 0 {
				pts = append(pts, pt{false, M, N})
			}
		}
	}
	// run evaluates the function on one point. Each outcome is the returned
	// constant (-1 when it cannot be resolved) and whether the path crossed a
	// branch that could not be evaluated.
	type outcome struct {
		val       int64
		uncertain bool
	}
	run := func(pt pt) (got []outcome, ok bool, why string) {
		env := &c30Env{w: w}
		env.leaf = func(v ssa.Value) (c30V, bool) {
			if bo, isB := v.(*ssa.BinOp); isB && (bo.Op == token.EQL || bo.Op == token.NEQ) {
				if (bo.X == ssa.Value(parsed) && an.IsNilConst(bo.Y)) || (bo.Y == ssa.Value(parsed) && an.IsNilConst(bo.X)) {
					return c30V{k: 1, b: (bo.Op == token.EQL) == pt.nilV}, true
				}
			}
			if v == ssa.Value(parsed) {
				if pt.nilV {
					return c30V{}, true
				}
				return c30V{k: 3, obj: parsed}, true
			}
			return c30V{}, false
		}
		env.field = func(obj ssa.Value, name string) (c30V, bool) {
			if obj != ssa.Value(parsed) || pt.nilV {
				return c30V{}, false
			}
			switch name {
			case "major":
				return c30V{k: 2, i: pt.major}, true
			case "minor":
				return c30V{k: 2, i: pt.minor}, true
			}
			return c30V{}, false
		}
		decide := func(i *ssa.If, p *c30Path) c30Dec {
			if r := p.eval(i.Cond, env, 0); r.k == 1 {
				return c30Dec{t: r.b, f: !r.b}
			}
			return c30Dec{t: true, f: true, uncertain: true}
		}
		ret := func(r *ssa.Return, p *c30Path) {
			o := outcome{val: -1, uncertain: p.uncertain}
			if rv := p.eval(r.Results[0], env, 0); rv.k == 2 {
				o.val = rv.i
			}
			got = append(got, o)
		}
		ok, why = c30Walk(fn, decide, ret)
		return
	}
	// judge: "ok", "bad" (a certain path returns a wrong constant), "unknown"
	judge := func(got []outcome, want int64) (string, []int64) {
		verdict := "ok"
		var vals []int64
		if len(got) == 0 {
			return "unknown", nil
		}
		for _, o := range got {
			vals = append(vals, o.val)
			switch {
			case o.val == want:
			case o.val >= 0 && !o.uncertain:
				return "bad", vals
			default:
				verdict = "unknown"
			}
		}
		return verdict, vals
	}
	// unparsable
	got, okW, why := run(pt{nilV: true})
	if !okW {
		c.Unknown("C30.R2", "DetermineFeeFloor(unparsable)", pos, "cannot evaluate: "+why)
	} else {
		switch v, vals := judge(got, 253); v {
		case "ok":
			c.OK("C30.R2", "DetermineFeeFloor(unparsable)", pos, "an unparsable version string yields 253")
		case "bad":
			c.Bad("C30.R2", "DetermineFeeFloor(unparsable)", pos, fmt.Sprintf("an unparsable version string yields %v, expected the legacy floor 253", vals))
		default:
			c.Unknown("C30.R2", "DetermineFeeFloor(unparsable)", pos, fmt.Sprintf("the result for an unparsable version string could not be determined (%v; -1 = not a constant)", vals))
		}
	}
	var wrong, undecided []string
	unknown := ""
	for _, p := range pts {
		got, okW, why := run(p)
		if !okW {
			unknown = why
			break
		}
		want := int64(253)
		if p.major > 29 || (p.major == 29 && p.minor >= 2) {
			want = 25
		}
		switch v, vals := judge(got, want); v {
		case "bad":
			wrong = append(wrong, fmt.Sprintf("%d.%d -> %v (expected %d)", p.major, p.minor, vals, want))
		case "unknown":
			undecided = append(undecided, fmt.Sprintf("%d.%d -> %v", p.major, p.minor, vals))
		}
	}
	switch {
	case unknown != "":
		c.Unknown("C30.R2", "DetermineFeeFloor table", pos, "cannot evaluate DetermineFeeFloor: "+unknown)
	case len(wrong) > 0:
		if len(wrong) > 8 {
			wrong = append(wrong[:8], fmt.Sprintf("… %d more", len(wrong)-8))
		}
		c.Bad("C30.R2", "DetermineFeeFloor table", pos, "the floor table deviates from `25 iff version >= 29.2, else 253`: "+strings.Join(wrong, "; "))
	case len(undecided) > 0:
		c.Unknown("C30.R2", "DetermineFeeFloor table", pos, "some results depend on conditions other than comparisons of version.major/minor with constants: "+undecided[0])
	default:
		c.OK("C30.R2", "DetermineFeeFloor table", pos, fmt.Sprintf("%d (major,minor) points incl. every compared constant ±1 agree with `25 iff >= 29.2 else 253`", len(pts)))
	}
	c.AtLeast("C30.R2", "grid points", len(pts), 42)

	// --- which submatch feeds which field
	c30R2Parse(c, parsed.Call.StaticCallee())
}

// c30IsVersionStruct: pointer to a named struct with integer fields major and minor.
func c30IsVersionStruct(t types.Type) bool {
	p, ok := t.Underlying().(*types.Pointer)
	if !ok {
		return false
	}
	st, ok := p.Elem().Underlying().(*types.Struct)
	if !ok {
		return false
	}
	n := 0
	for i := 0; i < st.NumFields(); i++ {
		if f := st.Field(i); (f.Name() == "major" || f.Name() == "minor") && c30IsInt(f.Type()) {
			n++
		}
	}
	return n == 2
}

func c30Keys(m map[int64]bool) []int64 {
	var out []int64
	for k := range m {
		out = append(out, k)
	}
	sort.Slice(out, func(i, j int) bool { return out[i] < out[j] })
	return out
}

func c30R2Parse(c *an.Check, norm *ssa.Function) {
	w := c.W
	if norm == nil || norm.Blocks == nil {
		c.Unknown("C30.R2", "version parse wiring", "-", "the version parser has no body; the parse is not checked")
		return
	}
	pos := w.Pos(norm.Pos())
	// submatch call
	var sub *ssa.Call
	for _, call := range an.Calls(norm) {
		if cc, ok := call.(*ssa.Call); ok && w.Info(call).Name == "func:(*regexp.Regexp).FindStringSubmatch" {
			sub = cc
		}
	}
	if sub == nil {
		c.Unknown("C30.R2", "version parse wiring", pos, "no FindStringSubmatch call in "+norm.Name())
		return
	}
	// segment helpers met on the way: callee -> (index of the submatch slice
	// argument, index of the group argument)
	type segUse struct{ si, ki int }
	segs := map[*ssa.Function]segUse{}
	// the index of the submatch that a value is parsed from: Atoi(m[k]) or helper(m, k)
	groupOf := func(v ssa.Value) (int64, bool) {
		for {
			if cv, ok := v.(*ssa.Convert); ok {
				v = cv.X
				continue
			}
			break
		}
		var call *ssa.Call
		switch x := v.(type) {
		case *ssa.Extract:
			call, _ = x.Tuple.(*ssa.Call)
			if x.Index != 0 {
				return 0, false
			}
		case *ssa.Call:
			call = x
		}
		if call == nil {
			return 0, false
		}
		ci := w.Info(call)
		if ci.Name == "func:strconv.Atoi" {
			u, ok := call.Call.Args[0].(*ssa.UnOp)
			if !ok || u.Op != token.MUL {
				return 0, false
			}
			ia, ok := u.X.(*ssa.IndexAddr)
			if !ok || ia.X != ssa.Value(sub) {
				return 0, false
			}
			return an.ConstInt(ia.Index)
		}
		if ci.Static != nil && w.InModule(ci.Static) && ci.Static.Blocks != nil {
			si, ki := -1, -1
			var k int64
			for i, a := range call.Call.Args {
				if a == ssa.Value(sub) {
					si = i
				} else if kv, isK := an.ConstInt(a); isK && c30IsInt(a.Type()) {
					ki, k = i, kv
				}
			}
			if si >= 0 && ki >= 0 {
				segs[ci.Static] = segUse{si, ki}
				return k, true
			}
		}
		return 0, false
	}
	want := map[string]int64{"major": 1, "minor": 2}
	found := 0
	for _, b := range norm.Blocks {
		for _, in := range b.Instrs {
			al, ok := in.(*ssa.Alloc)
			if !ok || !c30IsVersionStruct(al.Type()) {
				continue
			}
			for _, f := range []string{"major", "minor"} {
				v, has := an.CompositeFieldValue(al, f)
				cons := norm.Name() + " " + f
				if !has {
					c.Bad("C30.R2", cons, w.Pos(al.Pos()), "the field is never set: it stays 0 for every version")
					continue
				}
				found++
				g, ok := groupOf(v)
				switch {
				case !ok:
					c.Unknown("C30.R2", cons, w.Pos(al.Pos()), "cannot tell which submatch feeds the field: "+w.Term(v))
				default:
					c.Decide(g == want[f], "C30.R2", cons, w.Pos(al.Pos()), fmt.Sprintf("parsed from submatch %d", g),
						fmt.Sprintf("%s is parsed from submatch %d of the version pattern, expected %d: the floor is chosen from the wrong version component", f, g, want[f]))
				}
			}
		}
	}
	c.AtLeast("C30.R2", "version fields set by the parser", found, 2)
	// helper(m, i) = Atoi(m[i]) or 0
	var segFns []*ssa.Function
	for f := range segs {
		segFns = append(segFns, f)
	}
	sort.Slice(segFns, func(i, j int) bool { return segFns[i].Name() < segFns[j].Name() })
	for _, seg := range segFns {
		use := segs[seg]
		verdict := "ok"
		var segNames []string
		for _, r := range an.Returns(seg) {
			ss := w.Sources(r.Results[0], an.FlowOpts{})
			segNames = append(segNames, ss.Names()...)
			for _, l := range ss.Leaves {
				switch {
				case l.Kind == "const" && l.Name == "0":
				case l.Kind == "call" && l.Name == "func:strconv.Atoi#0":
					var ia *ssa.IndexAddr
					if u, ok := l.Call.Call.Args[0].(*ssa.UnOp); ok && u.Op == token.MUL {
						ia, _ = u.X.(*ssa.IndexAddr)
					}
					switch {
					case ia == nil || use.si >= len(seg.Params) || use.ki >= len(seg.Params):
						if verdict == "ok" {
							verdict = "unknown"
						}
					case ia.X != ssa.Value(seg.Params[use.si]):
						if verdict == "ok" {
							verdict = "unknown"
						}
					case ia.Index != ssa.Value(seg.Params[use.ki]):
						verdict = "bad" // a number is parsed from another position than the requested group
					}
				default:
					if verdict == "ok" {
						verdict = "unknown"
					}
				}
			}
		}
		switch verdict {
		case "ok":
			c.OK("C30.R2", seg.Name(), w.Pos(seg.Pos()), "returns Atoi(matches[idx]) or 0")
		case "bad":
			c.Bad("C30.R2", seg.Name(), w.Pos(seg.Pos()), fmt.Sprintf("%s parses a number from another element than matches[idx] (sources %v)", seg.Name(), segNames))
		default:
			c.Unknown("C30.R2", seg.Name(), w.Pos(seg.Pos()), fmt.Sprintf("cannot establish that %s returns Atoi(matches[idx]) or 0 (sources %v)", seg.Name(), segNames))
		}
	}

	// the pattern constant, evaluated on sample subversion strings
	pat := ""
	nPat := 0
	patOf := func(v ssa.Value) {
		if cc, ok := v.(*ssa.Call); ok && w.Info(cc).Name == "func:regexp.MustCompile" {
			if s, ok := an.ConstString(cc.Call.Args[0]); ok {
				pat = s
				nPat++
			}
		}
	}
	switch rv := sub.Call.Args[0].(type) {
	case *ssa.Call:
		patOf(rv) // compiled in place
	case *ssa.UnOp:
		// a package-level pattern (whatever its name): its initialiser
		if g, ok := rv.X.(*ssa.Global); ok && rv.Op == token.MUL && g.Pkg != nil {
			if ini := g.Pkg.Func("init"); ini != nil {
				for _, b := range ini.Blocks {
					for _, in := range b.Instrs {
						if st, ok := in.(*ssa.Store); ok && st.Addr == ssa.Value(g) {
							patOf(st.Val)
						}
					}
				}
			}
		}
	}
	if nPat != 1 {
		c.Unknown("C30.R2", "version pattern", pos, "the regular expression used by "+norm.Name()+" is not one regexp.MustCompile(<constant>) (in place or as a package-level variable)")
		return
	}
	re, err := regexp.Compile(pat)
	if err != nil {
		c.Bad("C30.R2", "version pattern", pos, "the version pattern does not compile: "+err.Error())
		return
	}
	samples := []struct{ in, major, minor string }{
		{"/Satoshi:29.2.0/", "29", "2"},
		{"/Satoshi:29.1.0/", "29", "1"},
		{"/Satoshi:30.0.0/", "30", "0"},
		{"/Satoshi:0.21.1/", "0", "21"},
		{"/Satoshi:28.0.0(some comment)/", "28", "0"},
		{"/Satoshi:31/", "31", ""},
	}
	var wrong []string
	for _, s := range samples {
		m := re.FindStringSubmatch(s.in)
		if m == nil || len(m) < 3 || m[1] != s.major || m[2] != s.minor {
			wrong = append(wrong, fmt.Sprintf("%q -> %q", s.in, m))
		}
	}
	if m := re.FindStringSubmatch("/Satoshi:unknown/"); m != nil {
		wrong = append(wrong, fmt.Sprintf("%q -> %q (expected no match)", "/Satoshi:unknown/", m))
	}
	c.Decide(len(wrong) == 0, "C30.R2", "version pattern", pos, "submatches 1/2 of the pattern are major/minor on the sample subversion strings",
		"the version pattern does not extract major/minor: "+strings.Join(wrong, "; "))
}

// ---- R3 ------------------------------------------------------------------------------

func c30R3(c *an.Check, legacy int64) {
	w := c.W
	opts := an.FlowOpts{IntoCallees: true, IntoCallers: true, StopAt: map[string]bool{c30FnFloor: true}}
	check := func(site ssa.CallInstruction, what string, arg ssa.Value, needDetected bool) {
		fn := site.Parent()
		cons := w.FuncName(fn) + " " + what
		ss := w.Sources(arg, opts)
		detected := ss.Has("call", c30FnFloor+"#0")
		var low, other []string
		allConst := len(ss.Leaves) > 0
		for _, l := range ss.Leaves {
			switch {
			case l.Kind == "call" && l.Name == c30FnFloor+"#0":
				allConst = false
			case l.Kind == "const":
				if k, ok := an.ConstInt(l.Val); !ok || k < legacy {
					low = append(low, l.String())
				}
			default:
				allConst = false
				other = append(other, l.String())
			}
		}
		switch {
		case len(low) > 0:
			c.Bad("C30.R3", cons, w.Pos(site.Pos()), fmt.Sprintf("the floor can be the constant %v, which is below the legacy floor %d and is not DetermineFeeFloor's result: fees below the node's relay floor become possible", low, legacy))
		case len(other) > 0 || len(ss.Leaves) == 0:
			c.Unknown("C30.R3", cons, w.Pos(site.Pos()), fmt.Sprintf("the floor comes from %v, which this rule cannot relate to DetermineFeeFloor or a constant", other))
		case needDetected && !detected && allConst:
			c.Bad("C30.R3", cons, w.Pos(site.Pos()), fmt.Sprintf("the floor (%v) does not come from DetermineFeeFloor although this main detects the Bitcoin Core version", ss.Names()))
		default:
			c.OK("C30.R3", cons, w.Pos(site.Pos()), fmt.Sprintf("floor sources: %v", ss.Names()))
		}
	}
	chains := findCallSites(w, c30FnNewChain)
	c.AtLeast("C30.R3", "NewBitcoinOnChain call sites", len(chains), 2)
	gests := findCallSites(w, c30FnNewGEst)
	c.AtLeast("C30.R3", "NewGBitcoindEstimator call sites", len(gests), 1)
	// a main package that builds the bitcoind estimator can detect the version
	usesBitcoind := map[string]bool{}
	for _, g := range gests {
		usesBitcoind[w.FnRel(g.Parent())] = true
	}
	nDet := 0
	for _, s := range chains {
		args := s.Common().Args
		if len(args) != 4 {
			c.Unknown("C30.R3", w.FuncName(s.Parent())+" NewBitcoinOnChain floor", w.Pos(s.Pos()), "unexpected arity")
			continue
		}
		if usesBitcoind[w.FnRel(s.Parent())] {
			nDet++
		}
		check(s, "NewBitcoinOnChain floor", args[2], usesBitcoind[w.FnRel(s.Parent())])
	}
	for _, s := range gests {
		args := s.Common().Args
		if len(args) != 4 {
			c.Unknown("C30.R3", w.FuncName(s.Parent())+" NewGBitcoindEstimator floor", w.Pos(s.Pos()), "unexpected arity")
			continue
		}
		check(s, "NewGBitcoindEstimator floor", args[3], true)
	}
	c.AtLeast("C30.R3", "mains that wire a bitcoind-detected floor", nDet, 1)
}

// ---- R4 ------------------------------------------------------------------------------

// c30Side: which of the two string parameters a value derives from ("a", "b",
// "ab", "").
func c30Side(w *an.World, fn *ssa.Function, v ssa.Value) string {
	ss := w.Sources(v, an.FlowOpts{ThroughCalls: map[string]bool{"func:strconv.Atoi": true, "func:(*regexp.Regexp).FindAllString": true}, MaxDepth: 8})
	a, b := false, false
	for _, l := range ss.Leaves {
		if l.Kind == "param" && len(fn.Params) >= 2 {
			if l.Val == ssa.Value(fn.Params[0]) {
				a = true
			}
			if l.Val == ssa.Value(fn.Params[1]) {
				b = true
			}
		}
	}
	switch {
	case a && b:
		return "ab"
	case a:
		return "a"
	case b:
		return "b"
	}
	return ""
}

// c30Elem: v is a load of &s[idx]; returns s and idx.
func c30Elem(v ssa.Value) (s, idx ssa.Value, ok bool) {
	u, isU := v.(*ssa.UnOp)
	if !isU || u.Op != token.MUL {
		return nil, nil, false
	}
	ia, isIA := u.X.(*ssa.IndexAddr)
	if !isIA {
		return nil, nil, false
	}
	return ia.X, ia.Index, true
}

type c30Cmp struct {
	i        *ssa.If
	rel      [2]string // relation `a[i] rel b[i]` on the true / false edge
	idx      ssa.Value
	sameIdx  bool
	shifted  bool
	describe string
}

func c30R4(c *an.Check, fn *ssa.Function) {
	w := c.W
	pos := w.Pos(fn.Pos())
	if len(fn.Params) != 2 {
		c.Unknown("C30.R4", "CompareVersionStrings", pos, "unexpected signature")
		return
	}
	// (a) Atoi errors propagate
	nAtoi := 0
	for _, call := range callsNamed(w, fn, "func:strconv.Atoi") {
		cc, ok := call.(*ssa.Call)
		if !ok {
			continue
		}
		nAtoi++
		_, failE := an.OkEdges(cc)
		var errV ssa.Value
		if vs := an.ResultValues(cc, 1); len(vs) > 0 {
			errV = vs[0]
		}
		side := c30Side(w, fn, cc.Call.Args[0])
		cons := "CompareVersionStrings Atoi(" + side + ") error"
		if len(failE) == 0 {
			if errV == nil || errV.Referrers() == nil || len(*errV.Referrers()) == 0 {
				c.Bad("C30.R4", cons, w.Pos(call.Pos()), "the Atoi error is not tested: a malformed component silently counts as 0")
			} else {
				c.Unknown("C30.R4", cons, w.Pos(call.Pos()), "the Atoi error is not compared with nil here but handed on ("+w.Term(errV)+"); the rule does not follow it")
			}
			continue
		}
		var start []*ssa.BasicBlock
		for _, e := range failE {
			start = append(start, e.To())
		}
		reach := an.ReachBlocks(start, nil, nil)
		verdict, n := "ok", 0
		for _, r := range an.Returns(fn) {
			if !reach[r.Block()] {
				continue
			}
			n++
			switch {
			case c30ErrFrom(r.Results[1], errV, 0):
			case an.IsNilConst(r.Results[1]):
				verdict = "bad"
			case c30FreshErr(r.Results[1]):
				// another, certainly non-nil error: the failure is still reported
			default:
				if verdict == "ok" {
					verdict = "unknown"
				}
			}
		}
		switch {
		case verdict == "bad":
			c.Bad("C30.R4", cons, w.Pos(call.Pos()), "after a failed Atoi the function can return a nil error: a malformed version string is compared as if it were well-formed")
		case verdict == "unknown" || n == 0:
			c.Unknown("C30.R4", cons, w.Pos(call.Pos()), "cannot establish that the return after a failed Atoi carries a non-nil error")
		default:
			c.OK("C30.R4", cons, w.Pos(call.Pos()), "a malformed component is returned as an error")
		}
	}
	c.AtLeast("C30.R4", "Atoi calls", nAtoi, 2)

	// the function itself, interpreted on sample pairs (decisive where it can be run)
	samplesOK := c30R4Samples(c, fn)

	// (b) element comparisons a[i] ? b[i]
	var cmps []*c30Cmp
	for _, b := range fn.Blocks {
		i, isIf := b.Instrs[len(b.Instrs)-1].(*ssa.If)
		if !isIf {
			continue
		}
		bo, isB := i.Cond.(*ssa.BinOp)
		if !isB || !c30IsCmp(bo.Op) {
			continue
		}
		sx, ix, okx := c30Elem(bo.X)
		sy, iy, oky := c30Elem(bo.Y)
		if !okx || !oky {
			continue
		}
		sideX, sideY := c30Side(w, fn, sx), c30Side(w, fn, sy)
		cm := &c30Cmp{i: i, idx: ix, sameIdx: ix == iy}
		if bx, ox, ok1 := c30Offset(ix); ok1 {
			if by, oy, ok2 := c30Offset(iy); ok2 && bx == by {
				cm.sameIdx, cm.shifted = ox == oy, ox != oy
			}
		}
		switch {
		case sideX == "a" && sideY == "b":
			cm.rel = [2]string{c30RelOn(bo.Op, true), c30RelOn(bo.Op, false)}
		case sideX == "b" && sideY == "a":
			cm.rel = [2]string{c30Flip(c30RelOn(bo.Op, true)), c30Flip(c30RelOn(bo.Op, false))}
		default:
			c.Unknown("C30.R4", "CompareVersionStrings component comparison", w.Pos(bo.Pos()), fmt.Sprintf("a comparison of slice elements whose operands derive from %q and %q, not from a and b", sideX, sideY))
			continue
		}
		cm.describe = fmt.Sprintf("a[i] %s b[i] at %s", cm.rel[0], w.Pos(bo.Pos()))
		cmps = append(cmps, cm)
	}
	if !c.AtLeast("C30.R4", "component comparisons a[i] ? b[i]", len(cmps), 1) {
		return
	}
	for _, cm := range cmps {
		cons := "CompareVersionStrings same index " + cm.rel[0]
		switch {
		case cm.sameIdx:
			c.OK("C30.R4", cons, w.Pos(cm.i.Cond.Pos()), "both components are read at the same index")
		case cm.shifted:
			c.Bad("C30.R4", cons, w.Pos(cm.i.Cond.Pos()), "the components of a and b are compared at different indices (same loop variable, different constant offset)")
		default:
			c.Unknown("C30.R4", cons, w.Pos(cm.i.Cond.Pos()), "the two components are indexed by different expressions; cannot tell whether the indices are equal")
		}
	}
	header := c30PhiBlock(cmps[0].idx)
	if header == nil {
		c.Unknown("C30.R4", "CompareVersionStrings loop", pos, "the component index is not a loop variable")
		return
	}
	// knowledge on an edge set: relations that hold whenever `target` is
	// reached within one iteration (edges cut, start at the loop header)
	known := func(reaches func(cut an.Edge) bool) map[string]bool {
		k := map[string]bool{}
		for _, cm := range cmps {
			for e := 0; e < 2; e++ {
				edge := an.Edge{From: cm.i.Block(), Idx: e}
				if !reaches(edge) {
					k[cm.rel[e]] = true
				}
			}
		}
		return k
	}
	implies := func(k map[string]bool, rel string) bool {
		switch rel {
		case "<":
			return k["<"] || (k["!="] && k["<="])
		case ">":
			return k[">"] || (k["!="] && k[">="])
		case ">=":
			return k[">="] || k[">"] || k["=="]
		case "<=":
			return k["<="] || k["<"] || k["=="]
		}
		return false
	}
	kstr := func(k map[string]bool) string {
		var s []string
		for r := range k {
			s = append(s, "a[i] "+r+" b[i]")
		}
		sort.Strings(s)
		if len(s) == 0 {
			return "nothing"
		}
		return strings.Join(s, " and ")
	}
	inLoop := an.ReachBlocks(header.Succs, nil, nil)
	// (c) returns
	nRet := 0
	for _, r := range an.Returns(fn) {
		if !an.IsNilConst(r.Results[1]) {
			continue // error returns handled in (a)
		}
		val, isConst := c30ConstBool(r.Results[0])
		rb := r.Block()
		k := known(func(cut an.Edge) bool {
			return an.ReachBlocks([]*ssa.BasicBlock{header}, map[an.Edge]bool{cut: true}, nil)[rb]
		})
		// is the return inside the comparison region (dominated by some comparison edge)?
		inside := len(k) > 0
		cons := fmt.Sprintf("CompareVersionStrings return %s", w.Term(r.Results[0]))
		if inside {
			cons += " inside the loop"
		} else {
			cons += " after the loop"
		}
		nRet++
		switch {
		case !isConst:
			c.Unknown("C30.R4", cons, w.Pos(r.Pos()), "the result is not a boolean constant; only constant results under known component relations are interpreted")
		case !inside && !val && !an.ReachBlocks([]*ssa.BasicBlock{header}, nil, nil)[rb]:
			c.Unknown("C30.R4", cons, w.Pos(r.Pos()), "`false` is returned before the component loop; the rule does not interpret the condition it depends on")
		case !inside:
			c.Decide(val, "C30.R4", cons, w.Pos(r.Pos()), "all components equal => a >= b is true",
				"when all components are equal (or the loop ends) the function answers false, but equal versions satisfy a >= b")
		case val:
			c.Decide(implies(k, ">"), "C30.R4", cons, w.Pos(r.Pos()), "true is returned under a[i] > b[i]",
				"`true` is returned knowing only "+kstr(k)+": the first differing component does not decide")
		default:
			c.Decide(implies(k, "<"), "C30.R4", cons, w.Pos(r.Pos()), "false is returned under a[i] < b[i]",
				"`false` is returned knowing only "+kstr(k)+": the first differing component does not decide")
		}
	}
	c.AtLeast("C30.R4", "constant-result returns", nRet, 3)
	// (d) the loop continues only on equality
	nBack := 0
	for _, p := range header.Preds {
		if !inLoop[p] {
			continue
		}
		for si, s := range p.Succs {
			if s != header {
				continue
			}
			back := an.Edge{From: p, Idx: si}
			nBack++
			k := known(func(cut an.Edge) bool {
				if cut == back {
					return false
				}
				// can the back edge be traversed, starting at the header, without `cut`?
				reach := an.ReachBlocks(header.Succs, map[an.Edge]bool{cut: true, back: true}, nil)
				return reach[p] || p == header
			})
			bpos := p.Instrs[len(p.Instrs)-1].Pos()
			if i, isIf := p.Instrs[len(p.Instrs)-1].(*ssa.If); isIf {
				bpos = i.Cond.Pos()
			}
			c.Decide(implies(k, ">=") && implies(k, "<="), "C30.R4", "CompareVersionStrings continue edge", w.Pos(bpos),
				"the next component is examined only when a[i] == b[i] is known (both a[i]>=b[i] and b[i]>=a[i])",
				"the loop moves on to the next component knowing only "+kstr(k)+": one-sided comparison, a later component can overrule an earlier, more significant one (e.g. 2.0 vs 1.5)")
		}
	}
	c.AtLeast("C30.R4", "back edges of the comparison loop", nBack, 1)

	// (e) the function itself, interpreted on sample pairs; then the padding shape
	c30R4Pad(c, fn, samplesOK, c30Side(w, fn, c30LoopBound(header, cmps[0].idx)))
}

// c30LoopBound: the slice whose length bounds the comparison loop (nil if not found).
func c30LoopBound(header *ssa.BasicBlock, idx ssa.Value) ssa.Value {
	if header == nil {
		return nil
	}
	for _, in := range header.Instrs {
		bo, ok := in.(*ssa.BinOp)
		if !ok || !c30IsCmp(bo.Op) {
			continue
		}
		for _, side := range []ssa.Value{bo.X, bo.Y} {
			if cl, ok := side.(*ssa.Call); ok {
				if b, isB := cl.Call.Value.(*ssa.Builtin); isB && b.Name() == "len" && len(cl.Call.Args) == 1 {
					return cl.Call.Args[0]
				}
			}
		}
	}
	return nil
}

// c30RefCompare is the specification: numeric components (maximal digit runs),
// missing components count as zero, lexicographic a >= b.
func c30RefCompare(a, b string) bool {
	re := regexp.MustCompile(`[0-9]+`)
	pa, pb := re.FindAllString(a, -1), re.FindAllString(b, -1)
	for len(pa) < len(pb) {
		pa = append(pa, "0")
	}
	for len(pb) < len(pa) {
		pb = append(pb, "0")
	}
	for i := range pa {
		x, _ := strconv.Atoi(pa[i])
		y, _ := strconv.Atoi(pb[i])
		if x != y {
			return x > y
		}
	}
	return true
}

// c30R4Samples interprets CompareVersionStrings on sample pairs, among them
// pairs of different length in both directions with an equal prefix. It returns
// true when every sample could be interpreted and agreed with the specification.
func c30R4Samples(c *an.Check, fn *ssa.Function) bool {
	w := c.W
	pairs := [][2]string{
		{"29", "29.2"}, {"23.11", "23.11.2"}, {"v24", "v24.0.1"}, {"29", "29.0"}, {"v23.11", "23.11.0"},
		{"29.2", "29"}, {"23.11.2", "23.11"}, {"29.0", "29"}, {"24.02.1", "v24.02"},
		{"1.10", "1.9"}, {"1.9", "1.10"}, {"2.0", "1.5"}, {"1.5", "2.0"}, {"23.11", "23.11"}, {"v23.11rc1", "23.11"},
		{"0.12.1", "0.12.2"}, {"v0.12.2", "0.12.1"}, {"22", "23.05"}, {"24", "23.05"}, {"", ""},
	}
	var wrong []string
	unknown := ""
	n := 0
	for _, p := range pairs {
		res, outcome, ok, why := c30XRun(w, fn, []interface{}{p[0], p[1]}, nil)
		if !ok {
			unknown = why
			break
		}
		want := c30RefCompare(p[0], p[1])
		if outcome != "return" {
			wrong = append(wrong, fmt.Sprintf("(%q, %q) -> %s, expected %v", p[0], p[1], outcome, want))
			continue
		}
		got, isB := res[0].(bool)
		_, errNil := res[1].(c30XNil)
		switch {
		case !isB:
			unknown = "the result is not a boolean"
		case !errNil:
			wrong = append(wrong, fmt.Sprintf("(%q, %q) -> error, expected %v", p[0], p[1], want))
		case got != want:
			wrong = append(wrong, fmt.Sprintf("(%q, %q) -> %v, expected %v", p[0], p[1], got, want))
		default:
			n++
		}
		if unknown != "" {
			break
		}
	}
	pos := w.Pos(fn.Pos())
	switch {
	case len(wrong) > 0:
		if len(wrong) > 6 {
			wrong = append(wrong[:6], fmt.Sprintf("… %d more", len(wrong)-6))
		}
		c.Bad("C30.R4", "CompareVersionStrings on sample pairs", pos, "interpreting the function on sample version pairs gives results that differ from `numeric components, missing components are zero, a >= b`: "+strings.Join(wrong, "; ")+" — missing components are not treated as zero / the order is not the numeric one")
		return false
	case unknown != "":
		c.Note("C30.R4", "CompareVersionStrings on sample pairs", pos, "the function could not be interpreted on sample pairs ("+unknown+"); only the structural obligations apply")
		return false
	}
	c.OK("C30.R4", "CompareVersionStrings on sample pairs", pos, fmt.Sprintf("%d sample pairs (different lengths in both directions, equal prefixes, multi-digit components) agree with the specification", n))
	return true
}

// c30ErrFrom: the returned error is the tested error or wraps it (fmt.Errorf
// with the error among its arguments).
func c30ErrFrom(v ssa.Value, errV ssa.Value, depth int) bool {
	if depth > 6 || v == nil {
		return false
	}
	if v == errV {
		return true
	}
	switch x := v.(type) {
	case *ssa.ChangeInterface:
		return c30ErrFrom(x.X, errV, depth+1)
	case *ssa.MakeInterface:
		return c30ErrFrom(x.X, errV, depth+1)
	case *ssa.Call:
		if f := x.Call.StaticCallee(); f != nil && f.Pkg != nil && f.Pkg.Pkg.Path() == "fmt" && f.Name() == "Errorf" {
			// variadic slice built from a local array
			for _, a := range x.Call.Args {
				sl, ok := a.(*ssa.Slice)
				if !ok {
					continue
				}
				al, ok := sl.X.(*ssa.Alloc)
				if !ok || al.Referrers() == nil {
					continue
				}
				for _, r := range *al.Referrers() {
					ia, ok := r.(*ssa.IndexAddr)
					if !ok || ia.Referrers() == nil {
						continue
					}
					for _, rr := range *ia.Referrers() {
						if st, ok := rr.(*ssa.Store); ok && c30ErrFrom(st.Val, errV, depth+1) {
							return true
						}
					}
				}
			}
		}
	case *ssa.Phi:
		for _, e := range x.Edges {
			if !c30ErrFrom(e, errV, depth+1) {
				return false
			}
		}
		return len(x.Edges) > 0
	}
	return false
}

func c30R4Pad(c *an.Check, fn *ssa.Function, samplesOK bool, boundSide string) {
	w := c.W
	// linear form over len(A-side), len(B-side)
	type lin struct {
		a, b, k int64
		ok      bool
	}
	var lf func(v ssa.Value, d int) lin
	lf = func(v ssa.Value, d int) lin {
		if d > 8 {
			return lin{}
		}
		if k, ok := an.ConstInt(v); ok {
			return lin{k: k, ok: true}
		}
		switch x := v.(type) {
		case *ssa.Call:
			if b, ok := x.Call.Value.(*ssa.Builtin); ok && b.Name() == "len" {
				switch c30Side(w, fn, x.Call.Args[0]) {
				case "a":
					return lin{a: 1, ok: true}
				case "b":
					return lin{b: 1, ok: true}
				}
			}
		case *ssa.BinOp:
			l, r := lf(x.X, d+1), lf(x.Y, d+1)
			if !l.ok || !r.ok {
				return lin{}
			}
			switch x.Op {
			case token.ADD:
				return lin{l.a + r.a, l.b + r.b, l.k + r.k, true}
			case token.SUB:
				return lin{l.a - r.a, l.b - r.b, l.k - r.k, true}
			case token.MUL:
				if l.a == 0 && l.b == 0 {
					return lin{l.k * r.a, l.k * r.b, l.k * r.k, true}
				}
				if r.a == 0 && r.b == 0 {
					return lin{r.k * l.a, r.k * l.b, r.k * l.k, true}
				}
			}
		}
		return lin{}
	}
	// relation between len(a) and len(b) on each edge of every If that compares them
	type lenFact struct {
		edge an.Edge
		rel  string // len(a) rel len(b)
	}
	var lfs []lenFact
	for _, b := range fn.Blocks {
		i, isIf := b.Instrs[len(b.Instrs)-1].(*ssa.If)
		if !isIf {
			continue
		}
		bo, isB := i.Cond.(*ssa.BinOp)
		if !isB || !c30IsCmp(bo.Op) {
			continue
		}
		l, r := lf(bo.X, 0), lf(bo.Y, 0)
		if !l.ok || !r.ok {
			continue
		}
		d := lin{l.a - r.a, l.b - r.b, l.k - r.k, true} // d rel 0
		if d.k != 0 || d.a == 0 || d.a != -d.b {
			continue
		}
		for e := 0; e < 2; e++ {
			rel := c30RelOn(bo.Op, e == 0)
			if d.a < 0 {
				rel = c30Flip(rel)
			}
			lfs = append(lfs, lenFact{an.Edge{From: b, Idx: e}, rel})
		}
	}
	// appends of constant strings
	seen := map[string]bool{}
	for _, call := range an.Calls(fn) {
		cc, ok := call.(*ssa.Call)
		if !ok {
			continue
		}
		if b, isB := cc.Call.Value.(*ssa.Builtin); !isB || b.Name() != "append" || len(cc.Call.Args) != 2 {
			continue
		}
		// appended constant strings
		var consts []string
		if sl, ok := cc.Call.Args[1].(*ssa.Slice); ok {
			if al, ok := sl.X.(*ssa.Alloc); ok && al.Referrers() != nil {
				for _, r := range *al.Referrers() {
					if ia, ok := r.(*ssa.IndexAddr); ok && ia.Referrers() != nil {
						for _, rr := range *ia.Referrers() {
							if st, ok := rr.(*ssa.Store); ok {
								if s, isS := an.ConstString(st.Val); isS {
									consts = append(consts, s)
								}
							}
						}
					}
				}
			}
		}
		if len(consts) == 0 {
			continue
		}
		side := c30Side(w, fn, cc.Call.Args[0])
		cons := "CompareVersionStrings padding of " + side
		if side != "a" && side != "b" {
			c.Unknown("C30.R4", "CompareVersionStrings padding", w.Pos(call.Pos()), "a constant is appended to a slice that derives from neither a nor b alone")
			continue
		}
		seen[side] = true
		wantRel := map[string][]string{"a": {"<", "<="}, "b": {">", ">="}}[side]
		guard, wrongWay := false, false
		for _, f := range lfs {
			if !an.EdgeDominates(f.edge, call.Block()) {
				continue
			}
			for _, wr := range wantRel {
				if f.rel == wr {
					guard = true
				}
			}
			if f.rel == c30Flip(wantRel[0]) {
				wrongWay = true // strictly the other way round
			}
		}
		switch {
		case len(consts) != 1 || consts[0] != "0":
			c.Bad("C30.R4", cons, w.Pos(call.Pos()), fmt.Sprintf("the missing components are filled with %q, not \"0\"", consts))
		case !guard && wrongWay:
			c.Bad("C30.R4", cons, w.Pos(call.Pos()), "the side is padded although it is not known to be the shorter one (no dominating comparison of the two lengths in the right direction): it is padded exactly when it is the longer one")
		case !guard && samplesOK:
			c.OK("C30.R4", cons, w.Pos(call.Pos()), "padded with \"0\"; the length condition is not one this rule reads, but the sample pairs of different lengths are answered correctly")
		case !guard:
			c.Unknown("C30.R4", cons, w.Pos(call.Pos()), "no dominating comparison of the two lengths was recognised; cannot tell under which condition this side is padded")
		default:
			c.OK("C30.R4", cons, w.Pos(call.Pos()), "missing components are filled with \"0\" when this side is shorter")
		}
	}
	for _, side := range []string{"a", "b"} {
		if seen[side] {
			continue
		}
		other := map[string]string{"a": "b", "b": "a"}[side]
		cons := "CompareVersionStrings padding of " + side
		switch {
		case seen[other] && boundSide == side:
			// asymmetric: the other operand is padded up to this one, this one never is,
			// and the comparison loop runs over this (unpadded) operand's components
			c.Bad("C30.R4", cons, w.Pos(fn.Pos()), "missing components of "+side+" are not treated as zero: "+other+" is padded with \"0\" but "+side+" never is, and the comparison loop is bounded by the components of "+side+", so a shorter "+side+" with an equal prefix compares as >= (e.g. \"29\" vs \"29.2\")")
		case samplesOK:
			c.Note("C30.R4", cons, w.Pos(fn.Pos()), "no append of a constant to the components of "+side+" was found; the sample pairs with a shorter "+side+" are nevertheless answered as if the missing components were zero")
		default:
			c.Unknown("C30.R4", cons, w.Pos(fn.Pos()), "no append of a constant to the components of "+side+" was found in this function: cannot establish that a shorter "+side+" is treated as having zero components")
		}
	}
}

// c30Offset decodes idx as base + constant.
func c30Offset(idx ssa.Value) (base ssa.Value, off int64, ok bool) {
	for depth := 0; depth < 4; depth++ {
		bo, isB := idx.(*ssa.BinOp)
		if !isB {
			return idx, off, true
		}
		kx, okx := an.ConstInt(bo.X)
		ky, oky := an.ConstInt(bo.Y)
		switch {
		case bo.Op == token.ADD && oky:
			off, idx = off+ky, bo.X
		case bo.Op == token.ADD && okx:
			off, idx = off+kx, bo.Y
		case bo.Op == token.SUB && oky:
			off, idx = off-ky, bo.X
		default:
			return idx, off, true
		}
	}
	return nil, 0, false
}

// c30FreshErr: a value that is certainly a non-nil error (a constructor call
// or a concrete value boxed into the interface).
func c30FreshErr(v ssa.Value) bool {
	switch x := v.(type) {
	case *ssa.MakeInterface:
		_, isPtr := x.X.Type().Underlying().(*types.Pointer)
		return !isPtr
	case *ssa.Call:
		if f := x.Call.StaticCallee(); f != nil && f.Pkg != nil {
			switch f.Pkg.Pkg.Path() + "." + f.Name() {
			case "fmt.Errorf", "errors.New":
				return true
			}
		}
	}
	return false
}

func c30ConstBool(v ssa.Value) (val bool, ok bool) {
	k, isC := v.(*ssa.Const)
	if !isC || k.Value == nil || k.Value.Kind() != constant.Bool {
		return false, false
	}
	return constant.BoolVal(k.Value), true
}

// c30PhiBlock returns the block of the loop phi behind an index value (i or i+1).
func c30PhiBlock(idx ssa.Value) *ssa.BasicBlock {
	switch x := idx.(type) {
	case *ssa.Phi:
		return x.Block()
	case *ssa.BinOp:
		if p, ok := x.X.(*ssa.Phi); ok {
			return p.Block()
		}
		if p, ok := x.Y.(*ssa.Phi); ok {
			return p.Block()
		}
	}
	return nil
}

// c30IsAPI: an exported function, or an exported method of an exported type.
func c30IsAPI(fn *ssa.Function) bool {
	if fn == nil || fn.Object() == nil || !fn.Object().Exported() || fn.Parent() != nil {
		return false
	}
	if recv := fn.Signature.Recv(); recv != nil {
		n := an.NamedOf(recv.Type())
		return n != nil && n.Obj().Exported()
	}
	return true
}

// ---- bounded concrete interpreter ------------------------------------------------
//
// c30XRun interprets the SSA form of a small pure function on concrete inputs
// (integers, strings, booleans, slices of them, errors). Library calls are
// modelled for the handful of functions these rules meet (strconv, fmt.Sprintf
// with integer verbs, regexp with a constant pattern, errors); in-module static
// callees are interpreted recursively. Anything else ends the run as
// "not interpretable" (never as a verdict). Nothing of the repository is
// executed: the checker walks the instructions itself.

type c30XSlice struct{ elems []interface{} }
type c30XArr struct{ elems []interface{} }
type c30XCell struct{ v interface{} }
type c30XRef struct {
	elems *[]interface{}
	i     int
}
type c30XStruct struct{ fields []interface{} }
type c30XErr struct{ msg string } // a non-nil error
type c30XNil struct{}             // nil pointer / interface / error
type c30XIface struct {
	v interface{}
	t types.Type
}
type c30XUnknown struct{ why string }
type c30XTuple []interface{}

type c30XInterp struct {
	w     *an.World
	steps int
	// leaf may supply the value of an instruction the interpreter cannot compute
	// (a field of external data, ...)
	leaf func(v ssa.Value) (interface{}, bool)
}

type c30XAbort struct{ why string }

func (it *c30XInterp) abort(format string, a ...interface{}) {
	panic(c30XAbort{fmt.Sprintf(format, a...)})
}

// c30XRun interprets fn(args...). outcome is "return" or "panic"; ok is false
// when the function left the interpreted subset (why says where).
func c30XRun(w *an.World, fn *ssa.Function, args []interface{}, leaf func(ssa.Value) (interface{}, bool)) (results []interface{}, outcome string, ok bool, why string) {
	it := &c30XInterp{w: w, leaf: leaf}
	defer func() {
		if r := recover(); r != nil {
			if a, isA := r.(c30XAbort); isA {
				results, outcome, ok, why = nil, "", false, a.why
				return
			}
			panic(r)
		}
	}()
	res, out := it.call(fn, args, 0)
	return res, out, true, ""
}

func c30XZero(t types.Type) interface{} {
	switch u := t.Underlying().(type) {
	case *types.Basic:
		switch {
		case u.Info()&types.IsInteger != 0:
			return int64(0)
		case u.Info()&types.IsString != 0:
			return ""
		case u.Info()&types.IsBoolean != 0:
			return false
		}
	case *types.Slice:
		return &c30XSlice{}
	case *types.Pointer, *types.Interface, *types.Map, *types.Chan, *types.Signature:
		return c30XNil{}
	case *types.Struct:
		st := &c30XStruct{fields: make([]interface{}, u.NumFields())}
		for i := range st.fields {
			st.fields[i] = c30XZero(u.Field(i).Type())
		}
		return st
	}
	return c30XUnknown{"zero value of " + t.String()}
}

func (it *c30XInterp) call(fn *ssa.Function, args []interface{}, depth int) ([]interface{}, string) {
	if fn.Blocks == nil || depth > 4 {
		it.abort("call of %s (no body or too deep)", fn.Name())
	}
	if len(args) != len(fn.Params) {
		it.abort("arity of %s", fn.Name())
	}
	env := map[ssa.Value]interface{}{}
	for i, p := range fn.Params {
		env[p] = args[i]
	}
	var get func(v ssa.Value) interface{}
	get = func(v ssa.Value) interface{} {
		if x, ok := env[v]; ok {
			return x
		}
		switch k := v.(type) {
		case *ssa.Const:
			if k.Value == nil {
				if _, isSl := k.Type().Underlying().(*types.Slice); isSl {
					return &c30XSlice{}
				}
				return c30XNil{}
			}
			switch k.Value.Kind() {
			case constant.Bool:
				return constant.BoolVal(k.Value)
			case constant.String:
				return constant.StringVal(k.Value)
			case constant.Int:
				if i, ok := constant.Int64Val(k.Value); ok {
					return i
				}
				if u, ok := constant.Uint64Val(k.Value); ok {
					return int64(u)
				}
			}
		case *ssa.Global:
			// a package-level variable: its initialiser, when it is one call with constant arguments
			if k.Pkg != nil {
				if ini := k.Pkg.Func("init"); ini != nil {
					for _, b := range ini.Blocks {
						for _, in := range b.Instrs {
							if st, ok := in.(*ssa.Store); ok && st.Addr == ssa.Value(k) {
								if cc, ok := st.Val.(*ssa.Call); ok {
									var as []interface{}
									for _, a := range cc.Call.Args {
										if c, isC := a.(*ssa.Const); isC && c.Value != nil && c.Value.Kind() == constant.String {
											as = append(as, constant.StringVal(c.Value))
										} else {
											it.abort("initialiser of %s has non-constant arguments", k.Name())
										}
									}
									if r, ok := it.lib(cc, as); ok {
										return &c30XCell{v: r}
									}
								}
							}
						}
					}
				}
			}
		}
		if it.leaf != nil {
			if x, ok := it.leaf(v); ok {
				return x
			}
		}
		it.abort("value %s (%T) is not available", v.Name(), v)
		return nil
	}
	blk := fn.Blocks[0]
	var prev *ssa.BasicBlock
	for {
		// phis, in parallel
		phis := map[ssa.Value]interface{}{}
		for _, in := range blk.Instrs {
			p, ok := in.(*ssa.Phi)
			if !ok {
				break
			}
			for i, pr := range blk.Preds {
				if pr == prev {
					phis[p] = get(p.Edges[i])
					break
				}
			}
		}
		for k, v := range phis {
			env[k] = v
		}
		for _, in := range blk.Instrs {
			it.steps++
			if it.steps > 200000 {
				it.abort("step bound exceeded")
			}
			switch x := in.(type) {
			case *ssa.Phi, *ssa.DebugRef, *ssa.Defer, *ssa.RunDefers:
			case *ssa.Alloc:
				el := x.Type().Underlying().(*types.Pointer).Elem()
				if arr, isArr := el.Underlying().(*types.Array); isArr {
					a := &c30XArr{elems: make([]interface{}, arr.Len())}
					for i := range a.elems {
						a.elems[i] = c30XZero(arr.Elem())
					}
					env[x] = a
				} else {
					env[x] = &c30XCell{v: c30XZero(el)}
				}
			case *ssa.Store:
				switch a := get(x.Addr).(type) {
				case *c30XCell:
					a.v = get(x.Val)
				case *c30XRef:
					(*a.elems)[a.i] = get(x.Val)
				default:
					it.abort("store through %T", a)
				}
			case *ssa.UnOp:
				v := get(x.X)
				switch x.Op {
				case token.MUL:
					switch a := v.(type) {
					case *c30XCell:
						env[x] = a.v
					case *c30XRef:
						env[x] = (*a.elems)[a.i]
					default:
						if it.leaf != nil {
							if r, ok := it.leaf(x); ok {
								env[x] = r
								continue
							}
						}
						it.abort("load through %T", a)
					}
				case token.NOT:
					b, ok := v.(bool)
					if !ok {
						it.abort("! of %T", v)
					}
					env[x] = !b
				case token.SUB:
					i, ok := v.(int64)
					if !ok {
						it.abort("- of %T", v)
					}
					env[x] = c30XWrapInt(-i, x.Type())
				default:
					it.abort("unary %s", x.Op)
				}
			case *ssa.BinOp:
				env[x] = it.binop(x, get(x.X), get(x.Y))
			case *ssa.Convert:
				v := get(x.X)
				switch a := v.(type) {
				case int64:
					if b, isB := x.Type().Underlying().(*types.Basic); isB && b.Info()&types.IsInteger != 0 {
						env[x] = c30XWrapInt(a, x.Type())
					} else {
						it.abort("conversion of an integer to %s", x.Type())
					}
				case string:
					env[x] = a // string <-> named string, []byte(string) kept as string
				case *c30XSlice:
					env[x] = a
				default:
					it.abort("conversion of %T", v)
				}
			case *ssa.ChangeType:
				env[x] = get(x.X)
			case *ssa.ChangeInterface:
				env[x] = get(x.X)
			case *ssa.MakeInterface:
				env[x] = c30XIface{v: get(x.X), t: x.X.Type()}
			case *ssa.FieldAddr:
				var st *c30XStruct
				switch a := get(x.X).(type) {
				case *c30XCell:
					st, _ = a.v.(*c30XStruct)
				case *c30XRef:
					st, _ = (*a.elems)[a.i].(*c30XStruct)
				}
				if st == nil || x.Field >= len(st.fields) {
					if it.leaf != nil {
						if r, ok := it.leaf(x); ok {
							env[x] = r
							continue
						}
					}
					it.abort("field address in something that is not a local struct")
				}
				env[x] = &c30XRef{elems: &st.fields, i: x.Field}
			case *ssa.Field:
				st, ok := get(x.X).(*c30XStruct)
				if !ok || x.Field >= len(st.fields) {
					it.abort("field of something that is not a local struct")
				}
				env[x] = st.fields[x.Field]
			case *ssa.IndexAddr:
				i, ok := get(x.Index).(int64)
				if !ok {
					it.abort("non-integer index")
				}
				var elems *[]interface{}
				switch a := get(x.X).(type) {
				case *c30XArr:
					elems = &a.elems
				case *c30XSlice:
					elems = &a.elems
				default:
					it.abort("index into %T", a)
				}
				if i < 0 || int(i) >= len(*elems) {
					return nil, "panic: index out of range"
				}
				env[x] = &c30XRef{elems: elems, i: int(i)}
			case *ssa.Slice:
				lo, hi := int64(0), int64(-1)
				if x.Low != nil {
					lo, _ = get(x.Low).(int64)
				}
				if x.High != nil {
					hi, _ = get(x.High).(int64)
				}
				switch a := get(x.X).(type) {
				case *c30XArr:
					if hi < 0 {
						hi = int64(len(a.elems))
					}
					if lo < 0 || hi > int64(len(a.elems)) || lo > hi {
						return nil, "panic: slice bounds out of range"
					}
					env[x] = &c30XSlice{elems: a.elems[lo:hi:hi]}
				case *c30XSlice:
					if hi < 0 {
						hi = int64(len(a.elems))
					}
					if lo < 0 || hi > int64(len(a.elems)) || lo > hi {
						return nil, "panic: slice bounds out of range"
					}
					env[x] = &c30XSlice{elems: a.elems[lo:hi:hi]}
				case string:
					if hi < 0 {
						hi = int64(len(a))
					}
					if lo < 0 || hi > int64(len(a)) || lo > hi {
						return nil, "panic: slice bounds out of range"
					}
					env[x] = a[lo:hi]
				default:
					it.abort("slice of %T", a)
				}
			case *ssa.Extract:
				t, ok := get(x.Tuple).(c30XTuple)
				if !ok || x.Index >= len(t) {
					it.abort("extract from a non-tuple")
				}
				env[x] = t[x.Index]
			case *ssa.Call:
				var as []interface{}
				for _, a := range x.Call.Args {
					as = append(as, get(a))
				}
				if b, isB := x.Call.Value.(*ssa.Builtin); isB {
					env[x] = it.builtin(b.Name(), as, x)
					continue
				}
				if x.Call.IsInvoke() {
					it.abort("interface call %s", x.Call.Method.Name())
				}
				f := x.Call.StaticCallee()
				if f == nil {
					it.abort("dynamic call")
				}
				if r, ok := it.lib(x, as); ok {
					env[x] = r
					continue
				}
				if it.w.InModule(f) && f.Blocks != nil {
					if it.w.FnRel(f) == "log" {
						env[x] = c30XTuple{}
						continue
					}
					res, out := it.call(f, as, depth+1)
					if out != "return" {
						return nil, out
					}
					if len(res) == 1 {
						env[x] = res[0]
					} else {
						env[x] = c30XTuple(res)
					}
					continue
				}
				it.abort("call of %s is not modelled", it.w.FuncName(f))
			case *ssa.Jump:
				prev, blk = blk, blk.Succs[0]
			case *ssa.If:
				b, ok := get(x.Cond).(bool)
				if !ok {
					it.abort("branch on a value that is not a known boolean")
				}
				prev = blk
				if b {
					blk = blk.Succs[0]
				} else {
					blk = blk.Succs[1]
				}
			case *ssa.Return:
				var res []interface{}
				for _, r := range x.Results {
					res = append(res, get(r))
				}
				return res, "return"
			case *ssa.Panic:
				return nil, "panic"
			default:
				it.abort("instruction %T is not interpreted", in)
			}
		}
		if blk == nil {
			it.abort("fell off a block")
		}
	}
}

// c30XWrapInt applies Go's conversion semantics for the integer type t.
func c30XWrapInt(i int64, t types.Type) int64 {
	b, ok := t.Underlying().(*types.Basic)
	if !ok {
		return i
	}
	switch b.Kind() {
	case types.Int8:
		return int64(int8(i))
	case types.Int16:
		return int64(int16(i))
	case types.Int32:
		return int64(int32(i))
	case types.Uint8:
		return int64(uint8(i))
	case types.Uint16:
		return int64(uint16(i))
	case types.Uint32:
		return int64(uint32(i))
	}
	return i
}

func (it *c30XInterp) binop(x *ssa.BinOp, l, r interface{}) interface{} {
	switch a := l.(type) {
	case int64:
		b, ok := r.(int64)
		if !ok {
			it.abort("integer %s %T", x.Op, r)
		}
		switch x.Op {
		case token.ADD:
			return c30XWrapInt(a+b, x.Type())
		case token.SUB:
			return c30XWrapInt(a-b, x.Type())
		case token.MUL:
			return c30XWrapInt(a*b, x.Type())
		case token.QUO:
			if b == 0 {
				it.abort("division by zero")
			}
			return c30XWrapInt(a/b, x.Type())
		case token.REM:
			if b == 0 {
				it.abort("division by zero")
			}
			return c30XWrapInt(a%b, x.Type())
		case token.AND:
			return a & b
		case token.OR:
			return a | b
		case token.XOR:
			return a ^ b
		case token.SHL:
			return c30XWrapInt(a<<uint(b), x.Type())
		case token.SHR:
			return a >> uint(b)
		case token.EQL:
			return a == b
		case token.NEQ:
			return a != b
		case token.LSS:
			return a < b
		case token.LEQ:
			return a <= b
		case token.GTR:
			return a > b
		case token.GEQ:
			return a >= b
		}
	case string:
		b, ok := r.(string)
		if !ok {
			it.abort("string %s %T", x.Op, r)
		}
		switch x.Op {
		case token.ADD:
			return a + b
		case token.EQL:
			return a == b
		case token.NEQ:
			return a != b
		case token.LSS:
			return a < b
		case token.LEQ:
			return a <= b
		case token.GTR:
			return a > b
		case token.GEQ:
			return a >= b
		}
	case bool:
		b, ok := r.(bool)
		if !ok {
			it.abort("bool %s %T", x.Op, r)
		}
		switch x.Op {
		case token.EQL:
			return a == b
		case token.NEQ:
			return a != b
		case token.AND:
			return a && b
		case token.OR:
			return a || b
		}
	}
	// comparisons with nil
	if x.Op == token.EQL || x.Op == token.NEQ {
		isNil := func(v interface{}) (bool, bool) {
			switch s := v.(type) {
			case c30XNil:
				return true, true
			case *c30XErr:
				return s == nil, true
			case c30XIface:
				return false, true
			case *c30XSlice:
				return s == nil || s.elems == nil, true
			}
			return false, false
		}
		_, lConst := x.X.(*ssa.Const)
		_, rConst := x.Y.(*ssa.Const)
		ln, lok := isNil(l)
		rn, rok := isNil(r)
		if lok && rok && (lConst || rConst) {
			return (ln == rn) == (x.Op == token.EQL)
		}
	}
	it.abort("binary %s on %T, %T", x.Op, l, r)
	return nil
}

func (it *c30XInterp) builtin(name string, as []interface{}, at *ssa.Call) interface{} {
	switch name {
	case "len", "cap":
		switch a := as[0].(type) {
		case *c30XSlice:
			if a == nil {
				return int64(0)
			}
			return int64(len(a.elems))
		case string:
			return int64(len(a))
		case *c30XArr:
			return int64(len(a.elems))
		}
	case "append":
		s, ok := as[0].(*c30XSlice)
		if !ok {
			break
		}
		var add []interface{}
		switch t := as[1].(type) {
		case *c30XSlice:
			if t != nil {
				add = t.elems
			}
		default:
			it.abort("append of %T", t)
		}
		out := make([]interface{}, 0, len(s.elems)+len(add))
		out = append(append(out, s.elems...), add...)
		return &c30XSlice{elems: out}
	case "min", "max":
		best, ok := as[0].(int64)
		if !ok {
			break
		}
		for _, a := range as[1:] {
			v, ok := a.(int64)
			if !ok {
				it.abort("%s of %T", name, a)
			}
			if (name == "min" && v < best) || (name == "max" && v > best) {
				best = v
			}
		}
		return best
	}
	it.abort("builtin %s is not modelled for these operands", name)
	return nil
}

// c30XGoValue turns an interpreter value into a Go value for fmt.
func c30XGoValue(v interface{}) interface{} {
	if i, ok := v.(c30XIface); ok {
		if n, isInt := i.v.(int64); isInt {
			if b, isB := i.t.Underlying().(*types.Basic); isB {
				switch b.Kind() {
				case types.Uint8:
					return uint8(n)
				case types.Uint16:
					return uint16(n)
				case types.Uint32:
					return uint32(n)
				case types.Uint, types.Uint64, types.Uintptr:
					return uint64(n)
				case types.Int8:
					return int8(n)
				case types.Int16:
					return int16(n)
				case types.Int32:
					return int32(n)
				}
			}
			return n
		}
		return c30XGoValue(i.v)
	}
	switch x := v.(type) {
	case *c30XErr:
		if x == nil {
			return nil
		}
		return errors.New(x.msg)
	case c30XNil:
		return nil
	}
	return v
}

// lib models the library functions these rules meet.
func (it *c30XInterp) lib(call *ssa.Call, as []interface{}) (interface{}, bool) {
	f := call.Call.StaticCallee()
	if f == nil || it.w.InModule(f) {
		return nil, false
	}
	name := it.w.Info(call).Name
	str := func(i int) string {
		s, ok := as[i].(string)
		if !ok {
			it.abort("%s: argument %d is not a string", name, i)
		}
		return s
	}
	num := func(i int) int64 {
		n, ok := as[i].(int64)
		if !ok {
			it.abort("%s: argument %d is not an integer", name, i)
		}
		return n
	}
	errOf := func(err error) interface{} {
		if err == nil {
			return c30XNil{}
		}
		return &c30XErr{msg: err.Error()}
	}
	switch name {
	case "func:strconv.Atoi":
		n, err := strconv.Atoi(str(0))
		return c30XTuple{int64(n), errOf(err)}, true
	case "func:strconv.ParseInt":
		n, err := strconv.ParseInt(str(0), int(num(1)), int(num(2)))
		return c30XTuple{n, errOf(err)}, true
	case "func:strconv.ParseUint":
		n, err := strconv.ParseUint(str(0), int(num(1)), int(num(2)))
		return c30XTuple{int64(n), errOf(err)}, true
	case "func:strconv.FormatInt":
		return strconv.FormatInt(num(0), int(num(1))), true
	case "func:strconv.FormatUint":
		return strconv.FormatUint(uint64(num(0)), int(num(1))), true
	case "func:strconv.Itoa":
		return strconv.Itoa(int(num(0))), true
	case "func:fmt.Sprintf", "func:fmt.Errorf":
		var vs []interface{}
		if len(as) > 1 {
			sl, ok := as[1].(*c30XSlice)
			if !ok {
				it.abort("%s: variadic arguments", name)
			}
			if sl != nil {
				for _, e := range sl.elems {
					vs = append(vs, c30XGoValue(e))
				}
			}
		}
		if name == "func:fmt.Errorf" {
			return &c30XErr{msg: fmt.Sprintf(strings.ReplaceAll(str(0), "%w", "%v"), vs...)}, true
		}
		return fmt.Sprintf(str(0), vs...), true
	case "func:errors.New":
		return &c30XErr{msg: str(0)}, true
	case "func:regexp.MustCompile":
		re, err := regexp.Compile(str(0))
		if err != nil {
			it.abort("pattern does not compile")
		}
		return re, true
	case "func:(*regexp.Regexp).FindAllString":
		re, ok := as[0].(*regexp.Regexp)
		if !ok {
			it.abort("regexp receiver is not a compiled constant pattern")
		}
		ms := re.FindAllString(str(1), int(num(2)))
		if ms == nil {
			return &c30XSlice{}, true
		}
		out := &c30XSlice{elems: make([]interface{}, len(ms))}
		for i, m := range ms {
			out.elems[i] = m
		}
		return out, true
	case "func:(*regexp.Regexp).FindStringSubmatch":
		re, ok := as[0].(*regexp.Regexp)
		if !ok {
			it.abort("regexp receiver is not a compiled constant pattern")
		}
		ms := re.FindStringSubmatch(str(1))
		if ms == nil {
			return &c30XSlice{}, true
		}
		out := &c30XSlice{elems: make([]interface{}, len(ms))}
		for i, m := range ms {
			out.elems[i] = m
		}
		return out, true
	case "func:strings.TrimPrefix":
		return strings.TrimPrefix(str(0), str(1)), true
	case "func:strings.TrimLeft":
		return strings.TrimLeft(str(0), str(1)), true
	case "func:strings.ToLower":
		return strings.ToLower(str(0)), true
	case "func:strings.HasPrefix":
		return strings.HasPrefix(str(0), str(1)), true
	case "func:strings.Split":
		parts := strings.Split(str(0), str(1))
		out := &c30XSlice{elems: make([]interface{}, len(parts))}
		for i, m := range parts {
			out.elems[i] = m
		}
		return out, true
	}
	return nil, false
}

// ---- R5 ------------------------------------------------------------------------------

// c30R5: "fall back to the configured rate when the estimate is zero" needs a
// zero test that can hold. For every Estimator implementation whose
// EstimateFeePerKW branches on `x == 0` (or `x <= 0`), x is traced to where it
// comes from; when it is the result of an in-module helper, every successful
// return of that helper is judged on every path: a return whose value is a
// floor substituted under `v < F`, or v under `v >= F`, cannot be zero unless F
// is; a constant 0 or a value that met no such comparison can.
func c30R5(c *an.Check) {
	w := c.W
	estT := w.Named("onchain", "Estimator")
	if estT == nil {
		c.Anchor("onchain.Estimator does not resolve")
		return
	}
	ei, _ := estT.Underlying().(*types.Interface)
	nImpl, nTests := 0, 0
	for _, rel := range c30SortedRels(w) {
		if an.IsTestSupport(rel) {
			continue
		}
		scope := w.ByRel[rel].Types.Scope()
		for _, name := range scope.Names() {
			tn, ok := scope.Lookup(name).(*types.TypeName)
			if !ok {
				continue
			}
			nt, ok := tn.Type().(*types.Named)
			if !ok || ei == nil || types.IsInterface(nt) || !(types.Implements(nt, ei) || types.Implements(types.NewPointer(nt), ei)) {
				continue
			}
			m := w.Method(nt, "EstimateFeePerKW")
			if m == nil || m.Blocks == nil {
				continue
			}
			nImpl++
			var cmpInstrs []*ssa.BinOp
			for _, b := range m.Blocks {
				for _, in := range b.Instrs {
					if bo, ok := in.(*ssa.BinOp); ok {
						cmpInstrs = append(cmpInstrs, bo)
					}
				}
			}
			for _, bo := range cmpInstrs {
				isB := true
				if !isB || (bo.Op != token.EQL && bo.Op != token.LEQ && bo.Op != token.NEQ && bo.Op != token.GTR) {
					continue
				}
				var x ssa.Value
				if k, isK := an.ConstInt(bo.Y); isK && k == 0 && c30IsInt(bo.X.Type()) {
					x = bo.X
				} else if k, isK := an.ConstInt(bo.X); isK && k == 0 && c30IsInt(bo.Y.Type()) && (bo.Op == token.EQL || bo.Op == token.NEQ) {
					x = bo.Y
				}
				if x == nil {
					continue
				}
				for {
					if cv, ok := x.(*ssa.Convert); ok {
						x = cv.X
						continue
					}
					if ct, ok := x.(*ssa.ChangeType); ok {
						x = ct.X
						continue
					}
					break
				}
				nTests++
				cons := rel + "." + name + ".EstimateFeePerKW zero test"
				pos := w.Pos(bo.Pos())
				ex, isEx := x.(*ssa.Extract)
				var hc *ssa.Call
				if isEx {
					hc, _ = ex.Tuple.(*ssa.Call)
				}
				var helper *ssa.Function
				if hc != nil {
					helper = hc.Call.StaticCallee()
				}
				if helper == nil || !w.InModule(helper) || helper.Blocks == nil {
					// a field of the RPC answer, an RPC result, a constant ...: nothing in between
					c.OK("C30.R5", cons, pos, "the tested value is "+w.Term(x)+", taken as it is (no in-module code between the answer and the test)")
					continue
				}
				// judge the helper's successful returns
				errIdx := -1
				for k := helper.Signature.Results().Len() - 1; k >= 0; k-- {
					if an.IsErrorType(helper.Signature.Results().At(k).Type()) {
						errIdx = k
						break
					}
				}
				id := func(v ssa.Value) string { return fmt.Sprintf("%p", v) }
				capable, raised, unknown := 0, 0, 0
				var raisedAt []string
				okW, why := c30Walk(helper, func(i *ssa.If, p *c30Path) c30Dec {
					cond := p.resolve(i.Cond)
					neg := false
					for cond != nil {
						u, isU := cond.(*ssa.UnOp)
						if !isU || u.Op != token.NOT {
							break
						}
						neg, cond = !neg, p.resolve(u.X)
					}
					d := c30Dec{t: true, f: true}
					if cb, ok := cond.(*ssa.BinOp); ok && c30IsCmp(cb.Op) && c30IsInt(cb.X.Type()) {
						lx, ly := p.resolve(cb.X), p.resolve(cb.Y)
						if lx != nil && ly != nil {
							d.tf = "cmp|" + id(lx) + "|" + c30RelOn(cb.Op, true) + "|" + id(ly)
							d.ff = "cmp|" + id(lx) + "|" + c30RelOn(cb.Op, false) + "|" + id(ly)
							if neg {
								d.tf, d.ff = d.ff, d.tf
							}
						}
					}
					return d
				}, func(r *ssa.Return, p *c30Path) {
					if errIdx >= 0 && !an.IsNilConst(r.Results[errIdx]) {
						return // a failed call is the other fallback trigger
					}
					if ex.Index >= len(r.Results) {
						unknown++
						return
					}
					v := p.resolve(r.Results[ex.Index])
					if v == nil {
						unknown++
						return
					}
					if k, isK := an.ConstInt(v); isK {
						if k == 0 {
							capable++
						} else {
							raised++
						}
						return
					}
					vid := id(v)
					clamped := false
					for _, f := range p.facts {
						parts := strings.Split(f, "|")
						if len(parts) != 4 {
							continue
						}
						// v >= F / v > F with F not a constant 0: v is not below the floor
						if parts[1] == vid && (parts[2] == ">=" || parts[2] == ">") && !c30IsZeroID(p, parts[3]) {
							clamped = true
						}
						// F <= v written the other way round
						if parts[3] == vid && (parts[2] == "<=" || parts[2] == "<") {
							clamped = true
						}
						// v is the floor substituted under x < v
						if parts[3] == vid && (parts[2] == "<" || parts[2] == "<=") {
							clamped = true
						}
						if parts[1] == vid && (parts[2] == ">" || parts[2] == ">=") {
							clamped = true
						}
					}
					if clamped {
						raised++
						raisedAt = append(raisedAt, w.Pos(r.Pos()))
					} else {
						capable++
					}
				})
				switch {
				case !okW:
					c.Unknown("C30.R5", cons, pos, "cannot enumerate the paths of "+w.FuncName(helper)+": "+why)
				case capable > 0:
					c.OK("C30.R5", cons, pos, fmt.Sprintf("%s can hand a zero (or unclamped) estimate to the test on %d of its successful paths", w.FuncName(helper), capable))
				case raised > 0 && unknown == 0:
					c.Bad("C30.R5", cons, pos, fmt.Sprintf("a zero estimate is raised to the floor before the zero test: on every successful path of %s (returns at %v) the value it hands back went through `if v < floor { v = floor }`, so `estimate == 0` can never hold, the fallback branch is dead and an empty estimate yields the relay floor instead of the configured fallback rate", w.FuncName(helper), raisedAt))
				default:
					c.Unknown("C30.R5", cons, pos, "cannot trace the tested value through "+w.FuncName(helper))
				}
			}
		}
	}
	c.AtLeast("C30.R5", "Estimator implementations", nImpl, 3)
	c.AtLeast("C30.R5", "zero tests of an estimate in EstimateFeePerKW", nTests, 2)
}

func c30IsZeroID(p *c30Path, id string) bool { return false }
