package rules

import (
	"fmt"
	"reflect"
	"strings"

	"golang.org/x/tools/go/ssa"

	"psv/internal/an"
)

func init() {
	Register(&Prop{
		ID:   "C13",
		Expl: "Decides the ordering and single-assignment structure behind the Liquid anchor: (R1) in the first action of both taker tables every success return is dominated by the nil-error edge of the anchor helper, and inside the helper every nil return on the Liquid-v7 side passes the stores to StartingBlockHeight (from GetBlockHeight) and StartingBlockHeightSet; (R2) in SendEvent every path from one Action.Execute to the next passes a Store.UpdateData whose failure returns, and the anchor-setting state sends nothing itself (the pubkey-bearing message is sent by a successor state); (R3) all stores to the two anchor fields are enumerated: taker-side stores are either in the helper (whose states are FailOnrecover, so never re-executed) or unreachable on the Liquid-v7 side; (R4) every claim-payment call is unreachable unless a window check that requires the anchor flag passed or the swap is not Liquid; (R5) both fields are exported, JSON-tagged and the flag is a plain bool.",
		NotD: "Durability of bbolt itself; that json round-trips the two fields (C14).",
		Run:  runC13,
	})
}

const (
	c13Height = "SwapData.StartingBlockHeight"
	c13Flag   = "SwapData.StartingBlockHeightSet"
)

func runC13(c *an.Check) {
	c.Rule("C13.R1", "taker create actions succeed only after the anchor helper succeeded; helper stores both fields on the Liquid-v7 side before returning nil")
	c.Rule("C13.R2", "SendEvent persists between consecutive actions; the anchor-setting state sends no message")
	c.Rule("C13.R3", "anchor fields are written only by the helper (FailOnrecover states) or off the Liquid-v7 side")
	c.Rule("C13.R4", "no claim payment without a passed anchor-flag check (Liquid)")
	c.Rule("C13.R5", "anchor fields are persisted (exported, tagged)")
	if !needEffects(c, fxPay, fxBlockHeight, fxSendMessage, fxStoreUpdate) {
		return
	}
	w := c.W
	lv, ok := getLiquidV7(c)
	if !ok {
		return
	}
	ts := tables(c)
	if ts == nil {
		return
	}
	tk := takers(ts)
	if !c.AtLeast("C13", "taker tables", len(tk), 2) {
		return
	}

	// who stores the anchor fields (production, non-dummy)
	writers := map[*ssa.Function]bool{}
	for _, key := range []string{c13Height, c13Flag} {
		for _, st := range w.FieldWriters(key) {
			fn := st.Parent()
			if an.IsTestSupport(w.FnRel(fn)) || isDummy(w, fn) {
				continue
			}
			writers[fn] = true
		}
	}
	c.AtLeast("C13.R3", "functions storing the anchor fields", len(writers), 3)

	// helper = a writer that is not itself an Execute method and is called from a taker create action
	execFns := map[*ssa.Function]bool{}
	for _, fn := range ts[0].F.Exec {
		execFns[fn] = true
	}
	helperOK := map[*ssa.Function]bool{}
	createExecs := map[*ssa.Function]string{}

	for _, t := range tk {
		def := t.T.States[""]
		if def == nil {
			c.Anchor("table %s has no default state", t.Name())
			continue
		}
		for _, ev := range def.SortedEvents() {
			s := def.Events[ev]
			ss := t.Sum[s]
			// is this the create state (sets the anchor)? cancel-only targets do not.
			var helperCalls []an.EffectSite
			for _, ef := range ss.Effects {
				if ef.Info.Static != nil && writers[ef.Info.Static] && !execFns[ef.Info.Static] {
					helperCalls = append(helperCalls, ef)
				}
			}
			if len(helperCalls) == 0 {
				if ss.Events[evSucceeded] && t.T.Reach(s)[t.statesWith(fxPay)[0]] && len(ss.Sites(fxAddTimeout)) > 0 {
					c.Bad("C13.R1", t.key(s)+" sets-anchor", t.pos(c, s), "the first action of a taker table does not call an anchor-setting helper")
				}
				continue
			}
			// R3: the state is FailOnrecover (never re-executed)
			c.Decide(t.T.States[s].FailOnRecover, "C13.R3", t.key(s)+" FailOnrecover", t.pos(c, s), "anchor-setting state is never re-executed after a restart", "anchor-setting state is re-executed on recovery and would replace the anchor")
			// R2: sends nothing itself
			sends := len(ss.Sites(fxSendMessage)) > 0 || len(ss.Sites(fxAddSender)) > 0
			c.Decide(!sends, "C13.R2", t.key(s)+" sends-nothing", t.pos(c, s), "the anchor-setting state only prepares the message; SendEvent persists before the next state sends it", "the anchor-setting action itself sends a message: the pubkey can leave before the anchor is stored")
			for _, hc := range helperCalls {
				helper := hc.Info.Static
				call, isCall := hc.Info.Instr.(*ssa.Call)
				if !isCall {
					continue
				}
				ex := hc.In
				createExecs[ex] = t.key(s)
				okE, _ := an.OkEdges(call)
				good := len(okE) > 0
				for _, r := range an.Returns(ex) {
					evs := map[string]bool{}
					for _, res := range r.Results {
						for _, e := range eventValues(w, res) {
							evs[e] = true
						}
					}
					if !(evs[evSucceeded] || evs["NEXT"]) {
						continue
					}
					if !an.EdgesDominate(okE, r.Block()) {
						good = false
					}
				}
				c.Decide(good, "C13.R1", w.FuncName(ex)+" succeeds-after-anchor", w.Pos(call.Pos()),
					"every success return is dominated by the nil-error edge of "+w.FuncName(helper),
					"a success return of the create action is reachable without the anchor helper having succeeded")
				c13Helper(c, lv, helper, helperOK)
			}
		}
	}
	c.AtLeast("C13.R1", "taker create actions calling the anchor helper", len(createExecs), 2)

	// R3: every other writer
	inTaker := map[*ssa.Function]string{}
	for _, t := range tk {
		for _, s := range t.T.Order {
			for _, fn := range t.Sum[s].Execs {
				inTaker[fn] = t.key(s)
			}
		}
	}
	for fn := range writers {
		name := w.FuncName(fn)
		if helperOK[fn] {
			continue
		}
		if !execFns[fn] {
			// a non-action writer that no create action calls
			called := false
			for _, t := range tk {
				for _, s := range t.T.Order {
					for _, ef := range t.Sum[s].Effects {
						if ef.Info.Static == fn {
							called = true
						}
					}
				}
			}
			if !called {
				c.Bad("C13.R3", name+" writes-anchor", w.Pos(fn.Pos()), "the anchor fields are written by a function outside the state machines' actions")
			}
			continue
		}
		if inTaker[fn] == "" {
			c.OK("C13.R3", name+" writes-anchor", w.Pos(fn.Pos()), "maker-side action (its own start height), not used by a taker table")
			continue
		}
		// taker-side action: stores must be unreachable on the Liquid-v7 side
		cut := cutEdges(w, fn, lv.notLiquidV7)
		bad := ""
		for _, key := range []string{c13Height, c13Flag} {
			for _, st := range storesTo(fn, key) {
				if reachableAvoiding(st, nil, cut) {
					bad += fmt.Sprintf(" store to %s at %s", key, w.Pos(st.Pos()))
				}
			}
		}
		c.Decide(bad == "", "C13.R3", name+" writes-anchor", w.Pos(fn.Pos()),
			"stores are only reachable through a `chain != lbtc` / `version != 7` edge", "a taker action can overwrite the persisted Liquid-v7 anchor:"+bad)
	}

	// R2: SendEvent persists between actions
	se := w.Func("swap", "(*SwapStateMachine).SendEvent")
	if se == nil {
		c.Anchor("(*SwapStateMachine).SendEvent does not resolve")
	} else {
		execs := callsNamed(w, se, fxActionExecute)
		upd := callsNamed(w, se, fxStoreUpdate)
		var updI []ssa.Instruction
		for _, u := range upd {
			updI = append(updI, u)
		}
		if len(execs) == 0 || len(upd) == 0 {
			c.Anchor("SendEvent: Action.Execute / Store.UpdateData call not found")
		}
		for _, ex := range execs {
			for _, ex2 := range execs {
				c.Decide(!pathAvoiding(ex, ex2, updI), "C13.R2", "(*SwapStateMachine).SendEvent Execute->Execute", w.Pos(ex.Pos()),
					"every path from one action to the next passes Store.UpdateData", "a path from one Action.Execute to the next skips the store write: the anchor would not be durable before the next action sends the pubkey")
			}
		}
		for _, u := range upd {
			uc, ok := u.(*ssa.Call)
			if !ok {
				continue
			}
			_, fail := an.OkEdges(uc)
			good := len(fail) > 0
			for _, fe := range fail {
				reach := an.ReachBlocks([]*ssa.BasicBlock{fe.To()}, nil, nil)
				for _, ex := range execs {
					if reach[ex.Block()] {
						good = false
					}
				}
			}
			c.Decide(good, "C13.R2", "(*SwapStateMachine).SendEvent UpdateData-error-returns", w.Pos(u.Pos()), "a failed store write stops the machine", "a failed store write does not stop the machine before the next action")
		}
	}

	// R4: no payment without the anchor flag
	nPay := 0
	for _, fn := range prodFuncs(w) {
		if w.FnRel(fn) != "swap" || isDummy(w, fn) {
			continue
		}
		pays := callsNamed(w, fn, fxPay)
		if len(pays) == 0 {
			continue
		}
		// window checkers: in-module callees whose nil return requires the flag
		cut := cutEdges(w, fn, lv.notLiquidV7)
		for _, call := range an.Calls(fn) {
			cv, ok := call.(*ssa.Call)
			if !ok {
				continue
			}
			ci := w.Info(cv)
			if ci.Static == nil || !c13RequiresFlag(w, ci.Static) {
				continue
			}
			okE, _ := an.OkEdges(cv)
			for _, e := range okE {
				cut[e] = true
			}
		}
		for _, p := range pays {
			nPay++
			c.Decide(!reachableAvoiding(p, nil, cut), "C13.R4", w.FuncName(fn)+" pay-needs-anchor", w.Pos(p.Pos()),
				"the payment call is reachable only for non-Liquid swaps or after a window check that requires StartingBlockHeightSet",
				"a Liquid claim payment can be started without the anchor flag having been checked")
		}
	}
	c.AtLeast("C13.R4", "claim payment call sites", nPay, 1)

	// R5: persisted
	sd := w.Named("swap", "SwapData")
	if sd == nil {
		c.Anchor("swap.SwapData does not resolve")
		return
	}
	for _, f := range []string{"StartingBlockHeight", "StartingBlockHeightSet"} {
		v, tag, ok := structField(sd, f)
		if !ok {
			c.Anchor("SwapData.%s does not resolve", f)
			continue
		}
		jt := reflect.StructTag(tag).Get("json")
		name := strings.Split(jt, ",")[0]
		good := v.Exported() && name != "-"
		c.Decide(good, "C13.R5", "SwapData."+f+" persisted", w.Pos(v.Pos()), "exported, json name "+name, "anchor field is not persisted (unexported or tagged \"-\")")
	}
}

// c13RequiresFlag: fn returns a non-nil error whenever StartingBlockHeightSet
// is false (every nil-error return is dominated by the flag being true).
func c13RequiresFlag(w *an.World, fn *ssa.Function) bool {
	if fn.Blocks == nil {
		return false
	}
	res := fn.Signature.Results()
	if res.Len() != 1 || !an.IsErrorType(res.At(0).Type()) {
		return false
	}
	nNil := 0
	for _, r := range an.Returns(fn) {
		if len(r.Results) != 1 || !an.IsNilConst(r.Results[0]) {
			continue
		}
		nNil++
		fs := w.FactsDominatingBlock(r.Block())
		if !an.AnyFact(fs, func(f an.Fact) bool { return an.AtomIs(f, c13Flag, true) }) {
			return false
		}
	}
	return nNil > 0
}

// c13Helper checks the inside of the anchor helper.
func c13Helper(c *an.Check, lv liquidV7, helper *ssa.Function, done map[*ssa.Function]bool) {
	if done[helper] {
		return
	}
	w := c.W
	name := w.FuncName(helper)
	cut := cutEdges(w, helper, lv.notLiquidV7)
	hs := storesTo(helper, c13Height)
	fs := storesTo(helper, c13Flag)
	good := len(hs) > 0 && len(fs) > 0
	why := ""
	if !good {
		why = "helper does not store both fields"
	}
	// value stored: height from GetBlockHeight, flag true
	for _, s := range hs {
		src := w.Sources(s.(*ssa.Store).Val, an.FlowOpts{})
		if !(len(src.Leaves) == 1 && src.Has("call", fxBlockHeight+"#0")) {
			good = false
			why += " height stored from " + strings.Join(src.Names(), ",")
		}
	}
	for _, s := range fs {
		if cv, ok := s.(*ssa.Store).Val.(*ssa.Const); !ok || cv.Value == nil || cv.Value.String() != "true" {
			good = false
			why += " flag not stored as constant true"
		}
	}
	nNil := 0
	for _, r := range an.Returns(helper) {
		if len(r.Results) != 1 || !an.IsNilConst(r.Results[0]) {
			continue
		}
		nNil++
		if reachableAvoiding(r, hs, cut) {
			good = false
			why += " nil return at " + w.Pos(r.Pos()) + " reachable on the Liquid-v7 side without storing the height"
		}
		if reachableAvoiding(r, fs, cut) {
			good = false
			why += " nil return at " + w.Pos(r.Pos()) + " reachable on the Liquid-v7 side without setting the flag"
		}
	}
	if nNil == 0 {
		good = false
		why += " no nil return"
	}
	if c.Decide(good, "C13.R1", name+" stores-anchor", w.Pos(helper.Pos()), "on the Liquid-v7 side nil is returned only after both stores (height from GetBlockHeight, flag true)", strings.TrimSpace(why)) {
		done[helper] = true
	}
}
