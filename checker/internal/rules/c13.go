package rules

import (
	"fmt"
	"go/token"
	"go/types"
	"reflect"
	"sort"
	"strconv"
	"strings"

	"golang.org/x/tools/go/ssa"

	"psv/internal/an"
)

func init() {
	Register(&Prop{
		ID:   "C13",
		Expl: "Decides the ordering and single-assignment structure behind the Liquid anchor: (R1) in the first action of both taker tables every success return is dominated by the nil-error edge of the anchor helper (the outermost non-action function on the call chain from the action to the stores), and inside the helper every nil return on the Liquid-v7 side passes the stores to StartingBlockHeight (from GetBlockHeight) and StartingBlockHeightSet (stores made by a callee that stores on all of its paths count); (R2) in SendEvent every path from one Action.Execute to the next passes a Store.UpdateData (directly or through a callee that always calls it and propagates its error) whose failure returns, and the anchor-setting state sends nothing itself (the pubkey-bearing message is sent by a successor state); (R3) all stores to the two anchor fields are enumerated: taker-side stores are either in the helper (whose states are FailOnrecover, so never re-executed) or unreachable on the Liquid-v7 side; (R4) every claim-payment call is unreachable unless a window check that requires the anchor flag passed or the swap is not Liquid; (R5) both fields are exported, JSON-tagged and the flag is a plain bool.",
		NotD: "Durability of bbolt itself; that json round-trips the two fields (C14).",
		Run:  runC13,
	})
}

const (
	c13Height = "SwapData.StartingBlockHeight"
	c13Flag   = "SwapData.StartingBlockHeightSet"
	c13Depth  = 3
)

// c13HelperCall is a direct call, in a table action, of a non-action function
// whose synchronous call tree stores an anchor field.
type c13HelperCall struct {
	ex     *ssa.Function
	call   *ssa.Call
	helper *ssa.Function
}

func runC13(c *an.Check) {
	c.Rule("C13.R1", "taker create actions succeed only after the anchor helper succeeded; helper stores both fields on the Liquid-v7 side before returning nil")
	c.Rule("C13.R2", "SendEvent persists between consecutive actions; the anchor-setting state sends no message")
	c.Rule("C13.R3", "anchor fields are written only by the helper (FailOnrecover states) or off the Liquid-v7 side")
	c.Rule("C13.R4", "no claim payment without a passed anchor-flag check (Liquid)")
	c.Rule("C13.R5", "anchor fields are persisted (exported, tagged)")
	if !needEffects(c, fxPay, fxBlockHeight, fxSendMessage, fxStoreUpdate) {
		return
	}
	w := c.W
	lv, ok := getLiquidV7(c)
	if !ok {
		return
	}
	ts := tables(c)
	if ts == nil {
		return
	}
	tk := takers(ts)
	if !c.AtLeast("C13", "taker tables", len(tk), 2) {
		return
	}

	// who stores the anchor fields (production, non-dummy)
	writers := map[*ssa.Function]bool{}
	for _, key := range []string{c13Height, c13Flag} {
		for _, st := range w.FieldWriters(key) {
			fn := st.Parent()
			if an.IsTestSupport(w.FnRel(fn)) || isDummy(w, fn) {
				continue
			}
			writers[fn] = true
		}
	}
	execFns := map[*ssa.Function]bool{}
	for _, fn := range ts[0].F.Exec {
		execFns[fn] = true
	}
	// vacuity: table actions (not functions: a shared store helper must not lower
	// the count) whose synchronous call tree stores an anchor field
	anchorActions := map[*ssa.Function]bool{}
	for _, t := range ts {
		for _, s := range t.T.Order {
			for _, fn := range t.Sum[s].Execs {
				if c13Reaches(w, fn, writers) {
					anchorActions[fn] = true
				}
			}
		}
	}
	c.AtLeast("C13.R3", "table actions whose call tree stores the anchor fields", len(anchorActions), 4)

	// ---- R1: the create states of the taker tables ------------------------------------
	helperDone := map[*ssa.Function]bool{}
	helpersOf := map[*ssa.Function]map[*ssa.Function]bool{} // create action -> its anchor helpers
	createState := map[string]bool{}                        // table/state keys that set the anchor
	for _, t := range tk {
		def := t.T.States[""]
		if def == nil {
			c.Anchor("table %s has no default state", t.Name())
			continue
		}
		for _, ev := range def.SortedEvents() {
			s := def.Events[ev]
			ss := t.Sum[s]
			var hcs []c13HelperCall
			for _, ex := range ss.Execs {
				for _, call := range an.Calls(ex) {
					cv, isCall := call.(*ssa.Call)
					if !isCall {
						continue
					}
					h := w.Info(call).Static
					if h == nil || !w.InModule(h) || h.Blocks == nil || execFns[h] || !c13Reaches(w, h, writers) {
						continue
					}
					hcs = append(hcs, c13HelperCall{ex, cv, h})
				}
			}
			if len(hcs) == 0 {
				pays := t.statesWith(fxPay)
				isCreate := ss.Events[evSucceeded] && len(pays) > 0 && t.T.Reach(s)[pays[0]] && len(ss.Sites(fxAddTimeout)) > 0
				if !isCreate {
					continue // cancel-only targets do not set the anchor
				}
				reaches := false
				for _, ex := range ss.Execs {
					if c13Reaches(w, ex, writers) {
						reaches = true
					}
				}
				if reaches {
					c.Unknown("C13.R1", t.key(s)+" sets-anchor", t.pos(c, s), "the first action of this taker table stores the anchor fields itself (or through a closure / dynamic call) instead of through a helper that reports an error: shape not interpreted")
				} else {
					c.Bad("C13.R1", t.key(s)+" sets-anchor", t.pos(c, s), "the first action of a taker table does not call an anchor-setting helper: no function in its synchronous call tree stores the anchor fields")
				}
				continue
			}
			createState[t.key(s)] = true
			// R3: the state is FailOnrecover (never re-executed)
			c.Decide(t.T.States[s].FailOnRecover, "C13.R3", t.key(s)+" FailOnrecover", t.pos(c, s), "anchor-setting state is never re-executed after a restart", "anchor-setting state is re-executed on recovery and would replace the anchor")
			// R2: sends nothing itself
			sends := len(ss.Sites(fxSendMessage)) > 0 || len(ss.Sites(fxAddSender)) > 0
			c.Decide(!sends, "C13.R2", t.key(s)+" sends-nothing", t.pos(c, s), "the anchor-setting state only prepares the message; SendEvent persists before the next state sends it", "the anchor-setting action itself sends a message: the pubkey can leave before the anchor is stored")
			for _, hc := range hcs {
				if helpersOf[hc.ex] == nil {
					helpersOf[hc.ex] = map[*ssa.Function]bool{}
				}
				helpersOf[hc.ex][hc.helper] = true
				c13SucceedsAfter(c, hc)
				c13Helper(c, lv, hc.helper, helperDone)
			}
		}
	}
	c.AtLeast("C13.R1", "taker create states calling an anchor helper", len(createState), 2)

	// ---- R3: every other store ------------------------------------------------------------
	takerStatesOf := map[*ssa.Function][]string{}
	var takerExecs []*ssa.Function
	for _, t := range tk {
		for _, s := range t.T.Order {
			for _, fn := range t.Sum[s].Execs {
				if takerStatesOf[fn] == nil {
					takerExecs = append(takerExecs, fn)
				}
				takerStatesOf[fn] = append(takerStatesOf[fn], t.key(s))
			}
		}
	}
	sort.Slice(takerExecs, func(i, j int) bool { return w.FuncName(takerExecs[i]) < w.FuncName(takerExecs[j]) })
	covered := map[*ssa.Function]bool{} // writers reached from some table action
	for fn := range anchorActions {
		covered[fn] = true
		for _, ef := range w.Summary(fn).Effects {
			covered[ef.In] = true
			if ef.Info.Static != nil {
				covered[ef.Info.Static] = true
			}
		}
	}
	for _, ex := range takerExecs {
		if !anchorActions[ex] {
			continue
		}
		name := w.FuncName(ex)
		// the verified helper of a create action is exempt only when the action is
		// used by create states alone
		skip := map[*ssa.Function]bool{}
		onlyCreate := true
		for _, k := range takerStatesOf[ex] {
			if !createState[k] {
				onlyCreate = false
			}
		}
		if onlyCreate {
			for h := range helpersOf[ex] {
				skip[h] = true
			}
		}
		bad, unk := c13LiquidSideStores(w, lv, ex, writers, skip, map[*ssa.Function]bool{}, 0)
		switch {
		case len(bad) > 0:
			c.Bad("C13.R3", name+" writes-anchor", w.Pos(ex.Pos()), "a taker action can overwrite the persisted Liquid-v7 anchor: "+strings.Join(bad, "; "))
		case len(unk) > 0:
			c.Unknown("C13.R3", name+" writes-anchor", w.Pos(ex.Pos()), "cannot decide whether these stores run on the Liquid-v7 side: "+strings.Join(unk, "; "))
		default:
			c.OK("C13.R3", name+" writes-anchor", w.Pos(ex.Pos()), "stores are only reachable through a `chain != lbtc` / `version != 7` edge (or made by the verified anchor helper of a create state)")
		}
	}
	var ws []*ssa.Function
	for fn := range writers {
		ws = append(ws, fn)
	}
	sort.Slice(ws, func(i, j int) bool { return w.FuncName(ws[i]) < w.FuncName(ws[j]) })
	for _, fn := range ws {
		name := w.FuncName(fn)
		if execFns[fn] {
			if len(takerStatesOf[fn]) == 0 {
				c.OK("C13.R3", name+" writes-anchor", w.Pos(fn.Pos()), "maker-side action (its own start height), not used by a taker table")
			}
			continue
		}
		if !covered[fn] {
			c.Bad("C13.R3", name+" writes-anchor", w.Pos(fn.Pos()), "the anchor fields are written by a function outside the state machines' actions")
		}
	}

	// ---- R2: SendEvent persists between actions ----------------------------------------------
	c13SendEventPersists(c)

	// ---- R4: no payment without the anchor flag ------------------------------------------------
	nPay := 0
	for _, fn := range prodFuncs(w) {
		if w.FnRel(fn) != "swap" || isDummy(w, fn) {
			continue
		}
		for _, p := range callsNamed(w, fn, fxPay) {
			nPay++
			cons := w.FuncName(fn) + " pay-needs-anchor"
			switch c13Protected(w, lv, fn, p, execFns, 0) {
			case 1:
				c.OK("C13.R4", cons, w.Pos(p.Pos()), "the payment call is reachable only for non-Liquid swaps or after a window check that requires StartingBlockHeightSet")
			case 0:
				c.Unknown("C13.R4", cons, w.Pos(p.Pos()), "the payment call is guarded by a check that reads StartingBlockHeightSet, but its shape (returned value / closure / caller chain) could not be interpreted")
			default:
				c.Bad("C13.R4", cons, w.Pos(p.Pos()), "a Liquid claim payment can be started without the anchor flag having been checked")
			}
		}
	}
	c.AtLeast("C13.R4", "claim payment call sites", nPay, 1)

	// ---- R5: persisted ----------------------------------------------------------------------------
	sd := w.Named("swap", "SwapData")
	if sd == nil {
		c.Anchor("swap.SwapData does not resolve")
		return
	}
	for _, f := range []string{"StartingBlockHeight", "StartingBlockHeightSet"} {
		v, tag, ok := structField(sd, f)
		if !ok {
			c.Anchor("SwapData.%s does not resolve", f)
			continue
		}
		jt := reflect.StructTag(tag).Get("json")
		name := strings.Split(jt, ",")[0]
		good := v.Exported() && name != "-"
		c.Decide(good, "C13.R5", "SwapData."+f+" persisted", w.Pos(v.Pos()), "exported, json name "+name, "anchor field is not persisted (unexported or tagged \"-\")")
	}
}

// c13NotLiquid extends liquidV7.notLiquidV7 (a `chain != lbtc` / `version != 7`
// edge) by two equivalent shapes: `chain == <another chain constant>`, and a
// boolean predicate helper (isLiquidSwap(), isLiquidV7(), isBitcoin()) whose
// outcome on this edge implies one of these facts.
func c13NotLiquid(w *an.World, lv liquidV7, depth int) func(an.Fact) bool {
	return func(f an.Fact) bool {
		if lv.notLiquidV7(f) {
			return true
		}
		if f.NonNum && f.Rel == "==" {
			for _, pr := range [][2]string{{f.L, f.R}, {f.R, f.L}} {
				if strings.Contains(pr[0], ").GetChain") {
					if c, err := strconv.Unquote(pr[1]); err == nil && c != lv.lbtc {
						return true
					}
				}
			}
		}
		if (f.Rel == "true" || f.Rel == "false") && depth < 2 {
			if call, ok := f.Cond.(*ssa.Call); ok {
				g := w.Info(call).Static
				if g != nil && w.InModule(g) && g.Blocks != nil {
					return c13PredicateImpliesNotLiquid(w, lv, g, f.Rel == "true", depth+1)
				}
			}
		}
		return false
	}
}

// c13PredicateImpliesNotLiquid: whenever the boolean function g returns truth,
// the swap is not a Liquid-v7 swap.
func c13PredicateImpliesNotLiquid(w *an.World, lv liquidV7, g *ssa.Function, truth bool, depth int) bool {
	res := g.Signature.Results()
	if res.Len() != 1 {
		return false
	}
	if b, ok := res.At(0).Type().Underlying().(*types.Basic); !ok || b.Kind() != types.Bool {
		return false
	}
	nl := c13NotLiquid(w, lv, depth)
	pts := c13ResultPoints(g, 0)
	for _, p := range pts {
		if p.Weak {
			return false
		}
		if an.AnyFact(p.facts(w), nl) {
			continue // this return is only reached for non-Liquid-v7 swaps
		}
		if cv, ok := p.Val.(*ssa.Const); ok && cv.Value != nil {
			if (cv.Value.String() == "true") != truth {
				continue // returns the other outcome
			}
			return false
		}
		bo, ok := p.Val.(*ssa.BinOp)
		if !ok || (bo.Op != token.EQL && bo.Op != token.NEQ) {
			return false
		}
		// outcome of the comparison that makes g return truth
		eq := (bo.Op == token.EQL) == truth // true: operands equal on the `truth` outcome
		good := false
		for _, pr := range [][2]ssa.Value{{bo.X, bo.Y}, {bo.Y, bo.X}} {
			t := w.Term(pr[0])
			if strings.Contains(t, ").GetChain") {
				if c, ok := an.ConstString(pr[1]); ok {
					// chain == c (eq) with c another chain, or chain != lbtc (!eq)
					if (eq && c != lv.lbtc) || (!eq && c == lv.lbtc) {
						good = true
					}
				}
			}
			if strings.Contains(t, ").GetProtocolVersion") {
				if k, ok := an.ConstInt(pr[1]); ok && !eq && k == lv.version {
					good = true
				}
			}
		}
		if !good {
			return false
		}
	}
	return len(pts) > 0
}

// c13Reaches: fn or a function in its synchronous in-module call tree is in set.
func c13Reaches(w *an.World, fn *ssa.Function, set map[*ssa.Function]bool) bool {
	if set[fn] {
		return true
	}
	for _, ef := range w.Summary(fn).Effects {
		if strings.HasPrefix(ef.Name, "go:") {
			continue
		}
		if set[ef.In] || (ef.Info.Static != nil && set[ef.Info.Static]) {
			return true
		}
	}
	return false
}

// ---- returned errors and events, per incoming path -------------------------------------------

// c13RetPoint is one (value, place) pair of a function result: a returned phi is
// expanded into its incoming values at the end of the predecessor blocks.
type c13RetPoint struct {
	At   ssa.Instruction // executing At means "about to return Val"
	Blk  *ssa.BasicBlock
	Val  ssa.Value
	Edge *an.Edge // for an expanded phi: the edge Blk -> return block on which Val is chosen
	Weak bool     // the place is less precise than the value (defer-spilled result)
}

// behind: the point cannot be reached once the edges es are removed (they lie
// on every path to it).
func (p c13RetPoint) behind(es []an.Edge) bool {
	if len(es) == 0 {
		return false
	}
	if p.Edge != nil {
		for _, e := range es {
			if e == *p.Edge {
				return true
			}
		}
	}
	return an.EdgesDominate(es, p.Blk)
}

// facts that hold when the point is reached.
func (p c13RetPoint) facts(w *an.World) []an.Fact {
	fs := w.FactsDominatingBlock(p.Blk)
	if p.Edge != nil {
		for _, f := range w.Facts(p.Blk.Parent()) {
			if f.Edge == *p.Edge {
				fs = append(fs, f)
			}
		}
	}
	return fs
}

// reachable: can the point be reached from the entry without executing an
// instruction of via and without crossing a cut edge?
func (p c13RetPoint) reachable(via []ssa.Instruction, cut map[an.Edge]bool) bool {
	if p.Edge != nil && cut[*p.Edge] {
		return false
	}
	return reachableAvoiding(p.At, via, cut)
}

func c13ResultPoints(fn *ssa.Function, idx int) []c13RetPoint {
	var out []c13RetPoint
	for _, r := range an.Returns(fn) {
		if idx >= len(r.Results) {
			continue
		}
		v := r.Results[idx]
		if phi, ok := v.(*ssa.Phi); ok && phi.Block() == r.Block() {
			for i, e := range phi.Edges {
				pred := r.Block().Preds[i]
				pt := c13RetPoint{At: pred.Instrs[len(pred.Instrs)-1], Blk: pred, Val: e}
				for k, sc := range pred.Succs {
					if sc == r.Block() {
						pt.Edge = &an.Edge{From: pred, Idx: k}
					}
				}
				out = append(out, pt)
			}
			continue
		}
		if ld, ok := v.(*ssa.UnOp); ok && ld.Op == token.MUL {
			if al, ok := ld.X.(*ssa.Alloc); ok {
				stores, fromEntry := an.StoresReaching(ld, al)
				for _, s := range stores {
					out = append(out, c13RetPoint{At: r, Blk: r.Block(), Val: s.Val, Weak: true})
				}
				if fromEntry || len(stores) == 0 {
					out = append(out, c13RetPoint{At: r, Blk: r.Block(), Val: v, Weak: true})
				}
				continue
			}
		}
		out = append(out, c13RetPoint{At: r, Blk: r.Block(), Val: v})
	}
	return out
}

// c13ErrPoints: result points of the trailing error result (nil if there is none).
func c13ErrPoints(fn *ssa.Function) []c13RetPoint {
	res := fn.Signature.Results()
	if fn.Blocks == nil || res.Len() == 0 || !an.IsErrorType(res.At(res.Len()-1).Type()) {
		return nil
	}
	return c13ResultPoints(fn, res.Len()-1)
}

// c13ErrClass classifies an error value v returned at point at: "nil",
// "nonnil" or "maybe"; call is set when the value is the error result of a call.
func c13ErrClass(w *an.World, v ssa.Value, at c13RetPoint, depth int) (string, *ssa.Call) {
	if an.IsNilConst(v) {
		return "nil", nil
	}
	var call *ssa.Call
	switch x := v.(type) {
	case *ssa.MakeInterface:
		return "nonnil", nil
	case *ssa.Extract:
		if cv, ok := x.Tuple.(*ssa.Call); ok && x.Index == an.ErrResultIndex(cv) {
			call = cv
		}
	case *ssa.Call:
		call = x
	case *ssa.Phi:
		for _, e := range x.Edges {
			if cl, _ := c13ErrClass(w, e, at, depth); cl != "nonnil" {
				return "maybe", nil
			}
		}
		return "nonnil", nil
	}
	if call == nil {
		return "maybe", nil
	}
	ci := w.Info(call)
	if ci.Name == "func:errors.New" || ci.Name == "func:fmt.Errorf" {
		return "nonnil", call
	}
	okE, failE := an.OkEdges(call)
	if at.behind(failE) {
		return "nonnil", call
	}
	if at.behind(okE) {
		return "nil", call
	}
	if g := ci.Static; g != nil && w.InModule(g) && g.Blocks != nil && depth < 2 {
		pts := c13ErrPoints(g)
		all := len(pts) > 0
		for _, p := range pts {
			if cl, _ := c13ErrClass(w, p.Val, p, depth+1); cl != "nonnil" {
				all = false
			}
		}
		if all {
			return "nonnil", call
		}
	}
	return "maybe", call
}

// ---- R1 ----------------------------------------------------------------------------------------

// c13SucceedsAfter: every success return of the create action lies behind the
// nil-error edge of the helper call.
func c13SucceedsAfter(c *an.Check, hc c13HelperCall) {
	w := c.W
	cons := w.FuncName(hc.ex) + " succeeds-after-anchor"
	pos := w.Pos(hc.call.Pos())
	okE, _ := an.OkEdges(hc.call)
	if len(okE) == 0 {
		idx := an.ErrResultIndex(hc.call)
		used := false
		if idx >= 0 {
			for _, rv := range an.ResultValues(hc.call, idx) {
				if rv.Referrers() != nil && len(*rv.Referrers()) > 0 {
					used = true
				}
			}
		}
		switch {
		case idx < 0:
			c.Unknown("C13.R1", cons, pos, "the outermost anchor helper "+w.FuncName(hc.helper)+" has no error result: shape not interpreted")
		case !used:
			c.Bad("C13.R1", cons, pos, "a success return of the create action is reachable without the anchor helper having succeeded (its error is discarded)")
		default:
			c.Unknown("C13.R1", cons, pos, "the error of "+w.FuncName(hc.helper)+" is not tested by a nil comparison: shape not interpreted")
		}
		return
	}
	bad, unk := false, false
	res := hc.ex.Signature.Results()
	for i := 0; i < res.Len(); i++ {
		if !c13IsEventType(res.At(i).Type()) {
			continue
		}
		for _, p := range c13ResultPoints(hc.ex, i) {
			succ, maybe := false, false
			for _, e := range eventValues(w, p.Val) {
				switch e {
				case evSucceeded, "NEXT":
					succ = true
				case "?":
					maybe = true
				}
			}
			if !(succ || maybe) || p.behind(okE) {
				continue
			}
			if succ && !p.Weak {
				bad = true
			} else {
				unk = true
			}
		}
	}
	switch {
	case bad:
		c.Bad("C13.R1", cons, pos, "a success return of the create action is reachable without the anchor helper having succeeded")
	case unk:
		c.Unknown("C13.R1", cons, pos, "a return whose event could not be resolved is reachable without the anchor helper having succeeded")
	default:
		c.OK("C13.R1", cons, pos, "every success return is dominated by the nil-error edge of "+w.FuncName(hc.helper))
	}
}

func c13IsEventType(t types.Type) bool {
	n, ok := t.(*types.Named)
	return ok && n.Obj().Name() == "EventType"
}

// c13StorePoint is an instruction of fn after which field key has been stored:
// a store, or a call of an in-module function that stores on every path to each
// of its returns. Vals are the stored values, callee parameters replaced by the
// call's arguments.
type c13StorePoint struct {
	At   ssa.Instruction
	Vals []ssa.Value
}

func c13StorePoints(w *an.World, fn *ssa.Function, key string, depth int, seen map[*ssa.Function]bool) (pts []c13StorePoint, partial bool) {
	if seen[fn] {
		return nil, false
	}
	seen[fn] = true
	defer delete(seen, fn)
	for _, st := range storesTo(fn, key) {
		pts = append(pts, c13StorePoint{At: st, Vals: []ssa.Value{st.(*ssa.Store).Val}})
	}
	for _, call := range an.Calls(fn) {
		g := w.Info(call).Static
		if g == nil || !w.InModule(g) || g.Blocks == nil {
			continue
		}
		if _, isCall := call.(*ssa.Call); !isCall || depth >= c13Depth {
			// go / defer / too deep: a store in there is not a store "before the return"
			if len(w.FieldWriters(key)) > 0 && c13WritesKey(w, g, key) {
				partial = true
			}
			continue
		}
		sub, subPartial := c13StorePoints(w, g, key, depth+1, seen)
		if subPartial {
			partial = true
		}
		if len(sub) == 0 {
			continue
		}
		var via []ssa.Instruction
		for _, sp := range sub {
			via = append(via, sp.At)
		}
		rets := an.Returns(g)
		all := len(rets) > 0
		for _, r := range rets {
			if !an.MustPassInstr(r, via) {
				all = false
			}
		}
		if !all {
			partial = true
			continue
		}
		var vals []ssa.Value
		args := call.Common().Args
		for _, sp := range sub {
			for _, v := range sp.Vals {
				if p, ok := v.(*ssa.Parameter); ok && p.Parent() == g {
					for i, gp := range g.Params {
						if gp == p && i < len(args) {
							v = args[i]
						}
					}
				}
				vals = append(vals, v)
			}
		}
		pts = append(pts, c13StorePoint{At: call, Vals: vals})
	}
	return pts, partial
}

// c13WritesKey: fn's synchronous call tree stores field key.
func c13WritesKey(w *an.World, fn *ssa.Function, key string) bool {
	set := map[*ssa.Function]bool{}
	for _, st := range w.FieldWriters(key) {
		set[st.Parent()] = true
	}
	return c13Reaches(w, fn, set)
}

// c13Helper checks the inside of the anchor helper.
func c13Helper(c *an.Check, lv liquidV7, helper *ssa.Function, done map[*ssa.Function]bool) {
	if done[helper] {
		return
	}
	done[helper] = true
	w := c.W
	name := w.FuncName(helper)
	cons := name + " stores-anchor"
	pos := w.Pos(helper.Pos())
	pts := c13ErrPoints(helper)
	if pts == nil {
		c.Unknown("C13.R1", cons, pos, "the anchor helper has no trailing error result: shape not interpreted")
		return
	}
	cut := cutEdges(w, helper, c13NotLiquid(w, lv, 0))
	hs, hPartial := c13StorePoints(w, helper, c13Height, 0, map[*ssa.Function]bool{})
	fs, fPartial := c13StorePoints(w, helper, c13Flag, 0, map[*ssa.Function]bool{})
	var bad, unk []string
	note := func(definite bool, msg string) {
		if definite {
			bad = append(bad, msg)
		} else {
			unk = append(unk, msg)
		}
	}
	if len(hs) == 0 {
		note(!hPartial, "helper does not store the height on every path")
	}
	if len(fs) == 0 {
		note(!fPartial, "helper does not store the flag on every path")
	}
	// value stored: height from GetBlockHeight, flag true
	for _, sp := range hs {
		for _, v := range sp.Vals {
			src := w.Sources(v, an.FlowOpts{})
			fromHeight, definite := len(src.Leaves) > 0, true
			for _, l := range src.Leaves {
				if !(l.Kind == "call" && l.Name == fxBlockHeight+"#0") {
					fromHeight = false
				}
				switch l.Kind {
				case "const", "zero", "call", "field", "global":
				default:
					definite = false
				}
			}
			if !fromHeight {
				note(definite && len(src.Leaves) > 0, "height stored from "+strings.Join(src.Names(), ","))
			}
		}
	}
	for _, sp := range fs {
		for _, v := range sp.Vals {
			cv, isConst := v.(*ssa.Const)
			if isConst && cv.Value != nil && cv.Value.String() == "true" {
				continue
			}
			note(isConst, "flag not stored as constant true")
		}
	}
	var hI, fI []ssa.Instruction
	for _, sp := range hs {
		hI = append(hI, sp.At)
	}
	for _, sp := range fs {
		fI = append(fI, sp.At)
	}
	nNil := 0
	for _, p := range pts {
		class, call := c13ErrClass(w, p.Val, p, 0)
		if class == "nonnil" {
			continue
		}
		nNil++
		cutP := cut
		definite := class == "nil" && !p.Weak && !hPartial && !fPartial
		if class == "maybe" && call != nil {
			// the value is nil only where the call's error was nil
			_, failE := an.OkEdges(call)
			cutP = map[an.Edge]bool{}
			for e := range cut {
				cutP[e] = true
			}
			for _, e := range failE {
				cutP[e] = true
			}
		}
		if len(hI) > 0 && p.reachable(hI, cutP) {
			note(definite, "nil return at "+w.Pos(p.At.Pos())+" reachable on the Liquid-v7 side without storing the height")
		}
		if len(fI) > 0 && p.reachable(fI, cutP) {
			note(definite, "nil return at "+w.Pos(p.At.Pos())+" reachable on the Liquid-v7 side without setting the flag")
		}
	}
	if nNil == 0 {
		unk = append(unk, "no return of the helper could be recognised as a nil (success) return")
	}
	switch {
	case len(bad) > 0:
		c.Bad("C13.R1", cons, pos, strings.Join(append(bad, unk...), "; "))
	case len(unk) > 0:
		c.Unknown("C13.R1", cons, pos, strings.Join(unk, "; "))
	default:
		c.OK("C13.R1", cons, pos, "on the Liquid-v7 side nil is returned only after both stores (height from GetBlockHeight, flag true)")
	}
}

// ---- R3 ----------------------------------------------------------------------------------------

// c13LiquidSideStores lists the stores to the anchor fields in fn's synchronous
// call tree that can execute without a `chain != lbtc` / `version != 7` edge
// having been taken in the frame of the store or of a call leading to it.
func c13LiquidSideStores(w *an.World, lv liquidV7, fn *ssa.Function, writers, skip, seen map[*ssa.Function]bool, depth int) (bad, unk []string) {
	if seen[fn] {
		return nil, nil
	}
	seen[fn] = true
	cut := cutEdges(w, fn, c13NotLiquid(w, lv, 0))
	for _, key := range []string{c13Height, c13Flag} {
		for _, st := range storesTo(fn, key) {
			if reachableAvoiding(st, nil, cut) {
				bad = append(bad, fmt.Sprintf("store to %s at %s", key, w.Pos(st.Pos())))
			}
		}
	}
	for _, call := range an.Calls(fn) {
		g := w.Info(call).Static
		if g == nil || !w.InModule(g) || g.Blocks == nil || skip[g] || !c13Reaches(w, g, writers) {
			continue
		}
		if !reachableAvoiding(call, nil, cut) {
			continue
		}
		if depth >= c13Depth {
			unk = append(unk, "call chain to "+w.FuncName(g)+" is too deep")
			continue
		}
		b, u := c13LiquidSideStores(w, lv, g, writers, skip, seen, depth+1)
		for _, x := range b {
			bad = append(bad, x+" (via "+w.FuncName(g)+")")
		}
		unk = append(unk, u...)
	}
	// closures created here (deferred / passed on) that store
	for _, af := range fn.AnonFuncs {
		if c13Reaches(w, af, writers) && !seen[af] {
			direct := false
			for _, call := range an.Calls(fn) {
				if w.Info(call).Static == af {
					direct = true
				}
			}
			if !direct {
				unk = append(unk, "closure "+w.FuncName(af)+" stores an anchor field")
			}
		}
	}
	return bad, unk
}

// ---- R2 ----------------------------------------------------------------------------------------

// c13PersistCallee: g always calls Store.UpdateData (itself or through such a
// callee) before it returns, and returns a non-nil error whenever that call
// failed.
func c13PersistCallee(w *an.World, g *ssa.Function, depth int, seen map[*ssa.Function]bool) bool {
	if g == nil || g.Blocks == nil || !w.InModule(g) || seen[g] || depth > c13Depth {
		return false
	}
	seen[g] = true
	defer delete(seen, g)
	pts := c13ErrPoints(g)
	if pts == nil {
		return false
	}
	var upd []*ssa.Call
	for _, call := range an.Calls(g) {
		cv, ok := call.(*ssa.Call)
		if !ok {
			continue
		}
		ci := w.Info(call)
		if ci.Name == fxStoreUpdate || (ci.Static != nil && ci.Static != g && w.Summary(ci.Static).HasEffect(fxStoreUpdate) && c13PersistCallee(w, ci.Static, depth+1, seen)) {
			upd = append(upd, cv)
		}
	}
	if len(upd) == 0 {
		return false
	}
	var via []ssa.Instruction
	for _, u := range upd {
		via = append(via, u)
	}
	for _, r := range an.Returns(g) {
		if !an.MustPassInstr(r, via) {
			return false
		}
	}
	// failure propagates: after u, a return either returns u's error, or lies
	// behind u's nil-error edge, or returns a non-nil error behind its failure edge
	for _, u := range upd {
		okE, failE := an.OkEdges(u)
		after := an.ReachBlocks([]*ssa.BasicBlock{u.Block()}, nil, nil)
		for _, p := range pts {
			if !after[p.Blk] {
				continue
			}
			isU := false
			switch x := p.Val.(type) {
			case *ssa.Call:
				isU = x == u
			case *ssa.Extract:
				isU = x.Tuple == ssa.Value(u) && x.Index == an.ErrResultIndex(u)
			}
			if isU {
				continue
			}
			if p.behind(okE) {
				continue
			}
			if cl, _ := c13ErrClass(w, p.Val, p, 0); cl == "nonnil" && p.behind(failE) {
				continue
			}
			return false
		}
	}
	return true
}

func c13SendEventPersists(c *an.Check) {
	w := c.W
	se := w.Func("swap", "(*SwapStateMachine).SendEvent")
	if se == nil {
		c.Anchor("(*SwapStateMachine).SendEvent does not resolve")
		return
	}
	execs := callsNamed(w, se, fxActionExecute)
	var upd []*ssa.Call
	uninterpreted := ""
	for _, call := range an.Calls(se) {
		ci := w.Info(call)
		cv, isCall := call.(*ssa.Call)
		if ci.Name == fxStoreUpdate {
			if isCall {
				upd = append(upd, cv)
			} else {
				uninterpreted = "a deferred/asynchronous Store.UpdateData"
			}
			continue
		}
		g := ci.Static
		if g == nil || g == se || !w.InModule(g) || g.Blocks == nil || !w.Summary(g).HasEffect(fxStoreUpdate) {
			continue
		}
		if isCall && c13PersistCallee(w, g, 0, map[*ssa.Function]bool{}) {
			upd = append(upd, cv)
		} else {
			uninterpreted = "the callee " + w.FuncName(g) + " reaches Store.UpdateData but does not always call it and propagate its error"
		}
	}
	if len(execs) == 0 || len(upd) == 0 {
		// never a violation alongside the unresolved anchor
		c.Anchor("SendEvent: Action.Execute / Store.UpdateData call not found (directly or through a callee that always persists and propagates the error)")
		return
	}
	var updI []ssa.Instruction
	for _, u := range upd {
		updI = append(updI, u)
	}
	skips := false
	for _, ex := range execs {
		for _, ex2 := range execs {
			if pathAvoiding(ex, ex2, updI) {
				skips = true
			}
		}
	}
	cons := "(*SwapStateMachine).SendEvent Execute->Execute"
	pos := w.Pos(execs[0].Pos())
	switch {
	case !skips:
		c.OK("C13.R2", cons, pos, "every path from one action to the next passes Store.UpdateData")
	case uninterpreted != "":
		c.Unknown("C13.R2", cons, pos, "a path from one Action.Execute to the next passes no recognised store write, but "+uninterpreted)
	default:
		c.Bad("C13.R2", cons, pos, "a path from one Action.Execute to the next skips the store write: the anchor would not be durable before the next action sends the pubkey")
	}
	for _, u := range upd {
		okE, fail := an.OkEdges(u)
		cons := "(*SwapStateMachine).SendEvent UpdateData-error-returns"
		if len(fail) == 0 {
			// the error is not tested by a nil comparison
			used := false
			for _, rv := range an.ResultValues(u, an.ErrResultIndex(u)) {
				if rv.Referrers() != nil && len(*rv.Referrers()) > 0 {
					used = true
				}
			}
			if used || len(okE) > 0 {
				c.Unknown("C13.R2", cons, w.Pos(u.Pos()), "the error of the store write is used but not tested by a nil comparison: shape not interpreted")
			} else {
				c.Bad("C13.R2", cons, w.Pos(u.Pos()), "a failed store write does not stop the machine before the next action (its error is discarded)")
			}
			continue
		}
		good := true
		for _, fe := range fail {
			reach := an.ReachBlocks([]*ssa.BasicBlock{fe.To()}, nil, nil)
			for _, ex := range execs {
				if reach[ex.Block()] {
					good = false
				}
			}
		}
		c.Decide(good, "C13.R2", cons, w.Pos(u.Pos()), "a failed store write stops the machine", "a failed store write does not stop the machine before the next action")
	}
}

// ---- R4 ----------------------------------------------------------------------------------------

// c13RequiresFlag: fn returns a non-nil error whenever StartingBlockHeightSet
// is false (every possibly-nil error return is dominated by the flag being
// true, or is the result of a callee with that property). unknown is set when
// the answer is no only because a returned value could not be interpreted.
func c13RequiresFlag(w *an.World, fn *ssa.Function, depth int) (yes, unknown bool) {
	if fn == nil || fn.Blocks == nil || !w.InModule(fn) {
		return false, false
	}
	res := fn.Signature.Results()
	if res.Len() != 1 || !an.IsErrorType(res.At(0).Type()) {
		return false, false
	}
	n := 0
	defNo, unk := false, false
	for _, p := range c13ErrPoints(fn) {
		class, call := c13ErrClass(w, p.Val, p, 0)
		if class == "nonnil" {
			continue
		}
		if an.AnyFact(p.facts(w), func(f an.Fact) bool { return an.AtomIs(f, c13Flag, true) }) {
			n++
			continue
		}
		if call != nil && depth < c13Depth {
			if g := w.Info(call).Static; g != nil && g != fn {
				y, u := c13RequiresFlag(w, g, depth+1)
				if y {
					n++
					continue
				}
				okE, failE := an.OkEdges(call)
				if !u && class == "maybe" && len(okE)+len(failE) == 0 && !p.Weak {
					// `return g(...)` of a callee that can return nil without the flag
					if pts := c13ErrPoints(g); len(pts) > 0 {
						defNo = true
						continue
					}
				}
				unk = true
				continue
			}
		}
		if class == "nil" && call == nil && !p.Weak {
			defNo = true // a literal `return nil` that is not behind the flag test
		} else {
			unk = true
		}
	}
	if defNo {
		return false, false
	}
	if unk {
		return false, c13ReadsFlag(w, fn)
	}
	return n > 0, false
}

// c13ReadsFlag: the anchor flag is read somewhere in fn's synchronous call tree.
func c13ReadsFlag(w *an.World, fn *ssa.Function) bool {
	set := map[*ssa.Function]bool{}
	for _, in := range w.FieldReaders(c13Flag) {
		set[in.Parent()] = true
	}
	return c13Reaches(w, fn, set)
}

// c13Protected decides whether call site `site` in fn can execute for a Liquid
// swap whose anchor flag was not checked: 1 protected, 0 cannot interpret,
// -1 unprotected.
func c13Protected(w *an.World, lv liquidV7, fn *ssa.Function, site ssa.Instruction, execFns map[*ssa.Function]bool, depth int) int {
	cut := cutEdges(w, fn, c13NotLiquid(w, lv, 0))
	cutMaybe := map[an.Edge]bool{}
	hasMaybe := false
	for _, call := range an.Calls(fn) {
		cv, ok := call.(*ssa.Call)
		if !ok {
			continue
		}
		g := w.Info(cv).Static
		if g == nil {
			continue
		}
		yes, unknown := c13RequiresFlag(w, g, 0)
		if !yes && !unknown {
			continue
		}
		okE, _ := an.OkEdges(cv)
		for _, e := range okE {
			if yes {
				cut[e] = true
			} else {
				cutMaybe[e] = true
				hasMaybe = true
			}
		}
	}
	if !reachableAvoiding(site, nil, cut) {
		return 1
	}
	verdict := -1
	if hasMaybe {
		for e := range cut {
			cutMaybe[e] = true
		}
		if !reachableAvoiding(site, nil, cutMaybe) {
			verdict = 0
		}
	}
	if verdict == 0 {
		return 0
	}
	// the guard may be in the callers: a payment helper, or a closure
	if fn.Parent() != nil {
		return 0
	}
	if execFns[fn] || depth >= c13Depth {
		return -1
	}
	var callers []ssa.CallInstruction
	for _, f2 := range prodFuncs(w) {
		if isDummy(w, f2) {
			continue
		}
		for _, call := range an.Calls(f2) {
			if call.Common().StaticCallee() == fn {
				callers = append(callers, call)
			}
		}
	}
	if len(callers) == 0 {
		return -1
	}
	worst := 1
	for _, call := range callers {
		if v := c13Protected(w, lv, call.Parent(), call, execFns, depth+1); v < worst {
			worst = v
		}
	}
	return worst
}
