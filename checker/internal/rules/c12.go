package rules

import (
	"fmt"
	"go/constant"
	"go/token"
	"go/types"
	"sort"
	"strings"
	"sync"

	"golang.org/x/tools/go/ssa"

	"psv/internal/an"
)

func init() {
	Register(&Prop{
		ID: "C12",
		Expl: "Decides structural necessary conditions of 'neither side pays more than agreed' over the state tables, the SSA of the actions and the request constructors. " +
			"R1: a premium-checking action is an action every delegation `next.Execute` of which is dominated by `Swap<K>Agreement != nil` and by `Swap<K>Request.PremiumLimit - Swap<K>Agreement.Premium >= 0` for one kind K (both kinds must occur, the unguarded side returns only Event_ActionFailed); in each initiator table (a table that never constructs an agreement) every state that moves amount+premium (claim payment RebalancePayment; Wallet.CreateOpeningTransaction) either has such an action in front of the paying action in its own chain or is unreachable from the default state once the states that have one are left only through their failure edge. " +
			"R2: every PayInvoiceViaChannel call is cut off by fee <= 3 x Wallet.GetFlatOpeningTXFee() (fee = DecodePayreq amount / 1000 of the very payreq that is paid, directly or through the OpeningTxFee field written from it before the test) and by SpendableMsat >= amount*1000 + invoice msat (64-bit); the unguarded side returns only Event_ActionFailed. " +
			"R3: GetOpeningTXAmount returns request amount + swap-in premium for a swap-in and the bare amount for a swap-out, GetClaimAmount the converse (per return: value and dominating request test); every CreateOpeningTransaction call passes OpeningParams.Amount = GetOpeningTXAmount(); every claim-type GetPayreq call asks for GetClaimAmount()*1000; in the action that registers the confirmation watch every non-failing exit is cut off by decoded invoice amount == GetClaimAmount()*1000 (inline or through a helper whose nil return is cut off by param == 1000*param, called with these two values) or by the legacy branch AllowNewClaimPayment == false, in which case the RebalancePayment call must be dominated by AllowNewClaimPayment == true; the decoded payreq is the paid one; the pay state is entered only from such states. " +
			"R4: the Premium field of both agreement messages is the result of premium.Setting.Compute(requester, asset, op, amount) with op = SwapIn for the swap-in agreement and SwapOut for the swap-out agreement, asset = LBTC exactly on the lbtc-chain branch; PremiumLimit of locally created requests is (*premium.PPM).Compute of NewPPM(rate parameter) applied to the value stored in Amount of the same message. " +
			"R5: outside the responder actions the agreement fields of SwapData are stored only under `field == nil` (a peer cannot replace an agreement whose premium was already checked). R6: per exported result-producing method of premium.Setting, whether the result can come from a field of the Setting object that is written after construction (map updates, deletes, clears and stores through the receiver, in all functions of the package reached from it); on the pinned tree there is none (answers from the store only). If there is one, every method of Setting that reaches a bbolt write must write that field on each success path: a store-changing method that never writes it is a violation; a reset or a sweep over the whole map on all success paths discharges; for keyed invalidation the one keying fact that matters is decided: store accesses and cache keys are classified by their string key components (a constant such as 'default', or variable), followed through the package functions down to the function that holds the bbolt operation; if a lookup can fill an entry under key k with a value read from the store under a different key k' (the default-rate fallback remembered under the peer), every method that writes store key k' must reset or sweep the cache - dropping only its own entry is a violation; a method whose store key feeds no foreign entries is discharged when it drops the entry of exactly the key it writes on every success path; anything else about the keying is undecided. Guards, effects and replies are followed through in-module helpers (bool predicates, error-returning checks incl. `return check(x)`, reply/delivery helpers; parameters bound to arguments, depth <= 3) and through values selected into locals (phis are judged per incoming edge); a shape that cannot be interpreted yields an undecided obligation (exit 2), a violation is reported only when the whole relevant code was interpreted.",
		NotD: "Arithmetic wrap-around of uint64(int64(amount)+premium) for premiums below -amount and of amount*1000; float rounding of the factor 3 and the truncation of msat/1000; whether the lightning node pays exactly the decoded amount; that a swap carries only the agreement of its own kind (a foreign-kind agreement stored by SendEvent before the acceptability test makes CheckPremiumAmount dereference a nil request: a crash, not an overpayment); concurrency between the premium check and later reads.",
		Run:  runC12,
	})
}

// ---- helpers ---------------------------------------------------------------------------------

type c12Term struct {
	alts []string
	coef int64
}

// c12LinGE: f is a linear fact over exactly these terms that implies Σ coef·term >= 0.
func c12LinGE(f an.Fact, spec []c12Term) bool {
	if f.NonNum || f.Terms == nil || len(f.Terms) != len(spec) {
		return false
	}
	used := map[string]bool{}
	for _, st := range spec {
		hit := ""
		for k, co := range f.Terms {
			if used[k] || co != st.coef {
				continue
			}
			for _, a := range st.alts {
				if strings.Contains(k, a) {
					hit = k
				}
			}
			if hit != "" {
				break
			}
		}
		if hit == "" {
			return false
		}
		used[hit] = true
	}
	switch f.Rel {
	case ">=", "==":
		return f.Const <= 0
	case ">":
		return f.Const <= 1
	}
	return false
}

// c12LinEQ: f is exactly Σ coef·term == 0 over these terms.
func c12LinEQ(f an.Fact, spec []c12Term) bool {
	return f.Rel == "==" && f.Const == 0 && (c12LinGE(f, spec) || c12LinGE(f, c12Neg(spec)))
}

func c12Neg(spec []c12Term) []c12Term {
	var out []c12Term
	for _, s := range spec {
		out = append(out, c12Term{s.alts, -s.coef})
	}
	return out
}

func c12Widths64(f an.Fact) bool {
	for _, x := range f.Widths {
		if x < 64 {
			return false
		}
	}
	return true
}

func c12StrRel(f an.Fact, rel, a, b string) bool {
	if !f.NonNum || f.Rel != rel {
		return false
	}
	return (f.L == a && f.R == b) || (f.L == b && f.R == a)
}

func c12AtomOf(f an.Fact) (ssa.Value, bool, bool) {
	if f.Rel == "true" || f.Rel == "false" {
		return f.Cond, f.Rel == "true", f.Cond != nil
	}
	if f.NonNum && (f.Rel == "==" || f.Rel == "!=") && f.LV != nil && f.RV != nil {
		for _, p := range [][2]ssa.Value{{f.LV, f.RV}, {f.RV, f.LV}} {
			k, ok := p[1].(*ssa.Const)
			if !ok || k.Value == nil || k.Value.Kind() != constant.Bool {
				continue
			}
			return p[0], constant.BoolVal(k.Value) == (f.Rel == "=="), true
		}
	}
	return nil, false, false
}

func c12Cut(w *an.World, fn *ssa.Function, pass func(an.Fact) bool) []an.Edge {
	return c12XOf(w).cut(fn, pass)
}

// c12Dom: the facts (incl. those derived from helper verdicts) that dominate an instruction.
func c12Dom(w *an.World, in ssa.Instruction) []an.Fact { return c12XOf(w).dominating(in) }

func c12EdgeSet(es []an.Edge) map[an.Edge]bool {
	m := map[an.Edge]bool{}
	for _, e := range es {
		m[e] = true
	}
	return m
}

// c12FailEvents: events returned on the other side of the guard's tests.
func c12FailEvents(w *an.World, fn *ssa.Function, cut []an.Edge) map[string][]*ssa.Return {
	cm := c12EdgeSet(cut)
	var starts []*ssa.BasicBlock
	for _, e := range cut {
		o := an.Edge{From: e.From, Idx: 1 - e.Idx}
		if !cm[o] {
			starts = append(starts, o.To())
		}
	}
	return returnEventsFrom(w, fn, an.ReachBlocks(starts, cm, nil))
}

func c12OnlyFailed(w *an.World, evs map[string][]*ssa.Return) string {
	bad := ""
	var ks []string
	for ev := range evs {
		ks = append(ks, ev)
	}
	sort.Strings(ks)
	for _, ev := range ks {
		if ev != evFailed {
			bad += fmt.Sprintf(" %s@%s", ev, w.Pos(evs[ev][0].Pos()))
		}
	}
	return bad
}

func c12Body(w *an.World, fn *ssa.Function) *ssa.Function {
	for i := 0; i < 3 && fn != nil && fn.Synthetic != ""; i++ {
		var next *ssa.Function
		n := 0
		for _, ci := range an.Calls(fn) {
			if g := w.Info(ci).Static; g != nil && g.Name() == fn.Name() {
				next = g
				n++
			}
		}
		if n != 1 {
			break
		}
		fn = next
	}
	return fn
}

func c12Bodies(w *an.World, fns []*ssa.Function) []*ssa.Function {
	var out []*ssa.Function
	for _, f := range fns {
		out = append(out, c12Body(w, f))
	}
	return out
}

func c12StripConv(v ssa.Value) ssa.Value {
	for {
		switch x := v.(type) {
		case *ssa.Convert:
			v = x.X
		case *ssa.ChangeType:
			v = x.X
		case *ssa.MakeInterface:
			v = x.X
		default:
			return v
		}
	}
}

func c12CallOf(v ssa.Value) *ssa.Call {
	for {
		switch x := v.(type) {
		case *ssa.Extract:
			v = x.Tuple
		case *ssa.Convert:
			v = x.X
		case *ssa.ChangeType:
			v = x.X
		case *ssa.Call:
			return x
		default:
			return nil
		}
	}
}

func c12CallsBehind(v ssa.Value) []*ssa.Call {
	var out []*ssa.Call
	seen := map[ssa.Value]bool{}
	var rec func(v ssa.Value)
	rec = func(v ssa.Value) {
		if seen[v] {
			return
		}
		seen[v] = true
		if p, ok := v.(*ssa.Phi); ok {
			for _, e := range p.Edges {
				rec(e)
			}
			return
		}
		if c := c12CallOf(v); c != nil {
			out = append(out, c)
		} else {
			out = append(out, nil)
		}
	}
	rec(v)
	return out
}

func c12MulK(v ssa.Value) (ssa.Value, int64, bool) {
	v = c12StripConv(v)
	b, ok := v.(*ssa.BinOp)
	if !ok || b.Op != token.MUL {
		return nil, 0, false
	}
	if k, ok := an.ConstInt(b.Y); ok {
		return b.X, k, true
	}
	if k, ok := an.ConstInt(b.X); ok {
		return b.Y, k, true
	}
	return nil, 0, false
}

func c12ConstInt(w *an.World, rel, name string) (int64, bool) {
	p := w.ByRel[rel]
	if p == nil || p.Types == nil {
		return 0, false
	}
	c, ok := p.Types.Scope().Lookup(name).(*types.Const)
	if !ok {
		return 0, false
	}
	return constant.Int64Val(constant.ToInt(c.Val()))
}

func c12ConstStr(w *an.World, rel, name string) (string, bool) {
	p := w.ByRel[rel]
	if p == nil || p.Types == nil {
		return "", false
	}
	c, ok := p.Types.Scope().Lookup(name).(*types.Const)
	if !ok || c.Val().Kind() != constant.String {
		return "", false
	}
	return c.Val().ExactString(), true
}

// c12Allocs lists allocations of *swap.<name> in fn.
func c12Allocs(w *an.World, fn *ssa.Function, names ...string) []*ssa.Alloc {
	var out []*ssa.Alloc
	for _, b := range fn.Blocks {
		for _, in := range b.Instrs {
			al, ok := in.(*ssa.Alloc)
			if !ok {
				continue
			}
			n := an.NamedOf(al.Type())
			if n == nil || n.Obj().Pkg() == nil {
				continue
			}
			if r, ok := w.Rel(n.Obj().Pkg().Path()); !ok || r != "swap" {
				continue
			}
			for _, want := range names {
				if n.Obj().Name() == want {
					out = append(out, al)
				}
			}
		}
	}
	return out
}

const (
	c12InPrem   = "field:SwapData.SwapInAgreement>SwapInAgreementMessage.Premium"
	c12OutPrem  = "field:SwapData.SwapOutAgreement>SwapOutAgreementMessage.Premium"
	c12InLimit  = "field:SwapData.SwapInRequest>SwapInRequestMessage.PremiumLimit"
	c12OutLimit = "field:SwapData.SwapOutRequest>SwapOutRequestMessage.PremiumLimit"
	c12InAmt    = "field:SwapData.SwapInRequest>SwapInRequestMessage.Amount"
	c12OutAmt   = "field:SwapData.SwapOutRequest>SwapOutRequestMessage.Amount"
	c12Compute  = "func:(*premium.Setting).Compute"
	c12ClaimAmt = "call:func:(*swap.SwapData).GetClaimAmount"
	c12Decode   = "iface:swap.LightningClient.DecodePayreq"
)

type c12Inst struct {
	f   an.Fact
	b   *ssa.BasicBlock
	via an.Edge
}

// c12Instances: a comparison whose operands are phis of one block (values
// selected into locals by an if/else chain) is instantiated once per incoming
// edge; the place of an instance is the predecessor that selects the values.
func c12Instances(w *an.World, f an.Fact) ([]c12Inst, bool) {
	var phis []*ssa.Phi
	for _, v := range []ssa.Value{f.LV, f.RV} {
		if v == nil {
			continue
		}
		if p, ok := c12StripConv(v).(*ssa.Phi); ok {
			phis = append(phis, p)
		}
	}
	if len(phis) == 0 {
		return []c12Inst{{f, f.Edge.From, an.Edge{}}}, true
	}
	blk := phis[0].Block()
	for _, p := range phis {
		if p.Block() != blk {
			return nil, false
		}
	}
	var out []c12Inst
	for i, pred := range blk.Preds {
		d := f
		d.Terms = map[string]int64{}
		for k, c := range f.Terms {
			d.Terms[k] = c
		}
		for _, p := range phis {
			key := w.Term(p)
			co, ok := d.Terms[key]
			if !ok {
				return nil, false
			}
			delete(d.Terms, key)
			d.Terms[w.Term(p.Edges[i])] += co
		}
		via := an.Edge{}
		if len(pred.Succs) == 2 && pred.Succs[0] != pred.Succs[1] {
			if pred.Succs[0] == blk {
				via = an.Edge{From: pred, Idx: 0}
			} else {
				via = an.Edge{From: pred, Idx: 1}
			}
		}
		out = append(out, c12Inst{d, pred, via})
	}
	return out, true
}

// c12PremiumKinds: for an Execute function with delegations, the kinds ("In","Out")
// whose premium test justifies a delegation. verdict 0 = every delegation is
// justified; 1 = positively not; 2 = cannot interpret.
func c12PremiumKinds(w *an.World, fn *ssa.Function) (kinds map[string]bool, isCheck bool, verdict int, why string) {
	kinds = map[string]bool{}
	x := c12XOf(w)
	dels := callsNamed(w, fn, fxActionExecute)
	if len(dels) == 0 {
		return kinds, false, 0, ""
	}
	type kind struct{ name, agr, prem, lim string }
	ks := []kind{{"In", "field:SwapData.SwapInAgreement", c12InPrem, c12InLimit}, {"Out", "field:SwapData.SwapOutAgreement", c12OutPrem, c12OutLimit}}
	mentionsPremium := func(f an.Fact) bool {
		for k := range f.Terms {
			if strings.Contains(k, "AgreementMessage.Premium") {
				return true
			}
		}
		return false
	}
	var pf []an.Fact
	for _, f := range x.facts(fn) {
		if mentionsPremium(f) {
			pf = append(pf, f)
		}
	}
	var palts []c12Alt
	for _, a := range x.alternatives(fn) {
		m := false
		for _, set := range a.sets {
			for _, f := range set {
				if mentionsPremium(f) {
					m = true
				}
			}
		}
		if m {
			palts = append(palts, a)
		}
	}
	if len(pf) == 0 && len(palts) == 0 {
		return kinds, false, 0, ""
	}
	worse := func(v int, m string) {
		if v == 1 && verdict != 1 || v == 2 && verdict == 0 {
			verdict, why = v, m
		}
	}
	for _, d := range dels {
		justified := false
		var wrong, unsure []string
		anyDom := false
		for _, f := range pf {
			if f.Edge.From == d.Block() || !an.EdgeDominates(f.Edge, d.Block()) {
				continue
			}
			anyDom = true
			insts, ok := c12Instances(w, f)
			if !ok {
				unsure = append(unsure, "cannot instantiate `"+f.String()+"`")
				continue
			}
			ik := map[string]bool{}
			good := true
			for _, in := range insts {
				found := ""
				for _, k := range ks {
					fwd := c12LinGE(in.f, []c12Term{{[]string{k.lim}, 1}, {[]string{k.prem}, -1}})
					if !fwd {
						// the right operands in the wrong relation?
						rel := in.f
						rel.Rel, rel.Const = ">=", 0
						if c12LinGE(rel, []c12Term{{[]string{k.lim}, 1}, {[]string{k.prem}, -1}}) || c12LinGE(rel, []c12Term{{[]string{k.lim}, -1}, {[]string{k.prem}, 1}}) {
							wrong = append(wrong, fmt.Sprintf("the delegation at %s is behind `%s`, which does not imply Swap%s PremiumLimit - Premium >= 0", w.Pos(d.Pos()), in.f.String(), k.name))
						}
						continue
					}
					set := false
					for _, pfact := range x.at(fn, in.b, in.via, 0) {
						if c12StrRel(pfact, "!=", k.agr, "nil") {
							set = true
						}
					}
					if !set {
						unsure = append(unsure, "the Swap"+k.name+" premium is compared where the Swap"+k.name+" agreement is not known to be present")
						continue
					}
					found = k.name
				}
				if found == "" {
					good = false
				} else {
					ik[found] = true
				}
			}
			if !good {
				continue
			}
			pass := []an.Edge{f.Edge}
			if bad := c12OnlyFailed(w, c12FailEvents(w, fn, pass)); bad != "" {
				if strings.Contains(bad, "?") {
					unsure = append(unsure, "the failing side of the premium test returns a non-constant event")
				} else {
					wrong = append(wrong, fmt.Sprintf("the premium test guards the delegation at %s but its failing side returns%s", w.Pos(d.Pos()), bad))
				}
				continue
			}
			justified = true
			for k := range ik {
				kinds[k] = true
			}
		}
		// a helper verdict with several ways to succeed: every way must carry the test of one kind
		for _, a := range palts {
			if justified || a.edge.From == d.Block() || !an.EdgeDominates(a.edge, d.Block()) {
				continue
			}
			anyDom = true
			ak := map[string]bool{}
			all := true
			for _, set := range a.sets {
				found := ""
				for _, k := range ks {
					hasPass, hasSet := false, false
					for _, f := range set {
						if c12LinGE(f, []c12Term{{[]string{k.lim}, 1}, {[]string{k.prem}, -1}}) {
							hasPass = true
						}
						if c12StrRel(f, "!=", k.agr, "nil") {
							hasSet = true
						}
					}
					if hasPass && hasSet {
						found = k.name
					}
				}
				if found == "" {
					all = false
				} else {
					ak[found] = true
				}
			}
			if !all || !a.complete {
				unsure = append(unsure, "not every way in which "+a.helper+" succeeds is recognised as a premium test of one swap kind")
				continue
			}
			if bad := c12OnlyFailed(w, c12FailEvents(w, fn, []an.Edge{a.edge})); bad != "" {
				if strings.Contains(bad, "?") {
					unsure = append(unsure, "the failing side of the premium test returns a non-constant event")
				} else {
					wrong = append(wrong, fmt.Sprintf("%s guards the delegation at %s but its failing side returns%s", a.helper, w.Pos(d.Pos()), bad))
				}
				continue
			}
			justified = true
			for k := range ak {
				kinds[k] = true
			}
		}
		if justified {
			continue
		}
		opq := x.opaque(fn, d.Block())
		switch {
		case len(wrong) > 0:
			worse(1, strings.Join(wrong, "; "))
		case len(unsure) > 0 || len(opq) > 0:
			worse(2, fmt.Sprintf("cannot decide whether the delegation at %s is behind a premium test: %s", w.Pos(d.Pos()), strings.Join(append(unsure, opq...), "; ")))
		case !anyDom:
			worse(1, fmt.Sprintf("the delegation at %s is not dominated by `agreement != nil` and `PremiumLimit - Premium >= 0` of one swap kind; facts that dominate it: %s", w.Pos(d.Pos()), an.DescribeFacts(c12Dom(w, d))))
		default:
			worse(2, fmt.Sprintf("the premium comparisons in front of the delegation at %s are not of a recognised form: %s", w.Pos(d.Pos()), an.DescribeFacts(c12Dom(w, d))))
		}
	}
	return kinds, true, verdict, why
}

func runC12(c *an.Check) {
	c.Rule("C12.R1", "premium-checking action delegates only behind premium <= limit of the present agreement kind; in the initiator tables the states that move amount+premium are reachable only behind it")
	c.Rule("C12.R2", "the fee payment is cut off by fee <= 3 x own estimate and by spendable >= amount*1000 + fee msat, for the payreq that is paid")
	c.Rule("C12.R3", "amount getters, the amounts handed to CreateOpeningTransaction / GetPayreq, and the taker's invoice-amount equality all use request amount (+ premium of the matching kind)")
	c.Rule("C12.R4", "agreement Premium = premium.Setting.Compute(requester, asset of the chain, operation of the swap kind, amount); PremiumLimit of local requests = PPM(rate).Compute(amount)")
	c.Rule("C12.R6", "the rate a responder charges is resolved from the rate store on every call; state of premium.Setting that a result can also come from is written by every method that changes the store")
	c.Rule("C12.R5", "agreement fields of SwapData are write-once outside the responder actions")
	if !needEffects(c, fxPay, fxOpenTx, fxPayViaChannel, fxGetPayreq, fxDecodePayreq, fxWaitConf, fxActionExecute,
		"iface:swap.LightningClient.SpendableMsat", "iface:swap.Wallet.GetFlatOpeningTXFee") {
		return
	}
	w := c.W
	ts := tables(c)
	if ts == nil {
		return
	}
	for _, fn := range []string{"(*SwapData).GetClaimAmount", "(*SwapData).GetOpeningTXAmount", "(*SwapData).GetChain", "(*SwapData).GetAmount"} {
		if w.Func("swap", fn) == nil {
			c.Anchor("swap.%s does not resolve", fn)
			return
		}
	}
	if w.Func("premium", "(*Setting).Compute") == nil || w.Func("premium", "(*PPM).Compute") == nil || w.Func("premium", "NewPPM") == nil {
		c.Anchor("premium.(*Setting).Compute / (*PPM).Compute / NewPPM do not all resolve")
		return
	}
	for _, fld := range []string{"SwapData.SwapInAgreement", "SwapData.SwapOutAgreement", "SwapInAgreementMessage.Premium", "SwapOutAgreementMessage.Premium", "SwapInRequestMessage.PremiumLimit", "SwapOutRequestMessage.PremiumLimit"} {
		if len(w.FieldReaders(fld)) == 0 {
			c.Anchor("field %s is never read", fld)
			return
		}
	}

	// responder states / initiator tables by effect
	constructs := func(t *TI, s string) bool {
		for _, fn := range c12Bodies(w, t.Sum[s].Execs) {
			if len(c12Allocs(w, fn, "SwapInAgreementMessage", "SwapOutAgreementMessage")) > 0 {
				return true
			}
		}
		return false
	}
	var initiators []*TI
	respExec := map[*ssa.Function]bool{}
	for _, t := range ts {
		resp := false
		for _, s := range t.T.Order {
			if constructs(t, s) {
				resp = true
				for _, fn := range c12Bodies(w, t.Sum[s].Execs) {
					respExec[fn] = true
				}
			}
		}
		if !resp {
			initiators = append(initiators, t)
		}
	}
	if !c.AtLeast("C12", "initiator tables (no agreement construction)", len(initiators), 2) {
		return
	}

	c12R1(c, ts, initiators)
	c12R2(c)
	c12R3(c, ts)
	c12R4(c, ts)
	c12R5(c, respExec)
	c12R6(c)
}

// ---- R1 ----------------------------------------------------------------------------------------

func c12R1(c *an.Check, ts, initiators []*TI) {
	w := c.W
	// premium-checking actions
	checks := map[*ssa.Function]map[string]bool{}
	seen := map[*ssa.Function]bool{}
	allKinds := map[string]bool{}
	nBad := 0
	for _, t := range ts {
		for _, s := range t.T.Order {
			for _, fn := range c12Bodies(w, t.Sum[s].Execs) {
				if seen[fn] {
					continue
				}
				seen[fn] = true
				kinds, isCheck, verdict, why := c12PremiumKinds(w, fn)
				if !isCheck {
					continue
				}
				name := w.FuncName(fn)
				if verdict == 1 {
					c.Bad("C12.R1", name+" delegation", w.Pos(fn.Pos()), why)
					nBad++
					continue
				}
				if verdict == 2 {
					c.Unknown("C12.R1", name+" delegation", w.Pos(fn.Pos()), why)
					nBad++
					continue
				}
				c.OK("C12.R1", name+" delegation", w.Pos(fn.Pos()), "every delegation is behind `agreement != nil` and `PremiumLimit - Premium >= 0` of one swap kind; kinds: "+strings.Join(sortedKeys(kinds), ","))
				checks[fn] = kinds
				for k := range kinds {
					allKinds[k] = true
				}
			}
		}
	}
	if nBad > 0 {
		return // the broken check has been reported; the table obligations depend on it
	}
	c.Decide(allKinds["In"] && allKinds["Out"], "C12.R1", "premium check kinds", "-", "both the swap-in and the swap-out agreement premium are tested", "no premium-checking action tests both agreement kinds (found: "+strings.Join(sortedKeys(allKinds), ",")+")")
	if !c.AtLeast("C12.R1", "premium-checking actions", len(checks), 1) {
		return
	}
	n := 0
	for _, t := range initiators {
		// kind that matters in this table: the premium that the paying effect includes
		type eff struct{ name, kind, what string }
		for _, e := range []eff{{fxPay, "Out", "claim payment (amount + swap-out premium)"}, {fxOpenTx, "In", "opening transaction (amount + swap-in premium)"}} {
			for _, s := range t.statesWith(e.name) {
				n++
				cons := t.key(s) + " " + strings.TrimPrefix(e.name, "iface:swap.")
				// own chain: a check of the kind in front of the function that has the effect
				bodies := c12Bodies(w, t.Sum[s].Execs)
				own := false
				for i, fn := range bodies {
					if checks[fn][e.kind] {
						for _, later := range bodies[i+1:] {
							if w.Summary(later).HasEffect(e.name) {
								own = true
							}
						}
					}
				}
				if own {
					c.OK("C12.R1", cons, t.pos(c, s), "premium check in front of the "+e.what+" in the same action chain")
					continue
				}
				// table level: states with a check are left only through their failure edge
				isP := func(x string) bool {
					for _, fn := range c12Bodies(w, t.Sum[x].Execs) {
						if checks[fn][e.kind] {
							return true
						}
					}
					return false
				}
				reach := map[string]bool{"": true}
				prev := map[string]string{}
				work := []string{""}
				for len(work) > 0 {
					x := work[0]
					work = work[1:]
					xe := t.T.States[x]
					if xe == nil {
						continue
					}
					for _, ev := range xe.SortedEvents() {
						if isP(x) && ev != evFailed {
							continue
						}
						nx := xe.Events[ev]
						if !reach[nx] {
							reach[nx] = true
							prev[nx] = t.edgeKey(x, ev)
							work = append(work, nx)
						}
					}
				}
				if !reach[s] {
					c.OK("C12.R1", cons, t.pos(c, s), "reachable only behind a state whose premium check succeeded")
					continue
				}
				var path []string
				for x := s; x != ""; {
					p := prev[x]
					if p == "" {
						break
					}
					path = append([]string{p}, path...)
					i := strings.Index(p, "/")
					j := strings.Index(p, " --")
					if i < 0 || j < 0 {
						break
					}
					x = p[i+1 : j]
					if x == "Default" {
						x = ""
					}
				}
				c.Bad("C12.R1", cons, t.pos(c, s), "the "+e.what+" is reachable without a successful premium<=limit test of the Swap"+e.kind+" agreement: "+strings.Join(path, " ; "), path...)
			}
		}
	}
	c.AtLeast("C12.R1", "initiator states that move amount+premium", n, 2)
}

// ---- R2 ----------------------------------------------------------------------------------------

func c12R2(c *an.Check) {
	w := c.W
	n := 0
	// anchors: the action bodies of the states that pay the fee invoice; the payment
	// is the call in the action through which PayInvoiceViaChannel is reached
	type anchor struct {
		fn   *ssa.Function
		site c12Site
	}
	var anchors []anchor
	covered := map[ssa.CallInstruction]bool{}
	seenFn := map[*ssa.Function]bool{}
	if ts := tables(c); ts != nil {
		for _, t := range ts {
			for _, st := range t.statesWith(fxPayViaChannel) {
				for _, fn := range c12Bodies(w, t.Sum[st].Execs) {
					if seenFn[fn] {
						continue
					}
					seenFn[fn] = true
					seenAt := map[ssa.CallInstruction]bool{}
					for _, site := range c12Lifted(w, fn, fxPayViaChannel) {
						covered[site.inner] = true
						if !seenAt[site.at] {
							seenAt[site.at] = true
							anchors = append(anchors, anchor{fn, site})
						}
					}
				}
			}
		}
	}
	for _, fn := range prodFuncs(w) {
		if w.FnRel(fn) != "swap" {
			continue
		}
		for _, ci := range callsNamed(w, fn, fxPayViaChannel) {
			if !covered[ci] {
				c.Unknown("C12.R2", w.FuncName(fn)+" fee payment outside the state actions", w.Pos(ci.Pos()), "PayInvoiceViaChannel is called from a function that no state action reaches synchronously; this rule cannot place its guards")
			}
		}
	}
	for _, a := range anchors {
		fn := a.fn
		{
			pay := a.site.at
			n++
			name := w.FuncName(fn)
			pos := w.Pos(pay.Pos())
			payreq := w.Term(a.site.inner.Common().Args[0])
			// the decode of the paid payreq
			var dec *ssa.Call
			for _, d := range callsNamed(w, fn, c12Decode) {
				if dc, ok := d.(*ssa.Call); ok && w.Term(dc.Call.Args[0]) == payreq {
					dec = dc
				}
			}
			if dec == nil {
				if w.Summary(fn).HasEffect(c12Decode) {
					c.Unknown("C12.R2", name+" fee-bound", pos, "the invoice that is paid ("+payreq+") is decoded somewhere this rule cannot follow (a helper, or under another name)")
					c.Unknown("C12.R2", name+" spendable", pos, "the invoice that is paid ("+payreq+") is decoded somewhere this rule cannot follow")
					continue
				}
				c.Bad("C12.R2", name+" fee-bound", pos, "the invoice that is paid ("+payreq+") is never decoded in this action: its amount is unchecked")
				c.Bad("C12.R2", name+" spendable", pos, "the invoice that is paid ("+payreq+") is never decoded in this action")
				continue
			}
			msat := "call:" + c12Decode + "#1"
			quot := "(" + msat + " / 1000)"
			est := "call:iface:swap.Wallet.GetFlatOpeningTXFee#0"
			// fee term: the quotient itself or the OpeningTxFee field written from it before the test
			feeField := "field:SwapData.OpeningTxFee"
			fieldOK := func(f an.Fact) bool {
				var stores []ssa.Instruction
				for _, st := range w.FieldWriters("SwapData.OpeningTxFee") {
					if st.Parent() != fn {
						continue
					}
					if w.Term(st.Val) != quot {
						return false
					}
					stores = append(stores, st)
				}
				last := f.Edge.From.Instrs[len(f.Edge.From.Instrs)-1]
				return len(stores) > 0 && an.MustPassInstr(last, stores)
			}
			feePass := func(f an.Fact) bool {
				for _, feeT := range []string{quot, feeField} {
					for _, estSpec := range []c12Term{{[]string{"(3 * " + est + ")"}, 1}, {[]string{est}, 3}} {
						if c12LinGE(f, []c12Term{estSpec, {[]string{feeT}, -1}}) {
							// reject "(3 * x)" matching the bare-estimate alternative with coef 3 by accident
							if estSpec.coef == 3 {
								bare := false
								for k := range f.Terms {
									if k == est {
										bare = true
									}
								}
								if !bare {
									continue
								}
							}
							if feeT == feeField && !fieldOK(f) {
								continue
							}
							return true
						}
					}
				}
				return false
			}
			spendPass := func(f an.Fact) bool {
				return c12Widths64(f) && c12LinGE(f, []c12Term{
					{[]string{"call:iface:swap.LightningClient.SpendableMsat#0"}, 1},
					{[]string{c12OutAmt, "call:func:(*swap.SwapData).GetAmount"}, -1000},
					{[]string{msat}, -1}})
			}
			for _, g := range []struct {
				id, what string
				pass     func(an.Fact) bool
			}{
				{"fee-bound", "DecodePayreq(paid invoice) msat / 1000 <= 3 x Wallet.GetFlatOpeningTXFee()", feePass},
				{"spendable", "SpendableMsat >= amount*1000 + invoice msat (64 bit)", spendPass},
			} {
				cut := c12Cut(w, fn, g.pass)
				cons := name + " " + g.id
				if len(cut) == 0 || !an.EdgesDominate(cut, pay.Block()) {
					if o := c12XOf(w).opaque(fn, pay.Block()); len(o) > 0 {
						c.Unknown("C12.R2", cons, pos, "`"+g.what+"` is not found in front of the payment, but the verdict of "+strings.Join(o, ", ")+" is tested and cannot be interpreted")
						continue
					}
					c.Bad("C12.R2", cons, pos, "the fee invoice is paid without `"+g.what+"`; facts that dominate the payment: "+an.DescribeFacts(c12Dom(w, pay)))
					continue
				}
				bad := c12OnlyFailed(w, c12FailEvents(w, fn, cut))
				if strings.Contains(bad, "?") {
					c.Unknown("C12.R2", cons, pos, "the test dominates the payment but its failing side returns a non-constant event:"+bad)
					continue
				}
				c.Decide(bad == "", "C12.R2", cons, pos, "dominates the payment: "+g.what, "the test exists but its failing side returns"+bad)
			}
		}
	}
	c.AtLeast("C12.R2", "fee payments in state actions", n, 1)
}

// ---- R3 ----------------------------------------------------------------------------------------

// c12Sum: the terms of v as a sum (conversions stripped), sorted.
func c12Sum(w *an.World, v ssa.Value) []string {
	v = c12StripConv(v)
	if b, ok := v.(*ssa.BinOp); ok && b.Op == token.ADD {
		out := append(c12Sum(w, b.X), c12Sum(w, b.Y)...)
		sort.Strings(out)
		return out
	}
	return []string{w.Term(v)}
}

func c12Getter(c *an.Check, name string, inWant, outWant []string) {
	w := c.W
	x := c12XOf(w)
	fn := w.Func("swap", name)
	fname := w.FuncName(fn)
	sort.Strings(inWant)
	sort.Strings(outWant)
	seenIn, seenOut := false, false
	verdict, why := 0, ""
	worse := func(v int, m string) {
		if v == 1 && verdict != 1 || v == 2 && verdict == 0 {
			verdict, why = v, m
		}
	}
	vocab := map[string]bool{c12InAmt: true, c12InPrem: true, c12OutAmt: true, c12OutPrem: true}
	cases := c12Cases(fn, 0, true)
	if len(cases) == 0 {
		worse(2, "no return value found")
	}
	for _, cs := range cases {
		if cs.lost {
			worse(2, "cannot determine the value returned at "+w.Pos(cs.ret.Pos()))
			continue
		}
		sum := c12Sum(w, cs.v)
		terms := strings.Join(sum, " + ")
		facts := x.at(fn, cs.b, cs.via, 0)
		has := func(field string) bool {
			return an.AnyFact(facts, func(f an.Fact) bool { return c12StrRel(f, "!=", "field:SwapData."+field, "nil") })
		}
		isIn, isOut := terms == strings.Join(inWant, " + "), terms == strings.Join(outWant, " + ")
		switch {
		case terms == "0":
		case isIn && has("SwapInRequest"):
			seenIn = true
		case isOut && has("SwapOutRequest"):
			seenOut = true
		case isIn || isOut:
			worse(2, fmt.Sprintf("returns %s at %s, but this rule cannot see the test of the swap kind under which it does so [%s]", terms, w.Pos(cs.ret.Pos()), an.DescribeFacts(facts)))
		default:
			known := true
			for _, t := range sum {
				if !vocab[t] {
					known = false
				}
			}
			if known {
				worse(1, fmt.Sprintf("returns %s under [%s]; expected %s for a swap-in and %s for a swap-out (%s)", terms, an.DescribeFacts(facts), strings.Join(inWant, " + "), strings.Join(outWant, " + "), w.Pos(cs.ret.Pos())))
			} else {
				worse(2, fmt.Sprintf("returns %s at %s, which is not a sum of request amount and agreement premium fields", terms, w.Pos(cs.ret.Pos())))
			}
		}
	}
	if verdict == 0 && !(seenIn && seenOut) {
		worse(2, "found no return for one of the two swap kinds")
	}
	switch verdict {
	case 0:
		c.OK("C12.R3", fname+" returns", w.Pos(fn.Pos()), "swap-in: "+strings.Join(inWant, " + ")+"; swap-out: "+strings.Join(outWant, " + "))
	case 1:
		c.Bad("C12.R3", fname+" returns", w.Pos(fn.Pos()), why)
	default:
		c.Unknown("C12.R3", fname+" returns", w.Pos(fn.Pos()), why)
	}
}

// c12AmountVerdict: ok -> discharged; a value that is another amount getter, a
// constant or unset -> violated; any other shape (e.g. an inlined getter) is
// not decided by this rule.
func c12AmountVerdict(c *an.Check, ok bool, v ssa.Value, cons, pos, okText, badText string) {
	if ok {
		c.OK("C12.R3", cons, pos, okText)
		return
	}
	decidable := v == nil
	if v != nil {
		v = c12StripConv(v)
		if _, isK := v.(*ssa.Const); isK {
			decidable = true
		}
		if cl, isC := v.(*ssa.Call); isC {
			switch c.W.Info(cl).Name {
			case "func:(*swap.SwapData).GetAmount", "func:(*swap.SwapData).GetClaimAmount", "func:(*swap.SwapData).GetOpeningTXAmount":
				decidable = true
			}
		}
		if _, k, isM := c12MulK(v); isM && k != 1000 {
			decidable = true
		}
	}
	if decidable {
		c.Bad("C12.R3", cons, pos, badText)
		return
	}
	c.Unknown("C12.R3", cons, pos, "unsupported shape (not a call of the amount getter): "+badText)
}

func c12R3(c *an.Check, ts []*TI) {
	w := c.W
	c12Getter(c, "(*SwapData).GetOpeningTXAmount", []string{c12InAmt, c12InPrem}, []string{c12OutAmt})
	c12Getter(c, "(*SwapData).GetClaimAmount", []string{c12InAmt}, []string{c12OutAmt, c12OutPrem})

	// amounts handed to the wallet and to the invoice
	nOpen, nInv := 0, 0
	claimType, okCT := c12ConstInt(w, "swap", "INVOICE_CLAIM")
	if !okCT {
		c.Anchor("constant swap.INVOICE_CLAIM does not resolve")
		return
	}
	for _, fn := range prodFuncs(w) {
		if w.FnRel(fn) != "swap" {
			continue
		}
		name := w.FuncName(fn)
		for _, ci := range callsNamed(w, fn, fxOpenTx) {
			nOpen++
			al, _ := c12StripConv(ci.Common().Args[0]).(*ssa.Alloc)
			if al == nil {
				c.Unknown("C12.R3", name+" OpeningParams.Amount", w.Pos(ci.Pos()), "the parameters of CreateOpeningTransaction are not a literal built in this function")
				continue
			}
			v, ok := an.CompositeFieldValue(al, "Amount")
			got := "unset"
			if ok {
				got = w.Term(v)
			}
			c12AmountVerdict(c, ok && got == "call:func:(*swap.SwapData).GetOpeningTXAmount", v, name+" OpeningParams.Amount", w.Pos(ci.Pos()),
				"funded amount is GetOpeningTXAmount()", "the opening transaction is funded with "+got+" instead of GetOpeningTXAmount()")
		}
		for _, ci := range callsNamed(w, fn, fxGetPayreq) {
			args := ci.Common().Args
			if len(args) != 7 {
				continue
			}
			if k, ok := an.ConstInt(args[4]); !ok || k != claimType {
				continue
			}
			nInv++
			base, k, ok := c12MulK(args[0])
			got := w.Term(args[0])
			probe := args[0]
			if ok {
				probe = base
			}
			c12AmountVerdict(c, ok && k == 1000 && w.Term(base) == c12ClaimAmt, probe, name+" claim invoice amount", w.Pos(ci.Pos()),
				"claim invoice asks for GetClaimAmount()*1000 msat", "the claim invoice asks for "+got+" instead of GetClaimAmount()*1000")
		}
	}
	c.AtLeast("C12.R3", "CreateOpeningTransaction call sites in package swap", nOpen, 1)
	c.AtLeast("C12.R3", "claim-type GetPayreq call sites", nInv, 1)

	// taker: decoded amount == GetClaimAmount()*1000 before the payment
	eqSpec := func(a, b string) []c12Term { return []c12Term{{[]string{a}, 1}, {[]string{b}, -1000}} }
	helperOK := func(g *ssa.Function) (pi, ci int, ok bool) { // nil return cut off by param#pi == 1000*param#ci
		for i := range g.Params {
			for j := range g.Params {
				if i == j {
					continue
				}
				cut := c12Cut(w, g, func(f an.Fact) bool {
					return c12Widths64(f) && len(f.Terms) == 2 && f.Terms[fmt.Sprintf("param#%d", i)] != 0 && c12LinEQ(f, eqSpec(fmt.Sprintf("param#%d", i), fmt.Sprintf("param#%d", j)))
				})
				if len(cut) == 0 {
					continue
				}
				all := true
				nNil := 0
				for _, r := range an.Returns(g) {
					if len(r.Results) == 1 && an.IsNilConst(r.Results[0]) {
						nNil++
						if !an.EdgesDominate(cut, r.Block()) {
							all = false
						}
					}
				}
				if all && nNil > 0 {
					return i, j, true
				}
			}
		}
		return 0, 0, false
	}
	allowTerm := func(f an.Fact, truth bool) bool {
		v, tr, ok := c12AtomOf(f)
		return ok && tr == truth && strings.HasSuffix(w.Term(v), "timelockPolicy.AllowNewClaimPayment")
	}
	nPay := 0
	for _, t := range takers(ts) {
		for _, p := range t.statesWith(fxPay) {
			for _, payFn := range c12Bodies(w, t.Sum[p].Execs) {
				seenAt := map[ssa.CallInstruction]bool{}
				for _, site := range c12Lifted(w, payFn, fxPay) {
					if seenAt[site.at] {
						continue
					}
					seenAt[site.at] = true
					pay := site.at // the call in the action through which the payment is made
					nPay++
					cons := t.key(p) + " invoice amount"
					pos := w.Pos(pay.Pos())
					payreq := w.Term(site.inner.Common().Args[0])
					// (a) equality in the paying function itself
					eqHere := c12Cut(w, payFn, func(f an.Fact) bool {
						return c12Widths64(f) && c12LinEQ(f, eqSpec("call:"+c12Decode+"#1", c12ClaimAmt))
					})
					if len(eqHere) > 0 && an.EdgesDominate(eqHere, pay.Block()) {
						c.OK("C12.R3", cons, pos, "payment dominated by decoded amount == GetClaimAmount()*1000 in the paying action")
						continue
					}
					// (b) every in-edge of the pay state comes from a state whose action establishes it
					ins := t.T.InEdges(p)
					var problems, undecided []string
					usedLegacy := false
					if len(ins) == 0 {
						undecided = append(undecided, "the pay state has no in-edge")
					}
					for _, in := range ins {
						okState := false
						var whyNot []string
						for _, fn := range c12Bodies(w, t.Sum[in[0]].Execs) {
							decs := callsNamed(w, fn, c12Decode)
							if len(decs) == 0 {
								continue
							}
							same := false
							for _, d := range decs {
								if w.Term(d.Common().Args[0]) == payreq {
									same = true
								}
							}
							if !same {
								undecided = append(undecided, w.FuncName(fn)+" decodes a payreq this rule cannot identify with the one paid ("+payreq+")")
								continue
							}
							build := func(withLegacy bool) []an.Edge {
								cut := c12Cut(w, fn, func(f an.Fact) bool {
									if c12Widths64(f) && c12LinEQ(f, eqSpec("call:"+c12Decode+"#1", c12ClaimAmt)) {
										return true
									}
									return withLegacy && allowTerm(f, false)
								})
								for _, hc := range an.Calls(fn) {
									call, ok := hc.(*ssa.Call)
									g := w.Info(hc).Static
									if !ok || g == nil || !w.InModule(g) || g.Blocks == nil {
										continue
									}
									if pi, ci, ok := helperOK(g); ok && pi < len(call.Call.Args) && ci < len(call.Call.Args) {
										if w.Term(call.Call.Args[pi]) == "call:"+c12Decode+"#1" && w.Term(call.Call.Args[ci]) == c12ClaimAmt {
											okE, _ := an.OkEdges(call)
											cut = append(cut, okE...)
										}
									}
								}
								return cut
							}
							exits := func(cut []an.Edge) string { // non-failing exits reachable without the guard
								cm := c12EdgeSet(cut)
								reach := an.ReachBlocks([]*ssa.BasicBlock{fn.Blocks[0]}, cm, nil)
								bad := ""
								for ev, rets := range returnEventsFrom(w, fn, reach) {
									if ev != evFailed {
										bad += fmt.Sprintf(" %s@%s", ev, w.Pos(rets[0].Pos()))
									}
								}
								return bad
							}
							if b := exits(build(false)); b == "" {
								okState = true
							} else if b2 := exits(build(true)); b2 == "" {
								okState = true
								usedLegacy = true
							} else if o := c12XOf(w).opaque(fn); len(o) > 0 || strings.Contains(b2, "?@") {
								undecided = append(undecided, w.FuncName(fn)+" may leave without the equality test ("+b2+"), but tests verdicts this rule cannot interpret: "+strings.Join(o, ", "))
							} else {
								whyNot = append(whyNot, w.FuncName(fn)+" can leave without failure and without the equality test:"+b2)
							}
						}
						if !okState {
							if len(whyNot) == 0 {
								if t.Sum[in[0]].HasEffect(c12Decode) {
									undecided = append(undecided, t.edgeKey(in[0], in[1])+": the invoice is decoded in a helper of that state's action, which this rule does not follow")
									continue
								}
								whyNot = append(whyNot, "no action of that state decodes the invoice")
							}
							problems = append(problems, t.edgeKey(in[0], in[1])+": "+strings.Join(whyNot, "; "))
						}
					}
					if usedLegacy {
						al := c12Cut(w, payFn, func(f an.Fact) bool { return allowTerm(f, true) })
						if len(al) == 0 || !an.EdgesDominate(al, pay.Block()) {
							if o := c12XOf(w).opaque(payFn, pay.Block()); len(o) > 0 {
								undecided = append(undecided, "cannot see whether the payment is behind AllowNewClaimPayment == true (opaque: "+strings.Join(o, ", ")+")")
							} else {
								problems = append(problems, "the equality test is skipped on the AllowNewClaimPayment == false branch, but the payment is not dominated by AllowNewClaimPayment == true")
							}
						}
					}
					if len(problems) == 0 && len(undecided) > 0 {
						c.Unknown("C12.R3", cons, pos, "cannot decide whether the invoice amount was compared with GetClaimAmount()*1000: "+strings.Join(undecided, " | "))
						continue
					}
					c.Decide(len(problems) == 0, "C12.R3", cons, pos,
						"every edge into the pay state leaves an action whose non-failing exits are behind decoded amount == GetClaimAmount()*1000",
						"the claim invoice can be paid without its amount having been compared with GetClaimAmount()*1000: "+strings.Join(problems, " | "))
				}
			}
		}
	}
	c.AtLeast("C12.R3", "claim payment sites in taker tables", nPay, 2)
}

// ---- R4 ----------------------------------------------------------------------------------------

// c12ConstCases: the integer constants a call argument may hold (a phi of
// constants is enumerated together with the place that selects each constant).
func c12ConstCases(v ssa.Value, b *ssa.BasicBlock) (ks []int64, cs []c12Case, ok bool) {
	for _, k := range c12ValCases(v, b) {
		n, isK := an.ConstInt(k.v)
		if k.lost || !isK {
			return nil, nil, false
		}
		ks = append(ks, n)
		cs = append(cs, k)
	}
	return ks, cs, len(ks) > 0
}

func c12R4(c *an.Check, ts []*TI) {
	w := c.W
	lbtcA, ok1 := c12ConstInt(w, "premium", "LBTC")
	btcA, ok2 := c12ConstInt(w, "premium", "BTC")
	opIn, ok3 := c12ConstInt(w, "premium", "SwapIn")
	opOut, ok4 := c12ConstInt(w, "premium", "SwapOut")
	lbtc, ok5 := c12ConstStr(w, "swap", "l_btc_chain")
	btc, ok6 := c12ConstStr(w, "swap", "btc_chain")
	if !ok1 || !ok2 || !ok3 || !ok4 || !ok5 || !ok6 {
		c.Anchor("constants premium.LBTC/BTC/SwapIn/SwapOut, swap.l_btc_chain/btc_chain do not all resolve")
		return
	}
	const tChain = "call:func:(*swap.SwapData).GetChain"
	n := 0
	seen := map[*ssa.Alloc]bool{}
	for _, t := range ts {
		for _, s := range t.T.Order {
			for _, fn := range c12Bodies(w, t.Sum[s].Execs) {
				for _, al := range c12Allocs(w, fn, "SwapInAgreementMessage", "SwapOutAgreementMessage") {
					if seen[al] {
						continue
					}
					seen[al] = true
					n++
					mt := an.NamedOf(al.Type()).Obj().Name()
					wantOp, opName := opIn, "premium.SwapIn"
					if mt == "SwapOutAgreementMessage" {
						wantOp, opName = opOut, "premium.SwapOut"
					}
					cons := w.FuncName(fn) + " " + mt + ".Premium"
					pos := w.Pos(al.Pos())
					v, ok := an.CompositeFieldValue(al, "Premium")
					if !ok {
						c.Unknown("C12.R4", cons, pos, "cannot find the value stored into the Premium of the agreement built here")
						continue
					}
					var wrong, unsure []string
					x := c12XOf(w)
					calls := c12CallsBehind(v)
					for _, cl := range calls {
						if cl == nil {
							if _, isK := c12StripConv(v).(*ssa.Const); isK {
								wrong = append(wrong, "Premium is the constant "+w.Term(v))
							} else {
								unsure = append(unsure, "Premium does not (only) come from a call: "+w.Term(v))
							}
							continue
						}
						if w.Info(cl).Name != c12Compute || len(cl.Call.Args) != 5 {
							unsure = append(unsure, "Premium comes from "+w.Info(cl).Name+", not directly from premium.Setting.Compute")
							continue
						}
						if ex, isEx := c12StripConv(v).(*ssa.Extract); isEx && ex.Index != 0 {
							wrong = append(wrong, "Premium is not result #0 of Compute")
						}
						a := cl.Call.Args
						if p := w.Term(a[1]); p != "field:SwapData.PeerNodeId" && p != "field:SwapData.InitiatorNodeId" {
							if strings.HasPrefix(p, "field:SwapData.") {
								wrong = append(wrong, "rate looked up for "+p+" instead of the requesting peer")
							} else {
								unsure = append(unsure, "cannot tie the peer the rate is looked up for ("+p+") to the requester")
							}
						}
						if ks, _, okK := c12ConstCases(a[3], cl.Block()); !okK {
							unsure = append(unsure, "operation argument is not a constant")
						} else {
							for _, k := range ks {
								if k != wantOp {
									wrong = append(wrong, fmt.Sprintf("operation argument at %s is not %s", w.Pos(cl.Pos()), opName))
								}
							}
						}
						switch amt := w.Term(a[4]); amt {
						case "call:func:(*swap.SwapData).GetAmount", c12InAmt, c12OutAmt:
						case "call:func:(*swap.SwapData).GetClaimAmount", "call:func:(*swap.SwapData).GetOpeningTXAmount":
							wrong = append(wrong, "premium computed on "+amt+" instead of the request amount")
						default:
							if _, isK := c12StripConv(a[4]).(*ssa.Const); isK {
								wrong = append(wrong, "premium computed on the constant "+amt)
							} else {
								unsure = append(unsure, "cannot tie the amount the premium is computed on ("+amt+") to the request amount")
							}
						}
						as, acs, okA := c12ConstCases(a[2], cl.Block())
						if !okA {
							unsure = append(unsure, "asset argument is not a constant")
						}
						for i, k := range as {
							facts := x.at(fn, acs[i].b, acs[i].via, 0)
							isL := an.AnyFact(facts, func(f an.Fact) bool { return c12StrRel(f, "==", lbtc, tChain) })
							notL := an.AnyFact(facts, func(f an.Fact) bool { return c12StrRel(f, "!=", lbtc, tChain) || c12StrRel(f, "==", btc, tChain) })
							switch {
							case k == lbtcA && notL:
								wrong = append(wrong, fmt.Sprintf("the LBTC rate is used at %s on a path on which the swap is not an lbtc swap", w.Pos(cl.Pos())))
							case k == lbtcA && !isL:
								unsure = append(unsure, fmt.Sprintf("the LBTC rate is used at %s on a path not known to be an lbtc swap", w.Pos(cl.Pos())))
							case k == btcA && isL:
								wrong = append(wrong, fmt.Sprintf("the BTC rate is used at %s on a path on which the swap is an lbtc swap", w.Pos(cl.Pos())))
							case k == btcA && !notL:
								unsure = append(unsure, fmt.Sprintf("the BTC rate is used at %s on a path not known to be a non-lbtc swap", w.Pos(cl.Pos())))
							case k != lbtcA && k != btcA:
								wrong = append(wrong, fmt.Sprintf("asset constant %d is neither premium.BTC nor premium.LBTC", k))
							}
						}
					}
					if len(calls) == 0 {
						unsure = append(unsure, "Premium is "+w.Term(v))
					}
					okText := "Premium = premium.Setting.Compute(requester, asset of the chain, " + opName + ", amount)"
					switch {
					case len(wrong) > 0:
						c.Bad("C12.R4", cons, pos, strings.Join(wrong, "; "))
					case len(unsure) > 0:
						c.Unknown("C12.R4", cons, pos, strings.Join(unsure, "; "))
					default:
						c.OK("C12.R4", cons, pos, okText)
					}
				}
			}
		}
	}
	c.AtLeast("C12.R4", "agreement constructions", n, 2)

	// PremiumLimit of locally created requests
	m := 0
	for _, fn := range prodFuncs(w) {
		if w.FnRel(fn) != "swap" {
			continue
		}
		for _, al := range c12Allocs(w, fn, "SwapInRequestMessage", "SwapOutRequestMessage") {
			lim, okL := an.CompositeFieldValue(al, "PremiumLimit")
			amt, okA := an.CompositeFieldValue(al, "Amount")
			if !okL && !okA {
				continue // not a literal (e.g. the copy made by a value receiver)
			}
			m++
			mt := an.NamedOf(al.Type()).Obj().Name()
			cons := w.FuncName(fn) + " " + mt + ".PremiumLimit"
			pos := w.Pos(al.Pos())
			if !okL || !okA {
				c.Unknown("C12.R4", cons, pos, "cannot find the PremiumLimit or the Amount stored into the request built here")
				continue
			}
			cl, _ := c12StripConv(lim).(*ssa.Call)
			var wrong, unsure []string
			if cl == nil || w.Info(cl).Name != "func:(*premium.PPM).Compute" || len(cl.Call.Args) != 2 {
				if _, isK := c12StripConv(lim).(*ssa.Const); isK {
					wrong = append(wrong, "PremiumLimit is the constant "+w.Term(lim))
				} else {
					unsure = append(unsure, "PremiumLimit is "+w.Term(lim)+", not directly (*premium.PPM).Compute(amount)")
				}
			} else {
				if a := cl.Call.Args[1]; c12StripConv(a) != c12StripConv(amt) {
					base, k, isM := c12MulK(a)
					_, pa := c12StripConv(a).(*ssa.Parameter)
					_, pb := c12StripConv(amt).(*ssa.Parameter)
					_, ka := c12StripConv(a).(*ssa.Const)
					switch {
					case isM && k != 1 && c12StripConv(base) == c12StripConv(amt), pa && pb, ka:
						wrong = append(wrong, "the limit is computed on "+w.Term(a)+" but the request asks for "+w.Term(amt))
					default:
						unsure = append(unsure, "cannot tie the amount the limit is computed on ("+w.Term(a)+") to the requested amount ("+w.Term(amt)+")")
					}
				}
				mk, _ := cl.Call.Args[0].(*ssa.Call)
				if mk == nil || w.Info(mk).Name != "func:premium.NewPPM" || len(mk.Call.Args) != 1 {
					unsure = append(unsure, "the rate is not directly premium.NewPPM(rate)")
				} else if _, isP := mk.Call.Args[0].(*ssa.Parameter); !isP {
					if _, isK := mk.Call.Args[0].(*ssa.Const); isK {
						wrong = append(wrong, "the ppm rate is the constant "+w.Term(mk.Call.Args[0])+", not the caller's rate")
					} else {
						unsure = append(unsure, "cannot tie the ppm rate "+w.Term(mk.Call.Args[0])+" to the caller's rate parameter")
					}
				}
			}
			switch {
			case len(wrong) > 0:
				c.Bad("C12.R4", cons, pos, strings.Join(wrong, "; "))
			case len(unsure) > 0:
				c.Unknown("C12.R4", cons, pos, strings.Join(unsure, "; "))
			default:
				c.OK("C12.R4", cons, pos, "PremiumLimit = NewPPM(rate parameter).Compute(Amount of the same request)")
			}
		}
	}
	c.AtLeast("C12.R4", "locally created requests", m, 2)
}

// ---- R5 ----------------------------------------------------------------------------------------

func c12R5(c *an.Check, respExec map[*ssa.Function]bool) {
	w := c.W
	n := 0
	for _, fld := range []string{"SwapInAgreement", "SwapOutAgreement"} {
		for _, st := range w.FieldWriters("SwapData." + fld) {
			fn := st.Parent()
			if an.IsTestSupport(w.FnRel(fn)) || respExec[fn] {
				continue
			}
			n++
			cons := w.FuncName(fn) + " store SwapData." + fld
			nilEdge := c12Cut(w, fn, func(f an.Fact) bool { return c12StrRel(f, "==", "field:SwapData."+fld, "nil") })
			if !(len(nilEdge) > 0 && an.EdgesDominate(nilEdge, st.Block())) {
				if o := c12XOf(w).opaque(fn, st.Block()); len(o) > 0 {
					c.Unknown("C12.R5", cons, w.Pos(st.Pos()), "no `field == nil` test dominates the store, but the verdict of "+strings.Join(o, ", ")+" is tested and cannot be interpreted")
					continue
				}
			}
			c.Decide(len(nilEdge) > 0 && an.EdgesDominate(nilEdge, st.Block()), "C12.R5", cons, w.Pos(st.Pos()),
				"stored only while the field is still nil",
				"SwapData."+fld+" can be overwritten by a later message: where SendEvent applies a context before it tests whether the event is acceptable (as the pinned tree does), a second agreement with a higher premium replaces the one the premium check has already accepted; facts that dominate the store: "+an.DescribeFacts(c12Dom(w, st)))
		}
	}
	c.AtLeast("C12.R5", "agreement stores outside the responder actions", n, 2)
}

// ---- R6: cache coherence of premium.Setting ----------------------------------------------------

// c12Use records how the functions of package premium use the fields of *Setting
// (only accesses of a live object, i.e. not of a freshly allocated one).
type c12Use struct {
	reads, writes, resets map[string][]ssa.Instruction
	calls                 map[string][]ssa.CallInstruction // the field (or its address) handed to a call
	opaque                map[string][]ssa.Instruction
}

func c12NewUse() *c12Use {
	return &c12Use{reads: map[string][]ssa.Instruction{}, writes: map[string][]ssa.Instruction{}, resets: map[string][]ssa.Instruction{}, calls: map[string][]ssa.CallInstruction{}, opaque: map[string][]ssa.Instruction{}}
}

// c12FieldUses: direct uses of Setting fields in fn.
func c12FieldUses(w *an.World, st *types.Named, fn *ssa.Function) *c12Use {
	u := c12NewUse()
	sst, _ := st.Underlying().(*types.Struct)
	if sst == nil {
		return u
	}
	var useVal func(name string, v ssa.Value, depth int)
	useVal = func(name string, v ssa.Value, depth int) {
		if v.Referrers() == nil {
			return
		}
		for _, r := range *v.Referrers() {
			switch y := r.(type) {
			case *ssa.MapUpdate:
				if y.Map == v {
					u.writes[name] = append(u.writes[name], y)
				}
			case *ssa.Lookup:
				if y.X == v {
					u.reads[name] = append(u.reads[name], y)
				}
			case *ssa.Range:
				u.reads[name] = append(u.reads[name], y)
			case *ssa.Index, *ssa.IndexAddr, *ssa.Slice:
				u.reads[name] = append(u.reads[name], y.(ssa.Instruction))
				if ia, ok := y.(*ssa.IndexAddr); ok && ia.Referrers() != nil {
					for _, rr := range *ia.Referrers() {
						if s, ok := rr.(*ssa.Store); ok && s.Addr == ia {
							u.writes[name] = append(u.writes[name], s)
						}
					}
				}
			case ssa.CallInstruction:
				switch w.Info(y).Name {
				case "builtin:delete":
					u.writes[name] = append(u.writes[name], y)
				case "builtin:clear":
					u.resets[name] = append(u.resets[name], y)
				case "builtin:len", "builtin:cap":
					u.reads[name] = append(u.reads[name], y)
				default:
					u.calls[name] = append(u.calls[name], y)
				}
			case *ssa.BinOp, *ssa.If:
				u.reads[name] = append(u.reads[name], y.(ssa.Instruction))
			case *ssa.MakeInterface, *ssa.ChangeType, *ssa.Convert:
				if depth < 3 {
					useVal(name, y.(ssa.Value), depth+1)
				}
			case *ssa.DebugRef:
			default:
				u.opaque[name] = append(u.opaque[name], r)
			}
		}
	}
	for _, b := range fn.Blocks {
		for _, in := range b.Instrs {
			fa, ok := in.(*ssa.FieldAddr)
			if !ok || an.NamedOf(fa.X.Type()) != st {
				continue
			}
			if _, fresh := fa.X.(*ssa.Alloc); fresh {
				continue // construction
			}
			name := sst.Field(fa.Field).Name()
			if fa.Referrers() == nil {
				continue
			}
			for _, r := range *fa.Referrers() {
				switch y := r.(type) {
				case *ssa.Store:
					if y.Addr == fa {
						u.resets[name] = append(u.resets[name], y)
					} else {
						u.opaque[name] = append(u.opaque[name], y)
					}
				case *ssa.UnOp:
					if y.Op == token.MUL {
						useVal(name, y, 0)
					}
				case ssa.CallInstruction:
					u.calls[name] = append(u.calls[name], y)
				case *ssa.FieldAddr:
					// a field of an embedded struct value (e.g. a mutex inside): treated as a call-only use
					if y.Referrers() != nil {
						for _, rr := range *y.Referrers() {
							if ci, ok := rr.(ssa.CallInstruction); ok {
								u.calls[name] = append(u.calls[name], ci)
							} else {
								u.opaque[name] = append(u.opaque[name], rr)
							}
						}
					}
				case *ssa.DebugRef:
				default:
					u.opaque[name] = append(u.opaque[name], r)
				}
			}
		}
	}
	return u
}

func c12IsBoltWrite(e an.EffectSite) bool {
	if e.Info.Recv == nil || e.Info.Recv.Obj().Pkg() == nil || !strings.HasSuffix(e.Info.Recv.Obj().Pkg().Path(), "go.etcd.io/bbolt") {
		return false
	}
	switch e.Info.Recv.Obj().Name() + "." + e.Info.Method {
	case "Bucket.Put", "Bucket.Delete", "Bucket.DeleteBucket", "Bucket.CreateBucket", "Bucket.CreateBucketIfNotExists", "Bucket.SetSequence", "Bucket.NextSequence",
		"Tx.DeleteBucket", "Tx.CreateBucket", "Tx.CreateBucketIfNotExists", "Cursor.Delete":
		return true
	}
	return false
}

func c12IsBolt(e an.EffectSite) bool {
	return e.Info.Recv != nil && e.Info.Recv.Obj().Pkg() != nil && strings.HasSuffix(e.Info.Recv.Obj().Pkg().Path(), "go.etcd.io/bbolt")
}

func c12R6(c *an.Check) {
	w := c.W
	st := w.Named("premium", "Setting")
	if st == nil {
		c.Anchor("premium.Setting does not resolve")
		return
	}
	sst, ok := st.Underlying().(*types.Struct)
	if !ok {
		c.Anchor("premium.Setting is not a struct")
		return
	}
	// functions of package premium and their direct uses of Setting fields
	var fns []*ssa.Function
	uses := map[*ssa.Function]*c12Use{}
	for _, fn := range prodFuncs(w) {
		if w.FnRel(fn) != "premium" || fn.Blocks == nil {
			continue
		}
		fns = append(fns, fn)
		uses[fn] = c12FieldUses(w, st, fn)
	}
	// transitive closure over static in-module calls (closures included via Summary)
	closure := func(fn *ssa.Function) []*ssa.Function {
		seen := map[*ssa.Function]bool{fn: true}
		out := []*ssa.Function{fn}
		for _, e := range w.Summary(fn).Effects {
			if g := e.Info.Static; g != nil && uses[g] != nil && !seen[g] {
				seen[g] = true
				out = append(out, g)
			}
			if e.In != nil && uses[e.In] != nil && !seen[e.In] {
				seen[e.In] = true
				out = append(out, e.In)
			}
		}
		return out
	}
	// field classes
	isLock := func(t types.Type) bool {
		n := an.NamedOf(t)
		return n != nil && n.Obj().Pkg() != nil && n.Obj().Pkg().Path() == "sync" && (n.Obj().Name() == "Mutex" || n.Obj().Name() == "RWMutex")
	}
	storeField := map[string]bool{}
	for _, fn := range fns {
		for name, cs := range uses[fn].calls {
			for _, ci := range cs {
				g := ci.Common().StaticCallee()
				if g == nil || g.Blocks == nil {
					continue
				}
				for _, e := range w.Summary(g).Effects {
					if c12IsBolt(e) {
						storeField[name] = true
					}
				}
			}
		}
	}
	var cand []string
	for i := 0; i < sst.NumFields(); i++ {
		f := sst.Field(i)
		if isLock(f.Type()) || storeField[f.Name()] {
			continue
		}
		cand = append(cand, f.Name())
	}
	if !c.AtLeast("C12.R6", "fields of premium.Setting through which the bbolt store is reached", len(storeField), 1) {
		return
	}
	// post-construction writers of the candidate fields anywhere in the module
	written := map[string][]string{}
	opaqueField := map[string][]string{}
	for _, name := range cand {
		for _, fn := range fns {
			u := uses[fn]
			if n := len(u.writes[name]) + len(u.resets[name]); n > 0 {
				written[name] = append(written[name], w.FuncName(fn))
			}
			if len(u.calls[name])+len(u.opaque[name]) > 0 {
				opaqueField[name] = append(opaqueField[name], w.FuncName(fn))
			}
		}
		for _, sw := range w.FieldWriters("Setting." + name) {
			fn := sw.Parent()
			if an.IsTestSupport(w.FnRel(fn)) || uses[fn] != nil {
				continue
			}
			if fa, ok := sw.Addr.(*ssa.FieldAddr); ok {
				if _, fresh := fa.X.(*ssa.Alloc); !fresh && an.NamedOf(fa.X.Type()) == st {
					written[name] = append(written[name], w.FuncName(fn))
				}
			}
		}
	}
	// methods of Setting
	var methods []*ssa.Function
	for _, fn := range fns {
		if fn.Parent() == nil && fn.Signature.Recv() != nil && an.NamedOf(fn.Signature.Recv().Type()) == st && fn.Synthetic == "" {
			methods = append(methods, fn)
		}
	}
	sort.Slice(methods, func(i, j int) bool { return w.FuncName(methods[i]) < w.FuncName(methods[j]) })
	errIdx := func(fn *ssa.Function) int {
		r := fn.Signature.Results()
		for i := 0; i < r.Len(); i++ {
			if an.IsErrorType(r.At(i).Type()) {
				return i
			}
		}
		return -1
	}
	// result-producing methods and the mutable state they can answer from
	caches := map[string]bool{}
	nRes := 0
	for _, m := range methods {
		if !m.Object().Exported() {
			continue
		}
		r := m.Signature.Results()
		producing := false
		for i := 0; i < r.Len(); i++ {
			if !an.IsErrorType(r.At(i).Type()) {
				producing = true
			}
		}
		if !producing {
			continue
		}
		nRes++
		cons := w.FuncName(m) + " result source"
		var fromState, unsure []string
		for _, g := range closure(m) {
			u := uses[g]
			for _, name := range cand {
				readsHere := len(u.reads[name]) > 0
				if readsHere && len(written[name]) > 0 {
					fromState = append(fromState, name)
					caches[name] = true
				}
				if len(u.calls[name])+len(u.opaque[name]) > 0 {
					unsure = append(unsure, "field "+name+" is used in "+w.FuncName(g)+" in a way this rule does not interpret (a call on it, or its address escapes)")
				}
			}
		}
		switch {
		case len(unsure) > 0:
			c.Unknown("C12.R6", cons, w.Pos(m.Pos()), strings.Join(sortedKeys(c12Set(unsure)), "; "))
		case len(fromState) > 0:
			c.OK("C12.R6", cons, w.Pos(m.Pos()), "can also answer from mutable state of the Setting object (field "+strings.Join(sortedKeys(c12Set(fromState)), ", ")+"); its coherence with the store is decided per store-changing method")
		default:
			c.OK("C12.R6", cons, w.Pos(m.Pos()), "answers from the store (and the built-in defaults) only: no field of Setting that is written after construction is read")
		}
	}
	c.AtLeast("C12.R6", "result-producing methods of premium.Setting", nRes, 1)
	if len(caches) == 0 {
		return
	}
	// ---- keying: which store key a cache entry depends on ---------------------------------
	isStr := func(t types.Type) bool {
		b, ok := t.Underlying().(*types.Basic)
		return ok && b.Info()&types.IsString != 0
	}
	boltKind := func(g *ssa.Function) (reads, writes bool) {
		for _, e := range w.Summary(g).Effects {
			if c12IsBoltWrite(e) {
				writes = true
			} else if c12IsBolt(e) {
				reads = true
			}
		}
		return reads && !writes, writes
	}
	primitive := func(g *ssa.Function) bool { // the bbolt operation sits in g itself or in a closure of g
		for _, e := range w.Summary(g).Effects {
			if c12IsBolt(e) && e.In != nil && (e.In == g || e.In.Parent() == g) {
				return true
			}
		}
		return false
	}
	classOf := func(v ssa.Value, env map[*ssa.Parameter]string) string {
		v = c12StripConv(v)
		if cs, ok := an.ConstString(v); ok {
			return fmt.Sprintf("%q", cs)
		}
		if p, ok := v.(*ssa.Parameter); ok {
			if c, ok := env[p]; ok {
				return c
			}
		}
		return "var"
	}
	// storeClasses: the key classes (string key components: a constant or "var") of the
	// store accesses of the wanted kind reached through a call
	var storeClasses func(ci ssa.CallInstruction, env map[*ssa.Parameter]string, wantWrite bool, depth int) (map[string]bool, bool)
	storeClasses = func(ci ssa.CallInstruction, env map[*ssa.Parameter]string, wantWrite bool, depth int) (map[string]bool, bool) {
		out := map[string]bool{}
		g := ci.Common().StaticCallee()
		if g == nil || g.Blocks == nil || w.FnRel(g) != "premium" {
			return out, true
		}
		r, wr := boltKind(g)
		if (wantWrite && !wr) || (!wantWrite && !r) {
			return out, true
		}
		if depth > 4 {
			return out, false
		}
		args := ci.Common().Args
		env2 := map[*ssa.Parameter]string{}
		var strs []string
		for i, p := range g.Params {
			if i < len(args) && isStr(p.Type()) {
				env2[p] = classOf(args[i], env)
				if !(i == 0 && g.Signature.Recv() != nil) {
					strs = append(strs, env2[p])
				}
			}
		}
		if primitive(g) {
			out[strings.Join(strs, ",")] = true
			return out, true
		}
		ok := true
		for _, in := range an.Calls(g) {
			sub, sok := storeClasses(in, env2, wantWrite, depth+1)
			ok = ok && sok
			for k := range sub {
				out[k] = true
			}
		}
		return out, ok
	}
	// keyClass: the string components of a cache key value
	keyClass := func(kv ssa.Value, env map[*ssa.Parameter]string) (string, bool) {
		kv = c12StripConv(kv)
		if isStr(kv.Type()) {
			return classOf(kv, env), true
		}
		if p, ok := kv.(*ssa.Parameter); ok {
			if c, ok := env[p]; ok {
				return c, true
			}
			return "", false
		}
		u, ok := kv.(*ssa.UnOp)
		if !ok || u.Op != token.MUL {
			return "", false
		}
		al, ok := u.X.(*ssa.Alloc)
		if !ok || al.Referrers() == nil {
			return "", false
		}
		var strs []string
		kst, _ := al.Type().(*types.Pointer).Elem().Underlying().(*types.Struct)
		if kst == nil {
			return "", false
		}
		vals := map[int]ssa.Value{}
		for _, r := range *al.Referrers() {
			if fa, ok := r.(*ssa.FieldAddr); ok && fa.Referrers() != nil {
				for _, rr := range *fa.Referrers() {
					if st, ok := rr.(*ssa.Store); ok && st.Addr == fa {
						if _, dup := vals[fa.Field]; dup {
							return "", false
						}
						vals[fa.Field] = st.Val
					}
				}
			}
		}
		for i := 0; i < kst.NumFields(); i++ {
			if !isStr(kst.Field(i).Type()) {
				continue
			}
			v, ok := vals[i]
			if !ok {
				strs = append(strs, `""`)
				continue
			}
			strs = append(strs, classOf(v, env))
		}
		return strings.Join(strs, ","), true
	}
	for _, name := range sortedKeys(caches) {
		// roles of the package functions with respect to the cache field
		type filler struct{ ki, vi int }
		fillers := map[*ssa.Function]filler{}
		keyedInv := map[*ssa.Function]int{} // parameter index of the deleted key
		resetter := map[*ssa.Function]bool{}
		var uninterp []string
		for _, g := range fns {
			u := uses[g]
			hasRange := false
			for _, in := range u.reads[name] {
				if _, ok := in.(*ssa.Range); ok {
					hasRange = true
				}
			}
			if len(u.resets[name]) > 0 {
				resetter[g] = true
			}
			for _, in := range u.writes[name] {
				switch y := in.(type) {
				case *ssa.MapUpdate:
					ki, vi := c12ParamIndex(y.Key), c12ParamIndex(y.Value)
					if ki >= 0 && vi >= 0 {
						fillers[g] = filler{ki, vi}
					}
				case ssa.CallInstruction: // delete
					if hasRange {
						resetter[g] = true // a sweep over the whole map
					} else if a := y.Common().Args; len(a) == 2 {
						if ki := c12ParamIndex(a[1]); ki >= 0 {
							keyedInv[g] = ki
						}
					}
				}
			}
		}
		// fill sites reachable from the result-producing methods: key class vs. the classes of the store reads the value comes from
		foreign := map[string]string{} // store key class -> where an entry under another key is filled from it
		fillSeen := 0
		var resFns []*ssa.Function
		seenF := map[*ssa.Function]bool{}
		for _, m := range methods {
			if !m.Object().Exported() {
				continue
			}
			for _, g := range closure(m) {
				if !seenF[g] {
					seenF[g] = true
					resFns = append(resFns, g)
				}
			}
		}
		for _, F := range resFns {
			type site struct {
				at       ssa.Instruction
				key, val ssa.Value
			}
			var sites []site
			for _, in := range uses[F].writes[name] {
				if mu, ok := in.(*ssa.MapUpdate); ok {
					if _, isFiller := fillers[F]; !isFiller {
						sites = append(sites, site{mu, mu.Key, mu.Value})
					}
				}
			}
			for _, ci := range an.Calls(F) {
				if g := ci.Common().StaticCallee(); g != nil {
					if fl, ok := fillers[g]; ok && fl.ki < len(ci.Common().Args) && fl.vi < len(ci.Common().Args) {
						sites = append(sites, site{ci, ci.Common().Args[fl.ki], ci.Common().Args[fl.vi]})
					}
				}
			}
			for _, st := range sites {
				fillSeen++
				ck, ok := keyClass(st.key, nil)
				if !ok {
					uninterp = append(uninterp, "the cache key used at "+w.Pos(st.at.Pos())+" is not a string or a struct literal of parameters and constants")
					continue
				}
				for _, src := range c12CallsBehind(st.val) {
					if src == nil {
						continue
					}
					cls, cok := storeClasses(src, nil, false, 0)
					if !cok {
						uninterp = append(uninterp, "the store reads behind the value cached at "+w.Pos(st.at.Pos())+" are nested too deeply")
					}
					for sc := range cls {
						if strings.Count(sc, ",") != strings.Count(ck, ",") {
							uninterp = append(uninterp, fmt.Sprintf("cache key (%s) and store key (%s) at %s have different shapes", ck, sc, w.Pos(st.at.Pos())))
							continue
						}
						if sc != ck {
							foreign[sc] = fmt.Sprintf("%s caches under key (%s) a value read from the store under key (%s) (%s)", w.FuncName(F), ck, sc, w.Pos(st.at.Pos()))
						}
					}
				}
			}
		}
		if fillSeen == 0 {
			uninterp = append(uninterp, "no place where Setting."+name+" is filled by a rate lookup was recognised")
		}
		// every method that changes the store must invalidate what depends on the key it writes
		for _, m := range methods {
			_, changes := boltKind(m)
			if !changes {
				continue
			}
			cons := w.FuncName(m) + " cache Setting." + name
			pos := w.Pos(m.Pos())
			stopAny, stopReset := map[*ssa.BasicBlock]bool{}, map[*ssa.BasicBlock]bool{}
			touches := false
			var keyedClasses []string
			keyedOK := true
			for _, in := range uses[m].resets[name] {
				stopAny[in.Block()], stopReset[in.Block()] = true, true
				touches = true
			}
			if resetter[m] {
				for _, in := range uses[m].writes[name] {
					stopAny[in.Block()], stopReset[in.Block()] = true, true
					touches = true
				}
			} else {
				for _, in := range uses[m].writes[name] {
					touches = true
					stopAny[in.Block()] = true
					if ci, ok := in.(ssa.CallInstruction); ok && len(ci.Common().Args) == 2 {
						if kc, ok := keyClass(ci.Common().Args[1], nil); ok {
							keyedClasses = append(keyedClasses, kc)
							continue
						}
					}
					keyedOK = false
				}
			}
			wcls := map[string]bool{}
			wok := true
			for _, ci := range an.Calls(m) {
				if _, isGo := ci.(*ssa.Go); isGo {
					continue
				}
				cl, cok := storeClasses(ci, nil, true, 0)
				wok = wok && cok
				for k := range cl {
					wcls[k] = true
				}
				g := ci.Common().StaticCallee()
				if g == nil || uses[g] == nil {
					continue
				}
				isReset := false
				writesIt := false
				for _, h := range closure(g) {
					if resetter[h] {
						isReset = true
					}
					if len(uses[h].writes[name])+len(uses[h].resets[name]) > 0 {
						writesIt = true
					}
				}
				if !writesIt {
					continue
				}
				touches = true
				stopAny[ci.Block()] = true
				switch ki, isKeyed := keyedInv[g]; {
				case isReset:
					stopReset[ci.Block()] = true
				case isKeyed && ki < len(ci.Common().Args):
					if kc, ok := keyClass(ci.Common().Args[ki], nil); ok {
						keyedClasses = append(keyedClasses, kc)
					} else {
						keyedOK = false
					}
				default:
					keyedOK = false
				}
			}
			if !touches {
				c.Bad("C12.R6", cons, pos, fmt.Sprintf("%s changes the rate store but never writes Setting.%s, from which %s can answer (written by %s): after this call a rate that is no longer the configured one keeps being returned and charged until restart", w.FuncName(m), name, "the rate lookups", strings.Join(sortedKeys(c12Set(written[name])), ", ")))
				continue
			}
			uncovered := func(stop map[*ssa.BasicBlock]bool) string {
				reach := an.ReachBlocks([]*ssa.BasicBlock{m.Blocks[0]}, nil, stop)
				out := ""
				ei := errIdx(m)
				if ei < 0 {
					for _, r := range an.Returns(m) {
						if r.Block() != m.Recover && reach[r.Block()] && !stop[r.Block()] {
							out += " " + w.Pos(r.Pos())
						}
					}
					return out
				}
				x := c12XOf(w)
				for _, cs := range c12Cases(m, ei, false) {
					if cs.lost {
						out += " ?" + w.Pos(cs.ret.Pos())
						continue
					}
					if !an.IsNilConst(cs.v) && x.nonNil(cs) {
						continue
					}
					if !stop[cs.b] && reach[cs.b] {
						out += " " + w.Pos(cs.ret.Pos())
					}
				}
				return out
			}
			if u := uncovered(stopAny); u != "" {
				c.Unknown("C12.R6", cons, pos, "Setting."+name+" is written by this store-changing method, but not on every success path (returns at"+u+"); this rule cannot decide whether the skipped cases need it")
				continue
			}
			if uncovered(stopReset) == "" {
				c.OK("C12.R6", cons, pos, "every success path resets or sweeps Setting."+name)
				continue
			}
			// keyed invalidation only
			var hit []string
			for k := range wcls {
				if why, ok := foreign[k]; ok {
					hit = append(hit, why)
				}
			}
			sort.Strings(hit)
			switch {
			case len(hit) > 0:
				c.Bad("C12.R6", cons, pos, fmt.Sprintf("%s writes the store key (%s) and drops only single entries of Setting.%s, but entries under OTHER keys also depend on that store key: %s. Those entries are not invalidated when it changes, so the old rate keeps being returned and charged until restart; the method must reset the cache (or delete every entry that may hold such a value)", w.FuncName(m), strings.Join(sortedKeys(wcls), " | "), name, strings.Join(hit, "; ")))
			case !wok || len(wcls) == 0:
				c.Unknown("C12.R6", cons, pos, "cannot determine the store key this method writes")
			case !keyedOK || len(keyedClasses) == 0:
				c.Unknown("C12.R6", cons, pos, "every success path writes Setting."+name+", but the entry that is dropped cannot be interpreted")
			case len(uninterp) > 0:
				c.Unknown("C12.R6", cons, pos, "every success path drops an entry of Setting."+name+", but the keying of the cache is not fully interpreted: "+strings.Join(sortedKeys(c12Set(uninterp)), "; "))
			default:
				own := true
				for _, kc := range keyedClasses {
					if !wcls[kc] {
						own = false
					}
				}
				if own {
					c.OK("C12.R6", cons, pos, fmt.Sprintf("drops the entry of the store key it writes (%s) on every success path, and no entry under another key is filled from that store key", strings.Join(sortedKeys(wcls), " | ")))
				} else {
					c.Unknown("C12.R6", cons, pos, fmt.Sprintf("drops entries (%s) that are not the store key it writes (%s)", strings.Join(keyedClasses, " | "), strings.Join(sortedKeys(wcls), " | ")))
				}
			}
		}
	}
}

func c12ParamIndex(v ssa.Value) int {
	p, ok := c12StripConv(v).(*ssa.Parameter)
	if !ok {
		return -1
	}
	for i, q := range p.Parent().Params {
		if q == p {
			return i
		}
	}
	return -1
}

func c12Set(xs []string) map[string]bool {
	m := map[string]bool{}
	for _, x := range xs {
		m[x] = true
	}
	return m
}

// ---- BEGIN shared expansion (identical in c11.go and c12.go up to the prefix) ----
//
// c12X extends the engine's edge facts with what is known on an edge because an
// in-module helper returned a particular verdict there:
//   * `if pred(args)` / `if !pred(args)` with pred returning one bool: the facts
//     that hold whenever pred returns that value;
//   * the nil edge of `err := check(args)`: the facts that hold whenever check
//     returns a nil error (`return other(args)` is followed).
// Callee facts are re-issued on the caller's edge with `param#i` replaced by the
// name of the i-th argument; callee parameters are bound to the argument values
// for the rules that look at values. An expansion is *complete* when every
// return of the helper could be interpreted; a tested helper call whose
// expansion is incomplete is "opaque": a guard that is not found behind an
// opaque call is undecided, not violated.

type c12X struct {
	w      *an.World
	memo   map[*ssa.Function][]an.Fact
	opq    map[*ssa.Function][]c12Opq
	alts   map[*ssa.Function][]c12Alt
	bind   map[ssa.Value]ssa.Value
	ambig  map[ssa.Value]bool
	active map[*ssa.Function]bool
}

func c12NewX(w *an.World) *c12X {
	return &c12X{w: w, memo: map[*ssa.Function][]an.Fact{}, opq: map[*ssa.Function][]c12Opq{}, alts: map[*ssa.Function][]c12Alt{}, bind: map[ssa.Value]ssa.Value{}, ambig: map[ssa.Value]bool{}, active: map[*ssa.Function]bool{}}
}

const c12Depth = 3

// resolve maps a helper parameter to the argument it was called with.
func (x *c12X) resolve(v ssa.Value) ssa.Value {
	for i := 0; i < 4; i++ {
		a, ok := x.bind[v]
		if !ok || x.ambig[v] {
			return v
		}
		v = a
	}
	return v
}

func c12Key(f an.Fact) string { return f.String() }

// facts: engine facts of fn plus the derived ones.
func (x *c12X) facts(fn *ssa.Function) []an.Fact { return x.factsD(fn, 0) }

func (x *c12X) factsD(fn *ssa.Function, depth int) []an.Fact {
	if fs, ok := x.memo[fn]; ok {
		return fs
	}
	base := x.w.Facts(fn)
	if x.active[fn] {
		return base
	}
	x.active[fn] = true
	defer delete(x.active, fn)
	out := append([]an.Fact{}, base...)
	seen := map[string]bool{}
	add := func(e an.Edge, fs []an.Fact) {
		for _, d := range fs {
			d.Edge = e
			k := fmt.Sprintf("%p/%d/%s", e.From, e.Idx, c12Key(d))
			if !seen[k] {
				seen[k] = true
				out = append(out, d)
			}
		}
	}
	for _, f := range base {
		call, idx, kind := x.verdictCall(f)
		if call == nil {
			continue
		}
		g := call.Call.StaticCallee()
		if depth >= c12Depth {
			x.opq[fn] = append(x.opq[fn], c12Opq{x.w.FuncName(g) + " (nesting too deep)", f.Edge})
			continue
		}
		var ds []an.Fact
		var sets [][]an.Fact
		complete := true
		switch kind {
		case "bool":
			ds, sets, complete = x.retFactsS(g, f.Rel == "true", depth+1)
		case "nil":
			ds, sets, complete = x.nilFactsS(g, idx, depth+1)
		}
		if len(sets) > 1 {
			a := c12Alt{edge: f.Edge, helper: x.w.FuncName(g), complete: complete}
			for _, s := range sets {
				a.sets = append(a.sets, x.subst(s, g, call))
			}
			x.alts[fn] = append(x.alts[fn], a)
		}
		if !complete {
			x.opq[fn] = append(x.opq[fn], c12Opq{x.w.FuncName(g), f.Edge})
		}
		add(f.Edge, x.subst(ds, g, call))
	}
	x.memo[fn] = out
	return out
}

// verdictCall: the fact tests the bool result / the nil-ness of the error result
// of a call to an in-module function with a body.
func (x *c12X) verdictCall(f an.Fact) (*ssa.Call, int, string) {
	inMod := func(c *ssa.Call) bool {
		g := c.Call.StaticCallee()
		return g != nil && g.Blocks != nil && x.w.InModule(g)
	}
	if f.Rel == "true" || f.Rel == "false" {
		if c, ok := f.Cond.(*ssa.Call); ok && inMod(c) {
			if r := c.Call.Signature().Results(); r.Len() == 1 && c12IsBool(r.At(0).Type()) {
				return c, 0, "bool"
			}
		}
		return nil, 0, ""
	}
	if f.NonNum && f.Rel == "==" && (f.L == "nil" || f.R == "nil") {
		for _, v := range []ssa.Value{f.LV, f.RV} {
			if v == nil {
				continue
			}
			idx := 0
			if ex, ok := v.(*ssa.Extract); ok {
				idx = ex.Index
				v = ex.Tuple
			}
			if c, ok := v.(*ssa.Call); ok && inMod(c) {
				r := c.Call.Signature().Results()
				if idx < r.Len() && an.IsErrorType(r.At(idx).Type()) {
					return c, idx, "nil"
				}
			}
		}
	}
	return nil, 0, ""
}

func c12IsBool(t types.Type) bool {
	b, ok := t.Underlying().(*types.Basic)
	return ok && b.Info()&types.IsBoolean != 0
}

func c12IsInt(t types.Type) bool {
	b, ok := t.Underlying().(*types.Basic)
	return ok && b.Info()&types.IsInteger != 0
}

// subst re-issues callee facts in the caller's vocabulary and records the
// parameter bindings.
func (x *c12X) subst(fs []an.Fact, g *ssa.Function, call *ssa.Call) []an.Fact {
	args := call.Call.Args
	names := make([]string, len(g.Params))
	for i, p := range g.Params {
		if i >= len(args) {
			continue
		}
		names[i] = x.w.Term(args[i])
		if old, ok := x.bind[p]; ok && old != args[i] {
			x.ambig[p] = true
		}
		x.bind[p] = args[i]
	}
	rep := func(s string) string {
		if !strings.Contains(s, "param#") {
			return s
		}
		var sb strings.Builder
		for i := 0; i < len(s); {
			if strings.HasPrefix(s[i:], "param#") {
				j := i + len("param#")
				n := 0
				k := j
				for k < len(s) && s[k] >= '0' && s[k] <= '9' {
					n = n*10 + int(s[k]-'0')
					k++
				}
				if k > j && n < len(names) && names[n] != "" {
					sb.WriteString(names[n])
					i = k
					continue
				}
			}
			sb.WriteByte(s[i])
			i++
		}
		return sb.String()
	}
	var out []an.Fact
	for _, f := range fs {
		d := f
		if f.Terms != nil {
			d.Terms = map[string]int64{}
			for k, c := range f.Terms {
				d.Terms[rep(k)] += c
			}
		}
		d.Atom, d.L, d.R = rep(f.Atom), rep(f.L), rep(f.R)
		if d.NonNum && (d.Rel == "==" || d.Rel == "!=") && d.L > d.R {
			d.L, d.R = d.R, d.L
		}
		out = append(out, d)
	}
	return out
}

// at: the facts of g that hold when control is in block b (having arrived over
// edge `via` when via.From != nil).
func (x *c12X) at(g *ssa.Function, b *ssa.BasicBlock, via an.Edge, depth int) []an.Fact {
	var out []an.Fact
	for _, f := range x.factsD(g, depth) {
		if via.From != nil && f.Edge == via {
			out = append(out, f)
			continue
		}
		if f.Edge.From == b {
			continue
		}
		if an.EdgeDominates(f.Edge, b) {
			out = append(out, f)
		}
	}
	return out
}

// dominating: facts (incl. derived) on every path to the instruction.
func (x *c12X) dominating(in ssa.Instruction) []an.Fact {
	return x.at(in.Parent(), in.Block(), an.Edge{}, 0)
}

// c12Alt: on `edge` one of the alternatives holds (one per way the helper can
// return the tested verdict); each alternative is a conjunction of facts.
type c12Alt struct {
	edge     an.Edge
	helper   string
	sets     [][]an.Fact
	complete bool
}

// alternatives of fn (disjunctive knowledge on verdict edges).
func (x *c12X) alternatives(fn *ssa.Function) []c12Alt {
	x.facts(fn)
	return x.alts[fn]
}

type c12Opq struct {
	name string
	edge an.Edge
}

// opaque lists the tested helper calls of fn whose verdict could not be fully
// interpreted and whose verdict edge lies on every path to one of the given
// blocks (all such calls when no block is given): only those could hide a guard
// of these blocks.
func (x *c12X) opaque(fn *ssa.Function, targets ...*ssa.BasicBlock) []string {
	x.facts(fn)
	m := map[string]bool{}
	for _, o := range x.opq[fn] {
		if len(targets) == 0 {
			m[o.name] = true
			continue
		}
		for _, b := range targets {
			if b != nil && o.edge.From != b && an.EdgeDominates(o.edge, b) {
				m[o.name] = true
			}
		}
	}
	return sortedKeys(m)
}

type c12Case struct {
	v    ssa.Value
	b    *ssa.BasicBlock // block in which the case is decided
	via  an.Edge         // incoming phi edge (From == nil: none)
	ret  *ssa.Return
	lost bool // value not determined
}

// c12Expand expands a value observed in block b into (value, place) pairs,
// looking through phis (the place is then the predecessor and the incoming edge)
// and through go/ssa's spilled locals (reaching stores).
func c12Expand(v ssa.Value, b *ssa.BasicBlock, via an.Edge, r *ssa.Return, depth int, expandSC bool, out *[]c12Case) {
	if phi, ok := v.(*ssa.Phi); ok && depth < 4 {
		if _, _, isSC := an.PhiConjuncts(phi); expandSC || !isSC || !c12IsBool(phi.Type()) {
			for i, e := range phi.Edges {
				pred := phi.Block().Preds[i]
				ve := an.Edge{}
				if len(pred.Succs) == 2 && pred.Succs[0] != pred.Succs[1] {
					if pred.Succs[0] == phi.Block() {
						ve = an.Edge{From: pred, Idx: 0}
					} else {
						ve = an.Edge{From: pred, Idx: 1}
					}
				}
				c12Expand(e, pred, ve, r, depth+1, expandSC, out)
			}
			return
		}
	}
	if u, ok := v.(*ssa.UnOp); ok && u.Op == token.MUL && depth < 4 {
		if al, ok := u.X.(*ssa.Alloc); ok {
			sts, fromEntry := an.StoresReaching(u, al)
			if fromEntry || len(sts) == 0 {
				*out = append(*out, c12Case{v: v, b: b, via: via, ret: r, lost: true})
				return
			}
			for _, st := range sts {
				c12Expand(st.Val, st.Block(), an.Edge{}, r, depth+1, expandSC, out)
			}
			return
		}
	}
	*out = append(*out, c12Case{v: v, b: b, via: via, ret: r})
}

// c12Cases expands the idx-th result of every return of g.
func c12Cases(g *ssa.Function, idx int, expandSC bool) []c12Case {
	var out []c12Case
	for _, r := range an.Returns(g) {
		if r.Block() == g.Recover || idx >= len(r.Results) {
			continue
		}
		c12Expand(r.Results[idx], r.Block(), an.Edge{}, r, 0, expandSC, &out)
	}
	return out
}

// c12ValCases expands a value used in block b.
func c12ValCases(v ssa.Value, b *ssa.BasicBlock) []c12Case {
	var out []c12Case
	c12Expand(v, b, an.Edge{}, nil, 0, true, &out)
	return out
}

func c12Intersect(sets [][]an.Fact) []an.Fact {
	if len(sets) == 0 {
		return nil
	}
	var out []an.Fact
	done := map[string]bool{}
	for _, f := range sets[0] {
		k := c12Key(f)
		if done[k] {
			continue
		}
		done[k] = true
		all := true
		for _, s := range sets[1:] {
			has := false
			for _, h := range s {
				if c12Key(h) == k {
					has = true
					break
				}
			}
			if !has {
				all = false
				break
			}
		}
		if all {
			out = append(out, f)
		}
	}
	return out
}

// retFacts: facts that hold whenever g (one bool result) returns `holds`.
func (x *c12X) retFacts(g *ssa.Function, holds bool, depth int) ([]an.Fact, bool) {
	fs, _, c := x.retFactsS(g, holds, depth)
	return fs, c
}

func (x *c12X) retFactsS(g *ssa.Function, holds bool, depth int) ([]an.Fact, [][]an.Fact, bool) {
	complete := true
	var sets [][]an.Fact
	for _, cs := range c12Cases(g, 0, false) {
		if cs.lost {
			complete = false
			sets = append(sets, nil)
			continue
		}
		if k, ok := cs.v.(*ssa.Const); ok && k.Value != nil && k.Value.Kind() == constant.Bool {
			if constant.BoolVal(k.Value) != holds {
				continue
			}
			sets = append(sets, x.at(g, cs.b, cs.via, depth))
			continue
		}
		fs, ok := x.condFacts(cs.v, holds, depth)
		if !ok {
			complete = false
		}
		sets = append(sets, append(x.at(g, cs.b, cs.via, depth), fs...))
	}
	return c12Intersect(sets), sets, complete
}

// nonNil: the error value of this case cannot be nil.
func (x *c12X) nonNil(cs c12Case) bool { return x.nonNilD(cs, 0) }

func (x *c12X) nonNilD(cs c12Case, depth int) bool {
	v := cs.v
	switch y := v.(type) {
	case *ssa.MakeInterface:
		return true
	case *ssa.UnOp:
		if _, isG := y.X.(*ssa.Global); isG && y.Op == token.MUL {
			return true // package-level error variable
		}
	case *ssa.Call:
		switch x.w.Info(y).Name {
		case "func:errors.New", "func:fmt.Errorf":
			return true
		}
	}
	// the value was tested non-nil on the way here
	var call *ssa.Call
	if ex, ok := v.(*ssa.Extract); ok {
		call, _ = ex.Tuple.(*ssa.Call)
	} else {
		call, _ = v.(*ssa.Call)
	}
	if call != nil {
		// a constructor of errors: every return of the in-module callee is non-nil
		if h := call.Call.StaticCallee(); h != nil && h.Blocks != nil && x.w.InModule(h) && depth < 2 {
			idx := 0
			if ex, ok := v.(*ssa.Extract); ok {
				idx = ex.Index
			}
			hc := c12Cases(h, idx, false)
			all := len(hc) > 0
			for _, k := range hc {
				if k.lost || an.IsNilConst(k.v) || !x.nonNilD(k, depth+1) {
					all = false
				}
			}
			if all {
				return true
			}
		}
		if _, fail := an.OkEdges(call); len(fail) > 0 {
			for _, e := range fail {
				if e == cs.via {
					return true
				}
			}
			if an.EdgesDominate(fail, cs.b) {
				return true
			}
		}
	}
	return false
}

// nilFacts: facts that hold whenever the idx-th (error) result of g is nil.
func (x *c12X) nilFacts(g *ssa.Function, idx int, depth int) ([]an.Fact, bool) {
	fs, _, c := x.nilFactsS(g, idx, depth)
	return fs, c
}

func (x *c12X) nilFactsS(g *ssa.Function, idx int, depth int) ([]an.Fact, [][]an.Fact, bool) {
	complete := true
	var sets [][]an.Fact
	for _, cs := range c12Cases(g, idx, false) {
		if cs.lost {
			complete = false
			sets = append(sets, nil)
			continue
		}
		if an.IsNilConst(cs.v) {
			sets = append(sets, x.at(g, cs.b, cs.via, depth))
			continue
		}
		if x.nonNil(cs) {
			continue
		}
		// `return other(args)`
		v := cs.v
		hidx := 0
		if ex, ok := v.(*ssa.Extract); ok {
			hidx = ex.Index
			v = ex.Tuple
		}
		if c, ok := v.(*ssa.Call); ok {
			h := c.Call.StaticCallee()
			if h != nil && h.Blocks != nil && x.w.InModule(h) && depth < c12Depth {
				hf, hc := x.nilFacts(h, hidx, depth+1)
				if !hc {
					complete = false
				}
				sets = append(sets, append(x.at(g, cs.b, cs.via, depth), x.subst(hf, h, c)...))
				continue
			}
		}
		complete = false
		sets = append(sets, x.at(g, cs.b, cs.via, depth))
	}
	return c12Intersect(sets), sets, complete
}

// condFacts: facts that hold when the boolean value v equals `holds`.
func (x *c12X) condFacts(v ssa.Value, holds bool, depth int) ([]an.Fact, bool) {
	w := x.w
	for {
		if u, ok := v.(*ssa.UnOp); ok && u.Op == token.NOT {
			holds = !holds
			v = u.X
			continue
		}
		if bo, ok := v.(*ssa.BinOp); ok && (bo.Op == token.EQL || bo.Op == token.NEQ) && c12IsBool(bo.X.Type()) {
			var other ssa.Value
			var cv *ssa.Const
			if c, ok := bo.Y.(*ssa.Const); ok {
				other, cv = bo.X, c
			} else if c, ok := bo.X.(*ssa.Const); ok {
				other, cv = bo.Y, c
			}
			if cv != nil && cv.Value != nil && cv.Value.Kind() == constant.Bool {
				if (bo.Op == token.EQL) != constant.BoolVal(cv.Value) {
					holds = !holds
				}
				v = other
				continue
			}
		}
		break
	}
	if ops, isAnd, ok := an.PhiConjuncts(v); ok {
		if isAnd != holds {
			return nil, true // a disjunction: nothing definite, but nothing lost that a single fact could say
		}
		var out []an.Fact
		complete := true
		for _, op := range ops {
			fs, c := x.condFacts(op, holds, depth)
			out = append(out, fs...)
			complete = complete && c
		}
		// the operand that decided the constant edges
		phi := v.(*ssa.Phi)
		for i, e := range phi.Edges {
			if _, isC := e.(*ssa.Const); !isC {
				continue
			}
			pred := phi.Block().Preds[i]
			if len(pred.Instrs) == 0 {
				continue
			}
			if pi, ok := pred.Instrs[len(pred.Instrs)-1].(*ssa.If); ok && len(pred.Succs) == 2 {
				if (isAnd && pred.Succs[1] == phi.Block() && pred.Succs[0] != phi.Block()) || (!isAnd && pred.Succs[0] == phi.Block() && pred.Succs[1] != phi.Block()) {
					fs, c := x.condFacts(pi.Cond, holds, depth)
					out = append(out, fs...)
					complete = complete && c
				}
			}
		}
		return out, complete
	}
	if _, isPhi := v.(*ssa.Phi); isPhi {
		return nil, false
	}
	f := an.Fact{Cond: v}
	bo, isCmp := v.(*ssa.BinOp)
	if isCmp {
		switch bo.Op {
		case token.EQL, token.NEQ, token.LSS, token.LEQ, token.GTR, token.GEQ:
		default:
			isCmp = false
		}
	}
	if !isCmp {
		f.Atom = w.Term(v)
		if holds {
			f.Rel = "true"
		} else {
			f.Rel = "false"
		}
		out := []an.Fact{f}
		complete := true
		if c, ok := v.(*ssa.Call); ok {
			f.Args = c.Call.Args
			out[0] = f
			if g := c.Call.StaticCallee(); g != nil && g.Blocks != nil && w.InModule(g) && c.Call.Signature().Results().Len() == 1 {
				if depth >= c12Depth {
					return out, false
				}
				ds, cpl := x.retFacts(g, holds, depth+1)
				out = append(out, x.subst(ds, g, c)...)
				complete = cpl
			}
		}
		return out, complete
	}
	op := bo.Op
	if !holds {
		switch op {
		case token.EQL:
			op = token.NEQ
		case token.NEQ:
			op = token.EQL
		case token.LSS:
			op = token.GEQ
		case token.LEQ:
			op = token.GTR
		case token.GTR:
			op = token.LEQ
		case token.GEQ:
			op = token.LSS
		}
	}
	f.LV, f.RV = bo.X, bo.Y
	lf := w.LinearDiff(bo.X, bo.Y)
	if lf == nil {
		f.NonNum = true
		l, r := w.Term(bo.X), w.Term(bo.Y)
		switch op {
		case token.EQL, token.NEQ:
			if l > r {
				l, r = r, l
			}
		case token.LSS:
			l, r, op = r, l, token.GTR
		case token.LEQ:
			l, r, op = r, l, token.GEQ
		}
		f.L, f.R, f.Rel = l, r, op.String()
		return []an.Fact{f}, true
	}
	f.Terms = map[string]int64{}
	for k, c := range lf.Terms {
		f.Terms[k] = c
	}
	f.Const = lf.Const
	f.Widths = append(c12ArithWidths(bo.X, 0), c12ArithWidths(bo.Y, 0)...)
	flip := false
	switch op {
	case token.LSS:
		flip, op = true, token.GTR
	case token.LEQ:
		flip, op = true, token.GEQ
	case token.EQL, token.NEQ:
		var ks []string
		for k := range f.Terms {
			ks = append(ks, k)
		}
		sort.Strings(ks)
		if len(ks) > 0 && f.Terms[ks[0]] < 0 {
			flip = true
		} else if len(ks) == 0 && f.Const < 0 {
			flip = true
		}
	}
	if flip {
		for k := range f.Terms {
			f.Terms[k] = -f.Terms[k]
		}
		f.Const = -f.Const
	}
	f.Rel = op.String()
	return []an.Fact{f}, true
}

// c12ArithWidths: bit widths of the integer additions/subtractions/multiplications under v.
func c12ArithWidths(v ssa.Value, depth int) []int {
	if depth > 8 {
		return nil
	}
	switch y := v.(type) {
	case *ssa.Convert:
		if c12IsInt(y.Type()) && c12IsInt(y.X.Type()) {
			return c12ArithWidths(y.X, depth+1)
		}
	case *ssa.ChangeType:
		return c12ArithWidths(y.X, depth+1)
	case *ssa.BinOp:
		if !c12IsInt(y.Type()) {
			return nil
		}
		switch y.Op {
		case token.ADD, token.SUB, token.MUL:
			wd := 64
			if b, ok := y.Type().Underlying().(*types.Basic); ok {
				switch b.Kind() {
				case types.Int8, types.Uint8:
					wd = 8
				case types.Int16, types.Uint16:
					wd = 16
				case types.Int32, types.Uint32:
					wd = 32
				}
			}
			return append(append(c12ArithWidths(y.X, depth+1), c12ArithWidths(y.Y, depth+1)...), wd)
		}
	}
	return nil
}

// cut: the edges of fn on which pass holds (engine and derived facts).
func (x *c12X) cut(fn *ssa.Function, pass func(an.Fact) bool) []an.Edge {
	var out []an.Edge
	seen := map[an.Edge]bool{}
	for _, f := range x.facts(fn) {
		if !seen[f.Edge] && pass(f) {
			seen[f.Edge] = true
			out = append(out, f.Edge)
		}
	}
	return out
}

// c12Site is an effect call as seen from an anchor function: `at` is the call
// instruction in the anchor (the effect itself, or the call of the in-module
// helper through which it is reached), `inner` the effect call itself.
type c12Site struct {
	at    ssa.CallInstruction
	inner ssa.CallInstruction
}

// c12Lifted lists the calls of fn through which the effect `name` is reached
// synchronously (directly or inside in-module helpers, depth <= 3).
func c12Lifted(w *an.World, fn *ssa.Function, name string) []c12Site {
	var out []c12Site
	var inner func(h *ssa.Function, depth int, seen map[*ssa.Function]bool) []ssa.CallInstruction
	inner = func(h *ssa.Function, depth int, seen map[*ssa.Function]bool) []ssa.CallInstruction {
		if seen[h] || depth > 3 {
			return nil
		}
		seen[h] = true
		var r []ssa.CallInstruction
		for _, ci := range an.Calls(h) {
			if _, isGo := ci.(*ssa.Go); isGo {
				continue
			}
			if w.Info(ci).Name == name {
				r = append(r, ci)
				continue
			}
			if g := ci.Common().StaticCallee(); g != nil && g.Blocks != nil && w.InModule(g) && w.Info(ci).Name != fxActionExecute {
				r = append(r, inner(g, depth+1, seen)...)
			}
		}
		return r
	}
	for _, ci := range an.Calls(fn) {
		if _, isGo := ci.(*ssa.Go); isGo {
			continue
		}
		if w.Info(ci).Name == name {
			out = append(out, c12Site{ci, ci})
			continue
		}
		if g := ci.Common().StaticCallee(); g != nil && g.Blocks != nil && w.InModule(g) {
			for _, in := range inner(g, 1, map[*ssa.Function]bool{fn: true}) {
				out = append(out, c12Site{ci, in})
			}
		}
	}
	return out
}

// ---- END shared expansion ----

var c12Xs = map[*an.World]*c12X{}
var c12Xmu sync.Mutex

func c12XOf(w *an.World) *c12X {
	c12Xmu.Lock()
	defer c12Xmu.Unlock()
	x := c12Xs[w]
	if x == nil {
		x = c12NewX(w)
		c12Xs[w] = x
	}
	return x
}
