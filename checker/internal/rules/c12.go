package rules

import (
	"fmt"
	"go/constant"
	"go/token"
	"go/types"
	"sort"
	"strings"

	"golang.org/x/tools/go/ssa"

	"psv/internal/an"
)

func init() {
	Register(&Prop{
		ID: "C12",
		Expl: "Decides structural necessary conditions of 'neither side pays more than agreed' over the state tables, the SSA of the actions and the request constructors. " +
			"R1: a premium-checking action is an action every delegation `next.Execute` of which is dominated by `Swap<K>Agreement != nil` and by `Swap<K>Request.PremiumLimit - Swap<K>Agreement.Premium >= 0` for one kind K (both kinds must occur, the unguarded side returns only Event_ActionFailed); in each initiator table (a table that never constructs an agreement) every state that moves amount+premium (claim payment RebalancePayment; Wallet.CreateOpeningTransaction) either has such an action in front of the paying action in its own chain or is unreachable from the default state once the states that have one are left only through their failure edge. " +
			"R2: every PayInvoiceViaChannel call is cut off by fee <= 3 x Wallet.GetFlatOpeningTXFee() (fee = DecodePayreq amount / 1000 of the very payreq that is paid, directly or through the OpeningTxFee field written from it before the test) and by SpendableMsat >= amount*1000 + invoice msat (64-bit); the unguarded side returns only Event_ActionFailed. " +
			"R3: GetOpeningTXAmount returns request amount + swap-in premium for a swap-in and the bare amount for a swap-out, GetClaimAmount the converse (per return: value and dominating request test); every CreateOpeningTransaction call passes OpeningParams.Amount = GetOpeningTXAmount(); every claim-type GetPayreq call asks for GetClaimAmount()*1000; in the action that registers the confirmation watch every non-failing exit is cut off by decoded invoice amount == GetClaimAmount()*1000 (inline or through a helper whose nil return is cut off by param == 1000*param, called with these two values) or by the legacy branch AllowNewClaimPayment == false, in which case the RebalancePayment call must be dominated by AllowNewClaimPayment == true; the decoded payreq is the paid one; the pay state is entered only from such states. " +
			"R4: the Premium field of both agreement messages is the result of premium.Setting.Compute(requester, asset, op, amount) with op = SwapIn for the swap-in agreement and SwapOut for the swap-out agreement, asset = LBTC exactly on the lbtc-chain branch; PremiumLimit of locally created requests is (*premium.PPM).Compute of NewPPM(rate parameter) applied to the value stored in Amount of the same message. " +
			"R5: outside the responder actions the agreement fields of SwapData are stored only under `field == nil` (a peer cannot replace an agreement whose premium was already checked).",
		NotD: "Arithmetic wrap-around of uint64(int64(amount)+premium) for premiums below -amount and of amount*1000; float rounding of the factor 3 and the truncation of msat/1000; whether the lightning node pays exactly the decoded amount; that a swap carries only the agreement of its own kind (a foreign-kind agreement stored by SendEvent before the acceptability test makes CheckPremiumAmount dereference a nil request: a crash, not an overpayment); concurrency between the premium check and later reads.",
		Run:  runC12,
	})
}

// ---- helpers ---------------------------------------------------------------------------------

type c12Term struct {
	alts []string
	coef int64
}

// c12LinGE: f is a linear fact over exactly these terms that implies Σ coef·term >= 0.
func c12LinGE(f an.Fact, spec []c12Term) bool {
	if f.NonNum || f.Terms == nil || len(f.Terms) != len(spec) {
		return false
	}
	used := map[string]bool{}
	for _, st := range spec {
		hit := ""
		for k, co := range f.Terms {
			if used[k] || co != st.coef {
				continue
			}
			for _, a := range st.alts {
				if strings.Contains(k, a) {
					hit = k
				}
			}
			if hit != "" {
				break
			}
		}
		if hit == "" {
			return false
		}
		used[hit] = true
	}
	switch f.Rel {
	case ">=", "==":
		return f.Const <= 0
	case ">":
		return f.Const <= 1
	}
	return false
}

// c12LinEQ: f is exactly Σ coef·term == 0 over these terms.
func c12LinEQ(f an.Fact, spec []c12Term) bool {
	return f.Rel == "==" && f.Const == 0 && (c12LinGE(f, spec) || c12LinGE(f, c12Neg(spec)))
}

func c12Neg(spec []c12Term) []c12Term {
	var out []c12Term
	for _, s := range spec {
		out = append(out, c12Term{s.alts, -s.coef})
	}
	return out
}

func c12Widths64(f an.Fact) bool {
	for _, x := range f.Widths {
		if x < 64 {
			return false
		}
	}
	return true
}

func c12StrRel(f an.Fact, rel, a, b string) bool {
	if !f.NonNum || f.Rel != rel {
		return false
	}
	return (f.L == a && f.R == b) || (f.L == b && f.R == a)
}

func c12AtomOf(f an.Fact) (ssa.Value, bool, bool) {
	if f.Rel == "true" || f.Rel == "false" {
		return f.Cond, f.Rel == "true", f.Cond != nil
	}
	if f.NonNum && (f.Rel == "==" || f.Rel == "!=") && f.LV != nil && f.RV != nil {
		for _, p := range [][2]ssa.Value{{f.LV, f.RV}, {f.RV, f.LV}} {
			k, ok := p[1].(*ssa.Const)
			if !ok || k.Value == nil || k.Value.Kind() != constant.Bool {
				continue
			}
			return p[0], constant.BoolVal(k.Value) == (f.Rel == "=="), true
		}
	}
	return nil, false, false
}

func c12Cut(w *an.World, fn *ssa.Function, pass func(an.Fact) bool) []an.Edge {
	var out []an.Edge
	for _, f := range w.Facts(fn) {
		if pass(f) {
			out = append(out, f.Edge)
		}
	}
	return out
}

func c12EdgeSet(es []an.Edge) map[an.Edge]bool {
	m := map[an.Edge]bool{}
	for _, e := range es {
		m[e] = true
	}
	return m
}

// c12FailEvents: events returned on the other side of the guard's tests.
func c12FailEvents(w *an.World, fn *ssa.Function, cut []an.Edge) map[string][]*ssa.Return {
	cm := c12EdgeSet(cut)
	var starts []*ssa.BasicBlock
	for _, e := range cut {
		o := an.Edge{From: e.From, Idx: 1 - e.Idx}
		if !cm[o] {
			starts = append(starts, o.To())
		}
	}
	return returnEventsFrom(w, fn, an.ReachBlocks(starts, cm, nil))
}

func c12OnlyFailed(w *an.World, evs map[string][]*ssa.Return) string {
	bad := ""
	var ks []string
	for ev := range evs {
		ks = append(ks, ev)
	}
	sort.Strings(ks)
	for _, ev := range ks {
		if ev != evFailed {
			bad += fmt.Sprintf(" %s@%s", ev, w.Pos(evs[ev][0].Pos()))
		}
	}
	return bad
}

func c12Body(w *an.World, fn *ssa.Function) *ssa.Function {
	for i := 0; i < 3 && fn != nil && fn.Synthetic != ""; i++ {
		var next *ssa.Function
		n := 0
		for _, ci := range an.Calls(fn) {
			if g := w.Info(ci).Static; g != nil && g.Name() == fn.Name() {
				next = g
				n++
			}
		}
		if n != 1 {
			break
		}
		fn = next
	}
	return fn
}

func c12Bodies(w *an.World, fns []*ssa.Function) []*ssa.Function {
	var out []*ssa.Function
	for _, f := range fns {
		out = append(out, c12Body(w, f))
	}
	return out
}

func c12StripConv(v ssa.Value) ssa.Value {
	for {
		switch x := v.(type) {
		case *ssa.Convert:
			v = x.X
		case *ssa.ChangeType:
			v = x.X
		case *ssa.MakeInterface:
			v = x.X
		default:
			return v
		}
	}
}

func c12CallOf(v ssa.Value) *ssa.Call {
	for {
		switch x := v.(type) {
		case *ssa.Extract:
			v = x.Tuple
		case *ssa.Convert:
			v = x.X
		case *ssa.ChangeType:
			v = x.X
		case *ssa.Call:
			return x
		default:
			return nil
		}
	}
}

func c12CallsBehind(v ssa.Value) []*ssa.Call {
	var out []*ssa.Call
	seen := map[ssa.Value]bool{}
	var rec func(v ssa.Value)
	rec = func(v ssa.Value) {
		if seen[v] {
			return
		}
		seen[v] = true
		if p, ok := v.(*ssa.Phi); ok {
			for _, e := range p.Edges {
				rec(e)
			}
			return
		}
		if c := c12CallOf(v); c != nil {
			out = append(out, c)
		} else {
			out = append(out, nil)
		}
	}
	rec(v)
	return out
}

func c12MulK(v ssa.Value) (ssa.Value, int64, bool) {
	v = c12StripConv(v)
	b, ok := v.(*ssa.BinOp)
	if !ok || b.Op != token.MUL {
		return nil, 0, false
	}
	if k, ok := an.ConstInt(b.Y); ok {
		return b.X, k, true
	}
	if k, ok := an.ConstInt(b.X); ok {
		return b.Y, k, true
	}
	return nil, 0, false
}

func c12ConstInt(w *an.World, rel, name string) (int64, bool) {
	p := w.ByRel[rel]
	if p == nil || p.Types == nil {
		return 0, false
	}
	c, ok := p.Types.Scope().Lookup(name).(*types.Const)
	if !ok {
		return 0, false
	}
	return constant.Int64Val(constant.ToInt(c.Val()))
}

func c12ConstStr(w *an.World, rel, name string) (string, bool) {
	p := w.ByRel[rel]
	if p == nil || p.Types == nil {
		return "", false
	}
	c, ok := p.Types.Scope().Lookup(name).(*types.Const)
	if !ok || c.Val().Kind() != constant.String {
		return "", false
	}
	return c.Val().ExactString(), true
}

// c12Allocs lists allocations of *swap.<name> in fn.
func c12Allocs(w *an.World, fn *ssa.Function, names ...string) []*ssa.Alloc {
	var out []*ssa.Alloc
	for _, b := range fn.Blocks {
		for _, in := range b.Instrs {
			al, ok := in.(*ssa.Alloc)
			if !ok {
				continue
			}
			n := an.NamedOf(al.Type())
			if n == nil || n.Obj().Pkg() == nil {
				continue
			}
			if r, ok := w.Rel(n.Obj().Pkg().Path()); !ok || r != "swap" {
				continue
			}
			for _, want := range names {
				if n.Obj().Name() == want {
					out = append(out, al)
				}
			}
		}
	}
	return out
}

const (
	c12InPrem   = "field:SwapData.SwapInAgreement>SwapInAgreementMessage.Premium"
	c12OutPrem  = "field:SwapData.SwapOutAgreement>SwapOutAgreementMessage.Premium"
	c12InLimit  = "field:SwapData.SwapInRequest>SwapInRequestMessage.PremiumLimit"
	c12OutLimit = "field:SwapData.SwapOutRequest>SwapOutRequestMessage.PremiumLimit"
	c12InAmt    = "field:SwapData.SwapInRequest>SwapInRequestMessage.Amount"
	c12OutAmt   = "field:SwapData.SwapOutRequest>SwapOutRequestMessage.Amount"
	c12Compute  = "func:(*premium.Setting).Compute"
	c12ClaimAmt = "call:func:(*swap.SwapData).GetClaimAmount"
	c12Decode   = "iface:swap.LightningClient.DecodePayreq"
)

// c12PremiumKinds: for an Execute function with delegations, the kinds ("In","Out")
// whose premium test justifies a delegation; ok=false with a reason when some
// delegation is justified by no kind or a failing side does not fail.
func c12PremiumKinds(w *an.World, fn *ssa.Function) (kinds map[string]bool, isCheck bool, why string) {
	kinds = map[string]bool{}
	dels := callsNamed(w, fn, fxActionExecute)
	if len(dels) == 0 {
		return kinds, false, ""
	}
	type kind struct{ name, agr, prem, lim string }
	ks := []kind{{"In", "field:SwapData.SwapInAgreement", c12InPrem, c12InLimit}, {"Out", "field:SwapData.SwapOutAgreement", c12OutPrem, c12OutLimit}}
	mentions := false
	for _, f := range w.Facts(fn) {
		for k := range f.Terms {
			if strings.HasSuffix(k, "AgreementMessage.Premium") {
				mentions = true
			}
		}
	}
	if !mentions {
		return kinds, false, ""
	}
	for _, d := range dels {
		just := ""
		for _, k := range ks {
			k := k
			set := c12Cut(w, fn, func(f an.Fact) bool { return c12StrRel(f, "!=", k.agr, "nil") })
			pass := c12Cut(w, fn, func(f an.Fact) bool {
				return c12LinGE(f, []c12Term{{[]string{k.lim}, 1}, {[]string{k.prem}, -1}})
			})
			if len(set) == 0 || len(pass) == 0 || !an.EdgesDominate(set, d.Block()) || !an.EdgesDominate(pass, d.Block()) {
				continue
			}
			if bad := c12OnlyFailed(w, c12FailEvents(w, fn, pass)); bad != "" {
				why = fmt.Sprintf("the Swap%s premium test guards the delegation at %s but its failing side returns%s", k.name, w.Pos(d.Pos()), bad)
				continue
			}
			just = k.name
		}
		if just == "" {
			if why == "" {
				why = fmt.Sprintf("the delegation at %s is not dominated by `agreement != nil` and `PremiumLimit - Premium >= 0` of one swap kind; facts that dominate it: %s", w.Pos(d.Pos()), an.DescribeFacts(w.FactsDominating(d)))
			}
			return kinds, true, why
		}
		kinds[just] = true
	}
	return kinds, true, ""
}

func runC12(c *an.Check) {
	c.Rule("C12.R1", "premium-checking action delegates only behind premium <= limit of the present agreement kind; in the initiator tables the states that move amount+premium are reachable only behind it")
	c.Rule("C12.R2", "the fee payment is cut off by fee <= 3 x own estimate and by spendable >= amount*1000 + fee msat, for the payreq that is paid")
	c.Rule("C12.R3", "amount getters, the amounts handed to CreateOpeningTransaction / GetPayreq, and the taker's invoice-amount equality all use request amount (+ premium of the matching kind)")
	c.Rule("C12.R4", "agreement Premium = premium.Setting.Compute(requester, asset of the chain, operation of the swap kind, amount); PremiumLimit of local requests = PPM(rate).Compute(amount)")
	c.Rule("C12.R5", "agreement fields of SwapData are write-once outside the responder actions")
	if !needEffects(c, fxPay, fxOpenTx, fxPayViaChannel, fxGetPayreq, fxDecodePayreq, fxWaitConf, fxActionExecute,
		"iface:swap.LightningClient.SpendableMsat", "iface:swap.Wallet.GetFlatOpeningTXFee") {
		return
	}
	w := c.W
	ts := tables(c)
	if ts == nil {
		return
	}
	for _, fn := range []string{"(*SwapData).GetClaimAmount", "(*SwapData).GetOpeningTXAmount", "(*SwapData).GetChain", "(*SwapData).GetAmount"} {
		if w.Func("swap", fn) == nil {
			c.Anchor("swap.%s does not resolve", fn)
			return
		}
	}
	if w.Func("premium", "(*Setting).Compute") == nil || w.Func("premium", "(*PPM).Compute") == nil || w.Func("premium", "NewPPM") == nil {
		c.Anchor("premium.(*Setting).Compute / (*PPM).Compute / NewPPM do not all resolve")
		return
	}
	for _, fld := range []string{"SwapData.SwapInAgreement", "SwapData.SwapOutAgreement", "SwapInAgreementMessage.Premium", "SwapOutAgreementMessage.Premium", "SwapInRequestMessage.PremiumLimit", "SwapOutRequestMessage.PremiumLimit"} {
		if len(w.FieldReaders(fld)) == 0 {
			c.Anchor("field %s is never read", fld)
			return
		}
	}

	// responder states / initiator tables by effect
	constructs := func(t *TI, s string) bool {
		for _, fn := range c12Bodies(w, t.Sum[s].Execs) {
			if len(c12Allocs(w, fn, "SwapInAgreementMessage", "SwapOutAgreementMessage")) > 0 {
				return true
			}
		}
		return false
	}
	var initiators []*TI
	respExec := map[*ssa.Function]bool{}
	for _, t := range ts {
		resp := false
		for _, s := range t.T.Order {
			if constructs(t, s) {
				resp = true
				for _, fn := range c12Bodies(w, t.Sum[s].Execs) {
					respExec[fn] = true
				}
			}
		}
		if !resp {
			initiators = append(initiators, t)
		}
	}
	if !c.AtLeast("C12", "initiator tables (no agreement construction)", len(initiators), 2) {
		return
	}

	c12R1(c, ts, initiators)
	c12R2(c)
	c12R3(c, ts)
	c12R4(c, ts)
	c12R5(c, respExec)
}

// ---- R1 ----------------------------------------------------------------------------------------

func c12R1(c *an.Check, ts, initiators []*TI) {
	w := c.W
	// premium-checking actions
	checks := map[*ssa.Function]map[string]bool{}
	seen := map[*ssa.Function]bool{}
	allKinds := map[string]bool{}
	nBad := 0
	for _, t := range ts {
		for _, s := range t.T.Order {
			for _, fn := range c12Bodies(w, t.Sum[s].Execs) {
				if seen[fn] {
					continue
				}
				seen[fn] = true
				kinds, isCheck, why := c12PremiumKinds(w, fn)
				if !isCheck {
					continue
				}
				name := w.FuncName(fn)
				if why != "" {
					c.Bad("C12.R1", name+" delegation", w.Pos(fn.Pos()), why)
					nBad++
					continue
				}
				c.OK("C12.R1", name+" delegation", w.Pos(fn.Pos()), "every delegation is behind `agreement != nil` and `PremiumLimit - Premium >= 0` of one swap kind; kinds: "+strings.Join(sortedKeys(kinds), ","))
				checks[fn] = kinds
				for k := range kinds {
					allKinds[k] = true
				}
			}
		}
	}
	if nBad > 0 {
		return // the broken check has been reported; the table obligations depend on it
	}
	c.Decide(allKinds["In"] && allKinds["Out"], "C12.R1", "premium check kinds", "-", "both the swap-in and the swap-out agreement premium are tested", "no premium-checking action tests both agreement kinds (found: "+strings.Join(sortedKeys(allKinds), ",")+")")
	if !c.AtLeast("C12.R1", "premium-checking actions", len(checks), 1) {
		return
	}
	n := 0
	for _, t := range initiators {
		// kind that matters in this table: the premium that the paying effect includes
		type eff struct{ name, kind, what string }
		for _, e := range []eff{{fxPay, "Out", "claim payment (amount + swap-out premium)"}, {fxOpenTx, "In", "opening transaction (amount + swap-in premium)"}} {
			for _, s := range t.statesWith(e.name) {
				n++
				cons := t.key(s) + " " + strings.TrimPrefix(e.name, "iface:swap.")
				// own chain: a check of the kind in front of the function that has the effect
				bodies := c12Bodies(w, t.Sum[s].Execs)
				own := false
				for i, fn := range bodies {
					if checks[fn][e.kind] {
						for _, later := range bodies[i+1:] {
							if w.Summary(later).HasEffect(e.name) {
								own = true
							}
						}
					}
				}
				if own {
					c.OK("C12.R1", cons, t.pos(c, s), "premium check in front of the "+e.what+" in the same action chain")
					continue
				}
				// table level: states with a check are left only through their failure edge
				isP := func(x string) bool {
					for _, fn := range c12Bodies(w, t.Sum[x].Execs) {
						if checks[fn][e.kind] {
							return true
						}
					}
					return false
				}
				reach := map[string]bool{"": true}
				prev := map[string]string{}
				work := []string{""}
				for len(work) > 0 {
					x := work[0]
					work = work[1:]
					xe := t.T.States[x]
					if xe == nil {
						continue
					}
					for _, ev := range xe.SortedEvents() {
						if isP(x) && ev != evFailed {
							continue
						}
						nx := xe.Events[ev]
						if !reach[nx] {
							reach[nx] = true
							prev[nx] = t.edgeKey(x, ev)
							work = append(work, nx)
						}
					}
				}
				if !reach[s] {
					c.OK("C12.R1", cons, t.pos(c, s), "reachable only behind a state whose premium check succeeded")
					continue
				}
				var path []string
				for x := s; x != ""; {
					p := prev[x]
					if p == "" {
						break
					}
					path = append([]string{p}, path...)
					i := strings.Index(p, "/")
					j := strings.Index(p, " --")
					if i < 0 || j < 0 {
						break
					}
					x = p[i+1 : j]
					if x == "Default" {
						x = ""
					}
				}
				c.Bad("C12.R1", cons, t.pos(c, s), "the "+e.what+" is reachable without a successful premium<=limit test of the Swap"+e.kind+" agreement: "+strings.Join(path, " ; "), path...)
			}
		}
	}
	c.AtLeast("C12.R1", "initiator states that move amount+premium", n, 2)
}

// ---- R2 ----------------------------------------------------------------------------------------

func c12R2(c *an.Check) {
	w := c.W
	n := 0
	for _, fn := range prodFuncs(w) {
		if w.FnRel(fn) != "swap" {
			continue
		}
		for _, pay := range callsNamed(w, fn, fxPayViaChannel) {
			n++
			name := w.FuncName(fn)
			pos := w.Pos(pay.Pos())
			payreq := w.Term(pay.Common().Args[0])
			// the decode of the paid payreq
			var dec *ssa.Call
			for _, d := range callsNamed(w, fn, c12Decode) {
				if dc, ok := d.(*ssa.Call); ok && w.Term(dc.Call.Args[0]) == payreq {
					dec = dc
				}
			}
			if dec == nil {
				c.Bad("C12.R2", name+" fee-bound", pos, "the invoice that is paid ("+payreq+") is never decoded in this action: its amount is unchecked")
				c.Bad("C12.R2", name+" spendable", pos, "the invoice that is paid ("+payreq+") is never decoded in this action")
				continue
			}
			msat := "call:" + c12Decode + "#1"
			quot := "(" + msat + " / 1000)"
			est := "call:iface:swap.Wallet.GetFlatOpeningTXFee#0"
			// fee term: the quotient itself or the OpeningTxFee field written from it before the test
			feeField := "field:SwapData.OpeningTxFee"
			fieldOK := func(f an.Fact) bool {
				var stores []ssa.Instruction
				for _, st := range w.FieldWriters("SwapData.OpeningTxFee") {
					if st.Parent() != fn {
						continue
					}
					if w.Term(st.Val) != quot {
						return false
					}
					stores = append(stores, st)
				}
				last := f.Edge.From.Instrs[len(f.Edge.From.Instrs)-1]
				return len(stores) > 0 && an.MustPassInstr(last, stores)
			}
			feePass := func(f an.Fact) bool {
				for _, feeT := range []string{quot, feeField} {
					for _, estSpec := range []c12Term{{[]string{"(3 * " + est + ")"}, 1}, {[]string{est}, 3}} {
						if c12LinGE(f, []c12Term{estSpec, {[]string{feeT}, -1}}) {
							// reject "(3 * x)" matching the bare-estimate alternative with coef 3 by accident
							if estSpec.coef == 3 {
								bare := false
								for k := range f.Terms {
									if k == est {
										bare = true
									}
								}
								if !bare {
									continue
								}
							}
							if feeT == feeField && !fieldOK(f) {
								continue
							}
							return true
						}
					}
				}
				return false
			}
			spendPass := func(f an.Fact) bool {
				return c12Widths64(f) && c12LinGE(f, []c12Term{
					{[]string{"call:iface:swap.LightningClient.SpendableMsat#0"}, 1},
					{[]string{c12OutAmt, "call:func:(*swap.SwapData).GetAmount"}, -1000},
					{[]string{msat}, -1}})
			}
			for _, g := range []struct {
				id, what string
				pass     func(an.Fact) bool
			}{
				{"fee-bound", "DecodePayreq(paid invoice) msat / 1000 <= 3 x Wallet.GetFlatOpeningTXFee()", feePass},
				{"spendable", "SpendableMsat >= amount*1000 + invoice msat (64 bit)", spendPass},
			} {
				cut := c12Cut(w, fn, g.pass)
				cons := name + " " + g.id
				if len(cut) == 0 || !an.EdgesDominate(cut, pay.Block()) {
					c.Bad("C12.R2", cons, pos, "the fee invoice is paid without `"+g.what+"`; facts that dominate the payment: "+an.DescribeFacts(w.FactsDominating(pay)))
					continue
				}
				bad := c12OnlyFailed(w, c12FailEvents(w, fn, cut))
				c.Decide(bad == "", "C12.R2", cons, pos, "dominates the payment: "+g.what, "the test exists but its failing side returns"+bad)
			}
		}
	}
	c.AtLeast("C12.R2", "PayInvoiceViaChannel call sites in package swap", n, 1)
}

// ---- R3 ----------------------------------------------------------------------------------------

// c12Sum: the terms of v as a sum (conversions stripped), sorted.
func c12Sum(w *an.World, v ssa.Value) []string {
	v = c12StripConv(v)
	if b, ok := v.(*ssa.BinOp); ok && b.Op == token.ADD {
		out := append(c12Sum(w, b.X), c12Sum(w, b.Y)...)
		sort.Strings(out)
		return out
	}
	return []string{w.Term(v)}
}

func c12Getter(c *an.Check, name string, inWant, outWant []string) {
	w := c.W
	fn := w.Func("swap", name)
	fname := w.FuncName(fn)
	sort.Strings(inWant)
	sort.Strings(outWant)
	seenIn, seenOut := false, false
	okAll := true
	for _, r := range an.Returns(fn) {
		if len(r.Results) != 1 {
			continue
		}
		terms := strings.Join(c12Sum(w, r.Results[0]), " + ")
		facts := w.FactsDominatingBlock(r.Block())
		has := func(field string) bool {
			return an.AnyFact(facts, func(f an.Fact) bool { return c12StrRel(f, "!=", "field:SwapData."+field, "nil") })
		}
		switch {
		case terms == "0":
		case terms == strings.Join(inWant, " + ") && has("SwapInRequest"):
			seenIn = true
		case terms == strings.Join(outWant, " + ") && has("SwapOutRequest"):
			seenOut = true
		default:
			okAll = false
			c.Bad("C12.R3", fname+" returns", w.Pos(r.Pos()), fmt.Sprintf("returns %s under [%s]; expected %s for a swap-in and %s for a swap-out", terms, an.DescribeFacts(facts), strings.Join(inWant, " + "), strings.Join(outWant, " + ")))
		}
	}
	if okAll {
		c.Decide(seenIn && seenOut, "C12.R3", fname+" returns", w.Pos(fn.Pos()),
			"swap-in: "+strings.Join(inWant, " + ")+"; swap-out: "+strings.Join(outWant, " + "),
			"the getter has no return for one of the two swap kinds")
	}
}

// c12AmountVerdict: ok -> discharged; a value that is another amount getter, a
// constant or unset -> violated; any other shape (e.g. an inlined getter) is
// not decided by this rule.
func c12AmountVerdict(c *an.Check, ok bool, v ssa.Value, cons, pos, okText, badText string) {
	if ok {
		c.OK("C12.R3", cons, pos, okText)
		return
	}
	decidable := v == nil
	if v != nil {
		v = c12StripConv(v)
		if _, isK := v.(*ssa.Const); isK {
			decidable = true
		}
		if cl, isC := v.(*ssa.Call); isC {
			switch c.W.Info(cl).Name {
			case "func:(*swap.SwapData).GetAmount", "func:(*swap.SwapData).GetClaimAmount", "func:(*swap.SwapData).GetOpeningTXAmount":
				decidable = true
			}
		}
		if _, k, isM := c12MulK(v); isM && k != 1000 {
			decidable = true
		}
	}
	if decidable {
		c.Bad("C12.R3", cons, pos, badText)
		return
	}
	c.Unknown("C12.R3", cons, pos, "unsupported shape (not a call of the amount getter): "+badText)
}

func c12R3(c *an.Check, ts []*TI) {
	w := c.W
	c12Getter(c, "(*SwapData).GetOpeningTXAmount", []string{c12InAmt, c12InPrem}, []string{c12OutAmt})
	c12Getter(c, "(*SwapData).GetClaimAmount", []string{c12InAmt}, []string{c12OutAmt, c12OutPrem})

	// amounts handed to the wallet and to the invoice
	nOpen, nInv := 0, 0
	claimType, okCT := c12ConstInt(w, "swap", "INVOICE_CLAIM")
	if !okCT {
		c.Anchor("constant swap.INVOICE_CLAIM does not resolve")
		return
	}
	for _, fn := range prodFuncs(w) {
		if w.FnRel(fn) != "swap" {
			continue
		}
		name := w.FuncName(fn)
		for _, ci := range callsNamed(w, fn, fxOpenTx) {
			nOpen++
			al, _ := c12StripConv(ci.Common().Args[0]).(*ssa.Alloc)
			if al == nil {
				c.Unknown("C12.R3", name+" OpeningParams.Amount", w.Pos(ci.Pos()), "the parameters of CreateOpeningTransaction are not a literal built in this function")
				continue
			}
			v, ok := an.CompositeFieldValue(al, "Amount")
			got := "unset"
			if ok {
				got = w.Term(v)
			}
			c12AmountVerdict(c, ok && got == "call:func:(*swap.SwapData).GetOpeningTXAmount", v, name+" OpeningParams.Amount", w.Pos(ci.Pos()),
				"funded amount is GetOpeningTXAmount()", "the opening transaction is funded with "+got+" instead of GetOpeningTXAmount()")
		}
		for _, ci := range callsNamed(w, fn, fxGetPayreq) {
			args := ci.Common().Args
			if len(args) != 7 {
				continue
			}
			if k, ok := an.ConstInt(args[4]); !ok || k != claimType {
				continue
			}
			nInv++
			base, k, ok := c12MulK(args[0])
			got := w.Term(args[0])
			probe := args[0]
			if ok {
				probe = base
			}
			c12AmountVerdict(c, ok && k == 1000 && w.Term(base) == c12ClaimAmt, probe, name+" claim invoice amount", w.Pos(ci.Pos()),
				"claim invoice asks for GetClaimAmount()*1000 msat", "the claim invoice asks for "+got+" instead of GetClaimAmount()*1000")
		}
	}
	c.AtLeast("C12.R3", "CreateOpeningTransaction call sites in package swap", nOpen, 1)
	c.AtLeast("C12.R3", "claim-type GetPayreq call sites", nInv, 1)

	// taker: decoded amount == GetClaimAmount()*1000 before the payment
	eqSpec := func(a, b string) []c12Term { return []c12Term{{[]string{a}, 1}, {[]string{b}, -1000}} }
	helperOK := func(g *ssa.Function) (pi, ci int, ok bool) { // nil return cut off by param#pi == 1000*param#ci
		for i := range g.Params {
			for j := range g.Params {
				if i == j {
					continue
				}
				cut := c12Cut(w, g, func(f an.Fact) bool {
					return c12Widths64(f) && len(f.Terms) == 2 && f.Terms[fmt.Sprintf("param#%d", i)] != 0 && c12LinEQ(f, eqSpec(fmt.Sprintf("param#%d", i), fmt.Sprintf("param#%d", j)))
				})
				if len(cut) == 0 {
					continue
				}
				all := true
				nNil := 0
				for _, r := range an.Returns(g) {
					if len(r.Results) == 1 && an.IsNilConst(r.Results[0]) {
						nNil++
						if !an.EdgesDominate(cut, r.Block()) {
							all = false
						}
					}
				}
				if all && nNil > 0 {
					return i, j, true
				}
			}
		}
		return 0, 0, false
	}
	allowTerm := func(f an.Fact, truth bool) bool {
		v, tr, ok := c12AtomOf(f)
		return ok && tr == truth && strings.HasSuffix(w.Term(v), "timelockPolicy.AllowNewClaimPayment")
	}
	nPay := 0
	for _, t := range takers(ts) {
		for _, p := range t.statesWith(fxPay) {
			for _, payFn := range c12Bodies(w, t.Sum[p].Execs) {
				for _, pay := range callsNamed(w, payFn, fxPay) {
					nPay++
					cons := t.key(p) + " invoice amount"
					pos := w.Pos(pay.Pos())
					payreq := w.Term(pay.Common().Args[0])
					// (a) equality in the paying function itself
					eqHere := c12Cut(w, payFn, func(f an.Fact) bool {
						return c12Widths64(f) && c12LinEQ(f, eqSpec("call:"+c12Decode+"#1", c12ClaimAmt))
					})
					if len(eqHere) > 0 && an.EdgesDominate(eqHere, pay.Block()) {
						c.OK("C12.R3", cons, pos, "payment dominated by decoded amount == GetClaimAmount()*1000 in the paying action")
						continue
					}
					// (b) every in-edge of the pay state comes from a state whose action establishes it
					ins := t.T.InEdges(p)
					var problems []string
					usedLegacy := false
					if len(ins) == 0 {
						problems = append(problems, "the pay state has no in-edge")
					}
					for _, in := range ins {
						okState := false
						var whyNot []string
						for _, fn := range c12Bodies(w, t.Sum[in[0]].Execs) {
							decs := callsNamed(w, fn, c12Decode)
							if len(decs) == 0 {
								continue
							}
							same := false
							for _, d := range decs {
								if w.Term(d.Common().Args[0]) == payreq {
									same = true
								}
							}
							if !same {
								whyNot = append(whyNot, w.FuncName(fn)+" decodes another payreq than the one paid ("+payreq+")")
								continue
							}
							build := func(withLegacy bool) []an.Edge {
								cut := c12Cut(w, fn, func(f an.Fact) bool {
									if c12Widths64(f) && c12LinEQ(f, eqSpec("call:"+c12Decode+"#1", c12ClaimAmt)) {
										return true
									}
									return withLegacy && allowTerm(f, false)
								})
								for _, hc := range an.Calls(fn) {
									call, ok := hc.(*ssa.Call)
									g := w.Info(hc).Static
									if !ok || g == nil || !w.InModule(g) || g.Blocks == nil {
										continue
									}
									if pi, ci, ok := helperOK(g); ok && pi < len(call.Call.Args) && ci < len(call.Call.Args) {
										if w.Term(call.Call.Args[pi]) == "call:"+c12Decode+"#1" && w.Term(call.Call.Args[ci]) == c12ClaimAmt {
											okE, _ := an.OkEdges(call)
											cut = append(cut, okE...)
										}
									}
								}
								return cut
							}
							exits := func(cut []an.Edge) string { // non-failing exits reachable without the guard
								cm := c12EdgeSet(cut)
								reach := an.ReachBlocks([]*ssa.BasicBlock{fn.Blocks[0]}, cm, nil)
								bad := ""
								for ev, rets := range returnEventsFrom(w, fn, reach) {
									if ev != evFailed {
										bad += fmt.Sprintf(" %s@%s", ev, w.Pos(rets[0].Pos()))
									}
								}
								return bad
							}
							if b := exits(build(false)); b == "" {
								okState = true
							} else if b2 := exits(build(true)); b2 == "" {
								okState = true
								usedLegacy = true
							} else {
								whyNot = append(whyNot, w.FuncName(fn)+" can leave without failure and without the equality test:"+b2)
							}
						}
						if !okState {
							if len(whyNot) == 0 {
								whyNot = append(whyNot, "no action of that state decodes the invoice")
							}
							problems = append(problems, t.edgeKey(in[0], in[1])+": "+strings.Join(whyNot, "; "))
						}
					}
					if usedLegacy {
						al := c12Cut(w, payFn, func(f an.Fact) bool { return allowTerm(f, true) })
						if len(al) == 0 || !an.EdgesDominate(al, pay.Block()) {
							problems = append(problems, "the equality test is skipped on the AllowNewClaimPayment == false branch, but the payment is not dominated by AllowNewClaimPayment == true")
						}
					}
					c.Decide(len(problems) == 0, "C12.R3", cons, pos,
						"every edge into the pay state leaves an action whose non-failing exits are behind decoded amount == GetClaimAmount()*1000",
						"the claim invoice can be paid without its amount having been compared with GetClaimAmount()*1000: "+strings.Join(problems, " | "))
				}
			}
		}
	}
	c.AtLeast("C12.R3", "claim payment sites in taker tables", nPay, 2)
}

// ---- R4 ----------------------------------------------------------------------------------------

func c12R4(c *an.Check, ts []*TI) {
	w := c.W
	lbtcA, ok1 := c12ConstInt(w, "premium", "LBTC")
	btcA, ok2 := c12ConstInt(w, "premium", "BTC")
	opIn, ok3 := c12ConstInt(w, "premium", "SwapIn")
	opOut, ok4 := c12ConstInt(w, "premium", "SwapOut")
	lbtc, ok5 := c12ConstStr(w, "swap", "l_btc_chain")
	btc, ok6 := c12ConstStr(w, "swap", "btc_chain")
	if !ok1 || !ok2 || !ok3 || !ok4 || !ok5 || !ok6 {
		c.Anchor("constants premium.LBTC/BTC/SwapIn/SwapOut, swap.l_btc_chain/btc_chain do not all resolve")
		return
	}
	const tChain = "call:func:(*swap.SwapData).GetChain"
	n := 0
	seen := map[*ssa.Alloc]bool{}
	for _, t := range ts {
		for _, s := range t.T.Order {
			for _, fn := range c12Bodies(w, t.Sum[s].Execs) {
				for _, al := range c12Allocs(w, fn, "SwapInAgreementMessage", "SwapOutAgreementMessage") {
					if seen[al] {
						continue
					}
					seen[al] = true
					n++
					mt := an.NamedOf(al.Type()).Obj().Name()
					wantOp, opName := opIn, "premium.SwapIn"
					if mt == "SwapOutAgreementMessage" {
						wantOp, opName = opOut, "premium.SwapOut"
					}
					cons := w.FuncName(fn) + " " + mt + ".Premium"
					pos := w.Pos(al.Pos())
					v, ok := an.CompositeFieldValue(al, "Premium")
					if !ok {
						c.Bad("C12.R4", cons, pos, "the agreement is built without a Premium")
						continue
					}
					var problems []string
					calls := c12CallsBehind(v)
					for _, cl := range calls {
						if cl == nil || w.Info(cl).Name != c12Compute || len(cl.Call.Args) != 5 {
							problems = append(problems, "Premium does not (only) come from premium.Setting.Compute: "+w.Term(v))
							continue
						}
						if ex, isEx := c12StripConv(v).(*ssa.Extract); isEx && ex.Index != 0 {
							problems = append(problems, "Premium is not result #0 of Compute")
						}
						a := cl.Call.Args
						if p := w.Term(a[1]); p != "field:SwapData.PeerNodeId" && p != "field:SwapData.InitiatorNodeId" {
							problems = append(problems, "rate looked up for "+p+" instead of the requesting peer")
						}
						if k, isK := an.ConstInt(a[3]); !isK || k != wantOp {
							problems = append(problems, fmt.Sprintf("operation argument at %s is not %s", w.Pos(cl.Pos()), opName))
						}
						if amt := w.Term(a[4]); amt != "call:func:(*swap.SwapData).GetAmount" && amt != c12InAmt && amt != c12OutAmt {
							problems = append(problems, "premium computed on "+amt+" instead of the request amount")
						}
						facts := w.FactsDominating(cl)
						isL := an.AnyFact(facts, func(f an.Fact) bool { return c12StrRel(f, "==", lbtc, tChain) })
						notL := an.AnyFact(facts, func(f an.Fact) bool { return c12StrRel(f, "!=", lbtc, tChain) || c12StrRel(f, "==", btc, tChain) })
						switch k, isK := an.ConstInt(a[2]); {
						case !isK:
							problems = append(problems, "asset argument is not a constant")
						case k == lbtcA && !isL:
							problems = append(problems, fmt.Sprintf("the LBTC rate is used at %s on a path not known to be an lbtc swap", w.Pos(cl.Pos())))
						case k == btcA && !notL:
							problems = append(problems, fmt.Sprintf("the BTC rate is used at %s on a path not known to be a non-lbtc swap", w.Pos(cl.Pos())))
						case k != lbtcA && k != btcA:
							problems = append(problems, fmt.Sprintf("asset constant %d is neither premium.BTC nor premium.LBTC", k))
						}
					}
					if len(calls) == 0 {
						problems = append(problems, "Premium is "+w.Term(v))
					}
					c.Decide(len(problems) == 0, "C12.R4", cons, pos, "Premium = premium.Setting.Compute(requester, asset of the chain, "+opName+", amount)", strings.Join(problems, "; "))
				}
			}
		}
	}
	c.AtLeast("C12.R4", "agreement constructions", n, 2)

	// PremiumLimit of locally created requests
	m := 0
	for _, fn := range prodFuncs(w) {
		if w.FnRel(fn) != "swap" {
			continue
		}
		for _, al := range c12Allocs(w, fn, "SwapInRequestMessage", "SwapOutRequestMessage") {
			lim, okL := an.CompositeFieldValue(al, "PremiumLimit")
			amt, okA := an.CompositeFieldValue(al, "Amount")
			if !okL && !okA {
				continue // not a literal (e.g. the copy made by a value receiver)
			}
			m++
			mt := an.NamedOf(al.Type()).Obj().Name()
			cons := w.FuncName(fn) + " " + mt + ".PremiumLimit"
			pos := w.Pos(al.Pos())
			if !okL || !okA {
				c.Bad("C12.R4", cons, pos, "a request is created without PremiumLimit or without Amount")
				continue
			}
			cl, _ := c12StripConv(lim).(*ssa.Call)
			var problems []string
			if cl == nil || w.Info(cl).Name != "func:(*premium.PPM).Compute" || len(cl.Call.Args) != 2 {
				problems = append(problems, "PremiumLimit is "+w.Term(lim)+", not (*premium.PPM).Compute(amount)")
			} else {
				if cl.Call.Args[1] != amt {
					problems = append(problems, "the limit is computed on "+w.Term(cl.Call.Args[1])+" but the request asks for "+w.Term(amt))
				}
				mk, _ := cl.Call.Args[0].(*ssa.Call)
				if mk == nil || w.Info(mk).Name != "func:premium.NewPPM" || len(mk.Call.Args) != 1 {
					problems = append(problems, "the rate is not premium.NewPPM(rate)")
				} else if _, isP := mk.Call.Args[0].(*ssa.Parameter); !isP {
					problems = append(problems, "the ppm rate is "+w.Term(mk.Call.Args[0])+", not the caller's rate parameter")
				}
			}
			c.Decide(len(problems) == 0, "C12.R4", cons, pos, "PremiumLimit = NewPPM(rate parameter).Compute(Amount of the same request)", strings.Join(problems, "; "))
		}
	}
	c.AtLeast("C12.R4", "locally created requests", m, 2)
}

// ---- R5 ----------------------------------------------------------------------------------------

func c12R5(c *an.Check, respExec map[*ssa.Function]bool) {
	w := c.W
	n := 0
	for _, fld := range []string{"SwapInAgreement", "SwapOutAgreement"} {
		for _, st := range w.FieldWriters("SwapData." + fld) {
			fn := st.Parent()
			if an.IsTestSupport(w.FnRel(fn)) || respExec[fn] {
				continue
			}
			n++
			cons := w.FuncName(fn) + " store SwapData." + fld
			nilEdge := c12Cut(w, fn, func(f an.Fact) bool { return c12StrRel(f, "==", "field:SwapData."+fld, "nil") })
			c.Decide(len(nilEdge) > 0 && an.EdgesDominate(nilEdge, st.Block()), "C12.R5", cons, w.Pos(st.Pos()),
				"stored only while the field is still nil",
				"SwapData."+fld+" can be overwritten by a later message: where SendEvent applies a context before it tests whether the event is acceptable (as the pinned tree does), a second agreement with a higher premium replaces the one the premium check has already accepted; facts that dominate the store: "+an.DescribeFacts(w.FactsDominating(st)))
		}
	}
	c.AtLeast("C12.R5", "agreement stores outside the responder actions", n, 2)
}
