package rules

import (
	"fmt"
	"go/constant"
	"go/token"
	"go/types"
	"sort"
	"strings"

	"golang.org/x/tools/go/ssa"

	"psv/internal/an"
)

// C08 — the opening_tx_broadcasted message describes the broadcast transaction.
//
// Frozen repo-specific tables (each entry confirmed by reading the pinned tree;
// an entry that no longer resolves fails the check with exit 2):
//
//   - broadcast primitives = the call after which the funds are on their way to
//     the chain, one per back-end.
//   - output locators = the functions that find the swap output in a transaction
//     by its script.
var (
	// CallInfo.Name suffix -> why it is a broadcast primitive
	c08Primitives = map[string]string{
		"glightning.Lightning).SendTx":                      "CLN: sendpsbt of the prepared transaction",
		"walletrpc.WalletKitClient.PublishTransaction":      "LND: publishes the finalized raw transaction",
		"iface:wallet.Wallet.CreateAndBroadcastTransaction": "Liquid: funds, signs and broadcasts through the wallet back-end",
		"func:(*wallet.ElementsRpcWallet).SendRawTx":        "elementsd: sendrawtransaction",
		"func:(*lwk.lwkclient).broadcast":                   "LWK: broadcast of the signed pset",
	}
	// CallInfo.Name -> {index of the vout result, index of the transaction argument, index of the script/params argument} (Args incl. receiver)
	c08Locators = map[string][3]int{
		"func:(*onchain.LiquidOnChain).FindVout":          {0, 1, 2},
		"func:(*onchain.LiquidOnChain).VoutFromTxHex":     {0, 1, 2},
		"func:(*onchain.BitcoinOnChain).GetVoutAndVerify": {1, 1, 2},
	}
)

const (
	c08Verify = "func:(*onchain.BitcoinOnChain).GetVoutAndVerify"
	// result positions of Wallet.CreateOpeningTransaction (checked against the interface signature)
	c08ResTxHex = 0
	c08ResTxid  = 2
	c08ResVout  = 4
	c08ResErr   = 5
)

func init() {
	Register(&Prop{
		ID:   "C08",
		Expl: "Decides by backward value flow over the SSA form, for the function that builds OpeningTxBroadcastedMessage (the action that calls Wallet.CreateOpeningTransaction), for every implementation of Wallet.CreateOpeningTransaction (CLN, LND, Liquid) and of wallet.Wallet.CreateAndBroadcastTransaction (elementsd, LWK), over ALL success returns of those functions: (R1) message TxId is the txid result of the wallet call, and inside each implementation that result is data-derived from the broadcast primitive's result or from the bytes handed to it; (R2) message ScriptOut is the vout result of the same wallet call, and on every success return of every implementation the vout result originates from an output locator (FindVout / VoutFromTxHex / GetVoutAndVerify, also through in-module helpers, or the index of a range loop guarded by a script comparison) applied to a transaction related to the broadcast one and to a script derived from the swap parameters — never a constant, a zero value or a never-assigned named result (constants that arrive through a phi are discarded only when a dominating flag/err/sentinel test excludes that edge); (R3) Payreq is the result of GetPayreq whose amount is GetClaimAmount()*1000, whose preimage is the same Preimage object whose Hash() is put into OpeningParams.ClaimPaymentHash of the wallet call, whose expiry/CLTV arguments are GetInvoiceExpiry()/GetInvoiceCltv() of the same swap in that order, and the per-chain constants behind them evaluate to 86400/3600 s and 503/29 blocks; (R4) message BlindingKey is the hex of the key object placed in OpeningParams.BlindingKey and is empty exactly where that key is nil; (R5) a false verdict of GetVoutAndVerify cannot be used silently: either the caller tests the boolean before its success return or the locator never returns (false, _, nil). The quantifier is over all wallet funding results because the rules hold for every success return / every path, not for sampled wallet answers.",
		NotD: "What the wallet actually funded and broadcast at run time; that the txid of the unsigned/prepared transaction equals the txid of the signed one; that the locator picks the right output when two outputs carry the same script; JSON encoding of the message (C21).",
		Run:  runC08,
	})
}

// ---- small helpers -------------------------------------------------------------

func c08IsPtr(t types.Type) bool {
	_, ok := t.Underlying().(*types.Pointer)
	return ok
}

func c08Strip(v ssa.Value) ssa.Value {
	for {
		switch x := v.(type) {
		case *ssa.Convert:
			v = x.X
		case *ssa.ChangeType:
			v = x.X
		case *ssa.MakeInterface:
			v = x.X
		case *ssa.ChangeInterface:
			v = x.X
		default:
			return v
		}
	}
}

// c08Slice is the intra-procedural backward data slice of the roots: every value
// the roots may be computed from. Objects handed by pointer to a call count as
// possibly filled from that call's other arguments (tx.Deserialize(reader)).
// It over-approximates "derived from", so a rule that demands membership can
// miss a defect but never alarms on a real derivation.
func c08Slice(roots ...ssa.Value) map[ssa.Value]bool {
	seen := map[ssa.Value]bool{}
	var visit func(v ssa.Value)
	filled := func(p ssa.Value) {
		refs := p.Referrers()
		if refs == nil {
			return
		}
		for _, r := range *refs {
			if ci, ok := r.(ssa.CallInstruction); ok {
				for _, a := range ci.Common().Args {
					visit(a)
				}
			}
		}
	}
	visit = func(v ssa.Value) {
		if v == nil || seen[v] {
			return
		}
		seen[v] = true
		switch x := v.(type) {
		case *ssa.Alloc:
			if refs := x.Referrers(); refs != nil {
				for _, r := range *refs {
					switch y := r.(type) {
					case *ssa.Store:
						if y.Addr == x {
							visit(y.Val)
						}
					case *ssa.FieldAddr:
						c08StoresTo(y, visit)
					case *ssa.IndexAddr:
						c08StoresTo(y, visit)
					}
				}
			}
			filled(x)
			return
		case *ssa.Call:
			if c08IsPtr(x.Type()) {
				filled(x)
			}
		case *ssa.Extract:
			if c08IsPtr(x.Type()) {
				filled(x)
			}
		}
		if in, ok := v.(ssa.Instruction); ok {
			for _, op := range in.Operands(nil) {
				if op != nil && *op != nil {
					visit(*op)
				}
			}
		}
	}
	for _, r := range roots {
		visit(r)
	}
	return seen
}

func c08StoresTo(addr ssa.Value, visit func(ssa.Value)) {
	refs := addr.Referrers()
	if refs == nil {
		return
	}
	for _, r := range *refs {
		if s, ok := r.(*ssa.Store); ok && s.Addr == addr {
			visit(s.Val)
		}
	}
}

// c08ReachingStores returns the values that a load `at` of the local variable al
// may observe (the last store on each path from the entry), and whether the
// zero value can be observed (a path without any store). ok is false when the
// variable escapes (address passed on), in which case nothing is claimed.
func c08ReachingStores(al *ssa.Alloc, at ssa.Instruction) (vals []ssa.Value, zero bool, ok bool) {
	if al.Referrers() == nil {
		return nil, true, true
	}
	for _, r := range *al.Referrers() {
		switch y := r.(type) {
		case *ssa.Store:
			if y.Addr != al {
				return nil, false, false
			}
		case *ssa.UnOp:
			if y.Op != token.MUL {
				return nil, false, false
			}
		case *ssa.DebugRef:
		default:
			return nil, false, false
		}
	}
	lastIn := func(b *ssa.BasicBlock, before int) ssa.Value {
		for i := before - 1; i >= 0; i-- {
			if s, isS := b.Instrs[i].(*ssa.Store); isS && s.Addr == al {
				return s.Val
			}
		}
		return nil
	}
	seenV := map[ssa.Value]bool{}
	add := func(v ssa.Value) {
		if !seenV[v] {
			seenV[v] = true
			vals = append(vals, v)
		}
	}
	if v := lastIn(at.Block(), an.InstrIndex(at)); v != nil {
		return []ssa.Value{v}, false, true
	}
	seenB := map[*ssa.BasicBlock]bool{}
	var up func(b *ssa.BasicBlock)
	up = func(b *ssa.BasicBlock) {
		if len(b.Preds) == 0 {
			zero = true
			return
		}
		for _, p := range b.Preds {
			if seenB[p] {
				continue
			}
			seenB[p] = true
			if v := lastIn(p, len(p.Instrs)); v != nil {
				add(v)
				continue
			}
			up(p)
		}
	}
	up(at.Block())
	return vals, zero, true
}

// c08Resolve looks through a load of a local (named result) variable to the
// values stored into it that reach the load. zero reports that the variable
// may still hold its zero value there.
func c08Resolve(v ssa.Value) (vals []ssa.Value, zero bool) {
	if ld, isLd := v.(*ssa.UnOp); isLd && ld.Op == token.MUL {
		if al, isAl := ld.X.(*ssa.Alloc); isAl {
			if vs, z, ok := c08ReachingStores(al, ld); ok {
				return vs, z
			}
		}
	}
	return []ssa.Value{v}, false
}

// c08NilEdges: CFG edges on which v == nil.
func c08NilEdges(v ssa.Value) []an.Edge {
	var out []an.Edge
	if v.Referrers() == nil {
		return nil
	}
	for _, r := range *v.Referrers() {
		bo, ok := r.(*ssa.BinOp)
		if !ok || (bo.Op != token.EQL && bo.Op != token.NEQ) || !(an.IsNilConst(bo.X) || an.IsNilConst(bo.Y)) {
			continue
		}
		for _, ce := range an.CondUses(bo) {
			if bo.Op == token.EQL {
				out = append(out, ce.True)
			} else {
				out = append(out, ce.False)
			}
		}
	}
	return out
}

func c08FreshError(w *an.World, v ssa.Value) bool {
	switch x := v.(type) {
	case *ssa.Call:
		n := w.Info(x).Name
		return n == "func:errors.New" || n == "func:fmt.Errorf"
	case *ssa.MakeInterface:
		return true
	}
	return false
}

// c08MayBeNil: can the error returned by r be nil? (conservative: yes unless shown otherwise)
func c08MayBeNil(w *an.World, r *ssa.Return, idx int) bool {
	vals, zero := c08Resolve(r.Results[idx])
	if zero {
		return true
	}
	for _, v := range vals {
		if an.IsNilConst(v) {
			return true
		}
		if c08FreshError(w, v) {
			continue
		}
		excluded := false
		for _, f := range w.FactsDominatingBlock(r.Block()) {
			if f.NonNum && f.Rel == "!=" && ((c08SameVal(f.LV, v) && an.IsNilConst(f.RV)) || (c08SameVal(f.RV, v) && an.IsNilConst(f.LV))) {
				excluded = true
			}
		}
		if !excluded {
			return true
		}
	}
	return false
}

// c08SameVal: a is v, or a load of a local variable whose only reaching store is v.
func c08SameVal(a, v ssa.Value) bool {
	if a == v {
		return true
	}
	vs, zero := c08Resolve(a)
	return !zero && len(vs) == 1 && vs[0] == v
}

func c08RetPos(w *an.World, r *ssa.Return) string {
	if r.Pos().IsValid() {
		return w.Pos(r.Pos())
	}
	for i := len(r.Block().Instrs) - 1; i >= 0; i-- {
		if p := r.Block().Instrs[i].Pos(); p.IsValid() {
			return w.Pos(p)
		}
	}
	return w.Pos(r.Parent().Pos())
}

func c08ErrIdx(fn *ssa.Function) int {
	res := fn.Signature.Results()
	for i := res.Len() - 1; i >= 0; i-- {
		if an.IsErrorType(res.At(i).Type()) {
			return i
		}
	}
	return -1
}

// c08SuccessReturns: returns of fn on which the error result may be nil.
func c08SuccessReturns(w *an.World, fn *ssa.Function) []*ssa.Return {
	ei := c08ErrIdx(fn)
	var out []*ssa.Return
	for _, r := range an.Returns(fn) {
		if r.Block() == fn.Recover || (len(r.Block().Preds) == 0 && r.Block() != fn.Blocks[0]) {
			continue // recover block of a function with defers: not a normal exit
		}
		if ei < 0 || ei >= len(r.Results) || c08MayBeNil(w, r, ei) {
			out = append(out, r)
		}
	}
	return out
}

func c08IsPrimitiveName(n string) bool {
	for suf := range c08Primitives {
		if strings.HasSuffix(n, suf) {
			return true
		}
	}
	return false
}

// c08PrimitiveCalls: calls of fn that broadcast — a primitive of the frozen
// table, or an in-module static callee that reaches one synchronously (a
// wrapper around the primitive); the wrapper call then stands for the
// primitive (its arguments are what is handed over, its result what comes back).
func c08PrimitiveCalls(w *an.World, fn *ssa.Function) []ssa.CallInstruction {
	var out []ssa.CallInstruction
	for _, c := range an.Calls(fn) {
		ci := w.Info(c)
		if c08IsPrimitiveName(ci.Name) {
			out = append(out, c)
			continue
		}
		if ci.Static == nil || !w.InModule(ci.Static) || ci.Static.Blocks == nil || ci.Static == fn || ci.IsGo {
			continue
		}
		for _, ef := range w.Summary(ci.Static).Effects {
			if c08IsPrimitiveName(ef.Name) && len(ef.Chain) <= 2 {
				out = append(out, c)
				break
			}
		}
	}
	return out
}

func c08IsContext(t types.Type) bool {
	n := an.NamedOf(t)
	return n != nil && n.Obj().Name() == "Context" && n.Obj().Pkg() != nil && n.Obj().Pkg().Path() == "context"
}

// c08ImmediateInputs: the data handed to a call — its arguments (without the
// receiver, contexts, constants and parameters of the enclosing function) and,
// for request literals, the values stored in their fields.
func c08ImmediateInputs(call ssa.CallInstruction) map[ssa.Value]bool {
	out := map[ssa.Value]bool{}
	var add func(v ssa.Value, depth int)
	add = func(v ssa.Value, depth int) {
		v = c08Strip(v)
		switch x := v.(type) {
		case *ssa.Const, *ssa.Parameter, *ssa.Global, *ssa.Function:
			return
		case *ssa.Alloc:
			out[x] = true
			if depth < 2 && x.Referrers() != nil {
				for _, r := range *x.Referrers() {
					if fa, ok := r.(*ssa.FieldAddr); ok {
						c08StoresTo(fa, func(s ssa.Value) { add(s, depth+1) })
					}
				}
			}
			return
		}
		if c08IsContext(v.Type()) {
			return
		}
		out[v] = true
	}
	args := call.Common().Args
	start := 0
	if !call.Common().IsInvoke() {
		if f := call.Common().StaticCallee(); f != nil && f.Signature.Recv() != nil {
			start = 1
		}
	}
	for _, a := range args[start:] {
		add(a, 0)
	}
	return out
}

// c08LinkedToBroadcast: v is data-derived from a primitive's result, or shares a
// producing call with the data handed to a primitive.
func c08LinkedToBroadcast(v ssa.Value, prims []ssa.CallInstruction, strict bool) bool {
	sl := c08Slice(v)
	for _, p := range prims {
		if pv, ok := p.(ssa.Value); ok && sl[pv] {
			return true
		}
		imm := c08ImmediateInputs(p)
		for x := range imm {
			if sl[x] {
				return true
			}
		}
		if strict {
			continue
		}
		// same producing call (CLN: preparetx result is both located in and sent by id)
		var ins []ssa.Value
		for x := range imm {
			ins = append(ins, x)
		}
		for x := range c08Slice(ins...) {
			if _, isCall := x.(*ssa.Call); isCall && sl[x] {
				return true
			}
		}
	}
	return false
}

// ---- origins of a returned vout ----------------------------------------------------

type c08Org struct {
	Kind  string // const | locator | rangeidx | call | param | field | other
	V     ssa.Value
	Fn    *ssa.Function
	Via   []*ssa.BasicBlock
	Depth int
	Text  string
}

type c08Eval struct {
	w      *an.World
	seen   map[ssa.Value]bool
	pruned []string
}

func (e *c08Eval) calleesOf(c *ssa.Call) []*ssa.Function {
	if f := c.Call.StaticCallee(); f != nil {
		if e.w.InModule(f) && f.Blocks != nil {
			return []*ssa.Function{f}
		}
		return nil
	}
	if !c.Call.IsInvoke() {
		return nil
	}
	var out []*ssa.Function
	if n := e.w.CG().Nodes[c.Parent()]; n != nil {
		for _, ed := range n.Out {
			if ed.Site == c && ed.Callee != nil && ed.Callee.Func != nil && e.w.InModule(ed.Callee.Func) && ed.Callee.Func.Blocks != nil && !an.IsTestSupport(e.w.FnRel(ed.Callee.Func)) {
				out = append(out, ed.Callee.Func)
			}
		}
	}
	return out
}

func (e *c08Eval) org(v ssa.Value, target *ssa.BasicBlock, via []*ssa.BasicBlock, depth int) []c08Org {
	mk := func(kind, text string) []c08Org {
		var fn *ssa.Function
		if in, ok := v.(ssa.Instruction); ok {
			fn = in.Parent()
		} else if p, ok := v.(*ssa.Parameter); ok {
			fn = p.Parent()
		}
		return []c08Org{{Kind: kind, V: v, Fn: fn, Via: append([]*ssa.BasicBlock{}, via...), Depth: depth, Text: text}}
	}
	if c, ok := v.(*ssa.Const); ok {
		return mk("const", c.String())
	}
	if e.seen[v] {
		return nil
	}
	e.seen[v] = true
	withBlock := func(in ssa.Instruction) []*ssa.BasicBlock {
		return append(append([]*ssa.BasicBlock{}, via...), in.Block())
	}
	call := func(c *ssa.Call, idx int) []c08Org {
		name := e.w.Info(c).Name
		if loc, ok := c08Locators[name]; ok {
			if loc[0] == idx {
				return mk("locator", name)
			}
			return mk("other", fmt.Sprintf("result #%d of %s is not its output index", idx, name))
		}
		if depth < 3 {
			if cs := e.calleesOf(c); len(cs) > 0 {
				var out []c08Org
				for _, f := range cs {
					for _, r := range c08SuccessReturns(e.w, f) {
						if idx < len(r.Results) {
							out = append(out, e.org(r.Results[idx], r.Block(), nil, depth+1)...)
						}
					}
				}
				return out
			}
		}
		return mk("call", fmt.Sprintf("%s#%d", name, idx))
	}
	switch x := v.(type) {
	case *ssa.Convert:
		return e.org(x.X, target, withBlock(x), depth)
	case *ssa.ChangeType:
		return e.org(x.X, target, withBlock(x), depth)
	case *ssa.Phi:
		var out []c08Org
		for k, ed := range x.Edges {
			if _, isConst := ed.(*ssa.Const); isConst {
				if why := c08EdgeInfeasible(e.w, x, k, target); why != "" {
					e.pruned = append(e.pruned, fmt.Sprintf("constant %s entering the phi at %s is excluded by %s", ed.String(), e.w.Pos(x.Pos()), why))
					continue
				}
			}
			pv := via
			if k < len(x.Block().Preds) {
				pv = append(append([]*ssa.BasicBlock{}, via...), x.Block().Preds[k])
			}
			out = append(out, e.org(ed, target, pv, depth)...)
		}
		return out
	case *ssa.Extract:
		switch t := x.Tuple.(type) {
		case *ssa.Call:
			return call(t, x.Index)
		case *ssa.Next:
			if _, ok := t.Iter.(*ssa.Range); ok && x.Index == 1 {
				return mk("rangeidx", "index of a range loop")
			}
		}
		return mk("other", fmt.Sprintf("%T", x.Tuple))
	case *ssa.Call:
		return call(x, 0)
	case *ssa.BinOp:
		if c08LoopOf(x) != nil {
			return mk("rangeidx", "index of a range loop")
		}
		return mk("other", "computed value "+e.w.Term(x))
	case *ssa.UnOp:
		if x.Op == token.MUL {
			switch a := x.X.(type) {
			case *ssa.Alloc:
				var out []c08Org
				vals, zero, ok := c08ReachingStores(a, x)
				if !ok {
					return mk("other", "variable whose address escapes")
				}
				if zero {
					out = append(out, mk("const", "zero value of a result variable that no path assigns")...)
				}
				for _, sv := range vals {
					pv := via
					if in, isIn := sv.(ssa.Instruction); isIn && in.Block() != nil {
						pv = append(append([]*ssa.BasicBlock{}, via...), in.Block())
					}
					out = append(out, e.org(sv, target, pv, depth)...)
				}
				return out
			case *ssa.FieldAddr:
				chain, _ := e.w.FieldChain(a)
				return mk("field", chain)
			}
		}
		return mk("other", x.String())
	case *ssa.Parameter:
		return mk("param", x.Name())
	case *ssa.Field:
		chain, _ := e.w.FieldChain(x)
		return mk("field", chain)
	}
	return mk("other", fmt.Sprintf("%T %s", v, v.String()))
}

// c08EdgeInfeasible: the k-th (constant) edge of phi p cannot be the value seen at
// target because a sibling flag / error phi or a sentinel test that dominates
// target excludes it. Returns the reason, "" when the edge must be assumed live.
func c08EdgeInfeasible(w *an.World, p *ssa.Phi, k int, target *ssa.BasicBlock) string {
	if target == nil {
		return ""
	}
	for _, in := range p.Block().Instrs {
		q, ok := in.(*ssa.Phi)
		if !ok {
			break
		}
		if q == p || k >= len(q.Edges) {
			continue
		}
		ev := q.Edges[k]
		if c, ok := ev.(*ssa.Const); ok && c.Value != nil && c.Value.Kind() == constant.Bool {
			t, f := an.BoolEdges(q)
			need := t // flag is false on this edge: a dominating "flag is true" excludes it
			if constant.BoolVal(c.Value) {
				need = f
			}
			for _, ed := range need {
				if an.EdgeDominates(ed, target) {
					return "the dominating test of the flag set together with it"
				}
			}
		}
		if an.IsErrorType(q.Type()) && c08FreshError(w, ev) {
			for _, ed := range c08NilEdges(q) {
				if an.EdgeDominates(ed, target) {
					return "the dominating nil test of the error set together with it"
				}
			}
		}
	}
	if ci, ok := an.ConstInt(p.Edges[k]); ok {
		term := w.Term(p)
		for _, f := range w.FactsDominatingBlock(target) {
			if f.NonNum || len(f.Terms) != 1 {
				continue
			}
			coef, has := f.Terms[term]
			if !has {
				continue
			}
			val := coef*ci + f.Const
			holds := true
			switch f.Rel {
			case ">":
				holds = val > 0
			case ">=":
				holds = val >= 0
			case "==":
				holds = val == 0
			case "!=":
				holds = val != 0
			}
			if !holds {
				return "the dominating sentinel test " + f.String()
			}
		}
	}
	return ""
}

// c08Loop describes a `for i, e := range xs` loop: the values that stand for
// the current element and the collections ranged over.
type c08Loop struct {
	elems map[ssa.Value]bool
	over  []ssa.Value
}

// c08LoopOf recognises the index of a range loop: key of a map/string range
// (Extract #1 of Next over Range) or the slice/array form go/ssa emits
// (idx = phi[-1, idx] + 1 used as the index of IndexAddr).
func c08LoopOf(v ssa.Value) *c08Loop {
	switch x := v.(type) {
	case *ssa.Extract:
		next, ok := x.Tuple.(*ssa.Next)
		if !ok || x.Index != 1 {
			return nil
		}
		rng, ok := next.Iter.(*ssa.Range)
		if !ok {
			return nil
		}
		l := &c08Loop{elems: map[ssa.Value]bool{}, over: []ssa.Value{rng.X}}
		if next.Referrers() != nil {
			for _, r := range *next.Referrers() {
				if ex, ok := r.(*ssa.Extract); ok && ex.Index == 2 {
					l.elems[ex] = true
				}
			}
		}
		return l
	case *ssa.BinOp:
		if x.Op != token.ADD {
			return nil
		}
		ph, ok := x.X.(*ssa.Phi)
		one, isOne := an.ConstInt(x.Y)
		if !ok || !isOne || one != 1 {
			return nil
		}
		init, back := false, false
		for _, e := range ph.Edges {
			if k, isK := an.ConstInt(e); isK && k == -1 {
				init = true
			} else if e == ssa.Value(x) {
				back = true
			} else {
				return nil
			}
		}
		if !init || !back {
			return nil
		}
		l := &c08Loop{elems: map[ssa.Value]bool{}}
		if x.Referrers() != nil {
			for _, r := range *x.Referrers() {
				if ia, ok := r.(*ssa.IndexAddr); ok && ia.Index == ssa.Value(x) {
					l.elems[ia] = true
					l.over = append(l.over, ia.X)
				}
				if ix, ok := r.(*ssa.Index); ok && ix.Index == ssa.Value(x) {
					l.elems[ix] = true
					l.over = append(l.over, ix.X)
				}
			}
		}
		if len(l.over) == 0 {
			return nil
		}
		return l
	}
	return nil
}

// c08ScriptCompareEdges: edges of fn on which a bytes.Equal / bytes.Compare of
// something read from the current element of the loop holds (equal); others
// are the values the element is compared with.
func c08ScriptCompareEdges(w *an.World, fn *ssa.Function, loop *c08Loop) (edges []an.Edge, others []ssa.Value) {
	for _, f := range w.Facts(fn) {
		var cmp *ssa.Call
		switch {
		case f.Rel == "true":
			if c, ok := f.Cond.(*ssa.Call); ok && w.Info(c).Name == "func:bytes.Equal" {
				cmp = c
			}
		case f.Rel == "==" && !f.NonNum && f.Const == 0 && len(f.Terms) == 1:
			for _, side := range []ssa.Value{f.LV, f.RV} {
				if side == nil {
					continue
				}
				if c, ok := c08Strip(side).(*ssa.Call); ok && w.Info(c).Name == "func:bytes.Compare" {
					cmp = c
				}
			}
		}
		if cmp == nil || len(cmp.Call.Args) != 2 {
			continue
		}
		for i, a := range cmp.Call.Args {
			sl := c08Slice(a)
			hit := false
			for ev := range loop.elems {
				if sl[ev] {
					hit = true
				}
			}
			if hit {
				edges = append(edges, f.Edge)
				others = append(others, cmp.Call.Args[1-i])
			}
		}
	}
	return
}

// ---- the rules -----------------------------------------------------------------

func runC08(c *an.Check) {
	c.Rule("C08.R1", "message TxId <- txid result of Wallet.CreateOpeningTransaction; in every implementation the txid (and raw tx) returned on success is derived from the broadcast primitive's result or from the data handed to it")
	c.Rule("C08.R2", "message ScriptOut <- vout result of the same wallet call; on every success return of every implementation the vout originates from an output locator applied to the broadcast transaction and the swap script, never from a constant / zero value / unassigned result")
	c.Rule("C08.R3", "message Payreq <- GetPayreq(GetClaimAmount()*1000, preimage whose Hash() is OpeningParams.ClaimPaymentHash, …, GetInvoiceExpiry(), GetInvoiceCltv()); constants 86400/3600 s and 503/29 blocks per chain")
	c.Rule("C08.R4", "message BlindingKey <- hex of the key in OpeningParams.BlindingKey, empty exactly where that key is nil")
	c.Rule("C08.R6", "the vout a CreateOpeningTransaction implementation returns is, followed through every in-module function on its value flow, the unmodified position (loop index) in the decoded transaction's own output list — not a position in a filtered / re-sliced / rebuilt list and not an index that went through arithmetic")
	c.Rule("C08.R5", "a false verdict of GetVoutAndVerify is not used silently in CreateOpeningTransaction")
	w := c.W
	if !needEffects(c, fxOpenTx, fxGetPayreq) {
		return
	}
	walletT := w.Named("swap", "Wallet")
	wit, _ := walletT.Underlying().(*types.Interface)
	var msig *types.Signature
	for i := 0; wit != nil && i < wit.NumMethods(); i++ {
		if wit.Method(i).Name() == "CreateOpeningTransaction" {
			msig, _ = wit.Method(i).Type().(*types.Signature)
		}
	}
	if msig == nil || msig.Results().Len() != 6 || !an.IsErrorType(msig.Results().At(c08ResErr).Type()) ||
		types.TypeString(msig.Results().At(c08ResVout).Type(), nil) != "uint32" || types.TypeString(msig.Results().At(c08ResTxid).Type(), nil) != "string" {
		c.Anchor("swap.Wallet.CreateOpeningTransaction no longer has the result shape (string,string,string,uint64,uint32,error)")
		return
	}
	for name := range c08Locators {
		rel, fnn := "onchain", strings.TrimPrefix(name, "func:")
		fnn = strings.Replace(fnn, "onchain.", "", 1)
		if w.Func(rel, fnn) == nil {
			c.Anchor("output locator %s does not resolve", name)
		}
	}

	c08Message(c)
	impls := c08Impls(c, walletT, "CreateOpeningTransaction")
	c.AtLeast("C08.R1/R2", "implementations of swap.Wallet.CreateOpeningTransaction", len(impls), 3)
	nIdx := 0
	for _, fn := range impls {
		c08ImplTxid(c, fn, []int{c08ResTxid}, "txid")
		c08ImplVout(c, fn)
		nIdx += c08ImplIndex(c, fn)
	}
	// the Liquid back-ends behind wallet.Wallet
	if lw := w.Named("wallet", "Wallet"); lw == nil {
		c.Anchor("wallet.Wallet does not resolve")
	} else {
		bimpls := c08Impls(c, lw, "CreateAndBroadcastTransaction")
		c.AtLeast("C08.R1", "implementations of wallet.Wallet.CreateAndBroadcastTransaction", len(bimpls), 2)
		for _, fn := range bimpls {
			c08ImplTxid(c, fn, []int{0, 1}, "txid/rawTx")
		}
	}
	c.AtLeast("C08.R6", "CreateOpeningTransaction implementations whose vout is traced to a loop index", nIdx, 3)
	c08Verdict(c, impls)
	c08InvoiceConstants(c)
}

// c08Impls: production methods named meth whose receiver implements the interface.
func c08Impls(c *an.Check, iface *types.Named, meth string) []*ssa.Function {
	w := c.W
	it, ok := iface.Underlying().(*types.Interface)
	if !ok {
		c.Anchor("%s is not an interface", iface.Obj().Name())
		return nil
	}
	var out []*ssa.Function
	for _, fn := range prodFuncs(w) {
		if fn.Name() != meth || fn.Signature.Recv() == nil || fn.Parent() != nil {
			continue
		}
		rt := fn.Signature.Recv().Type()
		if types.Implements(rt, it) {
			out = append(out, fn)
		}
	}
	sort.Slice(out, func(i, j int) bool { return w.FuncName(out[i]) < w.FuncName(out[j]) })
	return out
}

// c08Message checks the message literal in the broadcasting action (R1–R4, message side).
func c08Message(c *an.Check) {
	w := c.W
	n := 0
	for _, fn := range prodFuncs(w) {
		if w.FnRel(fn) != "swap" {
			continue
		}
		opens := callsNamed(w, fn, fxOpenTx)
		if len(opens) == 0 {
			continue
		}
		fname := w.FuncName(fn)
		// the announcement of this function: what is marshalled for the peer or stored as the swap's OpeningTxBroadcasted
		isMsg := func(v ssa.Value) bool {
			nt := an.NamedOf(v.Type())
			return nt != nil && nt.Obj().Name() == "OpeningTxBroadcastedMessage"
		}
		seenCand := map[ssa.Value]bool{}
		var cands []ssa.Value
		addCand := func(v ssa.Value) {
			v = c08Strip(v)
			if isMsg(v) && !seenCand[v] {
				seenCand[v] = true
				cands = append(cands, v)
			}
		}
		for _, cc := range an.Calls(fn) {
			if w.Info(cc).Name == "func:swap.MarshalPeerswapMessage" {
				for _, a := range cc.Common().Args {
					addCand(a)
				}
			}
		}
		for _, st := range w.FieldWriters("SwapData.OpeningTxBroadcasted") {
			if st.Parent() == fn {
				addCand(st.Val)
			}
		}
		if len(cands) == 0 {
			c.Unknown("C08.R1", fname+" message literal", w.Pos(fn.Pos()), "the function calls Wallet.CreateOpeningTransaction but neither marshals nor stores an OpeningTxBroadcastedMessage itself; the message is assembled in a shape this rule does not follow")
			continue
		}
		for _, cand := range cands {
			// field(name) -> the value, as seen in this function, that ends up in the field
			var field func(name string) (ssa.Value, string)
			pos := "-"
			switch m := cand.(type) {
			case *ssa.Alloc:
				pos = w.Pos(m.Pos())
				field = func(name string) (ssa.Value, string) {
					v, ok := an.CompositeFieldValue(m, name)
					if !ok {
						return nil, "unset"
					}
					return v, ""
				}
			case *ssa.Call:
				pos = w.Pos(m.Pos())
				g := m.Call.StaticCallee()
				if g == nil || !w.InModule(g) || g.Blocks == nil {
					c.Unknown("C08.R1", fname+" message literal", pos, "the message comes from "+w.Info(m).Name+", which cannot be looked into")
					continue
				}
				// constructor: every return is a literal whose fields are parameters of g
				field = func(name string) (ssa.Value, string) {
					var res ssa.Value
					for _, r := range an.Returns(g) {
						al, ok := c08Strip(r.Results[0]).(*ssa.Alloc)
						if !ok {
							return nil, "the constructor " + w.FuncName(g) + " does not return a literal"
						}
						v, ok := an.CompositeFieldValue(al, name)
						if !ok {
							return nil, "unset"
						}
						pv, ok := c08Strip(v).(*ssa.Parameter)
						if !ok {
							return nil, "the constructor " + w.FuncName(g) + " computes " + name + " itself (" + w.Term(v) + ")"
						}
						idx := -1
						for i, p := range g.Params {
							if p == pv {
								idx = i
							}
						}
						if idx < 0 || idx >= len(m.Call.Args) {
							return nil, "parameter mismatch in " + w.FuncName(g)
						}
						if res != nil && res != m.Call.Args[idx] {
							return nil, "the constructor " + w.FuncName(g) + " fills " + name + " from different parameters on different returns"
						}
						res = m.Call.Args[idx]
					}
					if res == nil {
						return nil, "the constructor " + w.FuncName(g) + " has no return"
					}
					return res, ""
				}
			default:
				c.Unknown("C08.R1", fname+" message literal", w.Pos(fn.Pos()), fmt.Sprintf("the announced message is a %T, not a literal or a constructor call", cand))
				continue
			}
			n++
			// R1 / R2 message side
			var open *ssa.Call
			for _, spec := range []struct {
				rule, f string
				idx     int
			}{{"C08.R1", "TxId", c08ResTxid}, {"C08.R2", "ScriptOut", c08ResVout}} {
				rule := spec.rule
				cons := fname + " message." + spec.f
				v, st := field(spec.f)
				if st == "unset" {
					c.Bad(rule, cons, pos, "the message literal leaves "+spec.f+" unset (zero value is announced)")
					continue
				}
				if v == nil {
					c.Unknown(rule, cons, pos, st)
					continue
				}
				ss := w.Sources(v, an.FlowOpts{})
				good := len(ss.Leaves) > 0
				opaque := false
				for _, l := range ss.Leaves {
					switch l.Kind {
					case "call", "const", "zero", "field", "alloc":
					default:
						opaque = true
					}
					if l.Kind != "call" || l.Call == nil || w.Info(l.Call).Name != fxOpenTx || l.Idx != spec.idx {
						good = false
					} else if open == nil {
						open = l.Call
					} else if open != l.Call {
						good = false
					}
				}
				switch {
				case good:
					c.OK(rule, cons, pos, fmt.Sprintf("%s is result #%d of Wallet.CreateOpeningTransaction", spec.f, spec.idx))
				case opaque || len(ss.Leaves) == 0:
					c.Unknown(rule, cons, pos, fmt.Sprintf("cannot follow %s back to the wallet call: %v", spec.f, ss.Names()))
				default:
					c.Bad(rule, cons, pos, fmt.Sprintf("%s must be result #%d of the wallet call that broadcast the transaction but flows from %v", spec.f, spec.idx, ss.Names()))
				}
			}
			pv, pst := field("Payreq")
			c08Payreq(c, fn, pos, pv, pst, open, opens)
			bv, bst := field("BlindingKey")
			c08Blinding(c, fn, pos, bv, bst, open, opens)
		}
	}
	c.AtLeast("C08.R1", "sent OpeningTxBroadcastedMessage literals in functions calling Wallet.CreateOpeningTransaction", n, 1)
}

func c08OpenCall(open *ssa.Call, opens []ssa.CallInstruction) *ssa.Call {
	if open != nil {
		return open
	}
	if len(opens) == 1 {
		if oc, ok := opens[0].(*ssa.Call); ok {
			return oc
		}
	}
	return nil
}

// c08ParamsLiteral returns the OpeningParams literal handed to the wallet call.
func c08ParamsLiteral(open *ssa.Call) *ssa.Alloc {
	if open == nil || len(open.Call.Args) < 1 {
		return nil
	}
	al, _ := c08Strip(open.Call.Args[0]).(*ssa.Alloc)
	return al
}

func c08Payreq(c *an.Check, fn *ssa.Function, pos string, v ssa.Value, vst string, open *ssa.Call, opens []ssa.CallInstruction) {
	w := c.W
	fname := w.FuncName(fn)
	cons := fname + " message.Payreq"
	if vst == "unset" {
		c.Bad("C08.R3", cons, pos, "the message literal leaves Payreq unset")
		return
	}
	if v == nil {
		c.Unknown("C08.R3", cons, pos, vst)
		return
	}
	ss := w.Sources(v, an.FlowOpts{})
	var gp *ssa.Call
	good := len(ss.Leaves) > 0
	for _, l := range ss.Leaves {
		if l.Kind != "call" || l.Call == nil || w.Info(l.Call).Name != fxGetPayreq || l.Idx != 0 {
			good = false
		} else if gp == nil {
			gp = l.Call
		} else if gp != l.Call {
			good = false
		}
	}
	if !good {
		opaque := len(ss.Leaves) == 0
		for _, l := range ss.Leaves {
			switch l.Kind {
			case "call", "const", "zero", "field", "alloc":
			default:
				opaque = true
			}
		}
		if opaque {
			c.Unknown("C08.R3", cons, pos, fmt.Sprintf("cannot follow Payreq back to GetPayreq: %v", ss.Names()))
		} else {
			c.Bad("C08.R3", cons, pos, fmt.Sprintf("Payreq must be the invoice created by GetPayreq but flows from %v", ss.Names()))
		}
		return
	}
	c.OK("C08.R3", cons, pos, "Payreq is the invoice returned by LightningClient.GetPayreq")
	args := gp.Call.Args
	if len(args) != 7 {
		c.Anchor("LightningClient.GetPayreq no longer has 7 parameters")
		return
	}
	gpos := w.Pos(gp.Pos())
	var recv ssa.Value // the *SwapData the getters are applied to
	sameRecv := func(x ssa.Value) bool {
		if recv == nil {
			recv = x
		}
		return recv == x
	}
	// amount = GetClaimAmount()*1000
	{
		cons := fname + " GetPayreq amount"
		a := c08Strip(args[0])
		bo, ok := a.(*ssa.BinOp)
		switch {
		case !ok || bo.Op != token.MUL:
			c.Unknown("C08.R3", cons, gpos, "amount argument is not of the form <claim amount> * <constant>: "+w.Term(args[0]))
		default:
			x, y := c08Strip(bo.X), c08Strip(bo.Y)
			if _, isC := x.(*ssa.Const); isC {
				x, y = y, x
			}
			k, isK := an.ConstInt(y)
			call, isCall := x.(*ssa.Call)
			switch {
			case !isK || !isCall:
				c.Unknown("C08.R3", cons, gpos, "amount argument is not <getter call> * <constant>: "+w.Term(args[0]))
			case w.Info(call).Name != "func:(*swap.SwapData).GetClaimAmount" && call.Call.StaticCallee() != nil && w.InModule(call.Call.StaticCallee()) && w.Summary(call.Call.StaticCallee()).HasEffect("func:(*swap.SwapData).GetClaimAmount"):
				c.Unknown("C08.R3", cons, gpos, "the invoice amount comes from "+w.Info(call).Name+", a helper around GetClaimAmount(); not followed")
			case w.Info(call).Name != "func:(*swap.SwapData).GetClaimAmount":
				c.Bad("C08.R3", cons, gpos, "the invoice amount is computed from "+w.Info(call).Name+", not from GetClaimAmount(): the maker invoices something else than the agreed claim amount")
			case k != 1000:
				c.Bad("C08.R3", cons, gpos, fmt.Sprintf("the invoice amount is GetClaimAmount()*%d; GetPayreq takes millisatoshi, so the factor must be 1000", k))
			default:
				sameRecv(call.Call.Args[0])
				c.OK("C08.R3", cons, gpos, "amount = GetClaimAmount()*1000 msat")
			}
		}
	}
	// expiry / cltv in this order, from the same swap
	for _, a := range []struct {
		i            int
		what, getter string
	}{{5, "expiry", "func:(*swap.SwapData).GetInvoiceExpiry"}, {6, "cltv", "func:(*swap.SwapData).GetInvoiceCltv"}} {
		cons := fname + " GetPayreq " + a.what
		call, ok := c08Strip(args[a.i]).(*ssa.Call)
		switch {
		case !ok:
			c.Unknown("C08.R3", cons, gpos, "argument is not a direct getter call: "+w.Term(args[a.i]))
		case w.Info(call).Name != a.getter && call.Call.StaticCallee() != nil && w.InModule(call.Call.StaticCallee()) && w.Summary(call.Call.StaticCallee()).HasEffect(a.getter):
			c.Unknown("C08.R3", cons, gpos, "argument comes from "+w.Info(call).Name+", a helper around "+strings.TrimPrefix(a.getter, "func:")+"; not followed")
		case w.Info(call).Name != a.getter:
			c.Bad("C08.R3", cons, gpos, fmt.Sprintf("argument #%d (%s) of GetPayreq must come from %s but comes from %s (swapped or wrong getter)", a.i, a.what, strings.TrimPrefix(a.getter, "func:"), w.Info(call).Name))
		case !sameRecv(call.Call.Args[0]):
			c.Bad("C08.R3", cons, gpos, "the getter is applied to a different SwapData than the claim amount")
		default:
			c.OK("C08.R3", cons, gpos, a.what+" = "+strings.TrimPrefix(a.getter, "func:")+"()")
		}
	}
	// preimage: same Preimage object as the one hashed into OpeningParams.ClaimPaymentHash
	{
		cons := fname + " GetPayreq preimage"
		oc := c08OpenCall(open, opens)
		pl := c08ParamsLiteral(oc)
		if pl == nil {
			c.Unknown("C08.R3", cons, gpos, "the OpeningParams handed to the wallet is not a literal of this function")
			return
		}
		hv, ok := an.CompositeFieldValue(pl, "ClaimPaymentHash")
		if !ok {
			c.Bad("C08.R3", cons, w.Pos(pl.Pos()), "OpeningParams.ClaimPaymentHash is left unset in the parameters handed to the wallet")
			return
		}
		isPre := func(v ssa.Value) bool {
			t := v.Type()
			if p, ok := t.Underlying().(*types.Pointer); ok {
				t = p.Elem()
			}
			n, ok := t.(*types.Named)
			return ok && n.Obj().Name() == "Preimage" && n.Obj().Pkg() != nil && strings.HasSuffix(n.Obj().Pkg().Path(), "/lightning")
		}
		roots := func(v ssa.Value) (objs map[ssa.Value]bool, hashed bool) {
			objs = map[ssa.Value]bool{}
			for x := range c08Slice(v) {
				switch y := x.(type) {
				case *ssa.Alloc:
					if isPre(y) {
						objs[y] = true
					}
				case *ssa.Call:
					n := w.Info(y).Name
					if strings.HasSuffix(n, "lightning.Preimage).Hash") || strings.Contains(n, "sha256.Sum256") {
						hashed = true
					}
					if isPre(y) {
						objs[y] = true
					}
				case *ssa.Extract:
					if isPre(y) {
						objs[y] = true
					}
				}
			}
			return
		}
		po, phashed := roots(args[1])
		ho, hhashed := roots(hv)
		common := false
		for x := range po {
			if ho[x] {
				common = true
			}
		}
		switch {
		case len(po) == 0:
			c.Unknown("C08.R3", cons, gpos, "no lightning.Preimage object is found behind the preimage argument of GetPayreq")
		case len(ho) == 0:
			c.Bad("C08.R3", cons, w.Pos(pl.Pos()), "OpeningParams.ClaimPaymentHash handed to the wallet ("+w.Term(hv)+") is not computed from the Preimage object the invoice is created with: the invoice's payment hash need not be the one locked in the opening output")
		case !common:
			c.Bad("C08.R3", cons, gpos, "the preimage given to GetPayreq and the preimage hashed into OpeningParams.ClaimPaymentHash are different objects: the invoice's payment hash is not the one locked in the opening output")
		case phashed:
			c.Bad("C08.R3", cons, gpos, "the preimage argument of GetPayreq is itself a hash of the preimage")
		case !hhashed:
			c.Bad("C08.R3", cons, w.Pos(pl.Pos()), "OpeningParams.ClaimPaymentHash is not the Hash() of the invoice preimage")
		default:
			c.OK("C08.R3", cons, gpos, "invoice preimage and OpeningParams.ClaimPaymentHash come from the same Preimage object (the latter through Hash())")
		}
	}
}

func c08Blinding(c *an.Check, fn *ssa.Function, pos string, v ssa.Value, vst string, open *ssa.Call, opens []ssa.CallInstruction) {
	w := c.W
	cons := w.FuncName(fn) + " message.BlindingKey"
	if vst == "unset" {
		c.Bad("C08.R4", cons, pos, "the message literal leaves BlindingKey unset: a Liquid taker cannot unblind the output")
		return
	}
	if v == nil {
		c.Unknown("C08.R4", cons, pos, vst)
		return
	}
	pl := c08ParamsLiteral(c08OpenCall(open, opens))
	if pl == nil {
		c.Unknown("C08.R4", cons, pos, "the OpeningParams handed to the wallet is not a literal of this function")
		return
	}
	kv, ok := an.CompositeFieldValue(pl, "BlindingKey")
	if !ok {
		c.Bad("C08.R4", cons, w.Pos(pl.Pos()), "OpeningParams.BlindingKey is left unset in the parameters handed to the wallet")
		return
	}
	// local identity: every non-nil key that can reach the parameters is what the hex is made of
	ks := w.Sources(kv, an.FlowOpts{})
	sl := c08Slice(v)
	nonNil, allIn := 0, true
	for _, l := range ks.Leaves {
		if l.Kind == "zero" || l.Kind == "const" {
			continue
		}
		nonNil++
		if !sl[l.Val] {
			allIn = false
		}
	}
	hexed := false
	for x := range sl {
		if cc, ok := x.(*ssa.Call); ok {
			ci := w.Info(cc)
			if ci.Name == "func:encoding/hex.EncodeToString" {
				hexed = true
			} else if ci.Static != nil && w.InModule(ci.Static) && w.Summary(ci.Static).HasEffect("func:encoding/hex.EncodeToString") {
				hexed = true // a hex helper of the module
			}
		}
	}
	same := nonNil > 0 && allIn && hexed
	if !same {
		// fall back to the persistent fields both are read from
		through := map[string]bool{"func:encoding/hex.EncodeToString": true, "func:encoding/hex.DecodeString": true}
		for _, fnn := range prodFuncs(w) {
			for _, cc := range an.Calls(fnn) {
				n := w.Info(cc).Name
				if strings.HasSuffix(n, "PrivateKey).Serialize") || strings.HasSuffix(n, ".PrivKeyFromBytes") {
					through[n] = true
				}
			}
		}
		o := an.FlowOpts{IntoCallees: true, ThroughCalls: through, FieldsThroughWriters: map[string]bool{"OpeningParams.BlindingKey": true}}
		opaque := false
		fields := func(x ssa.Value) map[string]bool {
			m := map[string]bool{}
			for _, l := range w.Sources(x, o).Leaves {
				if l.Kind == "field" {
					m[l.Name] = true
				} else if l.Kind != "const" && l.Kind != "zero" {
					m[l.String()] = true
					if l.Kind != "call" {
						opaque = true
					}
				}
			}
			return m
		}
		mf, pf := fields(v), fields(kv)
		sub := len(mf) > 0
		for k := range mf {
			if !pf[k] {
				sub = false
			}
		}
		if !sub && opaque {
			c.Unknown("C08.R4", cons, pos, fmt.Sprintf("cannot follow the announced blinding key (%v) / the key of the output (%v) back to their origin", sortedKeys(mf), sortedKeys(pf)))
			return
		}
		if !sub {
			c.Bad("C08.R4", cons, pos, fmt.Sprintf("the announced blinding key flows from %v, the key that blinds the opening output from %v: the taker cannot unblind the output it is asked to pay for", sortedKeys(mf), sortedKeys(pf)))
			return
		}
	}
	// empty exactly where the key is nil
	mp, ok1 := v.(*ssa.Phi)
	kp, ok2 := kv.(*ssa.Phi)
	if ok1 && ok2 && mp.Block() == kp.Block() {
		for k := range mp.Edges {
			s, isS := an.ConstString(mp.Edges[k])
			empty := isS && s == ""
			if empty != an.IsNilConst(kp.Edges[k]) {
				c.Bad("C08.R4", cons, pos, "on one branch the announced blinding key is empty while a key is used for the output (or the reverse)")
				return
			}
		}
	}
	c.OK("C08.R4", cons, pos, "BlindingKey is the hex of the key placed in OpeningParams.BlindingKey")
}

// c08ImplTxid: R1 inside an implementation.
func c08ImplTxid(c *an.Check, fn *ssa.Function, idxs []int, what string) {
	w := c.W
	cons := w.FuncName(fn) + " " + what + " result"
	prims := c08PrimitiveCalls(w, fn)
	if len(prims) == 0 {
		c.Unknown("C08.R1", cons, w.Pos(fn.Pos()), "no broadcast primitive of the frozen table is called directly in this implementation; cannot relate its results to the broadcast")
		return
	}
	rets := c08SuccessReturns(w, fn)
	if len(rets) == 0 {
		c.Unknown("C08.R1", cons, w.Pos(fn.Pos()), "no success return found")
		return
	}
	for _, r := range rets {
		for _, i := range idxs {
			if i >= len(r.Results) {
				continue
			}
			name := fn.Signature.Results().At(i).Name()
			vals, zero := c08Resolve(r.Results[i])
			if zero {
				c.Bad("C08.R1", cons, c08RetPos(w, r), fmt.Sprintf("result #%d (%s) can still hold its zero value on a success return", i, name))
			}
			for _, v := range vals {
				if _, isConst := v.(*ssa.Const); isConst {
					c.Bad("C08.R1", cons, c08RetPos(w, r), fmt.Sprintf("result #%d (%s) is the constant %s on a success return", i, name, v.String()))
					continue
				}
				c.Decide(c08LinkedToBroadcast(v, prims, true), "C08.R1", cons, c08RetPos(w, r),
					"returned on success from the broadcast primitive's result / the data handed to it",
					fmt.Sprintf("result #%d (%s) returned on success is neither derived from the result of the broadcast primitive (%s) nor from the data handed to it: it is %s", i, name, w.Info(prims[0]).Name, w.Term(v)))
			}
		}
	}
}

// c08ImplVout: R2 inside an implementation.
func c08ImplVout(c *an.Check, fn *ssa.Function) {
	w := c.W
	cons := w.FuncName(fn) + " vout result"
	prims := c08PrimitiveCalls(w, fn)
	rets := c08SuccessReturns(w, fn)
	if len(rets) == 0 {
		c.Unknown("C08.R2", cons, w.Pos(fn.Pos()), "no success return found")
		return
	}
	var params ssa.Value
	if len(fn.Params) >= 2 {
		params = fn.Params[1]
	}
	for _, r := range rets {
		pos := c08RetPos(w, r)
		ev := &c08Eval{w: w, seen: map[ssa.Value]bool{}}
		orgs := ev.org(r.Results[c08ResVout], r.Block(), nil, 0)
		if len(orgs) == 0 {
			c.Unknown("C08.R2", cons, pos, "the origin of the returned vout could not be determined")
			continue
		}
		for _, o := range orgs {
			switch o.Kind {
			case "const":
				c.Bad("C08.R2", cons, pos, fmt.Sprintf("on this success return the vout result is the constant %s (a named result that no path assigns from an output locator): whenever the wallet places change or the fee output before the swap output, script_out in opening_tx_broadcasted names the wrong output", o.Text))
			case "locator":
				call := o.V.(*ssa.Extract).Tuple.(*ssa.Call)
				loc := c08Locators[o.Text]
				lp := w.Pos(call.Pos())
				if o.Depth > 0 {
					c.OK("C08.R2", cons, pos, "vout comes from "+o.Text+" inside the helper "+w.FuncName(o.Fn)+" at "+lp)
					continue
				}
				if len(prims) > 0 && !c08LinkedToBroadcast(call.Call.Args[loc[1]], prims, false) {
					c.Bad("C08.R2", cons, pos, "the output locator at "+lp+" is applied to "+w.Term(call.Call.Args[loc[1]])+", which is unrelated to the transaction handed to / returned by the broadcast primitive")
					continue
				}
				if params != nil && !c08Slice(call.Call.Args[loc[2]])[params] {
					c.Bad("C08.R2", cons, pos, "the script/parameters given to the output locator at "+lp+" are not derived from the swap's OpeningParams")
					continue
				}
				c.OK("C08.R2", cons, pos, "vout is result #"+fmt.Sprint(loc[0])+" of "+o.Text+" at "+lp+" applied to the broadcast transaction and the swap parameters")
			case "rangeidx":
				loop := c08LoopOf(o.V)
				edges, others := c08ScriptCompareEdges(w, o.Fn, loop)
				guarded := false
				fromParams := false
				targets := append([]*ssa.BasicBlock{}, o.Via...)
				if o.Depth == 0 {
					targets = append(targets, r.Block())
				}
				for i, ed := range edges {
					for _, tb := range targets {
						if tb != nil && tb.Parent() == o.Fn && an.EdgeDominates(ed, tb) {
							guarded = true
							if o.Depth > 0 || params == nil || c08Slice(others[i])[params] {
								fromParams = true
							}
						}
					}
				}
				hidden := false
				if !guarded && len(edges) == 0 {
					// a predicate helper applied to the element may hide the comparison
					for _, cc := range an.Calls(o.Fn) {
						ci := w.Info(cc)
						if ci.Static == nil || !w.InModule(ci.Static) {
							continue
						}
						sl := c08Slice(cc.Common().Args...)
						for ev := range loop.elems {
							if sl[ev] {
								hidden = true
							}
						}
					}
				}
				switch {
				case hidden:
					c.Unknown("C08.R2", cons, pos, "the loop that selects the vout tests its element through an in-module helper; the comparison inside is not followed")
				case !guarded:
					c.Bad("C08.R2", cons, pos, "the vout is the index of a loop over outputs that is not selected under a script comparison (bytes.Equal / bytes.Compare on the element)")
				case !fromParams:
					c.Bad("C08.R2", cons, pos, "the script the loop compares with is not derived from the swap's OpeningParams")
				case o.Depth == 0 && len(prims) > 0 && !c08LinkedToBroadcast(loop.over[0], prims, false):
					c.Bad("C08.R2", cons, pos, "the loop that selects the vout ranges over "+w.Term(loop.over[0])+", which is unrelated to the broadcast transaction")
				default:
					c.OK("C08.R2", cons, pos, "vout is the index of a loop over the transaction's outputs selected by script comparison")
				}
			case "call":
				c.Unknown("C08.R2", cons, pos, "the vout comes from "+o.Text+" which is outside the module and not in the table of output locators; cannot decide whether it locates the swap output")
			case "param":
				c.Bad("C08.R2", cons, pos, fmt.Sprintf("the vout returned on success comes from %s %s, not from an output locator applied to the broadcast transaction", o.Kind, o.Text))
			case "field":
				_, root := w.FieldChain(o.V)
				if _, isParam := root.(*ssa.Parameter); isParam {
					c.Bad("C08.R2", cons, pos, fmt.Sprintf("the vout returned on success is read from %s of an argument, not located in the broadcast transaction", o.Text))
				} else {
					c.Unknown("C08.R2", cons, pos, fmt.Sprintf("the vout returned on success is read from field %s of %s; cannot decide whether that is the index of the swap output", o.Text, w.Term(root)))
				}
			default:
				c.Unknown("C08.R2", cons, pos, fmt.Sprintf("the vout returned on success is %s %s; its origin is not understood", o.Kind, o.Text))
			}
		}
		for _, p := range ev.pruned {
			c.Note("C08.R2", cons+" pruned", pos, p)
		}
	}
}

// c08Verdict: R5.
func c08Verdict(c *an.Check, impls []*ssa.Function) {
	w := c.W
	// (ii) does the locator ever return (false, _, possibly-nil error)?
	loc := w.Func("onchain", "(*BitcoinOnChain).GetVoutAndVerify")
	if loc == nil {
		return // anchored above
	}
	var silent []string
	for _, r := range an.Returns(loc) {
		if len(r.Results) != 3 {
			continue
		}
		vs, zero := c08Resolve(r.Results[0])
		allTrue := !zero
		for _, v := range vs {
			b, isConst := v.(*ssa.Const)
			if !(isConst && b.Value != nil && b.Value.Kind() == constant.Bool && constant.BoolVal(b.Value)) {
				allTrue = false
			}
		}
		if allTrue {
			continue // verdict true
		}
		if c08MayBeNil(w, r, 2) {
			silent = append(silent, c08RetPos(w, r))
		}
	}
	n := 0
	for _, fn := range impls {
		for _, cc := range callsNamed(w, fn, c08Verify) {
			call, ok := cc.(*ssa.Call)
			if !ok {
				continue
			}
			n++
			cons := w.FuncName(fn) + " call GetVoutAndVerify verdict"
			pos := w.Pos(call.Pos())
			if len(silent) == 0 {
				c.OK("C08.R5", cons, pos, "GetVoutAndVerify never returns a negative verdict with a nil error")
				continue
			}
			tested := true
			vals := an.ResultValues(call, 0)
			if len(vals) == 0 {
				tested = false
			}
			for _, r := range c08SuccessReturns(w, fn) {
				if !an.ReachBlocks([]*ssa.BasicBlock{call.Block()}, nil, nil)[r.Block()] {
					continue
				}
				okHere := false
				for _, v := range vals {
					t, _ := an.BoolEdges(v)
					for _, e := range t {
						if an.EdgeDominates(e, r.Block()) {
							okHere = true
						}
					}
				}
				if !okHere {
					tested = false
				}
			}
			c.Decide(tested, "C08.R5", cons, pos, "the boolean verdict is tested before the success return",
				"the boolean verdict of GetVoutAndVerify is discarded and the locator returns (false, 0, nil) at "+strings.Join(silent, ", ")+": when another output of the funded transaction has the swap amount and comes first (or no output matches), vout 0 is announced and the transaction is broadcast although the swap output was not identified")
		}
	}
	c.AtLeast("C08.R5", "GetVoutAndVerify calls inside CreateOpeningTransaction implementations", n, 2)
}

// c08InvoiceConstants: R3 constants.
func c08InvoiceConstants(c *an.Check) {
	w := c.W
	chainOf := func(b *ssa.BasicBlock, pred *ssa.BasicBlock) string {
		facts := w.FactsDominatingBlock(b)
		if pred != nil {
			// the edge pred->b itself
			for _, f := range w.Facts(b.Parent()) {
				if f.Edge.From == pred && f.Edge.To() == b {
					facts = append(facts, f)
				}
			}
		}
		ch := ""
		for _, f := range facts {
			if an.EqIs(f, "==", "SwapData).GetChain", `"btc"`) {
				ch = "btc"
			}
			if an.EqIs(f, "==", "SwapData).GetChain", `"lbtc"`) {
				ch = "lbtc"
			}
		}
		return ch
	}
	// GetInvoiceExpiry
	exp := w.Func("swap", "(*SwapData).GetInvoiceExpiry")
	if exp == nil {
		c.Anchor("(*swap.SwapData).GetInvoiceExpiry does not resolve")
	} else {
		want := map[string]int64{"btc": 86400, "lbtc": 3600}
		seen := map[string]bool{}
		for _, r := range an.Returns(exp) {
			type cv struct {
				v    ssa.Value
				b, p *ssa.BasicBlock
			}
			var vals []cv
			if ph, ok := r.Results[0].(*ssa.Phi); ok {
				for k, e := range ph.Edges {
					vals = append(vals, cv{e, ph.Block().Preds[k], nil})
				}
			} else {
				vals = append(vals, cv{r.Results[0], r.Block(), nil})
			}
			for _, x := range vals {
				// table form: <package-level constant map>[GetChain()]
				if tbl, why, isTable := c08ChainTable(w, x.v); isTable {
					if tbl == nil {
						c.Unknown("C08.R3", "(*swap.SwapData).GetInvoiceExpiry table", w.Pos(r.Pos()), why)
						continue
					}
					for ch, k := range tbl {
						cons := "(*swap.SwapData).GetInvoiceExpiry " + ch
						if _, known := want[ch]; !known {
							if k != 0 {
								c.Unknown("C08.R3", cons, w.Pos(r.Pos()), fmt.Sprintf("expiry %d for a chain name other than btc/lbtc", k))
							}
							continue
						}
						seen[ch] = true
						c.Decide(k == want[ch], "C08.R3", cons, w.Pos(r.Pos()), fmt.Sprintf("expiry %d s (table entry)", k), fmt.Sprintf("claim invoice expiry for %s is %d s, the protocol value is %d s", ch, k, want[ch]))
					}
					for ch := range want {
						if _, has := tbl[ch]; !has {
							seen[ch] = true
							c.Bad("C08.R3", "(*swap.SwapData).GetInvoiceExpiry "+ch, w.Pos(r.Pos()), fmt.Sprintf("the expiry table has no entry for %s: the claim invoice expires immediately (0 s), the protocol value is %d s", ch, want[ch]))
						}
					}
					continue
				}
				ch := chainOf(x.b, x.p)
				k, isK := an.ConstInt(x.v)
				cons := "(*swap.SwapData).GetInvoiceExpiry " + ch
				if ch == "" {
					cons = "(*swap.SwapData).GetInvoiceExpiry other chain"
				}
				switch {
				case !isK:
					c.Unknown("C08.R3", cons, w.Pos(r.Pos()), "expiry is not a constant: "+w.Term(x.v))
				case ch == "":
					if k != 0 {
						c.Unknown("C08.R3", cons, w.Pos(r.Pos()), fmt.Sprintf("expiry %d is returned under a condition that is not a test of GetChain() against \"btc\"/\"lbtc\"", k))
					}
				default:
					seen[ch] = true
					c.Decide(k == want[ch], "C08.R3", cons, w.Pos(r.Pos()), fmt.Sprintf("expiry %d s", k), fmt.Sprintf("claim invoice expiry for %s is %d s, the protocol value is %d s", ch, k, want[ch]))
				}
			}
		}
		c.AtLeast("C08.R3", "per-chain invoice expiry constants", len(seen), 2)
	}
	// GetInvoiceCltv -> getTimelockPolicy().InvoiceFinalCLTV
	cl := w.Func("swap", "(*SwapData).GetInvoiceCltv")
	tp := w.Func("swap", "(*SwapData).getTimelockPolicy")
	if cl == nil || tp == nil {
		c.Anchor("(*swap.SwapData).GetInvoiceCltv / getTimelockPolicy do not resolve")
		return
	}
	for _, r := range an.Returns(cl) {
		t := w.Term(r.Results[0])
		cons := "(*swap.SwapData).GetInvoiceCltv"
		if k, ok := an.ConstInt(r.Results[0]); ok {
			// allowed only as the error fallback
			failing := false
			for _, f := range w.FactsDominatingBlock(r.Block()) {
				if f.NonNum && f.Rel == "!=" && strings.Contains(f.L+f.R, "getTimelockPolicy#1") && (f.L == "nil" || f.R == "nil") {
					failing = true
				}
			}
			c.Decide(failing, "C08.R3", cons+" constant", w.Pos(r.Pos()), "constant fallback only when the policy lookup fails", fmt.Sprintf("returns the constant %d although the policy lookup did not fail", k))
			continue
		}
		c.Decide(strings.HasSuffix(t, "getTimelockPolicy#0>timelockPolicy.InvoiceFinalCLTV"), "C08.R3", cons, w.Pos(r.Pos()),
			"returns getTimelockPolicy().InvoiceFinalCLTV", "the invoice CLTV is "+t+", not the InvoiceFinalCLTV of the swap's timelock policy")
	}
	want := map[string]int64{"btc": 503, "lbtc": 29}
	seen := map[string]bool{}
	for _, r := range c08SuccessReturns(w, tp) {
		ld, ok := r.Results[0].(*ssa.UnOp)
		var al *ssa.Alloc
		if ok && ld.Op == token.MUL {
			al, _ = ld.X.(*ssa.Alloc)
		}
		ch := chainOf(r.Block(), nil)
		cons := "(*swap.SwapData).getTimelockPolicy " + ch + " InvoiceFinalCLTV"
		if al == nil || ch == "" {
			c.Unknown("C08.R3", "(*swap.SwapData).getTimelockPolicy policy literal", w.Pos(r.Pos()), "a success return is not a policy literal under a GetChain() test")
			continue
		}
		v, has := an.CompositeFieldValue(al, "InvoiceFinalCLTV")
		k, isK := int64(0), has
		if has {
			k, isK = an.ConstInt(v)
		}
		if !isK {
			c.Unknown("C08.R3", cons, w.Pos(r.Pos()), "InvoiceFinalCLTV is not a constant")
			continue
		}
		seen[ch] = true
		c.Decide(k == want[ch], "C08.R3", cons, w.Pos(r.Pos()), fmt.Sprintf("final CLTV %d", k), fmt.Sprintf("claim invoice final CLTV for %s is %d, the protocol value is %d", ch, k, want[ch]))
	}
	c.AtLeast("C08.R3", "per-chain InvoiceFinalCLTV constants", len(seen), 2)
}

// c08ChainTable recognises `table[s.GetChain()]` where table is a package-level
// map variable that is initialised once, in the package initialiser, from a map
// literal with constant string keys and constant integer values, and is never
// written, updated or handed out anywhere else. isTable reports that v has the
// lookup shape; tbl == nil then means the table could not be evaluated (why).
func c08ChainTable(w *an.World, v ssa.Value) (tbl map[string]int64, why string, isTable bool) {
	v = c08Strip(v)
	if ex, ok := v.(*ssa.Extract); ok {
		if lk, ok := ex.Tuple.(*ssa.Lookup); ok && ex.Index == 0 {
			v = lk
		}
	}
	lk, ok := v.(*ssa.Lookup)
	if !ok {
		return nil, "", false
	}
	ld, ok := lk.X.(*ssa.UnOp)
	if !ok || ld.Op != token.MUL {
		return nil, "", false
	}
	g, ok := ld.X.(*ssa.Global)
	if !ok {
		return nil, "", false
	}
	if _, isMap := g.Type().(*types.Pointer).Elem().Underlying().(*types.Map); !isMap {
		return nil, "", false
	}
	if !strings.Contains(w.Term(lk.Index), "SwapData).GetChain") {
		return nil, "the table is not indexed by GetChain(): " + w.Term(lk.Index), true
	}
	// every use of the global in the module
	var initMap ssa.Value
	for fn := range w.AllFuncs() {
		if fn.Blocks == nil || !w.InModule(fn) {
			continue
		}
		isInit := fn.Synthetic != "" && fn.Name() == "init" && fn.Pkg == g.Pkg
		for _, b := range fn.Blocks {
			for _, in := range b.Instrs {
				for _, op := range in.Operands(nil) {
					if op == nil || *op != ssa.Value(g) {
						continue
					}
					switch x := in.(type) {
					case *ssa.Store:
						if x.Addr != ssa.Value(g) || !isInit || initMap != nil {
							return nil, "the table " + g.Name() + " is assigned outside its initialiser (" + w.Pos(in.Pos()) + ")", true
						}
						initMap = x.Val
					case *ssa.UnOp:
						if x.Op != token.MUL {
							return nil, "the address of the table " + g.Name() + " is used at " + w.Pos(in.Pos()), true
						}
						// the loaded map may only be read
						if x.Referrers() != nil {
							for _, r := range *x.Referrers() {
								switch r.(type) {
								case *ssa.Lookup, *ssa.Range, *ssa.DebugRef:
								case ssa.CallInstruction:
									if cc := r.(ssa.CallInstruction); !strings.HasPrefix(w.Info(cc).Name, "builtin:len") {
										return nil, "the table " + g.Name() + " is handed to " + w.Info(cc).Name + " at " + w.Pos(r.Pos()), true
									}
								default:
									return nil, "the table " + g.Name() + " is used in a way that may modify it at " + w.Pos(r.Pos()), true
								}
							}
						}
					default:
						return nil, "the address of the table " + g.Name() + " is used at " + w.Pos(in.Pos()), true
					}
				}
			}
		}
	}
	mm, ok := initMap.(*ssa.MakeMap)
	if !ok {
		return nil, "the table " + g.Name() + " is not initialised from a map literal", true
	}
	tbl = map[string]int64{}
	if mm.Referrers() != nil {
		for _, r := range *mm.Referrers() {
			switch x := r.(type) {
			case *ssa.MapUpdate:
				ks, okk := an.ConstString(x.Key)
				kv, okv := an.ConstInt(x.Value)
				if !okk || !okv {
					return nil, "the table " + g.Name() + " has a non-constant entry", true
				}
				tbl[ks] = kv
			case *ssa.Store:
				if x.Val != ssa.Value(mm) || x.Addr != ssa.Value(g) {
					return nil, "the map literal of " + g.Name() + " escapes", true
				}
			case *ssa.DebugRef:
			default:
				return nil, "the map literal of " + g.Name() + " is used besides initialising the table", true
			}
		}
	}
	return tbl, "", true
}

// ---- R6: the reported index is a position in the transaction's own output list ------------

// c08Frame is one activation on the value flow of the vout: the function, the
// call that entered it (nil for the outermost implementation) and the caller's
// frame, so that a parameter can be bound to the argument it was given.
type c08Frame struct {
	fn     *ssa.Function
	call   *ssa.Call
	parent *c08Frame
	depth  int
}

type c08IdxVerdict struct {
	kind string // ok | bad | unknown
	text string
	pos  string
}

type c08IdxEval struct {
	w    *an.World
	seen map[[2]interface{}]bool
	out  []c08IdxVerdict
}

func (e *c08IdxEval) add(kind, text, pos string) {
	e.out = append(e.out, c08IdxVerdict{kind, text, pos})
}

// bind returns the argument given for parameter p of frame fr (nil if unknown).
func (e *c08IdxEval) bind(p *ssa.Parameter, fr *c08Frame) (ssa.Value, *c08Frame) {
	if fr == nil || fr.call == nil || fr.parent == nil {
		return nil, nil
	}
	idx := -1
	for i, q := range fr.fn.Params {
		if q == p {
			idx = i
		}
	}
	args := fr.call.Call.Args
	if fr.call.Call.IsInvoke() {
		if idx == 0 {
			return fr.call.Call.Value, fr.parent
		}
		idx--
	}
	if idx < 0 || idx >= len(args) {
		return nil, nil
	}
	return args[idx], fr.parent
}

// c08Induction recognises `for i := c; …; i++` : phi[c, phi+1]; returns the phi's users that index a collection.
func c08Induction(ph *ssa.Phi) *c08Loop {
	init, step := false, false
	for _, ed := range ph.Edges {
		if _, ok := an.ConstInt(ed); ok {
			init = true
			continue
		}
		bo, ok := ed.(*ssa.BinOp)
		if !ok || bo.Op != token.ADD || bo.X != ssa.Value(ph) {
			return nil
		}
		if k, isK := an.ConstInt(bo.Y); !isK || k != 1 {
			return nil
		}
		step = true
	}
	if !init || !step {
		return nil
	}
	l := &c08Loop{elems: map[ssa.Value]bool{}}
	var users func(v ssa.Value, depth int)
	users = func(v ssa.Value, depth int) {
		if v.Referrers() == nil || depth > 2 {
			return
		}
		for _, r := range *v.Referrers() {
			switch x := r.(type) {
			case *ssa.IndexAddr:
				if x.Index == v {
					l.elems[x] = true
					l.over = append(l.over, x.X)
				}
			case *ssa.Index:
				if x.Index == v {
					l.elems[x] = true
					l.over = append(l.over, x.X)
				}
			case *ssa.Convert:
				users(x, depth+1)
			}
		}
	}
	users(ph, 0)
	if len(l.over) == 0 {
		return nil
	}
	return l
}

// index follows the value that is reported as the output index.
func (e *c08IdxEval) index(v ssa.Value, fr *c08Frame) {
	key := [2]interface{}{v, fr.fn}
	if e.seen[key] {
		return
	}
	e.seen[key] = true
	w := e.w
	pos := "-"
	if in, ok := v.(ssa.Instruction); ok {
		pos = w.Pos(in.Pos())
	}
	enter := func(c *ssa.Call, ridx int) {
		if fr.depth >= 4 {
			e.add("unknown", "the index is handed up through more than 4 call levels", w.Pos(c.Pos()))
			return
		}
		var callees []*ssa.Function
		if f := c.Call.StaticCallee(); f != nil {
			if w.InModule(f) && f.Blocks != nil {
				callees = append(callees, f)
			}
		} else if c.Call.IsInvoke() {
			if n := w.CG().Nodes[c.Parent()]; n != nil {
				for _, ed := range n.Out {
					if ed.Site == c && ed.Callee != nil && ed.Callee.Func != nil && w.InModule(ed.Callee.Func) && ed.Callee.Func.Blocks != nil && !an.IsTestSupport(w.FnRel(ed.Callee.Func)) {
						callees = append(callees, ed.Callee.Func)
					}
				}
			}
		}
		if len(callees) == 0 {
			e.add("unknown", "the index is result #"+fmt.Sprint(ridx)+" of "+w.Info(c).Name+", which cannot be looked into", w.Pos(c.Pos()))
			return
		}
		for _, g := range callees {
			nf := &c08Frame{fn: g, call: c, parent: fr, depth: fr.depth + 1}
			for _, r := range c08SuccessReturns(w, g) {
				if ridx < len(r.Results) {
					e.index(r.Results[ridx], nf)
				}
			}
		}
	}
	switch x := v.(type) {
	case *ssa.Const:
		return // constants are C08.R2's business
	case *ssa.Convert:
		e.index(x.X, fr)
	case *ssa.ChangeType:
		e.index(x.X, fr)
	case *ssa.Phi:
		if lp := c08Induction(x); lp != nil {
			e.position(lp, fr, pos)
			return
		}
		for _, ed := range x.Edges {
			e.index(ed, fr)
		}
	case *ssa.BinOp:
		if lp := c08LoopOf(x); lp != nil {
			e.position(lp, fr, pos)
			return
		}
		switch x.Op {
		case token.ADD, token.SUB, token.MUL, token.QUO, token.REM, token.SHL, token.SHR:
			derived := false
			for v2 := range c08Slice(x.X, x.Y) {
				switch y := v2.(type) {
				case *ssa.BinOp:
					if c08LoopOf(y) != nil {
						derived = true
					}
				case *ssa.Phi:
					if c08Induction(y) != nil {
						derived = true
					}
				case *ssa.Call:
					derived = true
				case *ssa.Extract:
					if nx, ok := y.Tuple.(*ssa.Next); ok && nx != nil {
						derived = true
					}
				}
			}
			if derived {
				e.add("bad", "the reported index is computed by arithmetic ("+w.Term(x)+") from a position / a located index: it is no longer the position of the output in the transaction", pos)
			} else {
				e.add("unknown", "the reported index is a computed value "+w.Term(x), pos)
			}
		default:
			e.add("unknown", "the reported index is a computed value "+w.Term(x), pos)
		}
	case *ssa.Extract:
		switch t := x.Tuple.(type) {
		case *ssa.Call:
			enter(t, x.Index)
		case *ssa.Next:
			if lp := c08LoopOf(x); lp != nil {
				e.position(lp, fr, pos)
			} else {
				e.add("unknown", "the reported index is the element, not the key, of a range loop", pos)
			}
		default:
			e.add("unknown", fmt.Sprintf("the reported index comes from a %T", x.Tuple), pos)
		}
	case *ssa.Call:
		enter(x, 0)
	case *ssa.UnOp:
		if x.Op == token.MUL {
			if al, ok := x.X.(*ssa.Alloc); ok {
				vals, _, okr := c08ReachingStores(al, x)
				if !okr {
					e.add("unknown", "the reported index is held in a variable whose address escapes", pos)
					return
				}
				for _, sv := range vals {
					e.index(sv, fr)
				}
				return
			}
		}
		e.add("unknown", "the reported index is loaded from "+w.Term(x), pos)
	case *ssa.Parameter:
		if a, pf := e.bind(x, fr); a != nil {
			e.index(a, pf)
		} else {
			e.add("unknown", "the reported index is parameter "+x.Name()+" of "+w.FuncName(fr.fn), pos)
		}
	default:
		e.add("unknown", fmt.Sprintf("the reported index is a %T (%s)", v, w.Term(v)), pos)
	}
}

// position: the index is the position in the collections of lp; each must be the
// transaction's own output list.
func (e *c08IdxEval) position(lp *c08Loop, fr *c08Frame, pos string) {
	seen := map[ssa.Value]bool{}
	for _, ov := range lp.over {
		if !seen[ov] {
			seen[ov] = true
			e.list(ov, fr, pos, 0)
		}
	}
}

// list decides where the searched collection comes from.
func (e *c08IdxEval) list(v ssa.Value, fr *c08Frame, lpos string, hops int) {
	w := e.w
	if hops > 12 {
		e.add("unknown", "the searched list is passed along too many steps", lpos)
		return
	}
	pos := lpos
	if in, ok := v.(ssa.Instruction); ok && in.Pos().IsValid() {
		pos = w.Pos(in.Pos())
	}
	isList := func(t types.Type) bool {
		switch t.Underlying().(type) {
		case *types.Slice, *types.Array:
			return true
		}
		return false
	}
	fieldOK := func(t types.Type, idx int) {
		e.add("ok", "position in "+an.FieldName(t, idx)+" in "+w.FuncName(fr.fn), pos)
	}
	switch x := v.(type) {
	case *ssa.ChangeType:
		e.list(x.X, fr, lpos, hops+1)
	case *ssa.UnOp:
		if x.Op != token.MUL {
			e.add("unknown", "the searched list is "+w.Term(x), pos)
			return
		}
		switch a := x.X.(type) {
		case *ssa.FieldAddr:
			if isList(x.Type()) {
				fieldOK(a.X.Type(), a.Field)
			} else {
				e.add("unknown", "the searched collection "+w.Term(x)+" is not a list", pos)
			}
		case *ssa.Alloc:
			vals, zero, okr := c08ReachingStores(a, x)
			if !okr || zero {
				e.add("unknown", "the searched list is held in a variable the rule cannot follow", pos)
				return
			}
			for _, sv := range vals {
				e.list(sv, fr, lpos, hops+1)
			}
		default:
			e.add("unknown", "the searched list is loaded from "+w.Term(x), pos)
		}
	case *ssa.Field:
		if isList(x.Type()) {
			fieldOK(x.X.Type(), x.Field)
		} else {
			e.add("unknown", "the searched collection "+w.Term(x)+" is not a list", pos)
		}
	case *ssa.Parameter:
		if a, pf := e.bind(x, fr); a != nil {
			e.list(a, pf, lpos, hops+1)
		} else {
			e.add("unknown", "the searched list is parameter "+x.Name()+" of "+w.FuncName(fr.fn)+", whose argument is not known on this path", pos)
		}
	case *ssa.Phi:
		for _, ed := range x.Edges {
			e.list(ed, fr, lpos, hops+1)
		}
	case *ssa.Slice:
		if x.Low != nil {
			if k, ok := an.ConstInt(x.Low); !ok || k != 0 {
				e.add("bad", "the searched list is a re-slice ("+w.Term(x.X)+"[low:]) of the output list: positions in it are shifted against the transaction's output indices", pos)
				return
			}
		}
		e.list(x.X, fr, lpos, hops+1)
	case *ssa.MakeSlice:
		e.add("bad", "the searched list is a newly made slice (a filtered / rebuilt copy of the outputs), so the reported position is not the output's index in the transaction", pos)
	case *ssa.Alloc:
		e.add("bad", "the searched list is a locally built array/slice literal, not the transaction's output list", pos)
	case *ssa.Call:
		ci := w.Info(x)
		switch {
		case ci.Name == "builtin:append":
			e.add("bad", "the searched list is built with append (a filtered / rebuilt copy of the outputs), so the reported position is not the output's index in the transaction", pos)
		case ci.Static != nil && w.InModule(ci.Static) && ci.Static.Blocks != nil && fr.depth < 4:
			nf := &c08Frame{fn: ci.Static, call: x, parent: fr, depth: fr.depth + 1}
			for _, r := range an.Returns(ci.Static) {
				if r.Block() != ci.Static.Recover && len(r.Results) > 0 && !an.IsNilConst(r.Results[0]) {
					e.list(r.Results[0], nf, lpos, hops+1)
				}
			}
		default:
			e.add("unknown", "the searched list is the result of "+ci.Name, pos)
		}
	case *ssa.Extract:
		if cc, ok := x.Tuple.(*ssa.Call); ok {
			ci := w.Info(cc)
			if ci.Static != nil && w.InModule(ci.Static) && ci.Static.Blocks != nil && fr.depth < 4 {
				nf := &c08Frame{fn: ci.Static, call: cc, parent: fr, depth: fr.depth + 1}
				for _, r := range c08SuccessReturns(w, ci.Static) {
					if x.Index < len(r.Results) {
						e.list(r.Results[x.Index], nf, lpos, hops+1)
					}
				}
				return
			}
			e.add("unknown", "the searched list is a result of "+ci.Name, pos)
			return
		}
		e.add("unknown", "the searched list is "+w.Term(x), pos)
	default:
		e.add("unknown", fmt.Sprintf("the searched list is a %T (%s)", v, w.Term(v)), pos)
	}
}

// c08ImplIndex: R6 for one CreateOpeningTransaction implementation; returns 1 when a loop index was reached.
func c08ImplIndex(c *an.Check, fn *ssa.Function) int {
	w := c.W
	cons := w.FuncName(fn) + " vout index"
	ev := &c08IdxEval{w: w, seen: map[[2]interface{}]bool{}}
	top := &c08Frame{fn: fn}
	rets := c08SuccessReturns(w, fn)
	for _, r := range rets {
		if c08ResVout < len(r.Results) {
			ev.index(r.Results[c08ResVout], top)
		}
	}
	pos := w.Pos(fn.Pos())
	if len(rets) > 0 {
		pos = c08RetPos(w, rets[0])
	}
	var oks, bads, unks []string
	for _, v := range ev.out {
		t := v.text + " (" + v.pos + ")"
		switch v.kind {
		case "ok":
			oks = append(oks, t)
		case "bad":
			bads = append(bads, t)
		default:
			unks = append(unks, t)
		}
	}
	switch {
	case len(bads) > 0:
		c.Bad("C08.R6", cons, pos, "the vout announced in opening_tx_broadcasted is not the position of the swap output in the broadcast transaction: "+strings.Join(bads, "; ")+". With an output in front of the swap output that the search skips or shifts over (e.g. [fee, swap, change]) script_out names a different output than the one the blinding key unblinds")
		return 1
	case len(unks) > 0:
		c.Unknown("C08.R6", cons, pos, strings.Join(unks, "; "))
		return 1
	case len(oks) > 0:
		sort.Strings(oks)
		c.OK("C08.R6", cons, pos, "reported index = unmodified "+strings.Join(oks, "; "))
		return 1
	}
	// only constants (or nothing) reach the result: that is C08.R2's finding, nothing to say here
	return 0
}
