package rules

// C18 — event handling never deadlocks (mutex part).
//
// This file also holds engine E5 ("lockx", DESIGN §1): a flow-sensitive,
// per-function held-lock analysis over the SSA CFG plus interprocedural
// summaries over the synchronous edges of the VTA call graph. C19 (c19.go)
// reuses the engine.

import (
	"fmt"
	"go/token"
	"go/types"
	"sort"
	"strings"
	"sync"

	"golang.org/x/tools/go/ssa"

	"psv/internal/an"
)

func init() {
	Register(&Prop{
		ID:   "C18",
		Expl: "Decides the mutex part of deadlock freedom by a lock-order analysis of the whole production call graph. Every sync.Mutex/RWMutex acquisition is abstracted to a lock class (named type + field, or package-level variable); a flow-sensitive pass over each function's SSA CFG (Lock/Unlock/RLock/RUnlock, deferred unlocks, early unlock/relock as in SendEvent; lock/unlock wrappers, release helpers and deferred closures are summarised by their fixed net effect +class/-class and applied at the call or at function exit; mutex aliases, captured aliases and mutex parameters are resolved to the class they denote) gives the locks held at every call and acquisition; summaries over the synchronous VTA call edges (go statements cut, interface and func-valued-field callees resolved) give the locks a call may acquire. (R1) the resulting lock-order graph has no cycle and no self-loop — each edge instance that lies on a cycle is reported with the call path that takes the inner lock and the call paths that close the cycle; (R2) no component lock is held across a dynamic call (callback field, observer interface) that can reach the acquisition of the per-swap event mutex while that component lock is itself taken under the event mutex; (R3) no synchronous call path leads from an Action.Execute (which runs under the per-swap mutex) back into SendEvent/Recover; (R4) no blocking channel operation (send, receive, select without default; a ctx.Done arm does not count as an exit, a timer arm does) is executed while a lock is held - locally or by every caller - that the code performing the counterpart operation on the same channel can need before it gets back to the channel or on its exit path (it acquires that class itself, in a deferred function or a callee, or a class from which the held one is reachable in the lock order); channels are identified by the make, struct field, variable, parameter and captured variable they flow through; a single hand-over send to a goroutine started in the same function on a channel made there is only checked against the goroutine's path to its first receive. The quantifier is over all functions, call sites and acquisition sites of the production packages, i.e. over all interleavings that the lock order admits.",
		NotD: "Channel waits that involve no lock (two goroutines waiting for each other on channels only), waits on library channels, channels that cannot be identified (reported as undecided), blocking RPCs, sync.Cond/WaitGroup waits, goroutine leaks. Lock classes merge all instances of a type (a cycle between two different objects of one class is reported like one on a single object); feasibility of a path with respect to the FSM tables or swap ids is not examined.",
		Run:  runC18,
	})
}

// ---------------------------------------------------------------------------
// E5: lock engine
// ---------------------------------------------------------------------------

// c18Excluded are test doubles that live in production files of package swap
// and own a mutex. Decided by type identity; each entry was confirmed by
// reading, and the engine additionally verifies that no production function
// instantiates the type (otherwise the entry is stale => exit 2).
var c18Excluded = []struct{ rel, name, why string }{
	{"swap", "timeOutDummy", "test double of TimeOutService (swap/timeout.go), only constructed in swap/*_test.go"},
	{"swap", "requestedSwapsStoreMock", "test double of RequestedSwapsStore (swap/mocks.go), only constructed in swap/*_test.go"},
}

// A lock key is the class, suffixed "#R" when held in read mode.
type c18Set map[string]bool

func (s c18Set) clone() c18Set {
	o := make(c18Set, len(s))
	for k := range s {
		o[k] = true
	}
	return o
}

func (s c18Set) equal(o c18Set) bool {
	if len(s) != len(o) {
		return false
	}
	for k := range s {
		if !o[k] {
			return false
		}
	}
	return true
}

func (s c18Set) sorted() []string {
	out := make([]string, 0, len(s))
	for k := range s {
		out = append(out, k)
	}
	sort.Strings(out)
	return out
}

// classes returns the lock classes in the set, read/write mode stripped.
func (s c18Set) classes() []string {
	m := map[string]bool{}
	for k := range s {
		m[c18Base(k)] = true
	}
	return sortedKeys(m)
}

// holds reports whether class is held (write mode; read mode too if anyMode).
func (s c18Set) holds(class string, anyMode bool) bool {
	if s[class] {
		return true
	}
	return anyMode && s[class+"#R"]
}

func c18Base(k string) string { return strings.TrimSuffix(k, "#R") }

// c18State is the lock state relative to the function's entry: must/may are
// the locks the function itself acquired and still holds; relMust/relMay are
// caller-owned locks (not acquired here) that the function has released.
type c18State struct {
	must, may       c18Set
	relMust, relMay c18Set
	reached         bool
}

func c18NewState() *c18State {
	return &c18State{must: c18Set{}, may: c18Set{}, relMust: c18Set{}, relMay: c18Set{}}
}

func (st *c18State) clone() *c18State {
	return &c18State{must: st.must.clone(), may: st.may.clone(), relMust: st.relMust.clone(), relMay: st.relMay.clone(), reached: st.reached}
}

// acquire / release apply a lock operation (a direct one, or the net effect of a callee).
func (st *c18State) acquire(k string) {
	if st.relMay[k] {
		// the caller's lock, released earlier in this function, is taken back
		delete(st.relMay, k)
		delete(st.relMust, k)
		return
	}
	st.must[k] = true
	st.may[k] = true
}

func (st *c18State) release(k string) {
	if st.may[k] {
		delete(st.must, k)
		delete(st.may, k)
		return
	}
	st.relMust[k] = true
	st.relMay[k] = true
}

// c18Net is the fixed net lock effect of a function on its caller: plus are
// locks it returns holding (lock wrappers), minus are caller-held locks it
// releases (release helpers, deferred closures that unlock).
type c18Net struct{ plus, minus c18Set }

func (n *c18Net) empty() bool { return n == nil || (len(n.plus) == 0 && len(n.minus) == 0) }

func c18NetEqual(a, b *c18Net) bool {
	if a.empty() || b.empty() {
		return a.empty() && b.empty()
	}
	return a.plus.equal(b.plus) && a.minus.equal(b.minus)
}

const (
	c18Lock = iota
	c18RLock
	c18Unlock
	c18RUnlock
)

type c18LockOp struct {
	kind  int
	class string // "" when unresolved
	why   string // reason when unresolved
}

func (o *c18LockOp) key() string {
	if o.kind == c18RLock || o.kind == c18RUnlock {
		return o.class + "#R"
	}
	return o.class
}

// c18Acq is one acquisition site.
type c18Acq struct {
	fn        *ssa.Function
	instr     ssa.CallInstruction
	class     string
	read      bool
	must, may c18Set // held before the acquisition (locally)
	rel       c18Set // caller-owned locks definitely released before it
}

// c18Site is one call site (not a lock operation) with the locally held locks.
type c18Site struct {
	fn        *ssa.Function
	instr     ssa.CallInstruction
	must, may c18Set
	rel       c18Set // caller-owned locks definitely released before the call
	relMay    c18Set // caller-owned locks possibly released before the call
	isGo      bool
	isDefer   bool
	callees   []*ssa.Function // analysed callees (in universe)
	pseudo    bool            // callees are function values handed to an external function
	name      string          // canonical callee name (CallInfo.Name)
}

type c18Func struct {
	fn             *ssa.Function
	in             map[*ssa.BasicBlock]*c18State
	deferredUnlock c18Set
	acqs           []*c18Acq
	sites          []*c18Site
	acq            map[string]bool   // outer acquisitions summary (classes)
	acqRel         map[string]c18Set // per class: caller-owned locks released before EVERY such acquisition
	acquired       c18Set            // every key this function locks directly
	viaWrapper     c18Set            // keys it comes to hold through a lock wrapper
	netBad         bool              // the return paths have no fixed net lock effect
	chanOps        []*c18ChanOp      // channel operations with the locks held around them
	opaqueDefer    bool              // calls/defers a function value with no analysable callee, or hands a lock to a goroutine
	rets           []*c18Net         // lock effect at each return
	retPos         []token.Pos
	net            *c18Net
}

type c18Unknown struct {
	fn    *ssa.Function
	pos   token.Pos
	what  string
	state bool // the held-lock sets inside fn are unreliable
}

type c18Engine struct {
	w              *an.World
	funcs          []*ssa.Function
	in             map[*ssa.Function]bool
	fi             map[*ssa.Function]*c18Func
	callees        map[ssa.CallInstruction][]*ssa.Function
	callers        map[*ssa.Function][]*c18Site
	excluded       map[*types.Named]string
	unknown        []c18Unknown
	anchors        []string
	classPos       map[string]token.Pos
	nDynUnresolved int
	net            map[*ssa.Function]*c18Net
	netBad         map[*ssa.Function]bool
	entryMust      map[*ssa.Function]c18Set
	fullAcq        map[*ssa.Function]c18Set
	chanUF         map[string]string
}

var (
	c18Mu    sync.Mutex
	c18Cache = map[*an.World]*c18Engine{}
)

// c18Get builds (once per loaded program) the lock engine.
func c18Get(w *an.World) *c18Engine {
	c18Mu.Lock()
	defer c18Mu.Unlock()
	if e, ok := c18Cache[w]; ok {
		return e
	}
	e := &c18Engine{w: w, in: map[*ssa.Function]bool{}, fi: map[*ssa.Function]*c18Func{},
		callees: map[ssa.CallInstruction][]*ssa.Function{}, callers: map[*ssa.Function][]*c18Site{},
		excluded: map[*types.Named]string{}, classPos: map[string]token.Pos{}}
	e.build()
	c18Cache[w] = e
	return e
}

// c18Rel returns the module-relative package of fn, also for synthetic
// wrappers ($bound, $thunk, promoted-method wrappers) that have no package.
func (e *c18Engine) rel(fn *ssa.Function) (string, bool) {
	for fn != nil && fn.Parent() != nil {
		fn = fn.Parent()
	}
	if fn == nil {
		return "", false
	}
	if o := fn.Origin(); o != nil {
		fn = o
	}
	if p := fn.Package(); p != nil {
		return e.w.Rel(p.Pkg.Path())
	}
	if o := fn.Object(); o != nil && o.Pkg() != nil {
		return e.w.Rel(o.Pkg().Path())
	}
	return "", false
}

func (e *c18Engine) recvNamed(fn *ssa.Function) *types.Named {
	for fn != nil && fn.Parent() != nil {
		fn = fn.Parent()
	}
	if fn == nil || fn.Signature == nil {
		return nil
	}
	if r := fn.Signature.Recv(); r != nil {
		return an.NamedOf(r.Type())
	}
	// bound method wrappers carry the receiver as free variable
	if len(fn.FreeVars) == 1 && strings.HasSuffix(fn.Name(), "$bound") {
		return an.NamedOf(fn.FreeVars[0].Type())
	}
	return nil
}

func (e *c18Engine) qual(n *types.Named) string {
	if n == nil {
		return "?"
	}
	o := n.Obj()
	if o.Pkg() == nil {
		return o.Name()
	}
	if r, ok := e.w.Rel(o.Pkg().Path()); ok {
		return r + "." + o.Name()
	}
	return o.Pkg().Path() + "." + o.Name()
}

func (e *c18Engine) build() {
	w := e.w
	for _, x := range c18Excluded {
		n := w.Named(x.rel, x.name)
		if n == nil {
			e.anchors = append(e.anchors, fmt.Sprintf("excluded test double %s.%s does not resolve", x.rel, x.name))
			continue
		}
		e.excluded[n] = x.why
	}
	cg := w.CG()
	for fn := range cg.Nodes {
		if fn == nil || fn.Blocks == nil {
			continue
		}
		rel, ok := e.rel(fn)
		if !ok || an.IsTestSupport(rel) {
			continue
		}
		if n := e.recvNamed(fn); n != nil {
			if _, ex := e.excluded[n]; ex {
				continue
			}
		}
		e.funcs = append(e.funcs, fn)
		e.in[fn] = true
	}
	// Promoted-method wrappers that nothing calls are artefacts of method-set
	// construction (e.g. the methods *clightning.SerializedSwapStateMachine
	// inherits from the embedded *swap.SwapStateMachine), not program code.
	for changed := true; changed; {
		changed = false
		kept := e.funcs[:0]
		for _, fn := range e.funcs {
			if strings.HasPrefix(fn.Synthetic, "wrapper for") {
				called := false
				if n := cg.Nodes[fn]; n != nil {
					for _, ed := range n.In {
						if ed.Caller != nil && ed.Caller.Func != fn && e.in[ed.Caller.Func] {
							called = true
						}
					}
				}
				if !called {
					delete(e.in, fn)
					changed = true
					continue
				}
			}
			kept = append(kept, fn)
		}
		e.funcs = kept
	}
	sort.Slice(e.funcs, func(i, j int) bool {
		a, b := e.funcs[i], e.funcs[j]
		if a.String() != b.String() {
			return a.String() < b.String()
		}
		return a.Pos() < b.Pos()
	})
	// the excluded types must really be uninstantiated in production code
	for _, fn := range e.funcs {
		for _, b := range fn.Blocks {
			for _, in := range b.Instrs {
				if al, ok := in.(*ssa.Alloc); ok {
					if n := an.NamedOf(al.Type()); n != nil {
						if _, ex := e.excluded[n]; ex {
							e.anchors = append(e.anchors, fmt.Sprintf("type %s is listed as a test double but is instantiated in %s", e.qual(n), w.FuncName(fn)))
						}
					}
				}
			}
		}
	}
	// call resolution from the VTA graph
	for _, fn := range e.funcs {
		n := cg.Nodes[fn]
		if n == nil {
			continue
		}
		for _, ed := range n.Out {
			if ed.Site == nil || ed.Callee == nil || ed.Callee.Func == nil {
				continue
			}
			g := ed.Callee.Func
			if !e.in[g] {
				continue
			}
			dup := false
			for _, x := range e.callees[ed.Site] {
				if x == g {
					dup = true
				}
			}
			if !dup {
				e.callees[ed.Site] = append(e.callees[ed.Site], g)
			}
		}
	}
	// Net lock effects of callees (lock/unlock wrappers, release helpers,
	// deferred closures that unlock) are applied at their call sites; iterate
	// until the summaries are stable.
	e.net = map[*ssa.Function]*c18Net{}
	e.netBad = map[*ssa.Function]bool{}
	for round := 0; ; round++ {
		e.unknown = nil
		e.nDynUnresolved = 0
		changed := false
		next := map[*ssa.Function]*c18Net{}
		nextBad := map[*ssa.Function]bool{}
		for _, fn := range e.funcs {
			fi := e.analyse(fn)
			e.fi[fn] = fi
			next[fn] = fi.net
			if fi.netBad {
				nextBad[fn] = true
			}
			if !c18NetEqual(fi.net, e.net[fn]) || fi.netBad != e.netBad[fn] {
				changed = true
			}
		}
		e.net, e.netBad = next, nextBad
		if !changed {
			break
		}
		if round > 8 {
			e.anchors = append(e.anchors, "lock-effect summaries do not stabilise")
			break
		}
	}
	for _, fn := range e.funcs {
		for _, s := range e.fi[fn].sites {
			for _, g := range s.callees {
				e.callers[g] = append(e.callers[g], s)
			}
		}
	}
	e.summaries()
}

// c18AsyncExternal lists library functions that run a function argument on
// another goroutine (so a lock held at the call is not held in the callee).
var c18AsyncExternal = map[string]string{
	"time.AfterFunc":    "runs f in its own goroutine after the duration",
	"context.AfterFunc": "runs f in its own goroutine after ctx is done",
}

// funcArgs returns function values handed to a call as arguments.
func c18FuncArgs(cc *ssa.CallCommon) []*ssa.Function {
	var out []*ssa.Function
	for _, a := range cc.Args {
		for {
			if ct, ok := a.(*ssa.ChangeType); ok {
				a = ct.X
				continue
			}
			if mi, ok := a.(*ssa.MakeInterface); ok {
				a = mi.X
				continue
			}
			break
		}
		switch x := a.(type) {
		case *ssa.MakeClosure:
			if f, ok := x.Fn.(*ssa.Function); ok {
				out = append(out, f)
			}
		case *ssa.Function:
			out = append(out, x)
		}
	}
	return out
}

// lockOp classifies a call as a mutex operation.
func (e *c18Engine) lockOp(fn *ssa.Function, c ssa.CallInstruction) *c18LockOp {
	cc := c.Common()
	if cc.IsInvoke() {
		if n := an.NamedOf(cc.Value.Type()); n != nil && n.Obj().Pkg() != nil && n.Obj().Pkg().Path() == "sync" && n.Obj().Name() == "Locker" {
			return &c18LockOp{kind: c18Lock, why: "call through sync.Locker"}
		}
		return nil
	}
	f := cc.StaticCallee()
	if f == nil {
		// a call of a method value such as the result of `func lock() func() { mu.Lock(); return mu.Unlock }`
		if kind, class, ok := e.methodValueOp(fn, cc.Value, 0); ok {
			return &c18LockOp{kind: kind, class: class}
		}
		return nil
	}
	if f.Signature.Recv() == nil {
		return nil
	}
	rn := an.NamedOf(f.Signature.Recv().Type())
	if rn == nil || rn.Obj().Pkg() == nil || rn.Obj().Pkg().Path() != "sync" {
		return nil
	}
	if rn.Obj().Name() != "Mutex" && rn.Obj().Name() != "RWMutex" {
		return nil
	}
	op := &c18LockOp{}
	switch f.Name() {
	case "Lock":
		op.kind = c18Lock
	case "RLock":
		op.kind = c18RLock
	case "Unlock":
		op.kind = c18Unlock
	case "RUnlock":
		op.kind = c18RUnlock
	default:
		op.why = "unsupported mutex method " + f.Name()
		return op
	}
	if len(cc.Args) == 0 {
		op.why = "no receiver"
		return op
	}
	cl, why, skip := e.classOf(fn, cc.Args[0])
	if skip {
		return nil
	}
	op.class, op.why = cl, why
	if cl != "" {
		if _, ok := e.classPos[cl]; !ok || c.Pos() < e.classPos[cl] {
			e.classPos[cl] = c.Pos()
		}
	}
	return op
}

// c18BoundSyncOp: fn is the bound-method wrapper of a sync.Mutex/RWMutex
// Lock/Unlock/RLock/RUnlock (the value of the expression `mu.Unlock`).
func c18BoundSyncOp(fn *ssa.Function) (kind int, ok bool) {
	if fn == nil || !strings.HasPrefix(fn.Synthetic, "bound method wrapper") {
		return 0, false
	}
	obj, _ := fn.Object().(*types.Func)
	if obj == nil || obj.Pkg() == nil || obj.Pkg().Path() != "sync" {
		return 0, false
	}
	sig, _ := obj.Type().(*types.Signature)
	if sig == nil || sig.Recv() == nil {
		return 0, false
	}
	rn := an.NamedOf(sig.Recv().Type())
	if rn == nil || (rn.Obj().Name() != "Mutex" && rn.Obj().Name() != "RWMutex") {
		return 0, false
	}
	switch obj.Name() {
	case "Lock":
		return c18Lock, true
	case "RLock":
		return c18RLock, true
	case "Unlock":
		return c18Unlock, true
	case "RUnlock":
		return c18RUnlock, true
	}
	return 0, false
}

// methodValueOp resolves a func value to a mutex operation on a known class:
// a method value `mu.Unlock`, or the result of an in-module function that
// always returns such a method value of one class.
func (e *c18Engine) methodValueOp(fn *ssa.Function, v ssa.Value, depth int) (kind int, class string, ok bool) {
	if depth > 4 {
		return 0, "", false
	}
	switch x := v.(type) {
	case *ssa.MakeClosure:
		f, _ := x.Fn.(*ssa.Function)
		k, isOp := c18BoundSyncOp(f)
		if !isOp || len(x.Bindings) != 1 {
			return 0, "", false
		}
		cl, _, skip := e.classOfD(fn, x.Bindings[0], depth+1)
		if skip || cl == "" {
			return 0, "", false
		}
		return k, cl, true
	case *ssa.ChangeType:
		return e.methodValueOp(fn, x.X, depth+1)
	case *ssa.Phi:
		first := true
		for _, ed := range x.Edges {
			k, cl, o := e.methodValueOp(fn, ed, depth+1)
			if !o || (!first && (k != kind || cl != class)) {
				return 0, "", false
			}
			kind, class, first = k, cl, false
		}
		return kind, class, !first
	case *ssa.Extract:
		if call, isCall := x.Tuple.(*ssa.Call); isCall {
			return e.resultOp(call, x.Index, depth)
		}
	case *ssa.Call:
		return e.resultOp(x, 0, depth)
	}
	return 0, "", false
}

// resultOp: result #idx of the call is always the same mutex method value.
func (e *c18Engine) resultOp(call *ssa.Call, idx int, depth int) (kind int, class string, ok bool) {
	g := call.Common().StaticCallee()
	if g == nil || !e.in[g] {
		return 0, "", false
	}
	first := true
	for _, r := range an.Returns(g) {
		if idx >= len(r.Results) {
			return 0, "", false
		}
		k, cl, o := e.methodValueOp(g, r.Results[idx], depth+1)
		if !o || (!first && (k != kind || cl != class)) {
			return 0, "", false
		}
		kind, class, first = k, cl, false
	}
	return kind, class, !first
}

// classOf names the lock class of the mutex address v.
func (e *c18Engine) classOf(fn *ssa.Function, v ssa.Value) (class, why string, skip bool) {
	return e.classOfD(fn, v, 0)
}

func (e *c18Engine) classOfD(fn *ssa.Function, v ssa.Value, depth int) (class, why string, skip bool) {
	if depth > 6 {
		return "", "mutex address chain too deep", false
	}
	switch x := v.(type) {
	case *ssa.FieldAddr:
		st, _ := c18Deref(x.X.Type()).Underlying().(*types.Struct)
		if st == nil || x.Field >= st.NumFields() {
			return "", "mutex in a non-struct", false
		}
		fname := st.Field(x.Field).Name()
		if owner := an.NamedOf(x.X.Type()); owner != nil {
			if _, ex := e.excluded[owner]; ex {
				return "", "", true
			}
			return e.qual(owner) + "." + fname, "", false
		}
		if inner, ok := x.X.(*ssa.FieldAddr); ok {
			c, why, skip := e.classOfD(fn, inner, depth+1)
			if c == "" {
				return "", why, skip
			}
			return c + "." + fname, "", false
		}
		return "", "mutex field of an unnamed struct", false
	case *ssa.Global:
		if x.Pkg != nil {
			if r, ok := e.w.Rel(x.Pkg.Pkg.Path()); ok {
				return r + "." + x.Name(), "", false
			}
			return x.Pkg.Pkg.Path() + "." + x.Name(), "", false
		}
		return x.Name(), "", false
	case *ssa.UnOp:
		if x.Op == token.MUL {
			switch ad := x.X.(type) {
			case *ssa.Alloc: // a local pointer variable (alias) that lives in a cell
				if _, isPtr := c18Deref(ad.Type()).Underlying().(*types.Pointer); isPtr {
					return e.cellClass(fn, ad, depth)
				}
			case *ssa.FreeVar: // ... captured by a closure
				if _, isPtr := c18Deref(ad.Type()).Underlying().(*types.Pointer); isPtr {
					if cell, pfn := c18CapturedCell(fn, ad); cell != nil {
						return e.cellClass(pfn, cell, depth)
					}
				}
			}
			// pointer-to-mutex stored in a field or global
			return e.classOfD(fn, x.X, depth+1)
		}
	case *ssa.Phi:
		return e.sameClass(fn, x.Edges, depth)
	case *ssa.Parameter:
		return e.paramClass(fn, x, depth)
	case *ssa.Alloc:
		return "local:" + e.w.FuncName(an.EnclosingTop(fn)) + ":" + x.Comment, "", false
	case *ssa.FreeVar:
		// a local mutex captured by a closure
		return "local:" + e.w.FuncName(an.EnclosingTop(fn)) + ":" + x.Name(), "", false
	}
	return "", fmt.Sprintf("mutex address %s (%T) has no lock class", v.Name(), v), false
}

// sameClass: all values name the same lock class.
func (e *c18Engine) sameClass(fn *ssa.Function, vs []ssa.Value, depth int) (string, string, bool) {
	class := ""
	for _, v := range vs {
		c, why, skip := e.classOfD(fn, v, depth+1)
		if skip {
			return "", "", true
		}
		if c == "" {
			return "", why, false
		}
		if class != "" && c != class {
			return "", "mutex alias may denote " + class + " or " + c, false
		}
		class = c
	}
	if class == "" {
		return "", "mutex alias is never assigned", false
	}
	return class, "", false
}

// cellClass: the class of a local pointer-to-mutex variable = what is stored into it.
func (e *c18Engine) cellClass(fn *ssa.Function, cell *ssa.Alloc, depth int) (string, string, bool) {
	var vals []ssa.Value
	if cell.Referrers() != nil {
		for _, r := range *cell.Referrers() {
			if st, ok := r.(*ssa.Store); ok && st.Addr == cell {
				vals = append(vals, st.Val)
			}
		}
	}
	return e.sameClass(fn, vals, depth)
}

// c18CapturedCell finds the variable cell of the enclosing function that a
// free variable of closure fn is bound to.
func c18CapturedCell(fn *ssa.Function, fv *ssa.FreeVar) (*ssa.Alloc, *ssa.Function) {
	parent := fn.Parent()
	if parent == nil {
		return nil, nil
	}
	idx := -1
	for i, f := range fn.FreeVars {
		if f == fv {
			idx = i
		}
	}
	if idx < 0 {
		return nil, nil
	}
	for _, b := range parent.Blocks {
		for _, in := range b.Instrs {
			mc, ok := in.(*ssa.MakeClosure)
			if !ok || mc.Fn != fn || idx >= len(mc.Bindings) {
				continue
			}
			switch bv := mc.Bindings[idx].(type) {
			case *ssa.Alloc:
				return bv, parent
			case *ssa.FreeVar:
				return c18CapturedCell(parent, bv)
			}
		}
	}
	return nil, nil
}

// paramClass: a mutex passed as parameter has the class of the arguments, when
// every caller passes the same class.
func (e *c18Engine) paramClass(fn *ssa.Function, p *ssa.Parameter, depth int) (string, string, bool) {
	idx := -1
	for i, q := range fn.Params {
		if q == p {
			idx = i
		}
	}
	n := e.w.CG().Nodes[fn]
	if idx < 0 || n == nil {
		return "", "mutex parameter without callers", false
	}
	class := ""
	for _, ed := range n.In {
		if ed.Site == nil || ed.Caller == nil || ed.Caller.Func == nil || !e.in[ed.Caller.Func] {
			continue
		}
		cc := ed.Site.Common()
		var av ssa.Value
		switch {
		case cc.IsInvoke() && idx == 0:
			av = cc.Value
		case cc.IsInvoke() && idx-1 < len(cc.Args):
			av = cc.Args[idx-1]
		case !cc.IsInvoke() && len(cc.Args) == len(fn.Params):
			av = cc.Args[idx]
		}
		if av == nil {
			return "", "mutex parameter with an unmapped argument", false
		}
		c, why, skip := e.classOfD(ed.Caller.Func, av, depth+1)
		if skip {
			continue
		}
		if c == "" {
			return "", why, false
		}
		if class != "" && c != class {
			return "", "mutex parameter receives " + class + " and " + c, false
		}
		class = c
	}
	if class == "" {
		return "", "mutex parameter without analysed callers", false
	}
	return class, "", false
}

func c18Deref(t types.Type) types.Type {
	if p, ok := t.Underlying().(*types.Pointer); ok {
		return p.Elem()
	}
	return t
}

// note records an unsupported shape that only affects the function's summary
// for its callers; noteState one that makes the held-lock sets inside the
// function itself unreliable (findings located there are then not established).
func (e *c18Engine) note(fn *ssa.Function, pos token.Pos, format string, a ...interface{}) {
	e.unknown = append(e.unknown, c18Unknown{fn: fn, pos: pos, what: fmt.Sprintf(format, a...)})
}

func (e *c18Engine) noteState(fn *ssa.Function, pos token.Pos, format string, a ...interface{}) {
	e.unknown = append(e.unknown, c18Unknown{fn: fn, pos: pos, what: fmt.Sprintf(format, a...), state: true})
}

// siteNet returns the common net lock effect of the callees of a call
// (nil = none). ok is false when the callees disagree.
func (e *c18Engine) siteNet(c ssa.CallInstruction) (net *c18Net, ok bool) {
	var callees []*ssa.Function
	callees = append(callees, e.callees[c]...)
	if f := c.Common().StaticCallee(); f != nil && e.in[f] {
		callees = append(callees, f)
	}
	first := true
	for _, g := range callees {
		if e.netBad[g] {
			return nil, false // the callee has no fixed lock effect
		}
		n := e.net[g]
		if first {
			net, first = n, false
			continue
		}
		if !c18NetEqual(net, n) {
			return nil, false
		}
	}
	if net.empty() {
		return nil, true
	}
	return net, true
}

// step applies one instruction to the state.
func (e *c18Engine) step(fi *c18Func, st *c18State, in ssa.Instruction, record bool) {
	switch x := in.(type) {
	case *ssa.Call:
		op := e.lockOp(fi.fn, x)
		if op == nil {
			if record {
				e.recordSite(fi, st, x)
				if b, ok := x.Call.Value.(*ssa.Builtin); ok && b.Name() == "close" && len(x.Call.Args) == 1 {
					// closing a channel wakes its receivers: a counterpart of receive operations
					fi.chanOps = append(fi.chanOps, &c18ChanOp{fn: fi.fn, instr: x, pos: x.Pos(), arms: []c18Arm{{ch: x.Call.Args[0], send: true}}, may: st.may.clone(), relMay: st.relMay.clone()})
				}
			}
			if cc := x.Common(); cc.StaticCallee() == nil && !cc.IsInvoke() && len(e.callees[x]) == 0 {
				if _, isBuiltin := cc.Value.(*ssa.Builtin); !isBuiltin {
					fi.opaqueDefer = true // a function value we cannot look into
				}
			}
			net, ok := e.siteNet(x)
			if !ok {
				if record {
					e.noteState(fi.fn, x.Pos(), "the possible callees of this call have no common fixed net lock effect: unsupported shape")
				}
				return
			}
			if net != nil {
				for _, k := range net.minus.sorted() {
					st.release(k)
				}
				for _, k := range net.plus.sorted() {
					st.acquire(k)
					fi.viaWrapper[k] = true
				}
			}
			return
		}
		if op.class == "" {
			if record {
				e.noteState(fi.fn, x.Pos(), "%s", op.why)
			}
			return
		}
		switch op.kind {
		case c18Lock, c18RLock:
			if record {
				fi.acqs = append(fi.acqs, &c18Acq{fn: fi.fn, instr: x, class: op.class, read: op.kind == c18RLock, must: st.must.clone(), may: st.may.clone(), rel: st.relMust.clone()})
			}
			fi.acquired[op.key()] = true
			st.acquire(op.key())
		case c18Unlock, c18RUnlock:
			st.release(op.key())
		}
	case *ssa.Defer:
		op := e.lockOp(fi.fn, x)
		if op == nil {
			// a deferred callee that releases a lock (defer func(){ mu.Unlock() }(),
			// defer x.unlockState()) is a deferred unlock
			net, ok := e.siteNet(x)
			if !ok || (net != nil && len(net.plus) > 0) {
				if record {
					e.noteState(fi.fn, x.Pos(), "deferred call with an acquiring or ambiguous net lock effect: unsupported shape")
				}
				return
			}
			if net != nil {
				for k := range net.minus {
					fi.deferredUnlock[k] = true
				}
			}
			if x.Common().StaticCallee() == nil && !x.Common().IsInvoke() && len(e.callees[x]) == 0 {
				fi.opaqueDefer = true
			}
			return // the call itself is evaluated at RunDefers
		}
		if op.class == "" {
			if record {
				e.noteState(fi.fn, x.Pos(), "%s", op.why)
			}
			return
		}
		if op.kind == c18Unlock || op.kind == c18RUnlock {
			fi.deferredUnlock[op.key()] = true
		} else if record {
			e.noteState(fi.fn, x.Pos(), "deferred acquisition of %s: unsupported shape", op.key())
		}
	case *ssa.Go:
		if record {
			e.recordSite(fi, st, x)
			if net, ok := e.siteNet(x); !ok || net != nil {
				fi.opaqueDefer = true
				e.noteState(fi.fn, x.Pos(), "goroutine entry function ends with a net lock effect (%s): unsupported shape", c18NetString(net))
			}
		}
	case *ssa.RunDefers:
		if !record {
			return
		}
		// deferred calls (other than unlocks) run here; the deferred unlocks
		// may or may not have run yet, so: may = everything, must = minus them.
		for _, b := range fi.fn.Blocks {
			for _, y := range b.Instrs {
				d, ok := y.(*ssa.Defer)
				if !ok || e.lockOp(fi.fn, d) != nil {
					continue
				}
				ds := st.clone()
				for k := range fi.deferredUnlock {
					delete(ds.must, k)
				}
				e.recordSite(fi, ds, d)
			}
		}
	case *ssa.Send:
		if record {
			fi.chanOps = append(fi.chanOps, &c18ChanOp{fn: fi.fn, instr: x, pos: x.Pos(), arms: []c18Arm{{ch: x.Chan, send: true}}, blocking: true, may: st.may.clone(), relMay: st.relMay.clone()})
		}
	case *ssa.UnOp:
		if record && x.Op == token.ARROW {
			fi.chanOps = append(fi.chanOps, &c18ChanOp{fn: fi.fn, instr: x, pos: x.Pos(), arms: []c18Arm{{ch: x.X, send: false}}, blocking: true, may: st.may.clone(), relMay: st.relMay.clone()})
		}
	case *ssa.Select:
		if record {
			op := &c18ChanOp{fn: fi.fn, instr: x, pos: x.Pos(), blocking: x.Blocking, isSelect: true, may: st.may.clone(), relMay: st.relMay.clone()}
			for _, sst := range x.States {
				op.arms = append(op.arms, c18Arm{ch: sst.Chan, send: sst.Dir == types.SendOnly})
				if !op.pos.IsValid() {
					op.pos = sst.Pos
				}
			}
			fi.chanOps = append(fi.chanOps, op)
		}
	case *ssa.Return:
		if !record {
			return
		}
		// net effect on this return path: locks still held after the deferred
		// unlocks ran (+), caller-owned locks released (-)
		n := &c18Net{plus: c18Set{}, minus: c18Set{}}
		fixed := true
		for k := range st.may {
			if fi.deferredUnlock[k] {
				continue
			}
			n.plus[k] = true
			if !st.must[k] {
				fixed = false
			}
		}
		for k := range st.relMay {
			n.minus[k] = true
			if !st.relMust[k] {
				fixed = false
			}
		}
		for k := range fi.deferredUnlock {
			// a deferred unlock of a lock this function never takes releases the caller's lock
			if !st.may[k] && !fi.acquired[k] {
				n.minus[k] = true
			}
		}
		if !fixed {
			fi.netBad = true
			e.note(fi.fn, x.Pos(), "a lock is held or released on some paths to this return only (%s): unsupported shape", c18NetString(n))
		}
		if len(n.plus) > 0 && fi.opaqueDefer {
			// a deferred call of a function value we cannot look into may be the unlock
			e.noteState(fi.fn, x.Pos(), "returns holding %s, but a call of an unresolved function value (or a goroutine it starts) may release it: unsupported shape", c18NetString(n))
			n = &c18Net{plus: c18Set{}, minus: n.minus}
		}
		fi.rets = append(fi.rets, n)
		fi.retPos = append(fi.retPos, x.Pos())
	}
}

func c18NetString(n *c18Net) string {
	if n.empty() {
		return "no effect"
	}
	var p []string
	for _, k := range n.plus.sorted() {
		p = append(p, "+"+k)
	}
	for _, k := range n.minus.sorted() {
		p = append(p, "-"+k)
	}
	return strings.Join(p, " ")
}

func (e *c18Engine) recordSite(fi *c18Func, st *c18State, c ssa.CallInstruction) {
	ci := e.w.Info(c)
	if strings.HasPrefix(ci.Name, "builtin:") {
		return
	}
	// merge repeated records of one deferred call
	for _, s := range fi.sites {
		if s.instr == c {
			for k := range s.must {
				if !st.must[k] {
					delete(s.must, k)
				}
			}
			for k := range st.may {
				s.may[k] = true
			}
			for k := range s.rel {
				if !st.relMust[k] {
					delete(s.rel, k)
				}
			}
			for k := range st.relMay {
				s.relMay[k] = true
			}
			return
		}
	}
	s := &c18Site{fn: fi.fn, instr: c, must: st.must.clone(), may: st.may.clone(), rel: st.relMust.clone(), relMay: st.relMay.clone(), isGo: ci.IsGo, isDefer: ci.IsDefer, name: ci.Name}
	s.callees = append(s.callees, e.callees[c]...)
	if ci.Static != nil && e.in[ci.Static] {
		found := false
		for _, g := range s.callees {
			if g == ci.Static {
				found = true
			}
		}
		if !found {
			s.callees = append(s.callees, ci.Static)
		}
	}
	if len(s.callees) == 0 {
		// external callee (no body): function values passed as arguments are
		// assumed to be called synchronously, except by the listed async ones.
		ext := ci.Static != nil && ci.Static.Blocks == nil
		if c.Common().IsInvoke() {
			ext = true
		}
		if ext {
			async := false
			if ci.Static != nil {
				_, async = c18AsyncExternal[strings.TrimPrefix(ci.Name, "func:")]
			}
			if !async {
				for _, f := range c18FuncArgs(c.Common()) {
					if e.in[f] {
						s.callees = append(s.callees, f)
						s.pseudo = true
					}
				}
			}
		}
		if len(s.callees) == 0 && ci.Static == nil && !c.Common().IsInvoke() {
			e.nDynUnresolved++
		}
	}
	sort.Slice(s.callees, func(i, j int) bool { return s.callees[i].String() < s.callees[j].String() })
	fi.sites = append(fi.sites, s)
}

// analyse runs the intraprocedural fixpoint for one function.
func (e *c18Engine) analyse(fn *ssa.Function) *c18Func {
	fi := &c18Func{fn: fn, in: map[*ssa.BasicBlock]*c18State{}, deferredUnlock: c18Set{}, acq: map[string]bool{}, acqRel: map[string]c18Set{}, acquired: c18Set{}, viaWrapper: c18Set{}}
	if len(fn.Blocks) == 0 {
		return fi
	}
	for _, b := range fn.Blocks {
		fi.in[b] = c18NewState()
	}
	entry := fn.Blocks[0]
	fi.in[entry].reached = true
	work := []*ssa.BasicBlock{entry}
	inWork := map[*ssa.BasicBlock]bool{entry: true}
	meetMust := func(dst, src c18Set) bool {
		ch := false
		for k := range dst {
			if !src[k] {
				delete(dst, k)
				ch = true
			}
		}
		return ch
	}
	joinMay := func(dst, src c18Set) bool {
		ch := false
		for k := range src {
			if !dst[k] {
				dst[k] = true
				ch = true
			}
		}
		return ch
	}
	for len(work) > 0 {
		b := work[0]
		work = work[1:]
		inWork[b] = false
		st := fi.in[b].clone()
		for _, in := range b.Instrs {
			e.step(fi, st, in, false)
		}
		for _, s := range b.Succs {
			ns := fi.in[s]
			changed := false
			if !ns.reached {
				*ns = *st.clone()
				ns.reached = true
				changed = true
			} else {
				if meetMust(ns.must, st.must) {
					changed = true
				}
				if joinMay(ns.may, st.may) {
					changed = true
				}
				if meetMust(ns.relMust, st.relMust) {
					changed = true
				}
				if joinMay(ns.relMay, st.relMay) {
					changed = true
				}
			}
			if changed && !inWork[s] {
				inWork[s] = true
				work = append(work, s)
			}
		}
	}
	// final replay, recording events
	for _, b := range fn.Blocks {
		if !fi.in[b].reached {
			continue
		}
		st := fi.in[b].clone()
		for _, in := range b.Instrs {
			e.step(fi, st, in, true)
		}
	}
	// the net effect is defined when every return path agrees
	for i, n := range fi.rets {
		if i == 0 {
			fi.net = n
			continue
		}
		if !c18NetEqual(fi.net, n) {
			fi.netBad = true
			e.note(fn, fi.retPos[i], "return paths differ in their net lock effect (%s vs %s): unsupported shape", c18NetString(fi.net), c18NetString(n))
			break
		}
	}
	if fi.net.empty() || fi.netBad {
		fi.net = nil
	}
	return fi
}

// HeldAt returns the locks held (locally acquired) just before instr.
func (e *c18Engine) HeldAt(in ssa.Instruction) (must, may c18Set) {
	st := e.stateAt(in)
	return st.must, st.may
}

// ReleasedAt returns the caller-owned locks that may already have been
// released by the function itself just before instr.
func (e *c18Engine) ReleasedAt(in ssa.Instruction) c18Set { return e.stateAt(in).relMay }

func (e *c18Engine) stateAt(in ssa.Instruction) *c18State {
	fn := in.Parent()
	fi := e.fi[fn]
	if fi == nil || fi.in[in.Block()] == nil || !fi.in[in.Block()].reached {
		return c18NewState()
	}
	st := fi.in[in.Block()].clone()
	for _, x := range in.Block().Instrs {
		if x == in {
			break
		}
		e.step(fi, st, x, false)
	}
	return st
}

// summaries computes acq(f): the lock classes f may acquire (itself or through
// synchronous callees) at a point where f holds no lock of its own. Edges of
// the lock-order graph are drawn from the locks a function holds locally to
// acq of what it calls; a lock acquired deeper under an intermediate lock is
// connected through that intermediate lock (A->C, C->B), so every cycle of the
// full "held-before" relation is a cycle of this graph.
func (e *c18Engine) summaries() {
	// meet records one occurrence of "fn may acquire class (outer)" together
	// with the caller-owned locks definitely released before it.
	meet := func(fi *c18Func, class string, released c18Set) bool {
		ch := false
		if !fi.acq[class] {
			fi.acq[class] = true
			fi.acqRel[class] = released.clone()
			return true
		}
		for k := range fi.acqRel[class] {
			if !released[k] {
				delete(fi.acqRel[class], k)
				ch = true
			}
		}
		return ch
	}
	for _, fn := range e.funcs {
		fi := e.fi[fn]
		for _, a := range fi.acqs {
			if len(a.must) == 0 {
				meet(fi, a.class, a.rel)
			}
		}
	}
	for changed := true; changed; {
		changed = false
		for _, fn := range e.funcs {
			fi := e.fi[fn]
			for _, s := range fi.sites {
				if s.isGo || len(s.must) != 0 {
					continue
				}
				for _, g := range s.callees {
					gi := e.fi[g]
					for c := range gi.acq {
						rel := s.rel.clone()
						for k := range gi.acqRel[c] {
							rel[k] = true
						}
						if meet(fi, c, rel) {
							changed = true
						}
					}
				}
			}
		}
	}
}

// releasedBefore: every acquisition of class reachable through the call
// happens after the callees have released the caller's lock h (a release
// helper such as "unlock, then send the follow-up event").
func (e *c18Engine) releasedBefore(s *c18Site, class, h string) bool {
	any := false
	for _, g := range s.callees {
		gi := e.fi[g]
		if !gi.acq[class] {
			continue
		}
		any = true
		if !gi.acqRel[class].holds(h, true) {
			return false
		}
	}
	return any
}

// MayAcquire is the summary used for edges at a call site.
func (e *c18Engine) MayAcquire(s *c18Site) []string {
	m := map[string]bool{}
	if s.isGo {
		return nil
	}
	for _, g := range s.callees {
		for c := range e.fi[g].acq {
			m[c] = true
		}
	}
	return sortedKeys(m)
}

// c18Hop is one step of a witness path.
type c18Hop struct {
	fn   *ssa.Function
	pos  token.Pos
	what string
}

// pathsToAcq finds, for every function that directly acquires class (with no
// own lock held) and is reachable from start over sites with no own lock held,
// one shortest call path.
func (e *c18Engine) pathsToAcq(start []*ssa.Function, class string) map[*ssa.Function][]c18Hop {
	type item struct {
		fn   *ssa.Function
		path []c18Hop
	}
	out := map[*ssa.Function][]c18Hop{}
	seen := map[*ssa.Function]bool{}
	var q []item
	for _, f := range start {
		if !seen[f] && e.fi[f].acq[class] {
			seen[f] = true
			q = append(q, item{f, nil})
		}
	}
	for len(q) > 0 {
		it := q[0]
		q = q[1:]
		fi := e.fi[it.fn]
		for _, a := range fi.acqs {
			if a.class == class && len(a.must) == 0 {
				if _, ok := out[it.fn]; !ok {
					p := append(append([]c18Hop{}, it.path...), c18Hop{it.fn, a.instr.Pos(), "acquires " + class})
					out[it.fn] = p
				}
			}
		}
		for _, s := range fi.sites {
			if s.isGo || len(s.must) != 0 {
				continue
			}
			for _, g := range s.callees {
				if seen[g] || !e.fi[g].acq[class] {
					continue
				}
				seen[g] = true
				p := append(append([]c18Hop{}, it.path...), c18Hop{it.fn, s.instr.Pos(), "calls " + c18SiteName(s) + " => " + e.w.FuncName(g)})
				q = append(q, item{g, p})
			}
		}
	}
	return out
}

func c18SiteName(s *c18Site) string {
	n := s.name
	if s.isDefer {
		n = "defer " + n
	}
	if s.pseudo {
		n += " (function argument, assumed called synchronously)"
	}
	return n
}

func (e *c18Engine) renderPath(p []c18Hop) []string {
	var out []string
	for _, h := range p {
		out = append(out, fmt.Sprintf("%s [%s] %s", e.w.FuncName(h.fn), e.w.Pos(h.pos), h.what))
	}
	return out
}

// c18Edge is one instance of a lock-order edge.
type c18Edge struct {
	from, to string
	holder   *ssa.Function
	pos      token.Pos
	via      string // callee name at the holder's call site, or "direct"
	dynamic  bool   // the holder's call is a dynamic call (callback / interface)
	acquirer *ssa.Function
	path     []c18Hop
}

func (e *c18Engine) edges() []*c18Edge {
	var out []*c18Edge
	for _, fn := range e.funcs {
		fi := e.fi[fn]
		for _, a := range fi.acqs {
			for _, h := range a.may.classes() {
				out = append(out, &c18Edge{from: h, to: a.class, holder: fn, pos: a.instr.Pos(), via: "direct", acquirer: fn,
					path: []c18Hop{{fn, a.instr.Pos(), "holding " + h + " acquires " + a.class}}})
			}
		}
		for _, s := range fi.sites {
			if s.isGo || len(s.may) == 0 {
				continue
			}
			for _, cl := range e.MayAcquire(s) {
				paths := e.pathsToAcq(s.callees, cl)
				var acqs []*ssa.Function
				for f := range paths {
					acqs = append(acqs, f)
				}
				sort.Slice(acqs, func(i, j int) bool { return acqs[i].String() < acqs[j].String() })
				for _, h := range s.may.classes() {
					if e.releasedBefore(s, cl, h) {
						continue
					}
					for _, q := range acqs {
						first := c18Hop{fn, s.instr.Pos(), "holding " + h + " calls " + c18SiteName(s)}
						ci := e.w.Info(s.instr)
						out = append(out, &c18Edge{from: h, to: cl, holder: fn, pos: s.instr.Pos(), via: s.name,
							dynamic: ci.Static == nil, acquirer: q, path: append([]c18Hop{first}, paths[q]...)})
					}
				}
			}
		}
	}
	return out
}

// c18SCC computes strongly connected components of the class graph.
func c18SCC(nodes []string, succ map[string]map[string]bool) map[string]int {
	index := 0
	idx := map[string]int{}
	low := map[string]int{}
	on := map[string]bool{}
	var stack []string
	comp := map[string]int{}
	nc := 0
	var strong func(v string)
	strong = func(v string) {
		idx[v] = index
		low[v] = index
		index++
		stack = append(stack, v)
		on[v] = true
		for _, w := range sortedKeys(succ[v]) {
			if _, ok := idx[w]; !ok {
				strong(w)
				if low[w] < low[v] {
					low[v] = low[w]
				}
			} else if on[w] && idx[w] < low[v] {
				low[v] = idx[w]
			}
		}
		if low[v] == idx[v] {
			for {
				x := stack[len(stack)-1]
				stack = stack[:len(stack)-1]
				on[x] = false
				comp[x] = nc
				if x == v {
					break
				}
			}
			nc++
		}
	}
	for _, v := range nodes {
		if _, ok := idx[v]; !ok {
			strong(v)
		}
	}
	return comp
}

// classPath finds a shortest path of classes from a to b in the class graph.
func c18ClassPath(a, b string, succ map[string]map[string]bool) []string {
	prev := map[string]string{}
	seen := map[string]bool{a: true}
	q := []string{a}
	for len(q) > 0 {
		v := q[0]
		q = q[1:]
		for _, w := range sortedKeys(succ[v]) {
			if w == b {
				p := []string{b}
				for x := v; ; x = prev[x] {
					p = append([]string{x}, p...)
					if x == a {
						return p
					}
				}
			}
			if !seen[w] {
				seen[w] = true
				prev[w] = v
				q = append(q, w)
			}
		}
	}
	return nil
}

// ---------------------------------------------------------------------------
// C18 rules
// ---------------------------------------------------------------------------

// c18ShortFn strips the module path for construct keys.
func (e *c18Engine) fnKey(fn *ssa.Function) string { return e.w.FuncName(fn) }

func (e *c18Engine) reportEngine(c *an.Check, rule string) bool {
	for _, a := range e.anchors {
		c.Anchor("%s", a)
	}
	seen := map[string]bool{}
	for _, u := range e.unknown {
		k := e.w.FuncName(u.fn) + ": " + u.what
		if seen[k] {
			continue
		}
		seen[k] = true
		c.Unknown(rule, e.w.FuncName(u.fn)+" lock shape", e.w.Pos(u.pos), u.what)
	}
	return len(e.anchors) == 0
}

func runC18(c *an.Check) {
	c.Rule("C18.R1", "the lock-order graph over lock classes (edge A->B: B is acquired, directly or through MayAcquire of a synchronous callee, while A is held) has no cycle and no self-loop; one obligation per edge instance (A -> B, holding function, acquiring function)")
	c.Rule("C18.R2", "no dynamic call (callback field, observer interface) that can reach the acquisition of the per-swap event mutex is made while a component lock is held that is itself acquired under the event mutex")
	c.Rule("C18.R3", "no synchronous call path from an Action.Execute reaches SendEvent/Recover (actions run under the per-swap mutex)")
	w := c.W
	e := c18Get(w)
	if !e.reportEngine(c, "C18.R1") {
		return
	}
	sendEvent := w.Func("swap", "(*SwapStateMachine).SendEvent")
	recoverFn := w.Func("swap", "(*SwapStateMachine).Recover")
	actionT := w.Named("swap", "Action")
	if sendEvent == nil || recoverFn == nil || actionT == nil || !e.in[sendEvent] || !e.in[recoverFn] {
		c.Anchor("swap.(*SwapStateMachine).SendEvent / Recover / swap.Action do not resolve")
		return
	}

	// ---- inventory / vacuity -------------------------------------------------
	classes := map[string]bool{}
	nAcq := 0
	for _, fn := range e.funcs {
		for _, a := range e.fi[fn].acqs {
			classes[a.class] = true
			nAcq++
		}
	}
	c.Extra["lock_classes"] = sortedKeys(classes)
	c.Extra["acquisition_sites"] = nAcq
	c.Extra["analysed_functions"] = len(e.funcs)
	c.AtLeast("C18.R1", "lock classes acquired in production code", len(classes), 14)
	// semantic count: (function, lock class) pairs where the function takes the
	// lock itself or through a wrapper - stable under wrapper/dedup refactors
	nHold := 0
	for _, fn := range e.funcs {
		m := map[string]bool{}
		for k := range e.fi[fn].acquired {
			m[c18Base(k)] = true
		}
		for k := range e.fi[fn].viaWrapper {
			m[c18Base(k)] = true
		}
		nHold += len(m)
	}
	c.Extra["lock_holding_functions"] = nHold
	c.AtLeast("C18.R1", "(function, lock class) pairs that take a lock", nHold, 45)

	// the event mutex: what SendEvent itself locks with nothing held and releases by defer
	eventLocks := map[string]bool{}
	for _, a := range e.fi[sendEvent].acqs {
		if len(a.may) == 0 && e.fi[sendEvent].deferredUnlock[a.class] {
			eventLocks[a.class] = true
		}
	}
	if len(eventLocks) != 1 {
		c.Anchor("C18: SendEvent does not hold exactly one deferred-unlocked mutex (found %v)", sortedKeys(eventLocks))
		return
	}
	eventLock := sortedKeys(eventLocks)[0]

	// functions whose lock state contains an unsupported shape
	unsure := map[*ssa.Function]bool{}
	for _, u := range e.unknown {
		if u.state {
			unsure[u.fn] = true
		}
	}

	// ---- R1 ----------------------------------------------------------------------
	edges := e.edges()
	succ := map[string]map[string]bool{}
	nodes := map[string]bool{}
	for cl := range classes {
		nodes[cl] = true
	}
	for _, ed := range edges {
		if succ[ed.from] == nil {
			succ[ed.from] = map[string]bool{}
		}
		succ[ed.from][ed.to] = true
		nodes[ed.from], nodes[ed.to] = true, true
	}
	comp := c18SCC(sortedKeys(nodes), succ)
	compSize := map[int]int{}
	for _, k := range comp {
		compSize[k]++
	}
	onCycle := func(a, b string) bool {
		if a == b {
			return true
		}
		return comp[a] == comp[b] && compSize[comp[a]] > 1
	}
	// one witness instance per class edge, for rendering the closing paths
	witness := map[string]*c18Edge{}
	for _, ed := range edges {
		k := ed.from + "->" + ed.to
		if o, ok := witness[k]; !ok || len(ed.path) < len(o.path) {
			witness[k] = ed
		}
	}
	c.AtLeast("C18.R1", "lock-order edges (class pairs)", len(witness), 10)
	nEdgeInst := 0
	okEdges := map[string]int{}
	for _, ed := range edges {
		nEdgeInst++
		if !onCycle(ed.from, ed.to) {
			okEdges[ed.from+" -> "+ed.to]++
			continue
		}
		cons := fmt.Sprintf("%s -> %s: held in %s via %s, acquired in %s", ed.from, ed.to, e.fnKey(ed.holder), ed.via, e.fnKey(ed.acquirer))
		var path []string
		path = append(path, "inner acquisition:")
		path = append(path, e.renderPath(ed.path)...)
		var detail string
		if ed.from == ed.to {
			detail = fmt.Sprintf("self-deadlock: %s is not reentrant and is acquired again (class level) on a synchronous path that starts where it is already held", ed.from)
		} else {
			back := c18ClassPath(ed.to, ed.from, succ)
			detail = fmt.Sprintf("lock-order cycle %s -> %s: a second thread takes the locks in the opposite order", ed.from, strings.Join(back, " -> "))
			for i := 0; i+1 < len(back); i++ {
				wt := witness[back[i]+"->"+back[i+1]]
				if wt == nil {
					continue
				}
				path = append(path, fmt.Sprintf("closing edge %s -> %s:", back[i], back[i+1]))
				path = append(path, e.renderPath(wt.path)...)
			}
		}
		if unsure[ed.holder] || unsure[ed.acquirer] {
			c.Unknown("C18.R1", cons, w.Pos(ed.pos), "possible "+detail+" - but the lock state of the holding or acquiring function contains an unsupported shape, so this is not established")
			continue
		}
		c.Bad("C18.R1", cons, w.Pos(ed.pos), detail, path...)
	}
	for k, n := range okEdges {
		wt := witness[strings.Replace(k, " -> ", "->", 1)]
		pos := "-"
		if wt != nil {
			pos = w.Pos(wt.pos)
		}
		c.OK("C18.R1", k, pos, fmt.Sprintf("%d edge instance(s); not on a cycle", n))
	}
	c.Extra["edge_instances"] = nEdgeInst

	// ---- R2 ----------------------------------------------------------------------
	nDynUnder := 0
	for _, fn := range e.funcs {
		for _, s := range e.fi[fn].sites {
			if s.isGo || len(s.may) == 0 {
				continue
			}
			ci := w.Info(s.instr)
			if ci.Static != nil {
				continue
			}
			if ci.Name == fxActionExecute {
				continue // the dispatcher itself; re-entry from actions is R3
			}
			reaches := false
			for _, cl := range e.MayAcquire(s) {
				if cl == eventLock {
					reaches = true
				}
			}
			if !reaches {
				continue
			}
			nDynUnder++
			for _, h := range s.may.classes() {
				cons := fmt.Sprintf("%s calls %s holding %s", e.fnKey(fn), s.name, h)
				if h == eventLock {
					continue // re-acquisition under the event mutex itself is R1 (self-loop) / R3
				}
				if e.releasedBefore(s, eventLock, h) {
					continue // the callee releases h before it reaches the event mutex
				}
				if !(succ[eventLock][h] || c18ClassPath(eventLock, h, succ) != nil) {
					c.OK("C18.R2", cons, w.Pos(s.instr.Pos()), "the callback can take the event mutex, but "+h+" is never acquired under the event mutex (nesting only)")
					continue
				}
				paths := e.pathsToAcq(s.callees, eventLock)
				var path []string
				for _, q := range sortedFuncs(paths) {
					path = append(path, e.renderPath(append([]c18Hop{{fn, s.instr.Pos(), "holding " + h + " calls " + c18SiteName(s)}}, paths[q]...))...)
					break
				}
				back := c18ClassPath(eventLock, h, succ)
				for i := 0; i+1 < len(back); i++ {
					if wt := witness[back[i]+"->"+back[i+1]]; wt != nil {
						path = append(path, fmt.Sprintf("and %s is taken under %s:", back[i+1], back[i]))
						path = append(path, e.renderPath(wt.path)...)
					}
				}
				if unsure[fn] {
					c.Unknown("C18.R2", cons, w.Pos(s.instr.Pos()), "possible callback under lock, but the lock state of this function contains an unsupported shape")
					continue
				}
				c.Bad("C18.R2", cons, w.Pos(s.instr.Pos()),
					fmt.Sprintf("callback under lock: %s is held across a dynamic call that reaches the acquisition of %s, and %s is acquired under %s by event handling", h, eventLock, h, eventLock), path...)
			}
		}
	}
	c.AtLeast("C18.R2", "dynamic calls under a lock that reach the event mutex", nDynUnder, 1)

	// ---- R3 ----------------------------------------------------------------------
	execs := e.actionExecs(actionT)
	c.AtLeast("C18.R3", "Action.Execute implementations", len(execs), 26)
	isExec := map[*ssa.Function]bool{}
	for _, f := range execs {
		isExec[f] = true
	}
	targets := map[*ssa.Function]bool{sendEvent: true, recoverFn: true}
	for _, ex := range execs {
		p := e.syncPath(ex, targets, isExec)
		cons := e.fnKey(ex)
		if p == nil {
			c.OK("C18.R3", cons, w.Pos(ex.Pos()), "no synchronous path into SendEvent/Recover")
			continue
		}
		c.Bad("C18.R3", cons+" re-enters "+e.fnKey(p[len(p)-1].fn), w.Pos(ex.Pos()),
			"the action runs under the per-swap mutex (SendEvent) and synchronously reaches SendEvent/Recover of a machine of the same class: the goroutine blocks on the mutex it holds",
			e.renderPath(p)...)
	}
	// the dispatcher really runs actions under the event mutex (premise of R3)
	disp := false
	for _, s := range e.fi[sendEvent].sites {
		if s.name == fxActionExecute && s.must.holds(eventLock, false) {
			disp = true
		}
	}
	if !disp {
		c.Note("C18.R3", "dispatcher", w.Pos(sendEvent.Pos()), "SendEvent no longer calls Action.Execute with the event mutex held; R3 is stricter than needed")
	}

	// ---- R4 ----------------------------------------------------------------------
	e.ruleR4(c, succ)
}

func sortedFuncs(m map[*ssa.Function][]c18Hop) []*ssa.Function {
	var out []*ssa.Function
	for f := range m {
		out = append(out, f)
	}
	sort.Slice(out, func(i, j int) bool {
		if len(m[out[i]]) != len(m[out[j]]) {
			return len(m[out[i]]) < len(m[out[j]])
		}
		return out[i].String() < out[j].String()
	})
	return out
}

// actionExecs lists the Execute methods of production types implementing swap.Action.
func (e *c18Engine) actionExecs(action *types.Named) []*ssa.Function {
	it, ok := action.Underlying().(*types.Interface)
	if !ok {
		return nil
	}
	var out []*ssa.Function
	seen := map[*ssa.Function]bool{}
	for _, p := range e.w.Pkgs {
		rel, ok := e.w.Rel(p.PkgPath)
		if !ok || an.IsTestSupport(rel) {
			continue
		}
		sc := p.Types.Scope()
		for _, n := range sc.Names() {
			tn, ok := sc.Lookup(n).(*types.TypeName)
			if !ok || tn.IsAlias() {
				continue
			}
			nt, ok := tn.Type().(*types.Named)
			if !ok || types.IsInterface(nt) {
				continue
			}
			if _, ex := e.excluded[nt]; ex {
				continue
			}
			if !types.Implements(nt, it) && !types.Implements(types.NewPointer(nt), it) {
				continue
			}
			f := e.declaredMethod(nt, "Execute")
			if f != nil && f.Blocks != nil && !seen[f] {
				seen[f] = true
				out = append(out, f)
			}
		}
	}
	sort.Slice(out, func(i, j int) bool { return out[i].String() < out[j].String() })
	return out
}

// declaredMethod returns the source-level (non-synthetic) method of nt,
// whether it is declared on the value or on the pointer receiver.
func (e *c18Engine) declaredMethod(nt *types.Named, name string) *ssa.Function {
	for _, t := range []types.Type{nt, types.NewPointer(nt)} {
		ms := e.w.Prog.MethodSets.MethodSet(t)
		for i := 0; i < ms.Len(); i++ {
			if ms.At(i).Obj().Name() != name {
				continue
			}
			if f := e.w.Prog.MethodValue(ms.At(i)); f != nil && f.Synthetic == "" {
				return f
			}
		}
	}
	return nil
}

// syncPath finds a shortest synchronous call path from start to a target,
// not passing through functions in stop (other than start).
func (e *c18Engine) syncPath(start *ssa.Function, targets, stop map[*ssa.Function]bool) []c18Hop {
	type item struct {
		fn   *ssa.Function
		path []c18Hop
	}
	seen := map[*ssa.Function]bool{start: true}
	q := []item{{start, nil}}
	for len(q) > 0 {
		it := q[0]
		q = q[1:]
		fi := e.fi[it.fn]
		if fi == nil {
			continue
		}
		for _, s := range fi.sites {
			if s.isGo {
				continue
			}
			for _, g := range s.callees {
				if seen[g] {
					continue
				}
				seen[g] = true
				p := append(append([]c18Hop{}, it.path...), c18Hop{it.fn, s.instr.Pos(), "calls " + c18SiteName(s) + " => " + e.w.FuncName(g)})
				if targets[g] {
					return append(p, c18Hop{g, g.Pos(), "entered"})
				}
				if stop[g] {
					continue
				}
				q = append(q, item{g, p})
			}
		}
	}
	return nil
}

// ---------------------------------------------------------------------------
// "caller holds" sets (shared with C19)
// ---------------------------------------------------------------------------

// EntryMust returns, per function, the locks held by every synchronous caller
// at every call (go statements and library call-backs contribute the empty set).
func (e *c18Engine) EntryMust() map[*ssa.Function]c18Set {
	if e.entryMust != nil {
		return e.entryMust
	}
	em := map[*ssa.Function]c18Set{}
	top := map[*ssa.Function]bool{}
	for _, fn := range e.funcs {
		if len(e.callers[fn]) > 0 {
			top[fn] = true
		} else {
			em[fn] = c18Set{}
		}
	}
	for changed := true; changed; {
		changed = false
		for _, fn := range e.funcs {
			if len(e.callers[fn]) == 0 {
				continue
			}
			var acc c18Set
			accTop := true
			for _, s := range e.callers[fn] {
				var contrib c18Set
				if s.isGo || s.pseudo {
					contrib = c18Set{}
				} else {
					if top[s.fn] {
						continue // TOP: neutral for the intersection
					}
					contrib = s.must.clone()
					for k := range em[s.fn] {
						if !s.relMay[k] { // not released again by the caller before the call
							contrib[k] = true
						}
					}
				}
				if accTop {
					acc, accTop = contrib, false
				} else {
					for k := range acc {
						if !contrib[k] {
							delete(acc, k)
						}
					}
				}
			}
			if accTop {
				continue
			}
			if top[fn] || !acc.equal(em[fn]) {
				top[fn] = false
				em[fn] = acc
				changed = true
			}
		}
	}
	for _, fn := range e.funcs {
		if top[fn] { // only reachable through call cycles without a root: dead code
			em[fn] = c18Set{}
		}
	}
	e.entryMust = em
	return em
}

// FullAcquire: every lock class a function may acquire, itself or through
// synchronous callees (deferred calls and resolved callbacks included),
// whatever it holds at that moment.
func (e *c18Engine) FullAcquire() map[*ssa.Function]c18Set {
	if e.fullAcq != nil {
		return e.fullAcq
	}
	fa := map[*ssa.Function]c18Set{}
	for _, fn := range e.funcs {
		fa[fn] = c18Set{}
		for _, a := range e.fi[fn].acqs {
			fa[fn][a.class] = true
		}
	}
	for changed := true; changed; {
		changed = false
		for _, fn := range e.funcs {
			for _, s := range e.fi[fn].sites {
				if s.isGo {
					continue
				}
				for _, g := range s.callees {
					for c := range fa[g] {
						if !fa[fn][c] {
							fa[fn][c] = true
							changed = true
						}
					}
				}
			}
		}
	}
	e.fullAcq = fa
	return fa
}

// ---------------------------------------------------------------------------
// C18.R4: blocking channel operation under a lock
// ---------------------------------------------------------------------------

type c18Arm struct {
	ch   ssa.Value
	send bool
}

type c18ChanOp struct {
	fn          *ssa.Function
	instr       ssa.Instruction
	pos         token.Pos
	arms        []c18Arm
	blocking    bool
	isSelect    bool
	may, relMay c18Set
}

// chanKey names the place a channel value lives in ("" = not identifiable).
func (e *c18Engine) chanKey(fn *ssa.Function, v ssa.Value) string {
	switch x := v.(type) {
	case *ssa.MakeChan:
		n := 0
		for _, b := range fn.Blocks {
			for _, in := range b.Instrs {
				if mc, ok := in.(*ssa.MakeChan); ok {
					if mc == x {
						return fmt.Sprintf("make:%s#%d", e.w.FuncName(fn), n)
					}
					n++
				}
			}
		}
	case *ssa.Parameter:
		for i, p := range fn.Params {
			if p == x {
				return fmt.Sprintf("param:%s#%d", e.w.FuncName(fn), i)
			}
		}
	case *ssa.FreeVar:
		for i, p := range fn.FreeVars {
			if p == x {
				return fmt.Sprintf("freevar:%s#%d", e.w.FuncName(fn), i)
			}
		}
	case *ssa.Alloc:
		return fmt.Sprintf("cell:%s:%s@%d", e.w.FuncName(fn), x.Comment, x.Pos())
	case *ssa.Global:
		return "global:" + x.String()
	case *ssa.Field:
		return "field:" + an.FieldName(x.X.Type(), x.Field)
	case *ssa.FieldAddr:
		return "field:" + an.FieldName(x.X.Type(), x.Field)
	case *ssa.UnOp:
		if x.Op == token.MUL {
			return e.chanKey(fn, x.X)
		}
	case *ssa.Phi:
		return fmt.Sprintf("phi:%s:%s", e.w.FuncName(fn), x.Name())
	case *ssa.ChangeType:
		return e.chanKey(fn, x.X)
	case *ssa.Convert:
		return e.chanKey(fn, x.X)
	case *ssa.Call:
		return "call:" + e.w.Info(x).Name
	case *ssa.Extract:
		if call, ok := x.Tuple.(*ssa.Call); ok {
			return fmt.Sprintf("call:%s#%d", e.w.Info(call).Name, x.Index)
		}
	}
	return ""
}

func c18IsChan(t types.Type) bool {
	_, ok := t.Underlying().(*types.Chan)
	return ok
}

func (e *c18Engine) ufFind(k string) string {
	for {
		p, ok := e.chanUF[k]
		if !ok || p == k {
			return k
		}
		k = p
	}
}

func (e *c18Engine) ufUnion(a, b string) {
	if a == "" || b == "" {
		return
	}
	ra, rb := e.ufFind(a), e.ufFind(b)
	if ra == rb {
		return
	}
	if ra < rb {
		ra, rb = rb, ra
	}
	e.chanUF[ra] = rb
}

// chanClasses merges the places one channel flows through: a make, the struct
// fields and variables it is stored in, the parameters and captured variables
// it is passed as.
func (e *c18Engine) chanClasses() {
	if e.chanUF != nil {
		return
	}
	e.chanUF = map[string]string{}
	for _, fn := range e.funcs {
		for _, b := range fn.Blocks {
			for _, in := range b.Instrs {
				switch x := in.(type) {
				case *ssa.Store:
					if c18IsChan(x.Val.Type()) {
						e.ufUnion(e.chanKey(fn, x.Addr), e.chanKey(fn, x.Val))
					}
				case *ssa.Phi:
					if c18IsChan(x.Type()) {
						for _, ed := range x.Edges {
							e.ufUnion(e.chanKey(fn, x), e.chanKey(fn, ed))
						}
					}
				case *ssa.MakeClosure:
					f, _ := x.Fn.(*ssa.Function)
					if f == nil {
						continue
					}
					for i, bv := range x.Bindings {
						if i < len(f.FreeVars) && (c18IsChan(bv.Type()) || c18IsChan(c18Deref(bv.Type()))) {
							e.ufUnion(e.chanKey(fn, bv), e.chanKey(f, f.FreeVars[i]))
						}
					}
				case ssa.CallInstruction:
					cc := x.Common()
					var callees []*ssa.Function
					callees = append(callees, e.callees[x]...)
					if f := cc.StaticCallee(); f != nil && e.in[f] {
						callees = append(callees, f)
					}
					for _, g := range callees {
						for i, p := range g.Params {
							if !c18IsChan(p.Type()) {
								continue
							}
							var av ssa.Value
							switch {
							case cc.IsInvoke() && i >= 1 && i-1 < len(cc.Args):
								av = cc.Args[i-1]
							case !cc.IsInvoke() && len(cc.Args) == len(g.Params):
								av = cc.Args[i]
							}
							if av != nil {
								e.ufUnion(e.chanKey(fn, av), e.chanKey(g, p))
							}
						}
					}
				}
			}
		}
	}
}

// chanClass returns the class of a channel value and a readable name for it.
func (e *c18Engine) chanClass(fn *ssa.Function, v ssa.Value) string {
	e.chanClasses()
	k := e.chanKey(fn, v)
	if k == "" {
		return ""
	}
	return e.ufFind(k)
}

// className prefers a struct field of the class as its name.
func (e *c18Engine) chanClassName(class string) string {
	best := ""
	consider := func(k string) {
		if e.ufFind(k) != class {
			return
		}
		if strings.HasPrefix(k, "field:") && (best == "" || !strings.HasPrefix(best, "field:") || k < best) {
			best = k
		} else if best == "" || (!strings.HasPrefix(best, "field:") && k < best) {
			best = k
		}
	}
	consider(class)
	keys := make([]string, 0, len(e.chanUF))
	for k := range e.chanUF {
		keys = append(keys, k)
	}
	sort.Strings(keys)
	for _, k := range keys {
		consider(k)
	}
	return strings.TrimPrefix(best, "field:")
}

// c18LibraryChan: channels made by the standard library; timeout says the
// channel is guaranteed to become ready (a bounded wait).
func c18LibraryChan(class string) (lib, timeout bool) {
	switch {
	case strings.HasPrefix(class, "call:func:time.After"), class == "field:Timer.C", class == "field:Ticker.C":
		return true, true
	case strings.HasPrefix(class, "call:"):
		return true, false // e.g. ctx.Done(): does not make the wait non-blocking
	}
	return false, false
}

// beforeFirst lists the instructions of fn that can execute before target is
// reached for the first time.
func c18BeforeFirst(fn *ssa.Function, target ssa.Instruction) map[ssa.Instruction]bool {
	out := map[ssa.Instruction]bool{}
	if len(fn.Blocks) == 0 {
		return out
	}
	seen := map[*ssa.BasicBlock]bool{}
	work := []*ssa.BasicBlock{fn.Blocks[0]}
	seen[fn.Blocks[0]] = true
	for len(work) > 0 {
		b := work[len(work)-1]
		work = work[:len(work)-1]
		stop := false
		for _, in := range b.Instrs {
			if in == target {
				stop = true
				break
			}
			out[in] = true
		}
		if stop {
			continue
		}
		for _, s := range b.Succs {
			if !seen[s] {
				seen[s] = true
				work = append(work, s)
			}
		}
	}
	return out
}

// needsLock: can function r (the goroutine code around a counterpart channel
// operation) need lock h? only = restrict to these instructions (nil = all).
// Returns the class it acquires and, when that is not h itself, the lock-order
// path from it to h.
func (e *c18Engine) needsLock(r *ssa.Function, h string, succ map[string]map[string]bool, only map[ssa.Instruction]bool) (string, []string) {
	fa := e.FullAcquire()
	cand := c18Set{}
	fi := e.fi[r]
	for _, a := range fi.acqs {
		if only == nil || only[a.instr] {
			cand[a.class] = true
		}
	}
	for _, s := range fi.sites {
		if s.isGo {
			continue
		}
		if only != nil && !only[s.instr] && !s.isDefer {
			continue
		}
		if only != nil && s.isDefer {
			continue // deferred calls run at exit, after the first counterpart operation
		}
		for _, g := range s.callees {
			for c := range fa[g] {
				cand[c] = true
			}
		}
	}
	if cand[h] {
		return h, nil
	}
	for _, x := range cand.sorted() {
		if p := c18ClassPath(x, h, succ); p != nil {
			return x, p
		}
	}
	return "", nil
}

func (e *c18Engine) ruleR4(c *an.Check, succ map[string]map[string]bool) {
	w := c.W
	c.Rule("C18.R4", "no blocking channel operation (send, receive, select without default) is executed while a lock is held whose class the goroutine performing the counterpart operation on that channel can need (acquires it itself, in a deferred function or a callee, or acquires a lock from which it is reachable in the lock order) before it gets back to the counterpart operation or on its exit path")
	e.chanClasses()
	em := e.EntryMust()
	unsure := map[*ssa.Function]bool{}
	for _, u := range e.unknown {
		if u.state {
			unsure[u.fn] = true
		}
	}
	// all channel operations by class and direction
	type opArm struct {
		op  *c18ChanOp
		arm c18Arm
	}
	byClass := map[string][]opArm{}
	nOps := 0
	for _, fn := range e.funcs {
		for _, op := range e.fi[fn].chanOps {
			nOps++
			for _, a := range op.arms {
				if cl := e.chanClass(fn, a.ch); cl != "" {
					byClass[cl] = append(byClass[cl], opArm{op, a})
				}
			}
		}
	}
	c.Extra["channel_operations"] = nOps
	examined := 0
	for _, fn := range e.funcs {
		for _, op := range e.fi[fn].chanOps {
			if !op.blocking {
				continue
			}
			held := c18Set{}
			for _, h := range op.may.classes() {
				held[h] = true
			}
			for k := range em[fn] {
				if !op.relMay[k] {
					held[c18Base(k)] = true
				}
			}
			if len(held) == 0 {
				continue
			}
			examined++
			kind := "receives from"
			if op.isSelect {
				kind = "selects on"
			} else if op.arms[0].send {
				kind = "sends on"
			}
			// classify the arms
			type armInfo struct {
				arm   c18Arm
				class string
			}
			var arms []armInfo
			timeout, unknownArm := false, false
			var names []string
			for _, a := range op.arms {
				cl := e.chanClass(fn, a.ch)
				if cl == "" {
					unknownArm = true
					names = append(names, "?")
					continue
				}
				lib, to := c18LibraryChan(cl)
				if to {
					timeout = true
				}
				if lib {
					names = append(names, strings.TrimPrefix(strings.TrimPrefix(cl, "call:"), "field:"))
					continue
				}
				arms = append(arms, armInfo{a, cl})
				names = append(names, e.chanClassName(cl))
			}
			cons := fmt.Sprintf("%s %s %s holding %s", e.fnKey(fn), kind, strings.Join(names, ", "), strings.Join(held.sorted(), ", "))
			pos := w.Pos(op.pos)
			switch {
			case timeout:
				c.OK("C18.R4", cons, pos, "a timer arm bounds the wait")
				continue
			case unknownArm:
				c.Unknown("C18.R4", cons, pos, "a channel of this operation cannot be identified (not a field, variable, parameter or make)")
				continue
			case len(arms) == 0:
				c.Unknown("C18.R4", cons, pos, "waits only on library channels while holding a lock; whether their counterpart needs the lock is not decided")
				continue
			}
			// every module-channel arm must be stuck for the wait to be a deadlock
			allStuck := true
			var detail []string
			var path []string
			undecided := ""
			okWhy := ""
			for _, ai := range arms {
				stuck := false
				var counterparts []opArm
				for _, oa := range byClass[ai.class] {
					if oa.arm.send != ai.arm.send && oa.op != op {
						counterparts = append(counterparts, oa)
					}
				}
				if len(counterparts) == 0 {
					undecided = "no counterpart operation on " + e.chanClassName(ai.class) + " in the analysed code"
					continue
				}
				// buffered hand-over: every make of the class has constant capacity >= 1 and this is its only send, outside a loop
				if ai.arm.send && e.bufferedSingleSend(ai.class, op, byClass[ai.class] != nil, func() int {
					n := 0
					for _, oa := range byClass[ai.class] {
						if oa.arm.send {
							n++
						}
					}
					return n
				}()) {
					okWhy = "the channel is buffered and this is its only send"
					continue
				}
				handshake := ai.arm.send && e.isHandshake(fn, op, ai.arm.ch)
				for _, cp := range counterparts {
					r := cp.op.fn
					var only map[ssa.Instruction]bool
					if handshake {
						only = c18BeforeFirst(r, cp.op.instr)
					}
					for _, h := range held.sorted() {
						got, lp := e.needsLock(r, h, succ, only)
						if got == "" {
							continue
						}
						if unsure[r] {
							undecided = "the lock state of " + e.fnKey(r) + " contains an unsupported shape"
							continue
						}
						stuck = true
						d := fmt.Sprintf("%s (counterpart at %s) can need %s", e.fnKey(r), w.Pos(cp.op.pos), got)
						if lp != nil {
							d += ", and " + strings.Join(lp, " -> ") + " in the lock order"
						}
						detail = append(detail, d)
						path = append(path, fmt.Sprintf("%s [%s] %s %s holding %s", e.fnKey(fn), pos, kind, e.chanClassName(ai.class), h))
						path = append(path, fmt.Sprintf("%s [%s] performs the counterpart operation and can block on %s (held by the waiting goroutine, directly or through the lock order)", e.fnKey(r), w.Pos(cp.op.pos), got))
					}
				}
				if !stuck {
					allStuck = false
					if handshake && okWhy == "" {
						okWhy = "hand-over to the goroutine started in this function on a channel made here: the goroutine reaches its first receive without needing the lock (assumes no other sender reaches the channel before this send)"
					}
				}
			}
			switch {
			case unsure[fn]:
				c.Unknown("C18.R4", cons, pos, "the lock state of this function contains an unsupported shape")
			case allStuck && len(detail) > 0:
				c.Bad("C18.R4", cons, pos, "blocking channel operation under a lock whose counterpart can need that lock: the waiting goroutine never releases it and the counterpart never gets back to the channel; "+strings.Join(c19LimitStr(detail, 4), "; "), path...)
			case undecided != "" && len(detail) == 0 && okWhy == "":
				c.Unknown("C18.R4", cons, pos, undecided)
			default:
				if okWhy == "" {
					okWhy = "no goroutine performing the counterpart operation needs a held lock"
				}
				c.OK("C18.R4", cons, pos, okWhy)
			}
		}
	}
	c.Extra["channel_operations_under_lock"] = examined
	c.AtLeast("C18.R4", "blocking channel operations under a lock examined", examined, 1)
}

func c19LimitStr(s []string, n int) []string {
	if len(s) <= n {
		return s
	}
	return append(append([]string{}, s[:n]...), fmt.Sprintf("... (%d more)", len(s)-n))
}

// isHandshake: the send is the single hand-over to a goroutine started in the
// same function on a channel made in the same function (so it pairs with the
// goroutine's first receive).
func (e *c18Engine) isHandshake(fn *ssa.Function, op *c18ChanOp, ch ssa.Value) bool {
	mk, ok := ch.(*ssa.MakeChan)
	if !ok || mk.Parent() != fn {
		return false
	}
	// not in a loop
	if an.ReachBlocks(op.instr.Block().Succs, nil, nil)[op.instr.Block()] {
		return false
	}
	// a go statement of this function receives the channel as argument
	started := false
	sends := 0
	for _, b := range fn.Blocks {
		for _, in := range b.Instrs {
			switch x := in.(type) {
			case *ssa.Go:
				for _, a := range x.Call.Args {
					if a == mk {
						started = true
					}
				}
			case *ssa.Send:
				if x.Chan == mk {
					sends++
				}
			case *ssa.Select:
				for _, st := range x.States {
					if st.Chan == mk && st.Dir == types.SendOnly {
						sends++
					}
				}
			}
		}
	}
	return started && sends == 1
}

// bufferedSingleSend: the class has only makes with a constant capacity >= 1
// and exactly one send site, which is outside any loop.
func (e *c18Engine) bufferedSingleSend(class string, op *c18ChanOp, _ bool, nSends int) bool {
	if nSends != 1 || an.ReachBlocks(op.instr.Block().Succs, nil, nil)[op.instr.Block()] {
		return false
	}
	makes, ok := 0, true
	for _, fn := range e.funcs {
		for _, b := range fn.Blocks {
			for _, in := range b.Instrs {
				mc, isMk := in.(*ssa.MakeChan)
				if !isMk || e.chanClass(fn, mc) != class {
					continue
				}
				makes++
				if n, isConst := an.ConstInt(mc.Size); !isConst || n < 1 {
					ok = false
				}
			}
		}
	}
	return ok && makes > 0
}
