package rules

import (
	"fmt"
	"go/token"
	"go/types"
	"sort"
	"strings"

	"golang.org/x/tools/go/ssa"

	"psv/internal/an"
)

// C05 — the Bitcoin claim HTLC expires before the maker's CSV refund.
//
// The heights are run-time values, but the code touches them only through
// comparisons with constants, so the worst case over ALL heights, invoices and
// both back-ends is a constant expression. R1 extracts the constants from the
// guards (not from their spelling: from the normalised comparison that
// dominates the payment / the watch registration on the Bitcoin branch), R2
// evaluates  Wmax + Fmax + R < CSV.
//
// Frozen repo-specific knowledge, each resolved on every run (exit 2 if not):
// chain selector (*SwapData).GetChain with values "btc"/"lbtc"; the service
// selector (*SwapServices).getOnChainServices; the script builder
// onchain.ParamsToTxScript as used by (*onchain.BitcoinOnChain).ValidateTx;
// the two external fields that carry the CLTV a back-end sends
// (glightning.RouteHop.Delay, routerrpc.SendPaymentRequest.CltvLimit) and the
// two places the invoice's final CLTV is read from.
const (
	c05GetChain   = "func:(*swap.SwapData).GetChain"
	c05Policy     = "func:(*swap.SwapData).getTimelockPolicy"
	c05Services   = "func:(*swap.SwapServices).getOnChainServices"
	c05CSVHeight  = "iface:swap.Validator.GetCSVHeight"
	c05Script     = "func:onchain.ParamsToTxScript"
	c05HeightTerm = "call:" + fxBlockHeight + "#0"
	c05StartTerm  = "field:SwapData.StartingBlockHeight"
	c05FinalTerm  = "call:" + fxDecodePayreq + "#2"
	c05Bitcoin    = "btc"
	c05Liquid     = "lbtc"
)

var c05SentCLTVFields = map[string]bool{"RouteHop.Delay": true, "SendPaymentRequest.CltvLimit": true}
var c05FinalCLTVTerms = []string{"field:DecodedBolt11.MinFinalCltvExpiry", "lnrpc.PayReq).GetCltvExpiry"}

func init() {
	Register(&Prop{
		ID:   "C05",
		Expl: "Decides the worst case of the Bitcoin timelock arithmetic as a constant expression extracted from the guards of the pinned tree: (R1) CSV = the constant the taker's own validator puts into the opening script it accepts; the constant GetCSVHeight of every type wired as SwapServices.bitcoinValidator in the two mains; Fmax = the largest invoice final CLTV that passes the comparison dominating the confirmation-watch registration on the Bitcoin branch; Wmax = the largest now-start that passes the comparison dominating the claim-payment call on the Bitcoin branch, on the first and on every later attempt, with `now` read in the same attempt; R = per back-end, the constant added to the invoice's final CLTV in the CLTV value placed into the outgoing route/request on the unlimited (limit == 0, i.e. Bitcoin) path. (R2) Wmax + Fmax + R < CSV for every back-end — the latest block at which the HTLC can still be settled (start+Wmax+Fmax+R, taking the most favourable admissible confirmation height conf = start) is strictly below the first block in which a CSV refund can confirm (conf+CSV). The extracted constants are part of the construct, so any change of any of them is a different obligation.",
		NotD: "Actual heights at run time; whether the opening transaction confirmed at or after StartingBlockHeight (no confirmation height ever reaches package swap, so R2 is evaluated for the most favourable case conf = start; an earlier confirmation only makes the violation larger); lnd/CLN internals (how cltv_limit / route delay are applied); reorganisations.",
		Run:  runC05,
	})
}

// ---- small helpers (self-contained copy; the rule files are independent) ---------------

type c05Lin struct {
	T    map[string]int64
	C    int64
	Leaf map[string]ssa.Value
}

func (l c05Lin) String() string {
	var ks []string
	for k := range l.T {
		ks = append(ks, k)
	}
	sort.Strings(ks)
	var sb strings.Builder
	for _, k := range ks {
		fmt.Fprintf(&sb, "%+d*%s ", l.T[k], k)
	}
	fmt.Fprintf(&sb, "%+d", l.C)
	return sb.String()
}

func c05IsInt(t types.Type) bool {
	b, ok := t.Underlying().(*types.Basic)
	return ok && b.Info()&types.IsInteger != 0
}

// c05Env knows how to fold the validator's CSV.
type c05Env struct {
	w      *an.World
	csv    int64 // constant GetCSVHeight of the wired Bitcoin validator
	csvOK  bool
	valIdx int // result index of the Validator in getOnChainServices
}

// csvCall reports whether call is GetCSVHeight on the validator selected by
// getOnChainServices(swap.GetChain()).
func (e *c05Env) csvCall(call *ssa.Call) bool {
	w := e.w
	if !e.csvOK || w.Info(call).Name != c05CSVHeight {
		return false
	}
	recv := call.Call.Value
	ex, ok := recv.(*ssa.Extract)
	if !ok || ex.Index != e.valIdx {
		return false
	}
	sel, ok := ex.Tuple.(*ssa.Call)
	if !ok || w.Info(sel).Name != c05Services || len(sel.Call.Args) != 2 || w.Term(sel.Call.Args[1]) != "call:"+c05GetChain {
		return false
	}
	// The fold is only used for facts on Bitcoin paths (c05Bounds cuts every edge
	// on which the chain is known not to be Bitcoin), where the selector returns
	// the Bitcoin validator; GetChain is assumed stable within one action.
	return true
}

// linear builds Σ coef·term + c with GetCSVHeight of the Bitcoin validator and
// divisions of constants folded.
func (e *c05Env) linear(v ssa.Value) c05Lin {
	w := e.w
	out := c05Lin{T: map[string]int64{}, Leaf: map[string]ssa.Value{}}
	var constOf func(v ssa.Value, depth int) (int64, bool)
	constOf = func(v ssa.Value, depth int) (int64, bool) {
		if i, ok := an.ConstInt(v); ok {
			return i, true
		}
		if depth > 10 {
			return 0, false
		}
		switch x := v.(type) {
		case *ssa.Convert:
			if c05IsInt(x.Type()) && c05IsInt(x.X.Type()) {
				return constOf(x.X, depth+1)
			}
		case *ssa.ChangeType:
			return constOf(x.X, depth+1)
		case *ssa.Call:
			if e.csvCall(x) {
				return e.csv, true
			}
		case *ssa.UnOp:
			if x.Op == token.MUL {
				if al, ok := x.X.(*ssa.Alloc); ok && al.Referrers() != nil {
					var st []ssa.Value
					for _, r := range *al.Referrers() {
						if s, ok := r.(*ssa.Store); ok && s.Addr == al {
							st = append(st, s.Val)
						}
					}
					if len(st) == 1 {
						return constOf(st[0], depth+1)
					}
				}
			}
		case *ssa.BinOp:
			a, aok := constOf(x.X, depth+1)
			b, bok := constOf(x.Y, depth+1)
			if aok && bok {
				switch x.Op {
				case token.ADD:
					return a + b, true
				case token.SUB:
					return a - b, true
				case token.MUL:
					return a * b, true
				case token.QUO:
					if b != 0 && a >= 0 && b > 0 {
						return a / b, true
					}
				}
			}
		}
		return 0, false
	}
	var rec func(v ssa.Value, sign int64, depth int)
	rec = func(v ssa.Value, sign int64, depth int) {
		if i, ok := constOf(v, 0); ok {
			out.C += sign * i
			return
		}
		if depth < 10 {
			switch x := v.(type) {
			case *ssa.Convert:
				if c05IsInt(x.Type()) && c05IsInt(x.X.Type()) {
					rec(x.X, sign, depth+1)
					return
				}
			case *ssa.ChangeType:
				rec(x.X, sign, depth+1)
				return
			case *ssa.UnOp:
				if x.Op == token.MUL {
					if al, ok := x.X.(*ssa.Alloc); ok && al.Referrers() != nil {
						var st []ssa.Value
						for _, r := range *al.Referrers() {
							if s, ok := r.(*ssa.Store); ok && s.Addr == al {
								st = append(st, s.Val)
							}
						}
						if len(st) == 1 {
							rec(st[0], sign, depth+1)
							return
						}
					}
				}
			case *ssa.BinOp:
				switch x.Op {
				case token.ADD:
					rec(x.X, sign, depth+1)
					rec(x.Y, sign, depth+1)
					return
				case token.SUB:
					rec(x.X, sign, depth+1)
					rec(x.Y, -sign, depth+1)
					return
				}
			}
		}
		k := w.Term(v)
		out.T[k] += sign
		out.Leaf[k] = v
	}
	rec(v, 1, 0)
	for k, c := range out.T {
		if c == 0 {
			delete(out.T, k)
		}
	}
	return out
}

// c05Ineq is an If-edge fact  Σ coef·term + C  Rel  0, Rel ∈ {">", ">="}.
type c05Ineq struct {
	Edge an.Edge
	L    c05Lin
	Rel  string
	Pos  token.Pos
}

// ineqs re-derives the integer inequalities of fn with the environment's folding.
func (e *c05Env) ineqs(fn *ssa.Function) []c05Ineq {
	var out []c05Ineq
	for _, f := range e.w.Facts(fn) {
		if f.NonNum || f.Terms == nil || f.LV == nil || f.RV == nil {
			continue
		}
		bo, ok := f.Cond.(*ssa.BinOp)
		if !ok {
			continue
		}
		ifi, ok := f.Edge.From.Instrs[len(f.Edge.From.Instrs)-1].(*ssa.If)
		if !ok {
			continue
		}
		neg := false
		for cv := ifi.Cond; ; {
			u, isNot := cv.(*ssa.UnOp)
			if !isNot || u.Op != token.NOT {
				break
			}
			neg = !neg
			cv = u.X
		}
		holds := (f.Edge.Idx == 0) != neg
		op := bo.Op
		if !holds {
			switch op {
			case token.LSS:
				op = token.GEQ
			case token.LEQ:
				op = token.GTR
			case token.GTR:
				op = token.LEQ
			case token.GEQ:
				op = token.LSS
			default:
				continue
			}
		}
		l, r := e.linear(bo.X), e.linear(bo.Y)
		d := c05Lin{T: map[string]int64{}, Leaf: map[string]ssa.Value{}}
		for k, c := range l.T {
			d.T[k] += c
			d.Leaf[k] = l.Leaf[k]
		}
		for k, c := range r.T {
			d.T[k] -= c
			d.Leaf[k] = r.Leaf[k]
		}
		d.C = l.C - r.C
		flip := false
		rel := ""
		switch op {
		case token.GTR:
			rel = ">"
		case token.GEQ:
			rel = ">="
		case token.LSS:
			rel, flip = ">", true
		case token.LEQ:
			rel, flip = ">=", true
		default:
			continue
		}
		if flip {
			for k := range d.T {
				d.T[k] = -d.T[k]
			}
			d.C = -d.C
		}
		for k, c := range d.T {
			if c == 0 {
				delete(d.T, k)
			}
		}
		out = append(out, c05Ineq{Edge: f.Edge, L: d, Rel: rel, Pos: bo.Pos()})
	}
	return out
}

// c05ChainFact: 2 = chain == "btc" holds, 1 = chain is not Liquid (but not
// positively Bitcoin), -1 = chain is not Bitcoin, 0 = unrelated.
func c05ChainFact(f an.Fact) int {
	if !f.NonNum {
		return 0
	}
	other := ""
	switch {
	case strings.HasSuffix(f.L, "call:"+c05GetChain):
		other = f.R
	case strings.HasSuffix(f.R, "call:"+c05GetChain):
		other = f.L
	default:
		return 0
	}
	switch {
	case f.Rel == "==" && other == `"`+c05Bitcoin+`"`:
		return 2
	case f.Rel == "!=" && other == `"`+c05Liquid+`"`:
		return 1
	case f.Rel == "==" && other == `"`+c05Liquid+`"`, f.Rel == "!=" && other == `"`+c05Bitcoin+`"`:
		return -1
	}
	return 0
}

func c05NonBitcoinEdges(w *an.World, fn *ssa.Function) []an.Edge {
	var out []an.Edge
	for _, f := range w.Facts(fn) {
		if c05ChainFact(f) < 0 {
			out = append(out, f.Edge)
		}
	}
	return out
}

func c05Cut(sets ...[]an.Edge) map[an.Edge]bool {
	m := map[an.Edge]bool{}
	for _, s := range sets {
		for _, e := range s {
			m[e] = true
		}
	}
	return m
}

func c05CallOf(v ssa.Value) *ssa.Call {
	for {
		switch x := v.(type) {
		case *ssa.Convert:
			v = x.X
			continue
		case *ssa.ChangeType:
			v = x.X
			continue
		case *ssa.Extract:
			v = x.Tuple
			continue
		}
		break
	}
	call, _ := v.(*ssa.Call)
	return call
}

// c05Impls lists the production implementations of an interface method.
func c05Impls(w *an.World, rel, iface, method string) []*ssa.Function {
	in := w.Named(rel, iface)
	if in == nil {
		return nil
	}
	it, _ := in.Underlying().(*types.Interface)
	if it == nil {
		return nil
	}
	var out []*ssa.Function
	rels := make([]string, 0, len(w.ByRel))
	for r := range w.ByRel {
		rels = append(rels, r)
	}
	sort.Strings(rels)
	for _, r := range rels {
		if an.IsTestSupport(r) {
			continue
		}
		sc := w.ByRel[r].Types.Scope()
		for _, name := range sc.Names() {
			tn, ok := sc.Lookup(name).(*types.TypeName)
			if !ok || tn.IsAlias() {
				continue
			}
			n, ok := tn.Type().(*types.Named)
			if !ok || types.IsInterface(n) {
				continue
			}
			if types.Implements(types.NewPointer(n), it) || types.Implements(n, it) {
				if f := w.Method(n, method); f != nil && f.Blocks != nil {
					out = append(out, f)
				}
			}
		}
	}
	return out
}

// ---- the check -----------------------------------------------------------------------------

func runC05(c *an.Check) {
	c.Rule("C05.R1", "extract from the guards: script CSV, validator CSV (wiring), Fmax (largest accepted invoice final CLTV), Wmax (largest accepted now-start at every payment attempt), route delay R per back-end on the unlimited path")
	c.Rule("C05.R2", "Wmax + Fmax + R < CSV for every back-end (construct carries the extracted constants)")
	if !needEffects(c, fxPay, fxWaitConf, fxBlockHeight, fxDecodePayreq) {
		return
	}
	w := c.W
	for _, n := range []string{"(*SwapData).GetChain", "(*SwapData).getTimelockPolicy", "(*SwapServices).getOnChainServices"} {
		if w.Func("swap", n) == nil {
			c.Anchor("swap.%s does not resolve", n)
			return
		}
	}
	if w.Func("onchain", "(*BitcoinOnChain).ValidateTx") == nil || w.Func("onchain", "ParamsToTxScript") == nil {
		c.Anchor("onchain.(*BitcoinOnChain).ValidateTx / onchain.ParamsToTxScript do not resolve")
		return
	}
	// the chain constants
	got := map[string]bool{}
	for _, r := range an.Returns(w.Func("swap", "(*SwapData).GetChain")) {
		for _, v := range r.Results {
			if s, ok := an.ConstString(v); ok {
				got[s] = true
			} else {
				got["?"] = true
			}
		}
	}
	if !got[c05Bitcoin] || !got[c05Liquid] || got["?"] || len(got) > 3 {
		c.Anchor("(*SwapData).GetChain does not return exactly the constants %q, %q and \"\" (got %v)", c05Bitcoin, c05Liquid, sortedKeys(got))
		return
	}

	env := &c05Env{w: w, valIdx: -1}
	csvScript, okScript := c05ScriptCSV(c)
	c05ValidatorCSV(c, env)
	limitOK := c05BitcoinLimit(c)
	wmax, okW := c05Wmax(c, env)
	fmax, okF := c05Fmax(c, env)
	delays, okR := c05RouteDelays(c)

	if !(okScript && env.csvOK && limitOK && okW && okF && okR) {
		for _, o := range c.Obls {
			if o.Rule == "C05.R1" && o.Verdict == an.Violated {
				c.Note("C05.R2", "btc-claim-htlc-vs-csv", "-", "not evaluated: a bound is missing altogether (see the violated C05.R1 obligation)")
				return
			}
		}
		c.Unknown("C05.R2", "btc-claim-htlc-vs-csv", "-", "not every constant could be extracted (see the C05.R1 obligations); the obligation cannot be evaluated")
		return
	}
	var names []string
	for k := range delays {
		names = append(names, k)
	}
	sort.Strings(names)
	cons := fmt.Sprintf("btc-claim-htlc-vs-csv:Wmax=%d,Fmax=%d", wmax, fmax)
	for _, n := range names {
		cons += fmt.Sprintf(",R[%s]=%d", n, delays[n])
	}
	cons += fmt.Sprintf(",CSV=%d", csvScript)
	var fails, passes []string
	for _, n := range names {
		sum := wmax + fmax + delays[n]
		line := fmt.Sprintf("%s: taker start S, opening tx confirmed at S (most favourable admissible case), invoice final CLTV %d accepted, payment attempt at S+%d accepted, HTLC may stay unsettled until S+%d+%d+%d = S+%d; CSV refund can confirm from S+%d", n, fmax, wmax, wmax, fmax, delays[n], sum, csvScript)
		if sum < csvScript {
			passes = append(passes, line)
		} else {
			fails = append(fails, line+fmt.Sprintf(" (overlap %d blocks)", sum-csvScript+1))
		}
	}
	if env.csv != csvScript {
		fails = append(fails, fmt.Sprintf("the windows are derived from GetCSVHeight()=%d but the accepted script uses CSV=%d", env.csv, csvScript))
	}
	pos := "-"
	if ps := findCallSites(w, fxPay); len(ps) > 0 {
		pos = w.Pos(ps[0].Pos())
	}
	if len(fails) == 0 {
		c.OK("C05.R2", cons, pos, "Wmax+Fmax+R < CSV for every back-end: "+strings.Join(passes, " | "))
	} else {
		c.Bad("C05.R2", cons, pos, "the claim HTLC can outlive the maker's CSV refund: Wmax+Fmax+R >= CSV. "+strings.Join(fails, " | ")+". The maker, who knows the preimage, can refund on-chain and still settle the HTLC. Nothing in package swap relates the payment height to the confirmation height (the confirmation callback carries none), so an opening transaction confirmed before S widens the overlap further.")
	}
	c.Note("C05.R2", "confirmation height vs StartingBlockHeight", "-", "no confirmation height reaches package swap (TxWatcher confirmation callback = (swapId, txHex, err)); the pay-time guard is relative to StartingBlockHeight only; R2 is therefore evaluated for conf = start, the best case for the code")
}

// c05ScriptCSV: the CSV the taker's Bitcoin validator requires in the script it accepts.
func c05ScriptCSV(c *an.Check) (int64, bool) {
	w := c.W
	fn := w.Func("onchain", "(*BitcoinOnChain).ValidateTx")
	calls := callsNamed(w, fn, c05Script)
	if !c.AtLeast("C05.R1", "ParamsToTxScript calls in (*BitcoinOnChain).ValidateTx", len(calls), 1) {
		return 0, false
	}
	vals := map[int64]bool{}
	for _, call := range calls {
		args := call.Common().Args
		if len(args) != 2 {
			c.Unknown("C05.R1", "script CSV", w.Pos(call.Pos()), "ParamsToTxScript no longer takes (params, csv)")
			return 0, false
		}
		v, ok := an.ConstInt(args[1])
		if !ok {
			c.Unknown("C05.R1", "script CSV", w.Pos(call.Pos()), "the CSV of the validated Bitcoin script is not a constant ("+w.Term(args[1])+"): the worst case is not a constant expression any more")
			return 0, false
		}
		vals[v] = true
	}
	if len(vals) != 1 {
		c.Unknown("C05.R1", "script CSV", w.Pos(fn.Pos()), "ValidateTx builds scripts with different CSV constants")
		return 0, false
	}
	for v := range vals {
		c.OK("C05.R1", "script CSV", w.Pos(calls[0].Pos()), fmt.Sprintf("(*BitcoinOnChain).ValidateTx accepts only the script with CSV = %d", v))
		return v, true
	}
	return 0, false
}

// c05ValidatorCSV establishes the wiring fact: getOnChainServices returns the
// field F on the chain == "btc" edge; every production value stored into F is
// a *T whose GetCSVHeight returns one constant.
func c05ValidatorCSV(c *an.Check, env *c05Env) {
	w := c.W
	sel := w.Func("swap", "(*SwapServices).getOnChainServices")
	pos := w.Pos(sel.Pos())
	res := sel.Signature.Results()
	for i := 0; i < res.Len(); i++ {
		if n := an.NamedOf(res.At(i).Type()); n != nil && n.Obj().Name() == "Validator" {
			env.valIdx = i
		}
	}
	if env.valIdx < 0 || len(sel.Params) != 2 {
		c.Unknown("C05.R1", "validator CSV", pos, "getOnChainServices has no Validator result / unexpected parameters")
		return
	}
	field := ""
	for _, r := range an.Returns(sel) {
		excluded := false
		for _, f := range w.FactsDominatingBlock(r.Block()) {
			if !f.NonNum {
				continue
			}
			other := ""
			switch {
			case f.L == "param#1":
				other = f.R
			case f.R == "param#1":
				other = f.L
			default:
				continue
			}
			if (f.Rel == "==" && other != `"`+c05Bitcoin+`"`) || (f.Rel == "!=" && other == `"`+c05Bitcoin+`"`) {
				excluded = true
			}
		}
		if excluded {
			continue
		}
		if len(r.Results) <= env.valIdx {
			continue
		}
		// an error return is fine: callers stop on err != nil
		if last := r.Results[len(r.Results)-1]; an.IsErrorType(last.Type()) && !an.IsNilConst(last) {
			continue
		}
		t := w.Term(r.Results[env.valIdx])
		if !strings.HasPrefix(t, "field:SwapServices.") {
			c.Unknown("C05.R1", "validator CSV", w.Pos(r.Pos()), "for chain \"btc\" getOnChainServices returns "+t+", not a field of SwapServices")
			return
		}
		if field != "" && field != t {
			c.Unknown("C05.R1", "validator CSV", w.Pos(r.Pos()), "two different validators are returned for chain \"btc\"")
			return
		}
		field = t
	}
	if field == "" {
		c.Unknown("C05.R1", "validator CSV", pos, "no return of getOnChainServices is compatible with chain == \"btc\"")
		return
	}
	key := strings.TrimPrefix(field, "field:")
	vals := map[int64]bool{}
	var typs []string
	nW := 0
	for _, st := range w.FieldWriters(key) {
		if an.IsTestSupport(w.FnRel(st.Parent())) {
			continue
		}
		nW++
		prm, ok := st.Val.(*ssa.Parameter)
		if !ok {
			c.Unknown("C05.R1", "validator CSV", w.Pos(st.Pos()), key+" is written with something that is not a constructor parameter")
			return
		}
		idx := -1
		for i, p := range prm.Parent().Params {
			if p == prm {
				idx = i
			}
		}
		sites := findCallSites(w, "func:"+w.FuncName(prm.Parent()))
		if len(sites) == 0 {
			c.Unknown("C05.R1", "validator CSV", w.Pos(st.Pos()), "no production call of "+w.FuncName(prm.Parent()))
			return
		}
		for _, s := range sites {
			a := s.Common().Args[idx]
			mi, ok := a.(*ssa.MakeInterface)
			if !ok {
				c.Unknown("C05.R1", "validator CSV", w.Pos(s.Pos()), "the Bitcoin validator passed here is not a concrete value ("+w.Term(a)+")")
				return
			}
			n := an.NamedOf(mi.X.Type())
			m := w.Method(n, "GetCSVHeight")
			if m == nil || m.Blocks == nil {
				c.Unknown("C05.R1", "validator CSV", w.Pos(s.Pos()), "GetCSVHeight of the wired validator has no body")
				return
			}
			for _, r := range an.Returns(m) {
				v, ok := an.ConstInt(r.Results[0])
				if !ok {
					c.Unknown("C05.R1", "validator CSV", w.Pos(r.Pos()), "GetCSVHeight does not return a constant")
					return
				}
				vals[v] = true
			}
			typs = append(typs, fmt.Sprintf("%s at %s", n.Obj().Name(), w.Pos(s.Pos())))
		}
	}
	if !c.AtLeast("C05.R1", "production wirings of the Bitcoin validator", len(typs), 2) {
		return
	}
	if len(vals) != 1 {
		c.Unknown("C05.R1", "validator CSV", pos, fmt.Sprintf("the wired Bitcoin validators return different CSV heights %v", vals))
		return
	}
	for v := range vals {
		env.csv, env.csvOK = v, true
		c.OK("C05.R1", "validator CSV", pos, fmt.Sprintf("chain \"btc\" selects %s, wired as %s; GetCSVHeight() = %d", key, strings.Join(typs, ", "), v))
	}
}

// c05BitcoinLimit: the Bitcoin policy row leaves the route limit at 0 and that
// field is what the action hands to the back-end, so the back-ends run their
// unlimited path for Bitcoin swaps.
func c05BitcoinLimit(c *an.Check) bool {
	w := c.W
	fn := w.Func("swap", "(*SwapData).getTimelockPolicy")
	n := 0
	ok := true
	for _, r := range an.Returns(fn) {
		if len(r.Results) != 2 || !an.IsNilConst(r.Results[1]) {
			continue
		}
		isBtc := false
		for _, f := range w.FactsDominatingBlock(r.Block()) {
			if c05ChainFact(f) == 2 {
				isBtc = true
			}
		}
		if !isBtc {
			continue
		}
		n++
		u, isLoad := r.Results[0].(*ssa.UnOp)
		var al *ssa.Alloc
		if isLoad {
			al, _ = u.X.(*ssa.Alloc)
		}
		if al == nil {
			c.Unknown("C05.R1", "Bitcoin route limit", w.Pos(r.Pos()), "the Bitcoin policy row is not a composite literal")
			ok = false
			continue
		}
		v, set := an.CompositeFieldValue(al, "MaxTotalCLTVDelta")
		if set {
			if k, isC := an.ConstInt(v); !isC || k != 0 {
				c.Unknown("C05.R1", "Bitcoin route limit", w.Pos(r.Pos()), "the Bitcoin policy row sets a total-CLTV limit ("+w.Term(v)+"): the route delay is then bounded by the limit, a case this rule does not evaluate")
				ok = false
				continue
			}
		}
		c.OK("C05.R1", "Bitcoin route limit", w.Pos(r.Pos()), "the Bitcoin policy row has MaxTotalCLTVDelta = 0 (back-ends take their unlimited path)")
	}
	if !c.AtLeast("C05.R1", "Bitcoin rows of getTimelockPolicy", n, 1) {
		return false
	}
	for _, p := range findCallSites(w, fxPay) {
		args := p.Common().Args
		if len(args) != 3 || w.Term(args[2]) != "call:"+c05Policy+"#0>timelockPolicy.MaxTotalCLTVDelta" {
			c.Unknown("C05.R1", "Bitcoin route limit", w.Pos(p.Pos()), "the limit argument of RebalancePayment is not policy.MaxTotalCLTVDelta; which builder path Bitcoin payments take is not decided (see C04.R6)")
			ok = false
		}
	}
	return ok
}

// c05Bound finds, among ineqs, those with exactly the terms want and returns
// the smallest upper bound K such that  -x + ... + K >= 0  style facts hold on
// every Bitcoin path to target (from the entry, and if loopFrom != nil also
// from loopFrom's successors back to target).
type c05Found struct {
	bound int64
	iq    c05Ineq
}

func c05Bounds(w *an.World, iqs []c05Ineq, want map[string]int64, nonBtc []an.Edge, target *ssa.BasicBlock, loop bool) (found []c05Found, almost []string, unresolved []string) {
	fn := target.Parent()
	for _, iq := range iqs {
		match := true
		for k, v := range want {
			if iq.L.T[k] != v {
				match = false
			}
		}
		if !match {
			continue
		}
		if len(iq.L.T) != len(want) {
			// the right variables, plus something that did not fold to a constant
			if !an.ReachBlocks([]*ssa.BasicBlock{fn.Blocks[0]}, c05Cut(nonBtc, []an.Edge{iq.Edge}), nil)[target] {
				unresolved = append(unresolved, fmt.Sprintf("%s %s 0 at %s", iq.L.String(), iq.Rel, w.Pos(iq.Pos)))
			}
			continue
		}
		cut := c05Cut(nonBtc, []an.Edge{iq.Edge})
		if an.ReachBlocks([]*ssa.BasicBlock{fn.Blocks[0]}, cut, nil)[target] {
			almost = append(almost, fmt.Sprintf("%s %s 0 at %s does not lie on every Bitcoin path from the entry", iq.L.String(), iq.Rel, w.Pos(iq.Pos)))
			continue
		}
		if loop && an.ReachBlocks(target.Succs, cut, nil)[target] {
			almost = append(almost, fmt.Sprintf("%s %s 0 at %s is not re-tested between two payment attempts", iq.L.String(), iq.Rel, w.Pos(iq.Pos)))
			continue
		}
		k := iq.L.C
		if iq.Rel == ">" {
			k--
		}
		found = append(found, c05Found{bound: k, iq: iq})
	}
	return
}

// c05HandedToHelper names an in-module helper that, on a Bitcoin path to
// target, receives the value named term as an argument (a comparison may have
// been moved into it).
func c05HandedToHelper(w *an.World, fn *ssa.Function, term string, nonBtc []an.Edge, target *ssa.BasicBlock) string {
	reach := an.ReachBlocks([]*ssa.BasicBlock{fn.Blocks[0]}, c05Cut(nonBtc), nil)
	for _, call := range an.Calls(fn) {
		ci := w.Info(call)
		if ci.Static == nil || !w.InModule(ci.Static) || ci.Static.Blocks == nil || !reach[call.Block()] {
			continue
		}
		for _, a := range call.Common().Args {
			if w.Term(a) == term {
				return w.FuncName(ci.Static)
			}
		}
	}
	return ""
}

// c05Wmax: the largest now-start accepted at a payment attempt on the Bitcoin branch.
func c05Wmax(c *an.Check, env *c05Env) (int64, bool) {
	w := c.W
	sites := findCallSites(w, fxPay)
	if !c.AtLeast("C05.R1", "claim-payment call sites", len(sites), 1) {
		return 0, false
	}
	worst, ok := int64(-1), true
	for _, p := range sites {
		fn := p.Parent()
		cons := "Wmax at " + w.FuncName(fn)
		pos := w.Pos(p.Pos())
		found, almost, unres := c05Bounds(w, env.ineqs(fn), map[string]int64{c05HeightTerm: -1, c05StartTerm: 1}, c05NonBitcoinEdges(w, fn), p.Block(), true)
		// the height must be read in the same attempt
		var good []c05Found
		for _, f := range found {
			h := c05CallOf(f.iq.L.Leaf[c05HeightTerm])
			fresh := false
			if h != nil {
				// every way from one attempt to the comparison re-executes the read
				fresh = h.Block() == f.iq.Edge.From || !an.ReachBlocks(p.Block().Succs, nil, map[*ssa.BasicBlock]bool{h.Block(): true})[f.iq.Edge.From]
				if recv := h.Call.Value; recv == nil || !strings.HasPrefix(w.Term(recv), "call:"+c05Services+"#") {
					fresh = false
				}
			}
			if fresh {
				good = append(good, f)
			} else {
				almost = append(almost, fmt.Sprintf("the height compared at %s is not read from the selected chain service within the same payment attempt", w.Pos(f.iq.Pos)))
			}
		}
		if len(good) == 0 && len(unres) > 0 {
			ok = false
			c.Unknown("C05.R1", cons, pos, "a comparison of now and StartingBlockHeight dominates the payment but its bound is not a constant this rule can fold: "+strings.Join(unres, " | "))
			continue
		}
		if h := c05HandedToHelper(w, fn, c05HeightTerm, c05NonBitcoinEdges(w, fn), p.Block()); len(good) == 0 && h != "" {
			ok = false
			c.Unknown("C05.R1", cons, pos, "no inline bound on now-start, but the height is handed to "+h+" on the Bitcoin branch: a comparison moved into a helper is a shape this rule does not interpret")
			continue
		}
		if len(good) == 0 {
			ok = false
			c.Bad("C05.R1", cons, pos, "on the Bitcoin branch no comparison  now - StartingBlockHeight <= K  (K constant) dominates every payment attempt: the payment height is unbounded relative to the swap start, so the HTLC can be created arbitrarily close to (or after) the CSV maturity. Candidates: "+strings.Join(almost, " | "))
			continue
		}
		best := good[0]
		for _, g := range good {
			if g.bound < best.bound {
				best = g
			}
		}
		c.OK("C05.R1", cons, w.Pos(best.iq.Pos), fmt.Sprintf("every Bitcoin payment attempt is dominated by  %s %s 0, i.e. now-start <= %d", best.iq.L.String(), best.iq.Rel, best.bound))
		if best.bound > worst {
			worst = best.bound
		}
	}
	return worst, ok && worst >= 0
}

// c05Fmax: the largest invoice final CLTV accepted before the confirmation
// watch (whose callback leads to the pay state) is registered.
func c05Fmax(c *an.Check, env *c05Env) (int64, bool) {
	w := c.W
	var regs []ssa.CallInstruction
	for _, r := range findCallSites(w, fxWaitConf) {
		if w.FnRel(r.Parent()) == "swap" {
			regs = append(regs, r)
		}
	}
	if !c.AtLeast("C05.R1", "AddWaitForConfirmationTx call sites in package swap", len(regs), 1) {
		return 0, false
	}
	payTerms := map[string]bool{}
	for _, p := range findCallSites(w, fxPay) {
		if len(p.Common().Args) > 0 {
			payTerms[w.Term(p.Common().Args[0])] = true
		}
	}
	worst, ok := int64(-1), true
	covered := map[*ssa.Function]bool{}
	for _, reg := range regs {
		fn := reg.Parent()
		covered[fn] = true
		cons := "Fmax at " + w.FuncName(fn)
		found, almost, unres := c05Bounds(w, env.ineqs(fn), map[string]int64{c05FinalTerm: -1}, c05NonBitcoinEdges(w, fn), reg.Block(), false)
		var good []c05Found
		for _, f := range found {
			d := c05CallOf(f.iq.L.Leaf[c05FinalTerm])
			if d != nil && len(d.Call.Args) > 0 && payTerms[w.Term(d.Call.Args[0])] {
				good = append(good, f)
			} else {
				almost = append(almost, fmt.Sprintf("the invoice decoded for the comparison at %s is not the one that is paid", w.Pos(f.iq.Pos)))
			}
		}
		if len(good) == 0 && len(unres) > 0 {
			ok = false
			c.Unknown("C05.R1", cons, w.Pos(reg.Pos()), "a comparison of the invoice final CLTV dominates the registration but its bound is not a constant this rule can fold: "+strings.Join(unres, " | "))
			continue
		}
		if h := c05HandedToHelper(w, fn, c05FinalTerm, c05NonBitcoinEdges(w, fn), reg.Block()); len(good) == 0 && h != "" {
			ok = false
			c.Unknown("C05.R1", cons, w.Pos(reg.Pos()), "no inline bound on the invoice final CLTV, but it is handed to "+h+" on the Bitcoin branch: a comparison moved into a helper is a shape this rule does not interpret")
			continue
		}
		if len(good) == 0 {
			ok = false
			c.Bad("C05.R1", cons, w.Pos(reg.Pos()), "on the Bitcoin branch the confirmation watch is registered without a dominating comparison  invoice final CLTV <= K  (K constant): the maker chooses how long the HTLC may stay open. Candidates: "+strings.Join(almost, " | "))
			continue
		}
		best := good[0]
		for _, g := range good {
			if g.bound < best.bound {
				best = g
			}
		}
		c.OK("C05.R1", cons, w.Pos(best.iq.Pos), fmt.Sprintf("the Bitcoin watch registration is dominated by  %s %s 0, i.e. final CLTV <= %d", best.iq.L.String(), best.iq.Rel, best.bound))
		if best.bound > worst {
			worst = best.bound
		}
	}
	// pay states are entered only from states that run such a registration
	ts := tables(c)
	if ts == nil {
		return 0, false
	}
	nEdges := 0
	for _, t := range takers(ts) {
		for _, p := range t.statesWith(fxPay) {
			for _, in := range t.T.InEdges(p) {
				if in[0] == p {
					continue
				}
				nEdges++
				good := false
				for _, s := range t.Sum[in[0]].Sites(fxWaitConf) {
					if covered[s.In] {
						good = true
					}
				}
				if !good {
					ok = false
				}
				c.Decide(good, "C05.R1", "Fmax applies on "+t.edgeKey(in[0], in[1]), w.Pos(t.T.States[in[0]].EventPos[in[1]]),
					"the pay state is entered from a state whose action registers the confirmation watch behind the invoice bound",
					"the pay state can be entered from a state that does not run the guarded confirmation-watch registration: the invoice CLTV bound does not apply on this edge")
			}
		}
	}
	c.AtLeast("C05.R1", "edges into pay states", nEdges, 2)
	return worst, ok && worst >= 0
}

// c05RouteDelays: per back-end, the constant R with "CLTV sent = invoice final
// CLTV + R" on the path where the limit parameter is zero.
func c05RouteDelays(c *an.Check) (map[string]int64, bool) {
	w := c.W
	impls := c05Impls(w, "swap", "LightningClient", "RebalancePayment")
	if !c.AtLeast("C05.R1", "production implementations of LightningClient.RebalancePayment", len(impls), 2) {
		return nil, false
	}
	out := map[string]int64{}
	ok := true
	for _, im := range impls {
		backend := w.FnRel(im)
		cons := "route delay of " + backend
		if len(im.Params) != 4 {
			c.Unknown("C05.R1", cons, w.Pos(im.Pos()), "unexpected parameter list of RebalancePayment")
			ok = false
			continue
		}
		// follow the limit parameter through unchanged forwarding
		type fp struct {
			fn *ssa.Function
			p  *ssa.Parameter
		}
		var reached []fp
		seen := map[*ssa.Parameter]bool{}
		var fwd func(p *ssa.Parameter)
		fwd = func(p *ssa.Parameter) {
			if seen[p] || p.Referrers() == nil {
				return
			}
			seen[p] = true
			reached = append(reached, fp{p.Parent(), p})
			for _, r := range *p.Referrers() {
				call, isCall := r.(*ssa.Call)
				if !isCall {
					continue
				}
				ci := w.Info(call)
				if ci.Static == nil || !w.InModule(ci.Static) || ci.Static.Blocks == nil {
					continue
				}
				for i, a := range call.Call.Args {
					if a == p && i < len(ci.Static.Params) {
						fwd(ci.Static.Params[i])
					}
				}
			}
		}
		if bt, isB := im.Params[3].Type().Underlying().(*types.Basic); !isB || bt.Info()&types.IsUnsigned == 0 {
			c.Unknown("C05.R1", cons, w.Pos(im.Pos()), "the limit parameter is not an unsigned integer")
			ok = false
			continue
		}
		fwd(im.Params[3])
		best, have := int64(-1), false
		for _, x := range reached {
			idx := -1
			for i, q := range x.fn.Params {
				if q == x.p {
					idx = i
				}
			}
			pT := fmt.Sprintf("param#%d", idx)
			for _, blk := range x.fn.Blocks {
				for _, in := range blk.Instrs {
					st, isStore := in.(*ssa.Store)
					if !isStore {
						continue
					}
					fa, isFA := st.Addr.(*ssa.FieldAddr)
					if !isFA || !c05SentCLTVFields[an.FieldName(fa.X.Type(), fa.Field)] {
						continue
					}
					for _, alt := range c05Alternatives(w, st.Val, st.Block(), pT) {
						if !alt.unlimited {
							continue
						}
						l := (&c05Env{w: w}).linear(alt.v)
						term, co := "", int64(0)
						for k, v := range l.T {
							term, co = k, v
						}
						isFinal := false
						for _, ft := range c05FinalCLTVTerms {
							if strings.Contains(term, ft) {
								isFinal = true
							}
						}
						if len(l.T) != 1 || co != 1 || !isFinal {
							c.Unknown("C05.R1", cons, w.Pos(st.Pos()), "on the unlimited path "+an.FieldName(fa.X.Type(), fa.Field)+" is "+l.String()+", not invoiceFinalCLTV + constant: unsupported shape")
							ok = false
							continue
						}
						have = true
						if l.C > best {
							best = l.C
						}
						c.OK("C05.R1", cons, w.Pos(st.Pos()), fmt.Sprintf("with limit == 0, %s.%s = final CLTV %+d", w.FuncName(x.fn), an.FieldName(fa.X.Type(), fa.Field), l.C))
					}
				}
			}
		}
		if !have {
			c.Unknown("C05.R1", cons, w.Pos(im.Pos()), "no store to RouteHop.Delay / SendPaymentRequest.CltvLimit is reached by the limit parameter of this back-end")
			ok = false
			continue
		}
		out[backend] = best
	}
	return out, ok
}

type c05Alt struct {
	v         ssa.Value
	unlimited bool
}

// c05Alternatives splits a value into its phi alternatives; an alternative is
// "unlimited" unless it arrives on a path where the limit parameter is known non-zero.
func c05Alternatives(w *an.World, v ssa.Value, at *ssa.BasicBlock, limitTerm string) []c05Alt {
	nonZero := func(fs []an.Fact) bool {
		for _, f := range fs {
			if !f.NonNum && f.Const == 0 && len(f.Terms) == 1 && f.Terms[limitTerm] != 0 && (f.Rel == "!=" || (f.Rel == ">" && f.Terms[limitTerm] == 1)) {
				return true // limit != 0, also written limit > 0 (the parameter is unsigned)
			}
		}
		return false
	}
	pathFacts := func(pred, succ *ssa.BasicBlock) []an.Fact {
		out := w.FactsDominatingBlock(pred)
		if len(pred.Instrs) > 0 {
			if i, ok := pred.Instrs[len(pred.Instrs)-1].(*ssa.If); ok && len(pred.Succs) == 2 && pred.Succs[0] != pred.Succs[1] {
				t, f := w.FactsOfIf(i)
				for _, x := range []an.Fact{t, f} {
					if x.Edge.To() == succ {
						out = append(out, x)
					}
				}
			}
		}
		return out
	}
	x := v
	for {
		if cv, ok := x.(*ssa.Convert); ok {
			x = cv.X
			continue
		}
		if ct, ok := x.(*ssa.ChangeType); ok {
			x = ct.X
			continue
		}
		break
	}
	phi, ok := x.(*ssa.Phi)
	if !ok {
		return []c05Alt{{v: v, unlimited: !nonZero(w.FactsDominatingBlock(at))}}
	}
	var out []c05Alt
	for i, e := range phi.Edges {
		out = append(out, c05Alt{v: e, unlimited: !nonZero(pathFacts(phi.Block().Preds[i], phi.Block()))})
	}
	return out
}
