package rules

import (
	"fmt"
	"go/token"
	"go/types"
	"regexp"
	"sort"
	"strings"

	"golang.org/x/tools/go/ssa"

	"psv/internal/an"
)

// C05 — the Bitcoin claim HTLC expires before the maker's CSV refund.
//
// The heights are run-time values, but the code touches them only through
// comparisons with constants, so the worst case over ALL heights, invoices and
// both back-ends is a constant expression. R1 extracts the constants from the
// guards (not from their spelling: from the normalised comparison that
// dominates the payment / the watch registration on the Bitcoin branch), R2
// evaluates  Wmax + Fmax + R < CSV.
//
// Frozen repo-specific knowledge, each resolved on every run (exit 2 if not):
// chain selector (*SwapData).GetChain with values "btc"/"lbtc"; the service
// selector (*SwapServices).getOnChainServices; the script builder
// onchain.ParamsToTxScript as used by (*onchain.BitcoinOnChain).ValidateTx;
// the two external fields that carry the CLTV a back-end sends
// (glightning.RouteHop.Delay, routerrpc.SendPaymentRequest.CltvLimit) and the
// two places the invoice's final CLTV is read from.
const (
	c05GetChain   = "func:(*swap.SwapData).GetChain"
	c05CSVHeight  = "iface:swap.Validator.GetCSVHeight"
	c05Script     = "func:onchain.ParamsToTxScript"
	c05HeightTerm = "call:" + fxBlockHeight + "#0"
	c05StartTerm  = "field:SwapData.StartingBlockHeight"
	c05FinalTerm  = "call:" + fxDecodePayreq + "#2"
	c05Bitcoin    = "btc"
	c05Liquid     = "lbtc"
)

var c05SentCLTVFields = map[string]bool{"RouteHop.Delay": true, "SendPaymentRequest.CltvLimit": true}
var c05FinalCLTVTerms = []string{"field:DecodedBolt11.MinFinalCltvExpiry", "lnrpc.PayReq).GetCltvExpiry"}

func init() {
	Register(&Prop{
		ID:   "C05",
		Expl: "Decides the worst case of the Bitcoin timelock arithmetic as a constant expression extracted from the guards of the pinned tree: (R1) CSV = the constant the taker's own validator puts into the opening script it accepts; the constant GetCSVHeight of every type wired as SwapServices.bitcoinValidator in the two mains; Fmax = the largest invoice final CLTV that passes the comparison dominating the confirmation-watch registration on the Bitcoin branch; Wmax = the largest now-start that passes the comparison dominating the claim-payment call on the Bitcoin branch, on the first and on every later attempt, with `now` read in the same attempt; R = per back-end, the constant added to the invoice's final CLTV in the CLTV value placed into the outgoing route/request on the unlimited (limit == 0, i.e. Bitcoin) path. (R2) Wmax + Fmax + R < CSV for every back-end — the latest block at which the HTLC can still be settled (start+Wmax+Fmax+R, taking the most favourable admissible confirmation height conf = start) is strictly below the first block in which a CSV refund can confirm (conf+CSV). The extracted constants are part of the construct, so any change of any of them is a different obligation. (R3) The anchor those windows are measured from is set once: in every action that a taker table runs in a state Recover re-executes (not FailOnrecover), every store to SwapData.StartingBlockHeight is dominated by StartingBlockHeight == 0 or is unreachable for a Bitcoin swap — otherwise each restart moves all Bitcoin windows forward while the maker's CSV keeps running from the confirmation. (R4) With LND the watcher's depth refusal is the only comparison anywhere in the taker path that sees the height H at which the opening transaction confirmed: every positive confirmation report of the lnd implementation of swap.TxWatcher (dynamic call through the field AddConfirmationCallback stores, nil error) is dominated by an inequality over exactly {tip, H} at least as strong as tip - H + 1 < onchain.BitcoinCsvSafetyLimit, the limit being CSV/2 of the validated script, tip read by the watcher's own GetBlockHeight and H traced to chainrpc ConfDetails.BlockHeight through the event struct field — a phi, min/max, overwritten local or parameter that brings in any other source (the height hint, a constant, the tip) is a violation, an untraceable H is undecided. Predicate helpers (one bool result, one return) are instantiated with their arguments, payment / registration calls inside small helpers are judged at the helper's call site, constants are folded through + - * / % << >>.",
		NotD: "Actual heights at run time; whether the opening transaction confirmed at or after StartingBlockHeight (no confirmation height ever reaches package swap, so R2 is evaluated for the most favourable case conf = start; an earlier confirmation only makes the violation larger); lnd/CLN internals (how cltv_limit / route delay are applied); reorganisations; that lnd's confirmation notification reports the true block height; whether the depth tip - H + 1 is formed in signed arithmetic (an unsigned wrap only turns a positive verdict into a refusal, the safe direction; C20.R1 judges the same test for the watcher property); C05.R4 is claimed for the LND watcher only — the RPC and Electrum watchers relate the confirmation to the registered start through their own first-seen / window tests (C20).",
		Run:  runC05,
	})
}

// ---- small helpers (self-contained copy; the rule files are independent) ---------------

type c05Lin struct {
	T    map[string]int64
	C    int64
	Leaf map[string]ssa.Value
}

func (l c05Lin) String() string {
	var ks []string
	for k := range l.T {
		ks = append(ks, k)
	}
	sort.Strings(ks)
	var sb strings.Builder
	for _, k := range ks {
		fmt.Fprintf(&sb, "%+d*%s ", l.T[k], k)
	}
	fmt.Fprintf(&sb, "%+d", l.C)
	return sb.String()
}

func c05IsInt(t types.Type) bool {
	b, ok := t.Underlying().(*types.Basic)
	return ok && b.Info()&types.IsInteger != 0
}

// c05Env knows how to fold the validator's CSV.
type c05Env struct {
	w      *an.World
	csv    int64 // constant GetCSVHeight of the wired Bitcoin validator
	csvOK  bool
	valIdx int // result index of the Validator in the chain-service selector
	cache  map[*ssa.Function]*c05Atoms
	// resolved structurally (no name anchors for unexported helpers)
	servicesFn   *ssa.Function // method of package swap whose results include TxWatcher and Validator
	servicesName string
	policyFn     *ssa.Function // function of package swap returning (policy struct, error)
	policyName   string
	polName      string // type name of the policy struct (found by its fields)
}

// resolve finds the selector, the policy struct and the policy table by shape.
func (e *c05Env) resolve(c *an.Check) bool {
	w := e.w
	pkg := w.ByRel["swap"]
	if pkg == nil {
		c.Anchor("package swap not loaded")
		return false
	}
	var pol *types.Named
	sc := pkg.Types.Scope()
	for _, name := range sc.Names() {
		tn, ok := sc.Lookup(name).(*types.TypeName)
		if !ok || tn.IsAlias() {
			continue
		}
		n, ok := tn.Type().(*types.Named)
		if !ok {
			continue
		}
		st, ok := n.Underlying().(*types.Struct)
		if !ok {
			continue
		}
		need := map[string]bool{"CSV": true, "PaymentWindow": true, "InvoiceFinalCLTV": true, "MaxTotalCLTVDelta": true, "AllowNewClaimPayment": true}
		for i := 0; i < st.NumFields(); i++ {
			delete(need, st.Field(i).Name())
		}
		if len(need) == 0 {
			pol = n
		}
	}
	if pol == nil {
		c.Anchor("package swap has no struct type with the fields CSV, PaymentWindow, InvoiceFinalCLTV, MaxTotalCLTVDelta, AllowNewClaimPayment")
		return false
	}
	e.polName = pol.Obj().Name()
	for _, fn := range prodFuncs(w) {
		if w.FnRel(fn) != "swap" || fn.Parent() != nil {
			continue
		}
		r := fn.Signature.Results()
		if r.Len() == 2 && an.NamedOf(r.At(0).Type()) == pol && an.IsErrorType(r.At(1).Type()) {
			if _, isPtr := r.At(0).Type().(*types.Pointer); !isPtr {
				e.policyFn, e.policyName = fn, "func:"+w.FuncName(fn)
			}
		}
		if r.Len() >= 3 && fn.Signature.Recv() != nil {
			hasW, hasV := false, false
			for i := 0; i < r.Len(); i++ {
				if n := an.NamedOf(r.At(i).Type()); n != nil && n.Obj().Pkg() == pkg.Types {
					switch n.Obj().Name() {
					case "TxWatcher":
						hasW = true
					case "Validator":
						hasV = true
					}
				}
			}
			if hasW && hasV {
				e.servicesFn, e.servicesName = fn, "func:"+w.FuncName(fn)
			}
		}
	}
	if e.policyFn == nil {
		c.Anchor("no function of package swap returns (%s, error): the policy table is not found", e.polName)
		return false
	}
	if e.servicesFn == nil {
		c.Anchor("no method of package swap returns the chain services (TxWatcher, ..., Validator, error)")
		return false
	}
	return true
}

// csvCall reports whether call is GetCSVHeight on the validator selected by
// getOnChainServices(swap.GetChain()).
func (e *c05Env) csvCall(call *ssa.Call) bool {
	w := e.w
	if !e.csvOK || w.Info(call).Name != c05CSVHeight {
		return false
	}
	recv := call.Call.Value
	ex, ok := recv.(*ssa.Extract)
	if !ok || ex.Index != e.valIdx {
		return false
	}
	sel, ok := ex.Tuple.(*ssa.Call)
	if !ok || w.Info(sel).Name != e.servicesName || len(sel.Call.Args) != 2 || w.Term(sel.Call.Args[1]) != "call:"+c05GetChain {
		return false
	}
	// The fold is only used for facts on Bitcoin paths (c05Bounds cuts every edge
	// on which the chain is known not to be Bitcoin), where the selector returns
	// the Bitcoin validator; GetChain is assumed stable within one action.
	return true
}

// c05Bind maps parameters of in-module helpers to the argument values of the
// call through which a condition was reached (parameter -> argument binding).
type c05Bind map[*ssa.Parameter]ssa.Value

func (b c05Bind) resolve(v ssa.Value) ssa.Value {
	for i := 0; i < 8; i++ {
		p, ok := v.(*ssa.Parameter)
		if !ok {
			return v
		}
		a, ok := b[p]
		if !ok {
			return v
		}
		v = a
	}
	return v
}

func c05SingleStore(al *ssa.Alloc) (ssa.Value, bool) {
	if al.Referrers() == nil {
		return nil, false
	}
	var st []ssa.Value
	for _, r := range *al.Referrers() {
		if s, ok := r.(*ssa.Store); ok && s.Addr == al {
			st = append(st, s.Val)
		}
	}
	if len(st) == 1 {
		return st[0], true
	}
	return nil, false
}

// constOf folds an integer expression to a constant: literals, conversions,
// single-assignment locals, GetCSVHeight of the Bitcoin validator, and + - * /
// % << >> of such (unsigned / non-negative operands only for / % >>).
func (e *c05Env) constOf(v ssa.Value, bind c05Bind, depth int) (int64, bool) {
	v = bind.resolve(v)
	if i, ok := an.ConstInt(v); ok {
		return i, true
	}
	if depth > 12 {
		return 0, false
	}
	switch x := v.(type) {
	case *ssa.Convert:
		if c05IsInt(x.Type()) && c05IsInt(x.X.Type()) {
			return e.constOf(x.X, bind, depth+1)
		}
	case *ssa.ChangeType:
		return e.constOf(x.X, bind, depth+1)
	case *ssa.Call:
		if e.csvCall(x) {
			return e.csv, true
		}
	case *ssa.UnOp:
		if x.Op == token.MUL {
			if al, ok := x.X.(*ssa.Alloc); ok {
				if sv, ok := c05SingleStore(al); ok {
					return e.constOf(sv, bind, depth+1)
				}
			}
		}
	case *ssa.BinOp:
		a, aok := e.constOf(x.X, bind, depth+1)
		b, bok := e.constOf(x.Y, bind, depth+1)
		if aok && bok {
			switch x.Op {
			case token.ADD:
				return a + b, true
			case token.SUB:
				return a - b, true
			case token.MUL:
				return a * b, true
			case token.QUO:
				if a >= 0 && b > 0 {
					return a / b, true
				}
			case token.REM:
				if a >= 0 && b > 0 {
					return a % b, true
				}
			case token.SHR:
				if a >= 0 && b >= 0 && b < 63 {
					return a >> uint(b), true
				}
			case token.SHL:
				if a >= 0 && b >= 0 && b < 31 && a < 1<<31 {
					return a << uint(b), true
				}
			}
		}
	}
	return 0, false
}

// linear builds Σ coef·term + c with constants folded (constOf) and helper
// parameters replaced by the bound arguments.
func (e *c05Env) linear(v ssa.Value) c05Lin { return e.linearB(v, nil) }

func (e *c05Env) linearB(v ssa.Value, bind c05Bind) c05Lin {
	w := e.w
	out := c05Lin{T: map[string]int64{}, Leaf: map[string]ssa.Value{}}
	var rec func(v ssa.Value, sign int64, depth int)
	rec = func(v ssa.Value, sign int64, depth int) {
		v = bind.resolve(v)
		if i, ok := e.constOf(v, bind, 0); ok {
			out.C += sign * i
			return
		}
		if depth < 12 {
			switch x := v.(type) {
			case *ssa.Call:
				// an in-module arithmetic helper with one integer result and one return
				if g := x.Call.StaticCallee(); g != nil && !x.Call.IsInvoke() && w.InModule(g) && g.Blocks != nil && len(g.Params) == len(x.Call.Args) && g.Signature.Results().Len() == 1 && c05IsInt(g.Signature.Results().At(0).Type()) {
					if rets := an.Returns(g); len(rets) == 1 && len(g.Blocks) == 1 {
						nb := c05Bind{}
						for k, bv := range bind {
							nb[k] = bv
						}
						for i, p := range g.Params {
							nb[p] = bind.resolve(x.Call.Args[i])
						}
						saved := bind
						bind = nb
						rec(rets[0].Results[0], sign, depth+1)
						bind = saved
						return
					}
				}
			case *ssa.Convert:
				if c05IsInt(x.Type()) && c05IsInt(x.X.Type()) {
					rec(x.X, sign, depth+1)
					return
				}
			case *ssa.ChangeType:
				rec(x.X, sign, depth+1)
				return
			case *ssa.UnOp:
				if x.Op == token.MUL {
					if al, ok := x.X.(*ssa.Alloc); ok {
						if sv, ok := c05SingleStore(al); ok {
							rec(sv, sign, depth+1)
							return
						}
					}
				}
			case *ssa.BinOp:
				switch x.Op {
				case token.ADD:
					rec(x.X, sign, depth+1)
					rec(x.Y, sign, depth+1)
					return
				case token.SUB:
					rec(x.X, sign, depth+1)
					rec(x.Y, -sign, depth+1)
					return
				}
			}
		}
		k := w.Term(v)
		out.T[k] += sign
		out.Leaf[k] = v
	}
	rec(v, 1, 0)
	for k, c := range out.T {
		if c == 0 {
			delete(out.T, k)
		}
	}
	return out
}

// c05Ineq is an If-edge fact  Σ coef·term + C  Rel  0, Rel ∈ {">", ">="}.
type c05Ineq struct {
	Edge an.Edge
	L    c05Lin
	Rel  string
	Pos  token.Pos
}

// c05Atoms is what the conditions of fn's branches say on each edge, with
// predicate helpers (in-module functions with one bool result and one return)
// looked into: integer inequalities, and what is known about the chain.
type c05Atoms struct {
	ineqs []c05Ineq
	eqs   []c05Ineq // Rel "==" / "!=" over integers
	// chain[e]: 2 = chain == "btc", 1 = chain != "lbtc", -1 = chain is not Bitcoin
	chain map[an.Edge]int
	// helpers that were entered but whose shape could not be interpreted
	opaque []string
}

func (e *c05Env) atoms(fn *ssa.Function) *c05Atoms {
	if e.cache == nil {
		e.cache = map[*ssa.Function]*c05Atoms{}
	}
	if a, ok := e.cache[fn]; ok {
		return a
	}
	a := &c05Atoms{chain: map[an.Edge]int{}}
	e.cache[fn] = a
	for _, b := range fn.Blocks {
		if len(b.Instrs) == 0 {
			continue
		}
		ifi, ok := b.Instrs[len(b.Instrs)-1].(*ssa.If)
		if !ok || len(b.Succs) != 2 || b.Succs[0] == b.Succs[1] {
			continue
		}
		e.expand(a, ifi.Cond, true, an.Edge{From: b, Idx: 0}, nil, 0)
		e.expand(a, ifi.Cond, false, an.Edge{From: b, Idx: 1}, nil, 0)
	}
	return a
}

// expand records what "cond has the value truth" implies on edge.
func (e *c05Env) expand(a *c05Atoms, cond ssa.Value, truth bool, edge an.Edge, bind c05Bind, depth int) {
	w := e.w
	if depth > 6 {
		return
	}
	cond = bind.resolve(cond)
	switch x := cond.(type) {
	case *ssa.UnOp:
		if x.Op == token.NOT {
			e.expand(a, x.X, !truth, edge, bind, depth+1)
		}
		return
	case *ssa.Phi:
		// a && b (true edge implies both), a || b (false edge refutes both)
		ops, isAnd, ok := an.PhiConjuncts(x)
		if !ok || isAnd != truth {
			return
		}
		for _, op := range ops {
			e.expand(a, op, truth, edge, bind, depth+1)
		}
		for i, in := range x.Edges {
			if _, isC := in.(*ssa.Const); !isC {
				continue
			}
			pred := x.Block().Preds[i]
			if len(pred.Instrs) == 0 {
				continue
			}
			if pi, ok := pred.Instrs[len(pred.Instrs)-1].(*ssa.If); ok && len(pred.Succs) == 2 {
				if (isAnd && pred.Succs[1] == x.Block() && pred.Succs[0] != x.Block()) ||
					(!isAnd && pred.Succs[0] == x.Block() && pred.Succs[1] != x.Block()) {
					e.expand(a, pi.Cond, truth, edge, bind, depth+1)
				}
			}
		}
		return
	case *ssa.Call:
		g := x.Call.StaticCallee()
		if g == nil || x.Call.IsInvoke() || !w.InModule(g) || g.Blocks == nil {
			return
		}
		res := g.Signature.Results()
		if res.Len() != 1 {
			return
		}
		if bt, ok := res.At(0).Type().Underlying().(*types.Basic); !ok || bt.Info()&types.IsBoolean == 0 {
			return
		}
		rets := an.Returns(g)
		if len(rets) != 1 || len(g.Params) != len(x.Call.Args) {
			a.opaque = append(a.opaque, w.FuncName(g))
			return
		}
		nb := c05Bind{}
		for k, v := range bind {
			nb[k] = v
		}
		for i, p := range g.Params {
			nb[p] = bind.resolve(x.Call.Args[i])
		}
		e.expand(a, rets[0].Results[0], truth, edge, nb, depth+1)
		return
	case *ssa.BinOp:
		op := x.Op
		// b == true / b != false on a boolean
		if (op == token.EQL || op == token.NEQ) && !c05IsInt(x.X.Type()) {
			if bt, ok := x.X.Type().Underlying().(*types.Basic); ok && bt.Info()&types.IsBoolean != 0 {
				for _, pr := range [][2]ssa.Value{{x.X, x.Y}, {x.Y, x.X}} {
					if cv, ok := pr[1].(*ssa.Const); ok && cv.Value != nil {
						isTrue := cv.Value.String() == "true"
						e.expand(a, pr[0], truth == ((op == token.EQL) == isTrue), edge, bind, depth+1)
						return
					}
				}
				return
			}
		}
		if !truth {
			switch op {
			case token.EQL:
				op = token.NEQ
			case token.NEQ:
				op = token.EQL
			case token.LSS:
				op = token.GEQ
			case token.LEQ:
				op = token.GTR
			case token.GTR:
				op = token.LEQ
			case token.GEQ:
				op = token.LSS
			default:
				return
			}
		}
		if !c05IsInt(x.X.Type()) || !c05IsInt(x.Y.Type()) {
			if op != token.EQL && op != token.NEQ {
				return
			}
			l, r := w.Term(bind.resolve(x.X)), w.Term(bind.resolve(x.Y))
			other := ""
			switch {
			case strings.HasSuffix(l, "call:"+c05GetChain):
				other = r
			case strings.HasSuffix(r, "call:"+c05GetChain):
				other = l
			default:
				return
			}
			v := 0
			switch {
			case op == token.EQL && other == `"`+c05Bitcoin+`"`:
				v = 2
			case op == token.NEQ && other == `"`+c05Liquid+`"`:
				v = 1
			case op == token.EQL && other == `"`+c05Liquid+`"`, op == token.NEQ && other == `"`+c05Bitcoin+`"`:
				v = -1
			}
			if v != 0 {
				if old, ok := a.chain[edge]; !ok || old == 1 {
					a.chain[edge] = v
				}
			}
			return
		}
		l, r := e.linearB(x.X, bind), e.linearB(x.Y, bind)
		d := c05Lin{T: map[string]int64{}, Leaf: map[string]ssa.Value{}}
		for k, c := range l.T {
			d.T[k] += c
			d.Leaf[k] = l.Leaf[k]
		}
		for k, c := range r.T {
			d.T[k] -= c
			d.Leaf[k] = r.Leaf[k]
		}
		d.C = l.C - r.C
		flip := false
		rel := ""
		switch op {
		case token.GTR:
			rel = ">"
		case token.GEQ:
			rel = ">="
		case token.LSS:
			rel, flip = ">", true
		case token.LEQ:
			rel, flip = ">=", true
		case token.EQL, token.NEQ:
			for k, c := range d.T {
				if c == 0 {
					delete(d.T, k)
				}
			}
			a.eqs = append(a.eqs, c05Ineq{Edge: edge, L: d, Rel: op.String(), Pos: x.Pos()})
			return
		default:
			return
		}
		if flip {
			for k := range d.T {
				d.T[k] = -d.T[k]
			}
			d.C = -d.C
		}
		for k, c := range d.T {
			if c == 0 {
				delete(d.T, k)
			}
		}
		a.ineqs = append(a.ineqs, c05Ineq{Edge: edge, L: d, Rel: rel, Pos: x.Pos()})
	}
}

// ineqs: the integer inequalities of fn's branch edges.
func (e *c05Env) ineqs(fn *ssa.Function) []c05Ineq { return e.atoms(fn).ineqs }

// c05ChainFact classifies an engine fact (used inside the small table/selector
// functions, where no helper indirection is followed): 2 = chain == "btc",
// 1 = chain != "lbtc", -1 = chain is not Bitcoin, 0 = unrelated.
func c05ChainFact(f an.Fact) int {
	if !f.NonNum {
		return 0
	}
	other := ""
	switch {
	case strings.HasSuffix(f.L, "call:"+c05GetChain):
		other = f.R
	case strings.HasSuffix(f.R, "call:"+c05GetChain):
		other = f.L
	default:
		return 0
	}
	switch {
	case f.Rel == "==" && other == `"`+c05Bitcoin+`"`:
		return 2
	case f.Rel == "!=" && other == `"`+c05Liquid+`"`:
		return 1
	case f.Rel == "==" && other == `"`+c05Liquid+`"`, f.Rel == "!=" && other == `"`+c05Bitcoin+`"`:
		return -1
	}
	return 0
}

// nonBitcoinEdges: the edges of fn on which the swap is known not to be a Bitcoin swap.
func (e *c05Env) nonBitcoinEdges(fn *ssa.Function) []an.Edge {
	var out []an.Edge
	for ed, v := range e.atoms(fn).chain {
		if v < 0 {
			out = append(out, ed)
		}
	}
	sort.Slice(out, func(i, j int) bool {
		if out[i].From.Index != out[j].From.Index {
			return out[i].From.Index < out[j].From.Index
		}
		return out[i].Idx < out[j].Idx
	})
	return out
}

func c05Cut(sets ...[]an.Edge) map[an.Edge]bool {
	m := map[an.Edge]bool{}
	for _, s := range sets {
		for _, e := range s {
			m[e] = true
		}
	}
	return m
}

func c05CallOf(v ssa.Value) *ssa.Call {
	for {
		switch x := v.(type) {
		case *ssa.Convert:
			v = x.X
			continue
		case *ssa.ChangeType:
			v = x.X
			continue
		case *ssa.Extract:
			v = x.Tuple
			continue
		}
		break
	}
	call, _ := v.(*ssa.Call)
	return call
}

// c05Impls lists the production implementations of an interface method.
func c05Impls(w *an.World, rel, iface, method string) []*ssa.Function {
	in := w.Named(rel, iface)
	if in == nil {
		return nil
	}
	it, _ := in.Underlying().(*types.Interface)
	if it == nil {
		return nil
	}
	var out []*ssa.Function
	rels := make([]string, 0, len(w.ByRel))
	for r := range w.ByRel {
		rels = append(rels, r)
	}
	sort.Strings(rels)
	for _, r := range rels {
		if an.IsTestSupport(r) {
			continue
		}
		sc := w.ByRel[r].Types.Scope()
		for _, name := range sc.Names() {
			tn, ok := sc.Lookup(name).(*types.TypeName)
			if !ok || tn.IsAlias() {
				continue
			}
			n, ok := tn.Type().(*types.Named)
			if !ok || types.IsInterface(n) {
				continue
			}
			if types.Implements(types.NewPointer(n), it) || types.Implements(n, it) {
				if f := w.Method(n, method); f != nil && f.Blocks != nil {
					out = append(out, f)
				}
			}
		}
	}
	return out
}

// ---- the check -----------------------------------------------------------------------------

func runC05(c *an.Check) {
	c.Rule("C05.R1", "extract from the guards: script CSV, validator CSV (wiring), Fmax (largest accepted invoice final CLTV), Wmax (largest accepted now-start at every payment attempt), route delay R per back-end on the unlimited path")
	c.Rule("C05.R2", "Wmax + Fmax + R < CSV for every back-end (construct carries the extracted constants)")
	c.Rule("C05.R4", "LND: every positive confirmation report (callback with nil error) is dominated by tip - H + 1 < onchain.BitcoinCsvSafetyLimit (= CSV/2), where H is the confirmation event's own block height (chainrpc ConfDetails.BlockHeight through the event struct) and nothing else")
	c.Rule("C05.R3", "the anchor all Bitcoin windows are measured from is set once: in every action a taker table runs in a state that Recover re-executes (not FailOnrecover), every store to SwapData.StartingBlockHeight is dominated by StartingBlockHeight == 0 or is unreachable for a Bitcoin swap")
	if !needEffects(c, fxPay, fxWaitConf, fxBlockHeight, fxDecodePayreq) {
		return
	}
	w := c.W
	if w.Func("swap", "(*SwapData).GetChain") == nil {
		c.Anchor("swap.(*SwapData).GetChain does not resolve")
		return
	}
	if w.Func("onchain", "(*BitcoinOnChain).ValidateTx") == nil || w.Func("onchain", "ParamsToTxScript") == nil {
		c.Anchor("onchain.(*BitcoinOnChain).ValidateTx / onchain.ParamsToTxScript do not resolve")
		return
	}
	// the chain constants
	got := map[string]bool{}
	for _, r := range an.Returns(w.Func("swap", "(*SwapData).GetChain")) {
		for _, v := range r.Results {
			if s, ok := an.ConstString(v); ok {
				got[s] = true
			} else {
				got["?"] = true
			}
		}
	}
	if !got[c05Bitcoin] || !got[c05Liquid] || got["?"] || len(got) > 3 {
		c.Anchor("(*SwapData).GetChain does not return exactly the constants %q, %q and \"\" (got %v)", c05Bitcoin, c05Liquid, sortedKeys(got))
		return
	}

	env := &c05Env{w: w, valIdx: -1}
	if !env.resolve(c) {
		return
	}
	c05R3(c, env)
	csvScript, okScript := c05ScriptCSV(c)
	c05R4(c, env, csvScript, okScript)
	c05ValidatorCSV(c, env)
	limitOK := c05BitcoinLimit(c, env)
	wmax, okW := c05Wmax(c, env)
	fmax, okF := c05Fmax(c, env)
	delays, okR := c05RouteDelays(c)

	if !(okScript && env.csvOK && limitOK && okW && okF && okR) {
		for _, o := range c.Obls {
			if o.Rule == "C05.R1" && o.Verdict == an.Violated {
				c.Note("C05.R2", "btc-claim-htlc-vs-csv", "-", "not evaluated: a bound is missing altogether (see the violated C05.R1 obligation)")
				return
			}
		}
		c.Unknown("C05.R2", "btc-claim-htlc-vs-csv", "-", "not every constant could be extracted (see the C05.R1 obligations); the obligation cannot be evaluated")
		return
	}
	var names []string
	for k := range delays {
		names = append(names, k)
	}
	sort.Strings(names)
	cons := fmt.Sprintf("btc-claim-htlc-vs-csv:Wmax=%d,Fmax=%d", wmax, fmax)
	for _, n := range names {
		cons += fmt.Sprintf(",R[%s]=%d", n, delays[n])
	}
	cons += fmt.Sprintf(",CSV=%d", csvScript)
	var fails, passes []string
	for _, n := range names {
		sum := wmax + fmax + delays[n]
		line := fmt.Sprintf("%s: taker start S, opening tx confirmed at S (most favourable admissible case), invoice final CLTV %d accepted, payment attempt at S+%d accepted, HTLC may stay unsettled until S+%d+%d+%d = S+%d; CSV refund can confirm from S+%d", n, fmax, wmax, wmax, fmax, delays[n], sum, csvScript)
		if sum < csvScript {
			passes = append(passes, line)
		} else {
			fails = append(fails, line+fmt.Sprintf(" (overlap %d blocks)", sum-csvScript+1))
		}
	}
	if env.csv != csvScript {
		fails = append(fails, fmt.Sprintf("the windows are derived from GetCSVHeight()=%d but the accepted script uses CSV=%d", env.csv, csvScript))
	}
	pos := "-"
	if ps := c05PaySites(w); len(ps) > 0 {
		pos = w.Pos(ps[0].at.Pos())
	}
	if len(fails) == 0 {
		c.OK("C05.R2", cons, pos, "Wmax+Fmax+R < CSV for every back-end: "+strings.Join(passes, " | "))
	} else {
		c.Bad("C05.R2", cons, pos, "the claim HTLC can outlive the maker's CSV refund: Wmax+Fmax+R >= CSV. "+strings.Join(fails, " | ")+". The maker, who knows the preimage, can refund on-chain and still settle the HTLC. Nothing in package swap relates the payment height to the confirmation height (the confirmation callback carries none), so an opening transaction confirmed before S widens the overlap further.")
	}
	c.Note("C05.R2", "confirmation height vs StartingBlockHeight", "-", "no confirmation height reaches package swap (TxWatcher confirmation callback = (swapId, txHex, err)); the pay-time guard is relative to StartingBlockHeight only; R2 is therefore evaluated for conf = start, the best case for the code")
}

// c05R3: Wmax, the watcher limit and the await-state range check are all
// relative to SwapData.StartingBlockHeight, while the maker's CSV runs from the
// confirmation. SwapStateMachine.Recover re-executes the action of the current
// state after every restart unless the state is FailOnrecover, so a store to
// the anchor in such an action must be conditional on the anchor still being
// unset; otherwise every restart moves all Bitcoin windows forward.
func c05R3(c *an.Check, env *c05Env) {
	w := c.W
	ts := tables(c)
	if ts == nil {
		return
	}
	tk := takers(ts)
	if !c.AtLeast("C05.R3", "taker tables", len(tk), 2) {
		return
	}
	writers := map[*ssa.Function][]*ssa.Store{}
	for _, st := range w.FieldWriters("SwapData.StartingBlockHeight") {
		if an.IsTestSupport(w.FnRel(st.Parent())) {
			continue
		}
		writers[st.Parent()] = append(writers[st.Parent()], st)
	}
	// setOnce: a dominating edge says StartingBlockHeight == 0 (predicate helpers
	// looked into); mentions: some dominating condition at least talks about the anchor.
	setOnce := func(b *ssa.BasicBlock) (is, mentions bool) {
		at := env.atoms(b.Parent())
		for _, q := range at.eqs {
			if _, has := q.L.T[c05StartTerm]; !has || !an.EdgeDominates(q.Edge, b) {
				continue
			}
			mentions = true
			if q.Rel == "==" && q.L.C == 0 && len(q.L.T) == 1 {
				is = true
			}
		}
		for _, q := range at.ineqs {
			if _, has := q.L.T[c05StartTerm]; has && an.EdgeDominates(q.Edge, b) {
				mentions = true
				// unsigned: start <= 0 is start == 0
				if q.Rel == ">=" && q.L.C == 0 && len(q.L.T) == 1 && q.L.T[c05StartTerm] == -1 {
					is = true
				}
			}
		}
		for _, f := range w.FactsDominatingBlock(b) {
			if strings.Contains(f.Atom, "SwapData.StartingBlockHeight") || strings.Contains(f.L+f.R, "SwapData.StartingBlockHeight") {
				mentions = true
			}
		}
		if len(at.opaque) > 0 {
			mentions = true
		}
		return
	}
	btcReach := func(fn *ssa.Function, b *ssa.BasicBlock) bool {
		return an.ReachBlocks([]*ssa.BasicBlock{fn.Blocks[0]}, c05Cut(env.nonBitcoinEdges(fn)), nil)[b]
	}
	nStates := 0
	for _, t := range tk {
		for _, s := range t.T.Order {
			e := t.T.States[s]
			if e.FailOnRecover || len(t.Sum[s].Execs) == 0 {
				continue
			}
			// the functions this state runs synchronously
			type site struct {
				fn     *ssa.Function
				caller ssa.CallInstruction // nil for the action's own Execute
			}
			var fns []site
			seen := map[*ssa.Function]bool{}
			for _, ex := range t.Sum[s].Execs {
				if !seen[ex] {
					seen[ex] = true
					fns = append(fns, site{fn: ex})
				}
			}
			for _, ef := range t.Sum[s].Effects {
				if g := ef.Info.Static; g != nil && !ef.Info.IsGo && w.InModule(g) && !seen[g] && len(writers[g]) > 0 {
					seen[g] = true
					fns = append(fns, site{fn: g, caller: ef.Info.Instr})
				}
			}
			has := false
			for _, x := range fns {
				for _, st := range writers[x.fn] {
					has = true
					cons := t.key(s) + " store in " + w.FuncName(x.fn)
					pos := w.Pos(st.Pos())
					once, mentions := setOnce(st.Block())
					switch {
					case once:
						c.OK("C05.R3", cons, pos, "the anchor is only written under StartingBlockHeight == 0 (set once; a re-execution after a restart keeps it)")
					case !btcReach(x.fn, st.Block()):
						c.OK("C05.R3", cons, pos, "the store is unreachable for a Bitcoin swap (Liquid anchor: C13.R3)")
					case x.caller == nil && mentions:
						c.Unknown("C05.R3", cons, pos, "the store to the anchor is conditional on something that involves the anchor (or on an opaque predicate helper), but not recognisably on StartingBlockHeight == 0: unsupported shape. Facts: "+an.DescribeFacts(w.FactsDominatingBlock(st.Block())))
					case x.caller == nil:
						c.Bad("C05.R3", cons, pos, "this state is re-executed by Recover after every restart and its action overwrites SwapData.StartingBlockHeight without requiring it to be unset: each restart of a Bitcoin taker in this state moves the anchor of every payment-window check (await-state range check, watcher limit, pay-loop now-start bound) forward to the restart height, while the maker's CSV keeps running from the confirmation; a claim payment can then be sent at a height P with P + route CLTV >= confirmation + CSV. Facts that do dominate the store: "+an.DescribeFacts(w.FactsDominatingBlock(st.Block())))
					default:
						// the store sits in a helper: credit a guard at the call site
						cb := x.caller.Block()
						cf := cb.Parent()
						if o, _ := setOnce(cb); o || !btcReach(cf, cb) {
							c.OK("C05.R3", cons, pos, "the helper that writes the anchor is only called under StartingBlockHeight == 0 / not for Bitcoin swaps")
						} else {
							c.Unknown("C05.R3", cons, pos, "the anchor is written inside a helper and neither the store nor its call site at "+w.Pos(x.caller.Pos())+" is visibly conditional on StartingBlockHeight == 0; a condition passed through parameters is a shape this rule does not interpret")
						}
					}
				}
			}
			if has {
				nStates++
			}
		}
	}
	c.AtLeast("C05.R3", "recoverable taker states whose action writes StartingBlockHeight", nStates, 2)
}

// ---- R4: the only guard that sees the confirmation height (LND) -------------------------------

// c05R4. With the LND back-end the confirmation watcher's depth test
//
//	tip - H + 1 < onchain.BitcoinCsvSafetyLimit
//
// is the only comparison in the whole taker path that involves the height H at
// which the opening transaction confirmed (package swap never sees it, see
// R2's note). It is what keeps "pay height + route CLTV" related to "H + CSV"
// when the transaction confirmed long before the taker's start. The rule finds
// the positive reports structurally (dynamic call through the field that
// AddConfirmationCallback of the lnd implementation of swap.TxWatcher stores,
// error argument nil), and requires a dominating inequality over exactly
// {tip, H}: tip read by the watcher's own GetBlockHeight, H the event's own
// height and nothing merged into it.
func c05R4(c *an.Check, env *c05Env, csv int64, csvOK bool) {
	w := c.W
	// the lnd implementation of swap.TxWatcher
	var watcher *types.Named
	twI := w.Named("swap", "TxWatcher")
	if twI == nil {
		c.Anchor("swap.TxWatcher does not resolve")
		return
	}
	it, _ := twI.Underlying().(*types.Interface)
	if pkg := w.ByRel["lnd"]; pkg != nil && it != nil {
		sc := pkg.Types.Scope()
		for _, name := range sc.Names() {
			tn, ok := sc.Lookup(name).(*types.TypeName)
			if !ok || tn.IsAlias() {
				continue
			}
			n, ok := tn.Type().(*types.Named)
			if !ok || types.IsInterface(n) {
				continue
			}
			if types.Implements(types.NewPointer(n), it) || types.Implements(n, it) {
				watcher = n
			}
		}
	}
	if watcher == nil {
		c.Anchor("package lnd has no implementation of swap.TxWatcher")
		return
	}
	reg := w.Method(watcher, "AddConfirmationCallback")
	tipFn := w.Method(watcher, "GetBlockHeight")
	if reg == nil || reg.Blocks == nil || tipFn == nil {
		c.Anchor("lnd %s: AddConfirmationCallback / GetBlockHeight do not resolve", watcher.Obj().Name())
		return
	}
	// the field the callback is kept in
	cbField := ""
	for _, b := range reg.Blocks {
		for _, in := range b.Instrs {
			st, ok := in.(*ssa.Store)
			if !ok {
				continue
			}
			fa, isFA := st.Addr.(*ssa.FieldAddr)
			if _, isParam := st.Val.(*ssa.Parameter); isFA && isParam {
				cbField = an.FieldName(fa.X.Type(), fa.Field)
			}
		}
	}
	if cbField == "" {
		c.Anchor("lnd AddConfirmationCallback does not store its parameter into a field: the report sites cannot be found")
		return
	}
	// the safety limit constant
	limit, haveLimit := int64(0), false
	if op := w.ByRel["onchain"]; op != nil {
		if co, ok := op.Types.Scope().Lookup("BitcoinCsvSafetyLimit").(*types.Const); ok {
			if v, exact := constantInt64(co); exact {
				limit, haveLimit = v, true
			}
		}
	}
	if !haveLimit {
		c.Anchor("constant onchain.BitcoinCsvSafetyLimit does not resolve")
		return
	}
	if csvOK {
		c.Decide(limit*2 == csv || limit == csv/2, "C05.R4", "onchain.BitcoinCsvSafetyLimit", "-",
			fmt.Sprintf("BitcoinCsvSafetyLimit = %d = CSV/2 (CSV = %d from the validated script)", limit, csv),
			fmt.Sprintf("onchain.BitcoinCsvSafetyLimit = %d is not half of the CSV of the validated script (%d): the watcher's depth refusal no longer matches the window arithmetic of R2", limit, csv))
	} else {
		c.Unknown("C05.R4", "onchain.BitcoinCsvSafetyLimit", "-", "the script CSV could not be extracted (C05.R1), the safety limit cannot be tied to it")
	}

	// positive report sites
	nSites := 0
	for _, fn := range prodFuncs(w) {
		if w.FnRel(fn) != "lnd" {
			continue
		}
		for _, call := range an.Calls(fn) {
			ci := w.Info(call)
			if ci.Name != "dyn:"+cbField || ci.IsGo || ci.IsDefer {
				continue
			}
			args := call.Common().Args
			if len(args) == 0 || !an.IsErrorType(args[len(args)-1].Type()) {
				continue
			}
			if !an.IsNilConst(args[len(args)-1]) {
				if _, isConstErr := args[len(args)-1].(*ssa.Const); isConstErr {
					continue
				}
				// a non-constant error: certainly non-nil only for fresh error values
				if c05FreshError(w, args[len(args)-1]) {
					continue
				}
			}
			nSites++
			c05R4Site(c, env, fn, call, tipFn, limit, an.IsNilConst(args[len(args)-1]))
		}
	}
	c.AtLeast("C05.R4", "positive confirmation reports in package lnd", nSites, 1)
}

func constantInt64(co *types.Const) (int64, bool) {
	v := co.Val()
	if v == nil {
		return 0, false
	}
	s := v.ExactString()
	var n int64
	if _, err := fmt.Sscanf(s, "%d", &n); err != nil {
		return 0, false
	}
	return n, true
}

// c05FreshError: v is certainly a non-nil error (fmt.Errorf / errors.New / a concrete error value).
func c05FreshError(w *an.World, v ssa.Value) bool {
	switch x := v.(type) {
	case *ssa.MakeInterface:
		return true
	case *ssa.Call:
		switch w.Info(x).Name {
		case "func:fmt.Errorf", "func:errors.New":
			return true
		}
	}
	return false
}

// c05EventHeight classifies a value that is used as the confirmation height:
// "event" = the confirmation event's own block height (a field whose every
// production writer stores chainrpc ConfDetails.BlockHeight, or that field
// itself); "foreign" = positively something else, or something else merged in
// (phi / min / max / overwritten local); "?" = not traceable.
func c05EventHeight(w *an.World, v ssa.Value, depth int) (kind, what string) {
	if depth > 6 {
		return "?", "too deep"
	}
	isConf := func(t string) bool { return strings.HasSuffix(t, "ConfDetails.BlockHeight") }
	switch x := v.(type) {
	case *ssa.Convert:
		return c05EventHeight(w, x.X, depth+1)
	case *ssa.ChangeType:
		return c05EventHeight(w, x.X, depth+1)
	case *ssa.Const:
		return "foreign", "the constant " + w.Term(x)
	case *ssa.Parameter:
		// a helper parameter: what the callers pass; an entry point's parameter
		// (no static caller) is positively not the event's height
		fn := x.Parent()
		idx := -1
		for i, p := range fn.Params {
			if p == x {
				idx = i
			}
		}
		var sites []ssa.CallInstruction
		if fn.Parent() == nil {
			sites = findCallSites(w, "func:"+w.FuncName(fn))
		}
		if len(sites) == 0 || idx < 0 {
			return "foreign", "parameter " + x.Name() + " of " + w.FuncName(fn) + " (handed in from outside, e.g. the height hint), not the event's height"
		}
		worst, desc := "event", "what every caller passes is the event's height"
		for _, cs := range sites {
			if idx >= len(cs.Common().Args) {
				return "?", "a caller with a different argument list"
			}
			k, d := c05EventHeight(w, cs.Common().Args[idx], depth+1)
			if k == "foreign" || (k == "?" && worst == "event") {
				worst, desc = k, d+" (passed at "+w.Pos(cs.Pos())+")"
			}
		}
		return worst, desc
	case *ssa.FreeVar:
		if b := c05FreeVarBinding(x); b != nil {
			return c05EventHeight(w, b, depth+1)
		}
		return "?", "a captured variable that cannot be resolved"
	case *ssa.Phi:
		var kinds []string
		worst := "event"
		for _, e := range x.Edges {
			k, d := c05EventHeight(w, e, depth+1)
			kinds = append(kinds, k+": "+d)
			if k == "foreign" || (k == "?" && worst == "event") {
				worst = k
			}
		}
		if worst == "event" {
			return "event", "all alternatives are the event's height"
		}
		return worst, "a value selected among [" + strings.Join(kinds, " | ") + "]"
	case *ssa.Call:
		ci := w.Info(x)
		if ci.Name == "builtin:max" || ci.Name == "builtin:min" {
			var kinds []string
			worst := "event"
			for _, a := range x.Call.Args {
				k, d := c05EventHeight(w, a, depth+1)
				kinds = append(kinds, k+": "+d)
				if k == "foreign" || (k == "?" && worst == "event") {
					worst = k
				}
			}
			if worst == "event" {
				return "event", "min/max of the event's height only"
			}
			return worst, strings.TrimPrefix(ci.Name, "builtin:") + " of [" + strings.Join(kinds, " | ") + "]"
		}
		if strings.Contains(ci.Name, "GetBlockHeight") {
			return "foreign", "the chain tip (" + ci.Name + "), not the event's height"
		}
		return "?", "the result of " + ci.Name
	case *ssa.Extract:
		if call, ok := x.Tuple.(*ssa.Call); ok {
			if strings.Contains(w.Info(call).Name, "GetBlockHeight") {
				return "foreign", "the chain tip, not the event's height"
			}
			return "?", "a result of " + w.Info(call).Name
		}
		return "?", w.Term(v)
	case *ssa.Field:
		key := an.FieldName(x.X.Type(), x.Field)
		return c05EventField(w, key, x.X, depth)
	case *ssa.UnOp:
		if x.Op != token.MUL {
			return "?", w.Term(v)
		}
		switch a := x.X.(type) {
		case *ssa.FieldAddr:
			key := an.FieldName(a.X.Type(), a.Field)
			if isConf(key) {
				return "event", "chainrpc ConfDetails.BlockHeight"
			}
			// a field of a local struct that is overwritten in this function
			if al, ok := a.X.(*ssa.Alloc); ok && al.Referrers() != nil {
				for _, r := range *al.Referrers() {
					fa, isFA := r.(*ssa.FieldAddr)
					if !isFA || fa.Field != a.Field || fa.Referrers() == nil {
						continue
					}
					for _, rr := range *fa.Referrers() {
						if st, isSt := rr.(*ssa.Store); isSt && st.Addr == fa {
							k, d := c05EventHeight(w, st.Val, depth+1)
							if k != "event" {
								return k, "the local event's height field is overwritten with " + d
							}
						}
					}
				}
			}
			return c05EventField(w, key, a.X, depth)
		case *ssa.FreeVar:
			// a captured variable (by reference): what the enclosing function stores in it
			if b, ok := c05FreeVarBinding(a).(*ssa.Alloc); ok {
				worst, desc := "event", "a captured variable holding the event's height"
				n := 0
				if b.Referrers() != nil {
					for _, r := range *b.Referrers() {
						if st, ok := r.(*ssa.Store); ok && st.Addr == b {
							n++
							k, d := c05EventHeight(w, st.Val, depth+1)
							if k == "foreign" || (k == "?" && worst == "event") {
								worst, desc = k, "the captured variable "+a.Name()+" = "+d
							}
						}
					}
				}
				if n > 0 {
					return worst, desc
				}
			}
			return "?", "a captured variable that cannot be resolved"
		case *ssa.Alloc:
			// a local variable: all stores
			worst, desc := "event", ""
			n := 0
			if a.Referrers() != nil {
				for _, r := range *a.Referrers() {
					if st, ok := r.(*ssa.Store); ok && st.Addr == a {
						n++
						k, d := c05EventHeight(w, st.Val, depth+1)
						if k == "foreign" || (k == "?" && worst == "event") {
							worst, desc = k, d
						}
					}
				}
			}
			if n == 0 {
				return "?", "a local that is never assigned"
			}
			if worst == "event" {
				return "event", "a local holding the event's height"
			}
			return worst, "a local that may hold " + desc
		}
	}
	return "?", w.Term(v)
}

// c05FreeVarBinding returns the value bound to a closure's free variable at
// the (single) MakeClosure of that closure.
func c05FreeVarBinding(fv *ssa.FreeVar) ssa.Value {
	fn := fv.Parent()
	par := fn.Parent()
	if par == nil {
		return nil
	}
	idx := -1
	for i, v := range fn.FreeVars {
		if v == fv {
			idx = i
		}
	}
	var found ssa.Value
	for _, b := range par.Blocks {
		for _, in := range b.Instrs {
			if mc, ok := in.(*ssa.MakeClosure); ok && mc.Fn == fn && idx >= 0 && idx < len(mc.Bindings) {
				if found != nil && found != mc.Bindings[idx] {
					return nil
				}
				found = mc.Bindings[idx]
			}
		}
	}
	return found
}

// c05EventField: key is a struct field used as the height; it is the event's
// height when every production writer of that field stores ConfDetails.BlockHeight.
func c05EventField(w *an.World, key string, base ssa.Value, depth int) (string, string) {
	if strings.HasSuffix(key, "ConfDetails.BlockHeight") {
		return "event", "chainrpc ConfDetails.BlockHeight"
	}
	ws := w.FieldWriters(key)
	n := 0
	for _, st := range ws {
		if an.IsTestSupport(w.FnRel(st.Parent())) {
			continue
		}
		n++
		t := w.Term(st.Val)
		if !strings.HasSuffix(t, "ConfDetails.BlockHeight") {
			k, d := c05EventHeight(w, st.Val, depth+1)
			if k != "event" {
				return k, "field " + key + ", which is written with " + d + " at " + w.Pos(st.Pos())
			}
		}
	}
	if n == 0 {
		return "?", "field " + key + " has no production writer"
	}
	return "event", "field " + key + " (written only with chainrpc ConfDetails.BlockHeight)"
}

func c05R4Site(c *an.Check, env *c05Env, fn *ssa.Function, call ssa.CallInstruction, tipFn *ssa.Function, limit int64, certainlyNil bool) {
	w := c.W
	cons := "positive confirmation report in " + w.FuncName(fn)
	pos := w.Pos(call.Pos())
	at := env.atoms(fn)
	isTip := func(v ssa.Value) bool {
		cl := c05CallOf(v)
		return cl != nil && cl.Call.StaticCallee() == tipFn
	}
	type cand struct {
		iq    c05Ineq
		bound int64
		h     ssa.Value
	}
	var cands []cand
	var other []string
	for _, iq := range at.ineqs {
		if !an.EdgeDominates(iq.Edge, call.Block()) {
			continue
		}
		var tipK, hK string
		for k, co := range iq.L.T {
			switch {
			case co == -1 && isTip(iq.L.Leaf[k]):
				tipK = k
			case co == 1:
				hK = k
			}
		}
		if tipK == "" {
			continue
		}
		if len(iq.L.T) != 2 || hK == "" {
			other = append(other, fmt.Sprintf("%s %s 0 at %s", iq.L.String(), iq.Rel, w.Pos(iq.Pos)))
			continue
		}
		b := iq.L.C
		if iq.Rel == ">" {
			b--
		}
		cands = append(cands, cand{iq: iq, bound: b, h: iq.L.Leaf[hK]})
	}
	if len(cands) == 0 {
		var helpers []string
		for _, iq := range at.ineqs {
			if !an.EdgeDominates(iq.Edge, call.Block()) {
				continue
			}
			for _, lv := range iq.L.Leaf {
				if cl := c05CallOf(lv); cl != nil {
					if g := cl.Call.StaticCallee(); g != nil && g != tipFn && w.InModule(g) {
						helpers = append(helpers, w.FuncName(g))
					}
				}
			}
		}
		switch {
		case len(helpers) > 0:
			c.Unknown("C05.R4", cons, pos, "the report is dominated by a comparison on the result of "+strings.Join(helpers, ", ")+", a helper this rule cannot evaluate: the depth test may be computed there")
		case len(other) > 0:
			c.Unknown("C05.R4", cons, pos, "the report is dominated by comparisons involving the chain tip, but none has the form tip - H <= K over exactly {tip, H}: "+strings.Join(other, " | "))
		case len(at.opaque) > 0:
			c.Unknown("C05.R4", cons, pos, "no depth test is visible, but the function branches on "+strings.Join(at.opaque, ", ")+", which this rule cannot look into")
		case len(findCallSites(w, "func:"+w.FuncName(fn))) > 0:
			c.Unknown("C05.R4", cons, pos, "no depth test dominates the report inside "+w.FuncName(fn)+"; the function has callers where the test may sit: unsupported shape")
		case !certainlyNil:
			c.Unknown("C05.R4", cons, pos, "a report whose error argument may be nil is not dominated by a depth test, and this rule cannot tell whether the error is nil here")
		default:
			c.Bad("C05.R4", cons, pos, "a confirmation is reported to the swap (nil error) without any dominating test  tip - confirmationHeight + 1 < BitcoinCsvSafetyLimit: with LND this is the only guard that relates the payment to the height at which the opening transaction confirmed, so a transaction that confirmed long before the taker's start is paid for although pay height + route CLTV exceeds confirmation height + CSV")
		}
		return
	}
	// the best candidate: event height, tightest bound
	want := limit - 2 // tip - H + 1 < limit  <=>  tip - H <= limit-2
	var foreign, unknown, weak []string
	for _, cd := range cands {
		kind, what := c05EventHeight(w, cd.h, 0)
		form := fmt.Sprintf("%s %s 0 at %s", cd.iq.L.String(), cd.iq.Rel, w.Pos(cd.iq.Pos))
		switch {
		case kind == "event" && cd.bound <= want:
			c.OK("C05.R4", cons, pos, fmt.Sprintf("dominated by %s, i.e. tip - H <= %d (limit %d), H = %s", form, cd.bound, limit, what))
			return
		case kind == "event":
			weak = append(weak, fmt.Sprintf("%s gives tip - H <= %d, weaker than tip - H + 1 < %d", form, cd.bound, limit))
		case kind == "foreign":
			foreign = append(foreign, fmt.Sprintf("%s: the height it subtracts is %s", form, what))
		default:
			unknown = append(unknown, fmt.Sprintf("%s: cannot trace the subtracted height (%s)", form, what))
		}
	}
	switch {
	case len(unknown) > 0:
		c.Unknown("C05.R4", cons, pos, strings.Join(unknown, " | "))
	case len(foreign) > 0:
		c.Bad("C05.R4", cons, pos, "the depth test that guards the positive report is not computed from the confirmation event's own block height: "+strings.Join(foreign, " | ")+". A confirmation far below the merged-in value looks shallow, passes the BitcoinCsvSafetyLimit refusal and is paid for although pay height + route CLTV exceeds confirmation height + CSV (this test is the only guard that sees the confirmation height, cf. C05.R2)")
	default:
		c.Bad("C05.R4", cons, pos, "the depth test that guards the positive report is weaker than tip - H + 1 < onchain.BitcoinCsvSafetyLimit: "+strings.Join(weak, " | "))
	}
}

// c05ScriptCSV: the CSV the taker's Bitcoin validator requires in the script it accepts.
func c05ScriptCSV(c *an.Check) (int64, bool) {
	w := c.W
	fn := w.Func("onchain", "(*BitcoinOnChain).ValidateTx")
	calls := callsNamed(w, fn, c05Script)
	if len(calls) == 0 {
		// the script may be built by a helper of the validator
		for _, ef := range w.Summary(fn).Sites(c05Script) {
			if !ef.Info.IsGo {
				calls = append(calls, ef.Info.Instr)
			}
		}
	}
	if !c.AtLeast("C05.R1", "ParamsToTxScript calls reached from (*BitcoinOnChain).ValidateTx", len(calls), 1) {
		return 0, false
	}
	vals := map[int64]bool{}
	for _, call := range calls {
		args := call.Common().Args
		if len(args) != 2 {
			c.Unknown("C05.R1", "script CSV", w.Pos(call.Pos()), "ParamsToTxScript no longer takes (params, csv)")
			return 0, false
		}
		v, ok := an.ConstInt(args[1])
		if !ok {
			c.Unknown("C05.R1", "script CSV", w.Pos(call.Pos()), "the CSV of the validated Bitcoin script is not a constant ("+w.Term(args[1])+"): the worst case is not a constant expression any more")
			return 0, false
		}
		vals[v] = true
	}
	if len(vals) != 1 {
		c.Unknown("C05.R1", "script CSV", w.Pos(fn.Pos()), "ValidateTx builds scripts with different CSV constants")
		return 0, false
	}
	for v := range vals {
		c.OK("C05.R1", "script CSV", w.Pos(calls[0].Pos()), fmt.Sprintf("(*BitcoinOnChain).ValidateTx accepts only the script with CSV = %d", v))
		return v, true
	}
	return 0, false
}

// c05ValidatorCSV establishes the wiring fact: getOnChainServices returns the
// field F on the chain == "btc" edge; every production value stored into F is
// a *T whose GetCSVHeight returns one constant.
func c05ValidatorCSV(c *an.Check, env *c05Env) {
	w := c.W
	sel := env.servicesFn
	pos := w.Pos(sel.Pos())
	res := sel.Signature.Results()
	for i := 0; i < res.Len(); i++ {
		if n := an.NamedOf(res.At(i).Type()); n != nil && n.Obj().Name() == "Validator" {
			env.valIdx = i
		}
	}
	if env.valIdx < 0 || len(sel.Params) != 2 {
		c.Unknown("C05.R1", "validator CSV", pos, "getOnChainServices has no Validator result / unexpected parameters")
		return
	}
	field := ""
	for _, r := range an.Returns(sel) {
		excluded := false
		for _, f := range w.FactsDominatingBlock(r.Block()) {
			if !f.NonNum {
				continue
			}
			other := ""
			switch {
			case f.L == "param#1":
				other = f.R
			case f.R == "param#1":
				other = f.L
			default:
				continue
			}
			if (f.Rel == "==" && other != `"`+c05Bitcoin+`"`) || (f.Rel == "!=" && other == `"`+c05Bitcoin+`"`) {
				excluded = true
			}
		}
		if excluded {
			continue
		}
		if len(r.Results) <= env.valIdx {
			continue
		}
		// an error return is fine: callers stop on err != nil
		if last := r.Results[len(r.Results)-1]; an.IsErrorType(last.Type()) && !an.IsNilConst(last) {
			continue
		}
		t := w.Term(r.Results[env.valIdx])
		if !strings.HasPrefix(t, "field:SwapServices.") {
			c.Unknown("C05.R1", "validator CSV", w.Pos(r.Pos()), "for chain \"btc\" getOnChainServices returns "+t+", not a field of SwapServices")
			return
		}
		if field != "" && field != t {
			c.Unknown("C05.R1", "validator CSV", w.Pos(r.Pos()), "two different validators are returned for chain \"btc\"")
			return
		}
		field = t
	}
	if field == "" {
		c.Unknown("C05.R1", "validator CSV", pos, "no return of getOnChainServices is compatible with chain == \"btc\"")
		return
	}
	key := strings.TrimPrefix(field, "field:")
	vals := map[int64]bool{}
	var typs []string
	nW := 0
	for _, st := range w.FieldWriters(key) {
		if an.IsTestSupport(w.FnRel(st.Parent())) {
			continue
		}
		nW++
		prm, ok := st.Val.(*ssa.Parameter)
		if !ok {
			c.Unknown("C05.R1", "validator CSV", w.Pos(st.Pos()), key+" is written with something that is not a constructor parameter")
			return
		}
		idx := -1
		for i, p := range prm.Parent().Params {
			if p == prm {
				idx = i
			}
		}
		sites := findCallSites(w, "func:"+w.FuncName(prm.Parent()))
		if len(sites) == 0 {
			c.Unknown("C05.R1", "validator CSV", w.Pos(st.Pos()), "no production call of "+w.FuncName(prm.Parent()))
			return
		}
		for _, s := range sites {
			a := s.Common().Args[idx]
			mi, ok := a.(*ssa.MakeInterface)
			if !ok {
				c.Unknown("C05.R1", "validator CSV", w.Pos(s.Pos()), "the Bitcoin validator passed here is not a concrete value ("+w.Term(a)+")")
				return
			}
			n := an.NamedOf(mi.X.Type())
			m := w.Method(n, "GetCSVHeight")
			if m == nil || m.Blocks == nil {
				c.Unknown("C05.R1", "validator CSV", w.Pos(s.Pos()), "GetCSVHeight of the wired validator has no body")
				return
			}
			for _, r := range an.Returns(m) {
				v, ok := an.ConstInt(r.Results[0])
				if !ok {
					c.Unknown("C05.R1", "validator CSV", w.Pos(r.Pos()), "GetCSVHeight does not return a constant")
					return
				}
				vals[v] = true
			}
			typs = append(typs, fmt.Sprintf("%s at %s", n.Obj().Name(), w.Pos(s.Pos())))
		}
	}
	if !c.AtLeast("C05.R1", "production wirings of the Bitcoin validator", len(typs), 2) {
		return
	}
	if len(vals) != 1 {
		c.Unknown("C05.R1", "validator CSV", pos, fmt.Sprintf("the wired Bitcoin validators return different CSV heights %v", vals))
		return
	}
	for v := range vals {
		env.csv, env.csvOK = v, true
		c.OK("C05.R1", "validator CSV", pos, fmt.Sprintf("chain \"btc\" selects %s, wired as %s; GetCSVHeight() = %d", key, strings.Join(typs, ", "), v))
	}
}

// c05BitcoinLimit: the Bitcoin policy row leaves the route limit at 0 and that
// field is what the action hands to the back-end, so the back-ends run their
// unlimited path for Bitcoin swaps.
func c05BitcoinLimit(c *an.Check, env *c05Env) bool {
	w := c.W
	fn := env.policyFn
	n := 0
	ok := true
	for _, r := range an.Returns(fn) {
		if len(r.Results) != 2 || !an.IsNilConst(r.Results[1]) {
			continue
		}
		isBtc := false
		for _, f := range w.FactsDominatingBlock(r.Block()) {
			if c05ChainFact(f) == 2 {
				isBtc = true
			}
		}
		if !isBtc {
			continue
		}
		n++
		u, isLoad := r.Results[0].(*ssa.UnOp)
		var al *ssa.Alloc
		if isLoad {
			al, _ = u.X.(*ssa.Alloc)
		}
		if al == nil {
			c.Unknown("C05.R1", "Bitcoin route limit", w.Pos(r.Pos()), "the Bitcoin policy row is not a composite literal")
			ok = false
			continue
		}
		v, set := an.CompositeFieldValue(al, "MaxTotalCLTVDelta")
		if set {
			if k, isC := an.ConstInt(v); !isC || k != 0 {
				c.Unknown("C05.R1", "Bitcoin route limit", w.Pos(r.Pos()), "the Bitcoin policy row sets a total-CLTV limit ("+w.Term(v)+"): the route delay is then bounded by the limit, a case this rule does not evaluate")
				ok = false
				continue
			}
		}
		c.OK("C05.R1", "Bitcoin route limit", w.Pos(r.Pos()), "the Bitcoin policy row has MaxTotalCLTVDelta = 0 (back-ends take their unlimited path)")
	}
	if !c.AtLeast("C05.R1", "Bitcoin rows of getTimelockPolicy", n, 1) {
		return false
	}
	for _, site := range c05PaySites(w) {
		p := site.at
		if len(site.pay.Common().Args) != 3 || site.argTerm(w, 2) != "call:"+env.policyName+"#0>"+env.polName+".MaxTotalCLTVDelta" {
			c.Unknown("C05.R1", "Bitcoin route limit", w.Pos(p.Pos()), "the limit argument of RebalancePayment is not policy.MaxTotalCLTVDelta; which builder path Bitcoin payments take is not decided (see C04.R6)")
			ok = false
		}
	}
	return ok
}

// c05Bound finds, among ineqs, those with exactly the terms want and returns
// the smallest upper bound K such that  -x + ... + K >= 0  style facts hold on
// every Bitcoin path to target (from the entry, and if loopFrom != nil also
// from loopFrom's successors back to target).
type c05Found struct {
	bound int64
	iq    c05Ineq
}

func c05Bounds(w *an.World, iqs []c05Ineq, want map[string]int64, nonBtc []an.Edge, target *ssa.BasicBlock, loop bool) (found []c05Found, almost []string, unresolved []string) {
	fn := target.Parent()
	for _, iq := range iqs {
		match := true
		for k, v := range want {
			if iq.L.T[k] != v {
				match = false
			}
		}
		if !match {
			continue
		}
		if len(iq.L.T) != len(want) {
			// the right variables, plus something that did not fold to a constant
			if !an.ReachBlocks([]*ssa.BasicBlock{fn.Blocks[0]}, c05Cut(nonBtc, []an.Edge{iq.Edge}), nil)[target] {
				unresolved = append(unresolved, fmt.Sprintf("%s %s 0 at %s", iq.L.String(), iq.Rel, w.Pos(iq.Pos)))
			}
			continue
		}
		cut := c05Cut(nonBtc, []an.Edge{iq.Edge})
		if an.ReachBlocks([]*ssa.BasicBlock{fn.Blocks[0]}, cut, nil)[target] {
			almost = append(almost, fmt.Sprintf("%s %s 0 at %s does not lie on every Bitcoin path from the entry", iq.L.String(), iq.Rel, w.Pos(iq.Pos)))
			continue
		}
		if loop && an.ReachBlocks(target.Succs, cut, nil)[target] {
			almost = append(almost, fmt.Sprintf("%s %s 0 at %s is not re-tested between two payment attempts", iq.L.String(), iq.Rel, w.Pos(iq.Pos)))
			continue
		}
		k := iq.L.C
		if iq.Rel == ">" {
			k--
		}
		found = append(found, c05Found{bound: k, iq: iq})
	}
	return
}

// c05HandedToHelper names an in-module helper that, on a Bitcoin path to
// target, receives the value named term as an argument (a comparison may have
// been moved into it).
func c05HandedToHelper(w *an.World, fn *ssa.Function, term string, nonBtc []an.Edge, target *ssa.BasicBlock) string {
	reach := an.ReachBlocks([]*ssa.BasicBlock{fn.Blocks[0]}, c05Cut(nonBtc), nil)
	for _, call := range an.Calls(fn) {
		ci := w.Info(call)
		if ci.Static == nil || !w.InModule(ci.Static) || ci.Static.Blocks == nil || !reach[call.Block()] {
			continue
		}
		for _, a := range call.Common().Args {
			if w.Term(a) == term {
				return w.FuncName(ci.Static)
			}
		}
	}
	return ""
}

// c05Site is a claim-payment site as seen from the function that decides about
// it: the RebalancePayment call itself, or — when the call sits in a small
// in-module helper that has static callers — the call of that helper (lifted,
// to a bounded depth), with the helper's parameters bound to the arguments.
type c05Site struct {
	at    ssa.CallInstruction   // instruction in the deciding function
	pay   ssa.CallInstruction   // the RebalancePayment call
	steps []ssa.CallInstruction // helper calls from the innermost outwards (empty when not lifted)
	// the pay call can repeat inside a helper without returning to the caller
	loopInHelper bool
}

var c05ParamRx = regexp.MustCompile(`param#(\d+)`)

// argTerm names argument i of the pay call in the vocabulary of the deciding function.
func (s c05Site) argTerm(w *an.World, i int) string {
	args := s.pay.Common().Args
	if i >= len(args) {
		return ""
	}
	t := w.Term(args[i])
	for _, st := range s.steps {
		cargs := st.Common().Args
		t = c05ParamRx.ReplaceAllStringFunc(t, func(m string) string {
			k := 0
			fmt.Sscanf(m, "param#%d", &k)
			if k < len(cargs) {
				return w.Term(cargs[k])
			}
			return m
		})
	}
	return t
}

// argRoot returns the value at the root of argument i's field chain, followed
// through helper parameters into the deciding function (nil if not traceable).
func (s c05Site) argRoot(w *an.World, i int) ssa.Value {
	args := s.pay.Common().Args
	if i >= len(args) {
		return nil
	}
	v := args[i]
	for {
		if cv, ok := v.(*ssa.Convert); ok {
			v = cv.X
			continue
		}
		break
	}
	_, root := w.FieldChain(v)
	for _, st := range s.steps {
		p, ok := root.(*ssa.Parameter)
		if !ok {
			return nil
		}
		k := -1
		for j, q := range p.Parent().Params {
			if q == p {
				k = j
			}
		}
		if k < 0 || k >= len(st.Common().Args) {
			return nil
		}
		_, root = w.FieldChain(st.Common().Args[k])
	}
	return root
}

// c05PaySites lists the claim-payment sites, lifted out of helpers.
func c05PaySites(w *an.World) []c05Site { return c05Sites(w, fxPay) }

// c05Sites lists the call sites of the service method name, lifted out of helpers.
func c05Sites(w *an.World, name string) []c05Site {
	var out []c05Site
	var lift func(s c05Site, depth int)
	lift = func(s c05Site, depth int) {
		fn := s.at.Parent()
		var callers []ssa.CallInstruction
		if fn.Parent() == nil && depth < 3 {
			for _, cs := range findCallSites(w, "func:"+w.FuncName(fn)) {
				if _, isCall := cs.(*ssa.Call); isCall && len(cs.Common().Args) == len(fn.Params) {
					callers = append(callers, cs)
				}
			}
		}
		if len(callers) == 0 {
			out = append(out, s)
			return
		}
		if an.ReachBlocks(s.at.Block().Succs, nil, nil)[s.at.Block()] {
			s.loopInHelper = true
		}
		for _, cs := range callers {
			lift(c05Site{at: cs, pay: s.pay, steps: append(append([]ssa.CallInstruction{}, s.steps...), cs), loopInHelper: s.loopInHelper}, depth+1)
		}
	}
	for _, p := range findCallSites(w, name) {
		lift(c05Site{at: p, pay: p}, 0)
	}
	return out
}

// c05Wmax: the largest now-start accepted at a payment attempt on the Bitcoin branch.
func c05Wmax(c *an.Check, env *c05Env) (int64, bool) {
	w := c.W
	sites := c05PaySites(w)
	if !c.AtLeast("C05.R1", "claim-payment call sites", len(sites), 1) {
		return 0, false
	}
	worst, ok := int64(-1), true
	for _, site := range sites {
		p := site.at // the pay call, or the call of the helper that pays
		fn := p.Parent()
		cons := "Wmax at " + w.FuncName(fn)
		pos := w.Pos(p.Pos())
		if site.loopInHelper {
			ok = false
			c.Unknown("C05.R1", cons, pos, "the payment is made inside a helper in which it can repeat without returning to the caller's checks: unsupported shape")
			continue
		}
		found, almost, unres := c05Bounds(w, env.ineqs(fn), map[string]int64{c05HeightTerm: -1, c05StartTerm: 1}, env.nonBitcoinEdges(fn), p.Block(), true)
		// the height must be read in the same attempt
		var good []c05Found
		for _, f := range found {
			h := c05CallOf(f.iq.L.Leaf[c05HeightTerm])
			fresh := false
			if h != nil {
				// every way from one attempt to the comparison re-executes the read
				fresh = h.Block() == f.iq.Edge.From || !an.ReachBlocks(p.Block().Succs, nil, map[*ssa.BasicBlock]bool{h.Block(): true})[f.iq.Edge.From]
				if recv := h.Call.Value; recv == nil || !strings.HasPrefix(w.Term(recv), "call:"+env.servicesName+"#") {
					fresh = false
				}
			}
			if fresh {
				good = append(good, f)
			} else {
				almost = append(almost, fmt.Sprintf("the height compared at %s is not read from the selected chain service within the same payment attempt", w.Pos(f.iq.Pos)))
			}
		}
		if len(good) == 0 && len(unres) > 0 {
			ok = false
			c.Unknown("C05.R1", cons, pos, "a comparison of now and StartingBlockHeight dominates the payment but its bound is not a constant this rule can fold: "+strings.Join(unres, " | "))
			continue
		}
		if op := env.atoms(fn).opaque; len(good) == 0 && len(op) > 0 {
			ok = false
			c.Unknown("C05.R1", cons, pos, "no inline bound on now-start and the action branches on predicate helpers this rule cannot look into (more than one return): "+strings.Join(op, ", "))
			continue
		}
		if h := c05HandedToHelper(w, fn, c05HeightTerm, env.nonBitcoinEdges(fn), p.Block()); len(good) == 0 && h != "" {
			ok = false
			c.Unknown("C05.R1", cons, pos, "no inline bound on now-start, but the height is handed to "+h+" on the Bitcoin branch: a comparison moved into a helper is a shape this rule does not interpret")
			continue
		}
		if len(good) == 0 {
			ok = false
			c.Bad("C05.R1", cons, pos, "on the Bitcoin branch no comparison  now - StartingBlockHeight <= K  (K constant) dominates every payment attempt: the payment height is unbounded relative to the swap start, so the HTLC can be created arbitrarily close to (or after) the CSV maturity. Candidates: "+strings.Join(almost, " | "))
			continue
		}
		best := good[0]
		for _, g := range good {
			if g.bound < best.bound {
				best = g
			}
		}
		c.OK("C05.R1", cons, w.Pos(best.iq.Pos), fmt.Sprintf("every Bitcoin payment attempt is dominated by  %s %s 0, i.e. now-start <= %d", best.iq.L.String(), best.iq.Rel, best.bound))
		if best.bound > worst {
			worst = best.bound
		}
	}
	return worst, ok && worst >= 0
}

// c05Fmax: the largest invoice final CLTV accepted before the confirmation
// watch (whose callback leads to the pay state) is registered.
func c05Fmax(c *an.Check, env *c05Env) (int64, bool) {
	w := c.W
	var regs []c05Site
	for _, r := range c05Sites(w, fxWaitConf) {
		if w.FnRel(r.at.Parent()) == "swap" {
			regs = append(regs, r)
		}
	}
	if !c.AtLeast("C05.R1", "AddWaitForConfirmationTx call sites in package swap", len(regs), 1) {
		return 0, false
	}
	payTerms := map[string]bool{}
	for _, site := range c05PaySites(w) {
		if t := site.argTerm(w, 0); t != "" {
			payTerms[t] = true
		}
	}
	worst, ok := int64(-1), true
	covered := map[*ssa.Function]bool{}
	for _, rsite := range regs {
		reg := rsite.at
		fn := reg.Parent()
		covered[fn] = true
		covered[rsite.pay.Parent()] = true
		cons := "Fmax at " + w.FuncName(fn)
		found, almost, unres := c05Bounds(w, env.ineqs(fn), map[string]int64{c05FinalTerm: -1}, env.nonBitcoinEdges(fn), reg.Block(), false)
		var good []c05Found
		for _, f := range found {
			d := c05CallOf(f.iq.L.Leaf[c05FinalTerm])
			if d != nil && len(d.Call.Args) > 0 && payTerms[w.Term(d.Call.Args[0])] {
				good = append(good, f)
			} else {
				almost = append(almost, fmt.Sprintf("the invoice decoded for the comparison at %s is not the one that is paid", w.Pos(f.iq.Pos)))
			}
		}
		if len(good) == 0 && len(unres) > 0 {
			ok = false
			c.Unknown("C05.R1", cons, w.Pos(reg.Pos()), "a comparison of the invoice final CLTV dominates the registration but its bound is not a constant this rule can fold: "+strings.Join(unres, " | "))
			continue
		}
		if op := env.atoms(fn).opaque; len(good) == 0 && len(op) > 0 {
			ok = false
			c.Unknown("C05.R1", cons, w.Pos(reg.Pos()), "no inline bound on the invoice final CLTV and the action branches on predicate helpers this rule cannot look into (more than one return): "+strings.Join(op, ", "))
			continue
		}
		if h := c05HandedToHelper(w, fn, c05FinalTerm, env.nonBitcoinEdges(fn), reg.Block()); len(good) == 0 && h != "" {
			ok = false
			c.Unknown("C05.R1", cons, w.Pos(reg.Pos()), "no inline bound on the invoice final CLTV, but it is handed to "+h+" on the Bitcoin branch: a comparison moved into a helper is a shape this rule does not interpret")
			continue
		}
		if len(good) == 0 {
			ok = false
			c.Bad("C05.R1", cons, w.Pos(reg.Pos()), "on the Bitcoin branch the confirmation watch is registered without a dominating comparison  invoice final CLTV <= K  (K constant): the maker chooses how long the HTLC may stay open. Candidates: "+strings.Join(almost, " | "))
			continue
		}
		best := good[0]
		for _, g := range good {
			if g.bound < best.bound {
				best = g
			}
		}
		c.OK("C05.R1", cons, w.Pos(best.iq.Pos), fmt.Sprintf("the Bitcoin watch registration is dominated by  %s %s 0, i.e. final CLTV <= %d", best.iq.L.String(), best.iq.Rel, best.bound))
		if best.bound > worst {
			worst = best.bound
		}
	}
	// pay states are entered only from states that run such a registration
	ts := tables(c)
	if ts == nil {
		return 0, false
	}
	nEdges := 0
	for _, t := range takers(ts) {
		for _, p := range t.statesWith(fxPay) {
			for _, in := range t.T.InEdges(p) {
				if in[0] == p {
					continue
				}
				nEdges++
				good := false
				for _, s := range t.Sum[in[0]].Sites(fxWaitConf) {
					if covered[s.In] {
						good = true
					}
				}
				if !good {
					ok = false
				}
				c.Decide(good, "C05.R1", "Fmax applies on "+t.edgeKey(in[0], in[1]), w.Pos(t.T.States[in[0]].EventPos[in[1]]),
					"the pay state is entered from a state whose action registers the confirmation watch behind the invoice bound",
					"the pay state can be entered from a state that does not run the guarded confirmation-watch registration: the invoice CLTV bound does not apply on this edge")
			}
		}
	}
	c.AtLeast("C05.R1", "edges into pay states", nEdges, 2)
	return worst, ok && worst >= 0
}

// c05RouteDelays: per back-end, the constant R with "CLTV sent = invoice final
// CLTV + R" on the path where the limit parameter is zero.
func c05RouteDelays(c *an.Check) (map[string]int64, bool) {
	w := c.W
	impls := c05Impls(w, "swap", "LightningClient", "RebalancePayment")
	if !c.AtLeast("C05.R1", "production implementations of LightningClient.RebalancePayment", len(impls), 2) {
		return nil, false
	}
	out := map[string]int64{}
	ok := true
	for _, im := range impls {
		backend := w.FnRel(im)
		cons := "route delay of " + backend
		if len(im.Params) != 4 {
			c.Unknown("C05.R1", cons, w.Pos(im.Pos()), "unexpected parameter list of RebalancePayment")
			ok = false
			continue
		}
		// follow the limit parameter through unchanged forwarding
		type fp struct {
			fn *ssa.Function
			p  *ssa.Parameter
		}
		var reached []fp
		seen := map[*ssa.Parameter]bool{}
		var fwd func(p *ssa.Parameter)
		fwd = func(p *ssa.Parameter) {
			if seen[p] || p.Referrers() == nil {
				return
			}
			seen[p] = true
			reached = append(reached, fp{p.Parent(), p})
			for _, r := range *p.Referrers() {
				call, isCall := r.(*ssa.Call)
				if !isCall {
					continue
				}
				ci := w.Info(call)
				if ci.Static == nil || !w.InModule(ci.Static) || ci.Static.Blocks == nil {
					continue
				}
				for i, a := range call.Call.Args {
					if a == p && i < len(ci.Static.Params) {
						fwd(ci.Static.Params[i])
					}
				}
			}
		}
		if bt, isB := im.Params[3].Type().Underlying().(*types.Basic); !isB || bt.Info()&types.IsUnsigned == 0 {
			c.Unknown("C05.R1", cons, w.Pos(im.Pos()), "the limit parameter is not an unsigned integer")
			ok = false
			continue
		}
		fwd(im.Params[3])
		best, have := int64(-1), false
		for _, x := range reached {
			idx := -1
			for i, q := range x.fn.Params {
				if q == x.p {
					idx = i
				}
			}
			pT := fmt.Sprintf("param#%d", idx)
			inReached := map[*ssa.Function]bool{}
			for _, y := range reached {
				inReached[y.fn] = true
			}
			for _, sv := range c05SentValues(w, x.fn, inReached, 0) {
				for _, alt := range c05Alternatives(w, sv.v, sv.at, pT) {
					if !alt.unlimited {
						continue
					}
					l := (&c05Env{w: w}).linearB(alt.v, sv.bind)
					term, co := "", int64(0)
					for k, v := range l.T {
						term, co = k, v
					}
					isFinal := false
					for _, ft := range c05FinalCLTVTerms {
						if strings.Contains(term, ft) {
							isFinal = true
						}
					}
					if len(l.T) != 1 || co != 1 || !isFinal {
						c.Unknown("C05.R1", cons, w.Pos(sv.pos), "on the unlimited path "+sv.field+" is "+l.String()+", not invoiceFinalCLTV + constant: unsupported shape")
						ok = false
						continue
					}
					have = true
					if l.C > best {
						best = l.C
					}
					c.OK("C05.R1", cons, w.Pos(sv.pos), fmt.Sprintf("with limit == 0, %s: %s = final CLTV %+d", w.FuncName(x.fn), sv.field, l.C))
				}
			}
		}
		if !have {
			c.Unknown("C05.R1", cons, w.Pos(im.Pos()), "no store to RouteHop.Delay / SendPaymentRequest.CltvLimit is reached by the limit parameter of this back-end")
			ok = false
			continue
		}
		out[backend] = best
	}
	return out, ok
}

// c05Sent is a value that ends up in one of the CLTV-carrying fields of the
// outgoing route/request: v is the value as seen in the function examined (at
// block at), possibly handed to an in-module helper that performs the store
// (bind then maps the helper's parameters to the arguments).
type c05Sent struct {
	v     ssa.Value
	at    *ssa.BasicBlock
	pos   token.Pos
	field string
	bind  c05Bind
}

func c05SentValues(w *an.World, fn *ssa.Function, skip map[*ssa.Function]bool, depth int) []c05Sent {
	var out []c05Sent
	for _, blk := range fn.Blocks {
		for _, in := range blk.Instrs {
			switch x := in.(type) {
			case *ssa.Store:
				fa, isFA := x.Addr.(*ssa.FieldAddr)
				if !isFA || !c05SentCLTVFields[an.FieldName(fa.X.Type(), fa.Field)] {
					continue
				}
				out = append(out, c05Sent{v: x.Val, at: x.Block(), pos: x.Pos(), field: an.FieldName(fa.X.Type(), fa.Field)})
			case *ssa.Call:
				g := x.Call.StaticCallee()
				if g == nil || x.Call.IsInvoke() || depth >= 2 || g == fn || skip[g] || !w.InModule(g) || g.Blocks == nil || len(g.Params) != len(x.Call.Args) {
					continue
				}
				for _, sv := range c05SentValues(w, g, skip, depth+1) {
					// only values that depend on what the caller passes in
					nb := c05Bind{}
					for k, v := range sv.bind {
						nb[k] = v
					}
					for i, p := range g.Params {
						nb[p] = x.Call.Args[i]
					}
					v := sv.v
					for {
						if cv, ok := v.(*ssa.Convert); ok {
							v = cv.X
							continue
						}
						break
					}
					if p, isParam := v.(*ssa.Parameter); isParam {
						out = append(out, c05Sent{v: nb.resolve(p), at: x.Block(), pos: x.Pos(), field: sv.field + " (stored by " + w.FuncName(g) + ")", bind: nb})
						continue
					}
					if _, isConst := v.(*ssa.Const); isConst {
						continue // a fixed delay of some other payment (e.g. a probe)
					}
					out = append(out, c05Sent{v: sv.v, at: x.Block(), pos: x.Pos(), field: sv.field + " (stored by " + w.FuncName(g) + ")", bind: nb})
				}
			}
		}
	}
	return out
}

type c05Alt struct {
	v         ssa.Value
	unlimited bool
}

// c05Alternatives splits a value into its phi alternatives; an alternative is
// "unlimited" unless it arrives on a path where the limit parameter is known non-zero.
func c05Alternatives(w *an.World, v ssa.Value, at *ssa.BasicBlock, limitTerm string) []c05Alt {
	nonZero := func(fs []an.Fact) bool {
		for _, f := range fs {
			if !f.NonNum && f.Const == 0 && len(f.Terms) == 1 && f.Terms[limitTerm] != 0 && (f.Rel == "!=" || (f.Rel == ">" && f.Terms[limitTerm] == 1)) {
				return true // limit != 0, also written limit > 0 (the parameter is unsigned)
			}
		}
		return false
	}
	pathFacts := func(pred, succ *ssa.BasicBlock) []an.Fact {
		out := w.FactsDominatingBlock(pred)
		if len(pred.Instrs) > 0 {
			if i, ok := pred.Instrs[len(pred.Instrs)-1].(*ssa.If); ok && len(pred.Succs) == 2 && pred.Succs[0] != pred.Succs[1] {
				t, f := w.FactsOfIf(i)
				for _, x := range []an.Fact{t, f} {
					if x.Edge.To() == succ {
						out = append(out, x)
					}
				}
			}
		}
		return out
	}
	x := v
	for {
		if cv, ok := x.(*ssa.Convert); ok {
			x = cv.X
			continue
		}
		if ct, ok := x.(*ssa.ChangeType); ok {
			x = ct.X
			continue
		}
		break
	}
	phi, ok := x.(*ssa.Phi)
	if !ok {
		return []c05Alt{{v: v, unlimited: !nonZero(w.FactsDominatingBlock(at))}}
	}
	var out []c05Alt
	for i, e := range phi.Edges {
		out = append(out, c05Alt{v: e, unlimited: !nonZero(pathFacts(phi.Block().Preds[i], phi.Block()))})
	}
	return out
}
