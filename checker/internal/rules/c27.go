package rules

import (
	"fmt"
	"go/constant"
	"go/token"
	"go/types"
	"math/big"
	"reflect"
	"sort"
	"strings"

	"golang.org/x/tools/go/ssa"

	"psv/internal/an"
)

// C27 — premiums follow the configured rate and match what peer-sync advertises.
//
// Frozen repo-specific anchors (each must resolve or the check ends with exit 2):
//   - premium.Setting / premium.BBoltPremiumStore / premium.PPM and their methods
//     GetRate, GetDefaultRate, SetRate, DeleteRate, SetDefaultRate, Compute;
//   - the not-found sentinel premium.ErrRateNotFound and the built-in table
//     premium.DefaultPremiumRate;
//   - the enum constants premium.BTC/LBTC and premium.SwapIn/SwapOut;
//   - the wire names of the four advertised rates (protocol constants, c27WireNames);
//   - the two "this swap is on Liquid" tests used at the charging sites
//     (c27LiquidFact).

func init() {
	Register(&Prop{
		ID:   "C27",
		Expl: "Decides on SSA, for every return / call site / field of the anchored functions: (R1) Setting.GetRate and Setting.GetDefaultRate return the stored rate when the store lookup succeeded, fall back (to GetDefaultRate resp. the built-in table indexed [asset][operation]) only on edges on which the lookup error is ErrRateNotFound, never return (nil,nil) and never swallow an error; the store builds its key with one format constant and the argument sequence (peer string, AssetType, OperationType) in SetRate(Put)/GetRate(Get)/DeleteRate(Delete), uses one bucket constant, one default-peer constant for SetDefaultRate/GetDefaultRate, and one value verb for encode/decode; Setting.Compute is GetRate(peer,asset,op) followed by PPM.Compute(amount). (R2) the arithmetic of PPM.Compute, read as an expression over the mathematical integers from native int64 operators or the math/big vocabulary (NewInt, Set*, Mul, Quo, Div, Rem, Mod, Add, Sub, Neg, QuoRem, DivMod, Int64; big objects replayed in program order), is (amount*ppm) quo 1_000_000 with a quotient that truncates toward zero; an expression that differs from it on a concrete witness (first: amount=123457, rate=-1500) is reported with that witness. (R3) every store to the Premium field of an agreement message comes from Setting.Compute; every Setting.Compute call site passes an (asset, operation) constant pair that matches the message direction and the dominating Liquid/Bitcoin test, the swap's peer and the swap amount; the advertised rates follow one (asset,operation) pair end to end: constants at the PeerGuard.PremiumRate call -> NewPeerCapability parameter -> capability field -> GetPremiumRate arm -> snapshot field -> JSON name; peerGuard.PremiumRate resolves through Setting.GetRate(peer,asset,op) and departs from it only on the nil/error edges; both mains hand the same premium.Setting value to the swap services and to peer-sync, and no other production code writes those slots.",
		NotD: "Values of the configured rates and of the built-in table; bbolt durability and transaction semantics; injectivity of the key format for peer ids that contain the separator; int64 overflow of amount*ppm; that the advertised rate is still current when the peer uses it (rates can change between poll and request); the behaviour when peerGuard falls back to the built-in table on a store error (advertised default vs. refused swap — reported as a note).",
		Run:  runC27,
	})
}

// (asset, operation) -> JSON name of the advertised rate (peer-sync wire format).
var c27WireNames = map[[2]string]string{
	{"BTC", "SwapIn"}:   "btc_swap_in_premium_rate_ppm",
	{"BTC", "SwapOut"}:  "btc_swap_out_premium_rate_ppm",
	{"LBTC", "SwapIn"}:  "lbtc_swap_in_premium_rate_ppm",
	{"LBTC", "SwapOut"}: "lbtc_swap_out_premium_rate_ppm",
}

type c27Env struct {
	c       *an.Check
	w       *an.World
	assets  map[int64]string // enum value -> "BTC"/"LBTC"
	ops     map[int64]string // enum value -> "SwapIn"/"SwapOut"
	errNF   string           // global name of the sentinel
	tblName string           // global name of the built-in table
}

func runC27(c *an.Check) {
	c.Rule("C27.R1", "resolver chain: stored peer rate, else (only on ErrRateNotFound) stored default rate, else (only on ErrRateNotFound) built-in table[asset][operation]; errors propagate; one key format / bucket / default key / value verb across Set, Get, Delete; Setting.Compute = GetRate + PPM.Compute")
	c.Rule("C27.R2", "PPM.Compute returns int64(amount) * ppm / 1_000_000 with integer (truncating) division and nothing else")
	c.Rule("C27.R3", "charging and advertising use one resolver and one (asset,operation) pair end to end")
	e := &c27Env{c: c, w: c.W, assets: map[int64]string{}, ops: map[int64]string{}}
	if !e.anchors() {
		return
	}
	e.r1()
	e.r2()
	e.r3charge()
	e.r3advertise()
	e.r3wiring()
}

// ---- anchors -----------------------------------------------------------------------

func (e *c27Env) constVal(rel, name string) (int64, bool) {
	p := e.w.ByRel[rel]
	if p == nil {
		return 0, false
	}
	o, ok := p.Types.Scope().Lookup(name).(*types.Const)
	if !ok || o.Val().Kind() != constant.Int {
		return 0, false
	}
	return constant.Int64Val(o.Val())
}

func (e *c27Env) anchors() bool {
	ok := true
	for _, n := range []string{"BTC", "LBTC"} {
		v, found := e.constVal("premium", n)
		if !found {
			e.c.Anchor("constant premium.%s does not resolve", n)
			ok = false
		}
		e.assets[v] = n
	}
	for _, n := range []string{"SwapIn", "SwapOut"} {
		v, found := e.constVal("premium", n)
		if !found {
			e.c.Anchor("constant premium.%s does not resolve", n)
			ok = false
		}
		e.ops[v] = n
	}
	if len(e.assets) != 2 || len(e.ops) != 2 {
		e.c.Anchor("premium asset/operation enum constants are not pairwise distinct")
		ok = false
	}
	sp := e.w.SSA["premium"]
	if sp == nil {
		e.c.Anchor("package premium not loaded")
		return false
	}
	for _, g := range []string{"ErrRateNotFound", "DefaultPremiumRate"} {
		if _, isG := sp.Members[g].(*ssa.Global); !isG {
			e.c.Anchor("global premium.%s does not resolve", g)
			ok = false
		}
	}
	e.errNF = "premium.ErrRateNotFound"
	e.tblName = "premium.DefaultPremiumRate"
	return ok
}

func (e *c27Env) fn(rel, name string) *ssa.Function {
	f := e.w.Func(rel, name)
	if f == nil || f.Blocks == nil {
		e.c.Anchor("function %s.%s does not resolve", rel, name)
		return nil
	}
	return f
}

// ---- small SSA helpers ---------------------------------------------------------------

func c27Strip(v ssa.Value) ssa.Value {
	for {
		switch x := v.(type) {
		case *ssa.ChangeType:
			v = x.X
		case *ssa.Convert:
			v = x.X
		case *ssa.MakeInterface:
			v = x.X
		case *ssa.ChangeInterface:
			v = x.X
		default:
			return v
		}
	}
}

// c27IsParam: v is (a copy of) parameter #idx of fn — directly, through a
// captured variable of an enclosing function, or through a local that is only
// ever assigned that parameter.
func (e *c27Env) isParam(v ssa.Value, fn *ssa.Function, idx int) bool {
	ss := e.w.Sources(v, an.FlowOpts{})
	if len(ss.Leaves) == 0 {
		return false
	}
	for _, l := range ss.Leaves {
		p, ok := l.Val.(*ssa.Parameter)
		if l.Kind != "param" || !ok || p.Parent() != fn || l.Idx != idx {
			return false
		}
	}
	for op := range ss.Ops {
		if !strings.HasPrefix(op, "convert:") {
			return false
		}
	}
	return true
}

// c27Varargs returns the element values of the variadic `...any` argument of a
// call (values before boxing), or nil when it is not a literal argument list.
func c27Varargs(call ssa.CallInstruction) []ssa.Value {
	args := call.Common().Args
	if len(args) == 0 {
		return nil
	}
	sl, ok := args[len(args)-1].(*ssa.Slice)
	if !ok {
		return nil
	}
	al, ok := sl.X.(*ssa.Alloc)
	if !ok || al.Referrers() == nil {
		return nil
	}
	at, ok := al.Type().Underlying().(*types.Pointer)
	if !ok {
		return nil
	}
	arr, ok := at.Elem().Underlying().(*types.Array)
	if !ok {
		return nil
	}
	out := make([]ssa.Value, arr.Len())
	for _, r := range *al.Referrers() {
		ia, ok := r.(*ssa.IndexAddr)
		if !ok || ia.Referrers() == nil {
			continue
		}
		i, ok := an.ConstInt(ia.Index)
		if !ok || i < 0 || i >= arr.Len() {
			return nil
		}
		for _, rr := range *ia.Referrers() {
			if st, ok := rr.(*ssa.Store); ok && st.Addr == ia {
				if out[i] != nil {
					return nil
				}
				out[i] = c27Strip(st.Val)
			}
		}
	}
	for _, v := range out {
		if v == nil {
			return nil
		}
	}
	return out
}

func c27TypeName(t types.Type) string {
	return types.TypeString(t, func(p *types.Package) string { return p.Name() })
}

// leafIsCall: the source leaf is result #idx of exactly this call.
func c27LeafIsCall(l an.Src, call *ssa.Call, idx int) bool {
	return l.Kind == "call" && l.Call == call && l.Idx == idx
}

func (e *c27Env) callsTo(fn *ssa.Function, name string) []*ssa.Call {
	var out []*ssa.Call
	for _, ci := range an.Calls(fn) {
		if call, ok := ci.(*ssa.Call); ok && e.w.Info(call).Name == name {
			out = append(out, call)
		}
	}
	return out
}

// notFoundEdges: edges of fn on which the error result of `lookup` is known to
// be the not-found sentinel (errors.Is(err, ErrRateNotFound) true, or err ==
// ErrRateNotFound), directly or through a one-line in-module predicate helper.
func (e *c27Env) notFoundEdges(fn *ssa.Function, lookup *ssa.Call) []an.Edge {
	errIdx := an.ErrResultIndex(lookup)
	isErr := func(v ssa.Value) bool {
		ss := e.w.Sources(v, an.FlowOpts{})
		return len(ss.Leaves) == 1 && c27LeafIsCall(ss.Leaves[0], lookup, errIdx)
	}
	var out []an.Edge
	for _, f := range e.w.Facts(fn) {
		switch {
		case f.Rel == "true" || f.Rel == "false":
			call, ok := f.Cond.(*ssa.Call)
			if !ok {
				continue
			}
			switch inf := e.w.Info(call); {
			case inf.Name == "func:errors.Is" && len(call.Call.Args) == 2:
				if f.Rel == "true" && isErr(call.Call.Args[0]) && e.isSentinel(call.Call.Args[1]) {
					out = append(out, f.Edge)
				}
			case inf.Static != nil && e.w.InModule(inf.Static) && inf.Static.Blocks != nil:
				if idx, neg, ok := e.notFoundPredicate(inf.Static); ok && idx < len(call.Call.Args) && isErr(call.Call.Args[idx]) && (f.Rel == "true") != neg {
					out = append(out, f.Edge)
				}
			}
		case f.NonNum && f.Rel == "==" && f.LV != nil && f.RV != nil:
			if (isErr(f.LV) && e.isSentinel(f.RV)) || (isErr(f.RV) && e.isSentinel(f.LV)) {
				out = append(out, f.Edge)
			}
		}
	}
	return out
}

func (e *c27Env) isSentinel(v ssa.Value) bool {
	ss := e.w.Sources(v, an.FlowOpts{})
	return len(ss.Leaves) == 1 && ss.Leaves[0].Kind == "global" && ss.Leaves[0].Name == e.errNF
}

// notFoundPredicate recognises `func(err ...) bool { return [!]errors.Is(err, ErrRateNotFound) }`
// (or `err == ErrRateNotFound`): which parameter is tested and whether the answer is negated.
func (e *c27Env) notFoundPredicate(fn *ssa.Function) (idx int, negated, ok bool) {
	rets := an.Returns(fn)
	if len(rets) != 1 || len(rets[0].Results) != 1 {
		return 0, false, false
	}
	v := rets[0].Results[0]
	for {
		u, isU := v.(*ssa.UnOp)
		if !isU || u.Op != token.NOT {
			break
		}
		negated = !negated
		v = u.X
	}
	var errV, sentV ssa.Value
	switch x := v.(type) {
	case *ssa.Call:
		if e.w.Info(x).Name != "func:errors.Is" || len(x.Call.Args) != 2 {
			return 0, false, false
		}
		errV, sentV = x.Call.Args[0], x.Call.Args[1]
	case *ssa.BinOp:
		switch {
		case x.Op == token.EQL:
		case x.Op == token.NEQ:
			negated = !negated
		default:
			return 0, false, false
		}
		errV, sentV = x.X, x.Y
		if e.isSentinel(errV) {
			errV, sentV = sentV, errV
		}
	default:
		return 0, false, false
	}
	if !e.isSentinel(sentV) {
		return 0, false, false
	}
	for i := range fn.Params {
		if e.isParam(errV, fn, i) {
			return i, negated, true
		}
	}
	return 0, false, false
}

func c27EdgesDominate(es []an.Edge, b *ssa.BasicBlock) bool {
	return len(es) > 0 && an.EdgesDominate(es, b)
}

// c27RetCase is one way a return hands out its results: the results themselves,
// or — when they are phis of the returning block ("result selected into a local,
// returned once") — the incoming values of one predecessor, judged at that
// predecessor plus the edge into the returning block.
type c27RetCase struct {
	vals  []ssa.Value
	block *ssa.BasicBlock
	edge  *an.Edge
	ret   *ssa.Return
}

func c27ExpandReturn(r *ssa.Return) []c27RetCase {
	var out []c27RetCase
	var rec func(vals []ssa.Value, block *ssa.BasicBlock, edge *an.Edge, depth int)
	rec = func(vals []ssa.Value, block *ssa.BasicBlock, edge *an.Edge, depth int) {
		split := false
		for _, v := range vals {
			if ph, ok := v.(*ssa.Phi); ok && ph.Block() == block && depth < 4 {
				split = true
			}
		}
		if !split {
			out = append(out, c27RetCase{vals: vals, block: block, edge: edge, ret: r})
			return
		}
		for i, pred := range block.Preds {
			nv := make([]ssa.Value, len(vals))
			for j, v := range vals {
				nv[j] = v
				if ph, ok := v.(*ssa.Phi); ok && ph.Block() == block && i < len(ph.Edges) {
					nv[j] = ph.Edges[i]
				}
			}
			idx := 0
			for k, sc := range pred.Succs {
				if sc == block {
					idx = k
				}
			}
			rec(nv, pred, &an.Edge{From: pred, Idx: idx}, depth+1)
		}
	}
	rec(r.Results, r.Block(), nil, 0)
	return out
}

// domAt: every path into the case passes one of the edges.
func (rc c27RetCase) domAt(es []an.Edge) bool {
	if len(es) == 0 {
		return false
	}
	if rc.edge != nil {
		for _, x := range es {
			if x == *rc.edge {
				return true
			}
		}
	}
	return an.EdgesDominate(es, rc.block)
}

// factsAt: the facts that hold when the case is taken.
func (e *c27Env) factsAt(rc c27RetCase) []an.Fact {
	fs := append([]an.Fact{}, e.w.FactsDominatingBlock(rc.block)...)
	if rc.edge != nil {
		fs = append(fs, e.edgeFacts(rc.edge.From, rc.edge.To())...)
	}
	return fs
}

// uninterpretedGuard: the case is guarded by the answer of an in-module (or
// dynamically dispatched) predicate over one of the given calls' results that
// the rule did not look into — a negative verdict would only say "I could not
// interpret the guard". Predicates over unrelated values do not count.
func (e *c27Env) uninterpretedGuard(rc c27RetCase, about ...*ssa.Call) string {
	return e.uninterpretedIn(e.factsAt(rc), about...)
}

func (e *c27Env) uninterpretedIn(fs []an.Fact, about ...*ssa.Call) string {
	relevant := func(v ssa.Value) bool {
		ss := e.w.Sources(v, an.FlowOpts{ThroughCalls: map[string]bool{"func:(*premium.PremiumRate).PremiumRatePPM": true}})
		for _, l := range ss.Leaves {
			for _, c := range about {
				if l.Kind == "call" && l.Call == c {
					return true
				}
			}
		}
		return false
	}
	for _, f := range fs {
		if f.Rel != "true" && f.Rel != "false" {
			continue
		}
		call, ok := f.Cond.(*ssa.Call)
		if !ok {
			continue
		}
		inf := e.w.Info(call)
		if !((inf.Static != nil && e.w.InModule(inf.Static)) || (inf.Static == nil && !strings.HasPrefix(inf.Name, "builtin:"))) {
			continue
		}
		args := append([]ssa.Value{}, call.Call.Args...)
		if call.Call.IsInvoke() {
			args = append(args, call.Call.Value)
		}
		for _, a := range args {
			if relevant(a) {
				return inf.Name
			}
		}
	}
	return ""
}

// ---- R1 ------------------------------------------------------------------------------------

// resolverReturns checks every return of a two-level resolver function.
// lookup is the store call; isFallback recognises the leaf that stands for the
// next level and validates it (defect "" when fine; definite tells whether the
// defect is established or only "not understood").
func (e *c27Env) resolverReturns(fn *ssa.Function, lookup *ssa.Call, level string,
	isFallback func(l an.Src) (is bool, defect string, definite bool)) (nPrim, nFb int) {
	c, w := e.c, e.w
	name := w.FuncName(fn)
	errIdx := an.ErrResultIndex(lookup)
	okEdges, _ := an.OkEdges(lookup)
	nf := e.notFoundEdges(fn, lookup)
	for _, r := range an.Returns(fn) {
		if len(r.Results) != 2 {
			c.Unknown("C27.R1", name+" return", w.Pos(r.Pos()), "unexpected result arity")
			continue
		}
		pos := w.Pos(r.Pos())
		for _, rc := range c27ExpandReturn(r) {
			rate := w.Sources(rc.vals[0], an.FlowOpts{})
			errS := w.Sources(rc.vals[1], an.FlowOpts{})
			var prim, fb, none, other int
			var fbLeaf an.Src
			fbDefect, fbDefinite := "", false
			for _, l := range rate.Leaves {
				switch {
				case c27LeafIsCall(l, lookup, 0):
					prim++
				case l.Kind == "zero":
					none++
				default:
					if is, defect, definite := isFallback(l); is {
						fb++
						fbLeaf = l
						if defect != "" {
							fbDefect, fbDefinite = defect, definite
						}
					} else {
						other++
					}
				}
			}
			switch {
			case other > 0 || (prim > 0 && fb > 0) || len(rate.Leaves) == 0:
				c.Unknown("C27.R1", name+" return of an unrecognised rate", pos, "returned rate has sources "+strings.Join(rate.Names(), ", ")+" — shape not supported")
			case prim > 0:
				nPrim++
				// stored rate: error must be nil under the ok edge, or the lookup error itself
				cons := name + " return of the stored rate"
				errIsLookup := len(errS.Leaves) > 0 && errS.OnlyFrom(func(l an.Src) bool { return c27LeafIsCall(l, lookup, errIdx) })
				errIsNil := len(errS.Leaves) > 0 && errS.OnlyFrom(func(l an.Src) bool { return l.Kind == "zero" })
				switch {
				case errIsLookup:
					c.OK("C27.R1", cons, pos, "returns the store result together with the store error")
				case errIsNil && rc.domAt(okEdges):
					c.OK("C27.R1", cons, pos, "stored rate returned with a nil error on the err==nil edge of the lookup")
				case errIsNil && e.uninterpretedGuard(rc, lookup) != "":
					c.Unknown("C27.R1", cons, pos, "the stored rate is returned with a nil error under the predicate "+e.uninterpretedGuard(rc, lookup)+", which the rule does not interpret")
				case errIsNil:
					c.Bad("C27.R1", cons, pos, "the stored-rate result is returned with a nil error on a path where the lookup error was not tested to be nil: a store error other than ErrRateNotFound is swallowed and a nil rate is handed to the caller")
				default:
					c.Unknown("C27.R1", cons, pos, "error result has sources "+strings.Join(errS.Names(), ", "))
				}
			case fb > 0:
				nFb++
				cons := name + " fallback to " + level
				switch {
				case fbDefect != "" && fbDefinite:
					c.Bad("C27.R1", cons, pos, fbDefect)
				case fbDefect != "":
					c.Unknown("C27.R1", cons, pos, fbDefect)
				case !rc.domAt(nf) && e.uninterpretedGuard(rc, lookup) != "":
					c.Unknown("C27.R1", cons, pos, "the fallback to "+level+" is guarded by "+e.uninterpretedGuard(rc, lookup)+", which the rule does not interpret")
				case !rc.domAt(nf):
					c.Bad("C27.R1", cons, pos, "the fallback to "+level+" is not restricted to the edge on which the lookup error is ErrRateNotFound: any store error (corrupt value, missing bucket) silently yields "+level+" instead of propagating. Facts that do hold: "+an.DescribeFacts(e.factsAt(rc)))
				default:
					// the error returned with the fallback must be the fallback's own error
					fromSame := len(errS.Leaves) > 0 && errS.OnlyFrom(func(l an.Src) bool {
						return l.Kind == "call" && l.Call == fbLeaf.Call && l.Idx == an.ErrResultIndex(fbLeaf.Call)
					})
					isNil := len(errS.Leaves) > 0 && errS.OnlyFrom(func(l an.Src) bool { return l.Kind == "zero" })
					switch {
					case fromSame:
						c.OK("C27.R1", cons, pos, "fallback only under errors.Is(err, ErrRateNotFound); its error is returned")
					case isNil:
						c.Bad("C27.R1", cons, pos, "the error of the fallback is dropped (nil is returned with its rate): a failing fallback yields (nil, nil)")
					default:
						c.Unknown("C27.R1", cons, pos, "cannot identify the error returned with the fallback rate: "+strings.Join(errS.Names(), ", "))
					}
				}
			default: // only nil rate
				cons := name + " error return"
				hasNil := false
				for _, l := range errS.Leaves {
					if l.Kind == "zero" {
						hasNil = true
					}
				}
				switch {
				case len(errS.Leaves) > 0 && errS.OnlyFrom(func(l an.Src) bool { return l.Kind == "call" }):
					c.OK("C27.R1", cons, pos, "nil rate is returned only together with an error value")
				case hasNil:
					c.Bad("C27.R1", cons, pos, "a nil rate can be returned with a nil error (error sources: "+strings.Join(errS.Names(), ", ")+")")
				default:
					c.Unknown("C27.R1", cons, pos, "cannot identify the error returned with a nil rate: "+strings.Join(errS.Names(), ", "))
				}
			}
		}
	}
	return nPrim, nFb
}

// argOrder: args[i] must be parameter want[i] of fn (-1 = not checked). Bad only
// when every checked argument IS a parameter of fn but a different one (a
// positively established mix-up); anything the rule cannot trace is Unknown.
func (e *c27Env) argOrder(rule, cons, pos string, fn *ssa.Function, args []ssa.Value, want []int, okText, badText string) bool {
	if len(args) != len(want) {
		e.c.Unknown(rule, cons, pos, "unexpected argument count")
		return false
	}
	good, mixed := true, false
	for i, wi := range want {
		if wi < 0 || e.isParam(args[i], fn, wi) {
			continue
		}
		good = false
		for j := range fn.Params {
			if j != wi && e.isParam(args[i], fn, j) {
				mixed = true
			}
		}
	}
	switch {
	case good:
		e.c.OK(rule, cons, pos, okText)
	case mixed:
		e.c.Bad(rule, cons, pos, badText)
	default:
		e.c.Unknown(rule, cons, pos, "cannot trace the arguments to this call's parameters: "+badText)
	}
	return good
}

// tableLookup: v is DefaultPremiumRate[a][o] (value result); returns a, o.
func (e *c27Env) tableLookup(v ssa.Value) (a, o ssa.Value, ok bool) {
	v = c27Strip(v)
	if ex, isEx := v.(*ssa.Extract); isEx && ex.Index == 0 {
		v = ex.Tuple
	}
	inner, isL := v.(*ssa.Lookup)
	if !isL {
		return nil, nil, false
	}
	x := c27Strip(inner.X)
	if ex, isEx := x.(*ssa.Extract); isEx && ex.Index == 0 {
		x = ex.Tuple
	}
	outer, isL := x.(*ssa.Lookup)
	if !isL {
		return nil, nil, false
	}
	ss := e.w.Sources(outer.X, an.FlowOpts{})
	if len(ss.Leaves) != 1 || ss.Leaves[0].Kind != "global" || ss.Leaves[0].Name != e.tblName {
		return nil, nil, false
	}
	return outer.Index, inner.Index, true
}

func (e *c27Env) r1() {
	c, w := e.c, e.w
	nPrim, nFb := 0, 0
	count := func(a, b int) { nPrim += a; nFb += b }

	// --- Setting.GetRate
	if fn := e.fn("premium", "(*Setting).GetRate"); fn != nil {
		name := w.FuncName(fn)
		look := e.callsTo(fn, "func:(*premium.BBoltPremiumStore).GetRate")
		if len(look) == 0 && w.Summary(fn).HasEffect("func:(*premium.BBoltPremiumStore).GetRate") {
			c.Unknown("C27.R1", name+" store lookup", w.Pos(fn.Pos()), "the store lookup happens in a helper of GetRate; the return analysis does not follow it")
		} else if len(look) == 0 {
			c.Bad("C27.R1", name+" store lookup", w.Pos(fn.Pos()), "the peer-specific rate is never looked up in the store: a configured peer rate is ignored")
		} else if len(look) != 1 {
			c.Unknown("C27.R1", name+" store lookup", w.Pos(fn.Pos()), fmt.Sprintf("%d calls of the store lookup, expected one", len(look)))
		} else {
			l := look[0]
			a := l.Call.Args
			e.argOrder("C27.R1", name+" store lookup arguments", w.Pos(l.Pos()), fn, a, []int{-1, 1, 2, 3},
				"store is asked for (peer, asset, operation) in parameter order",
				"the store lookup does not receive this call's (peerID, asset, operation)")
			count(e.resolverReturns(fn, l, "the default rate", func(s an.Src) (bool, string, bool) {
				if s.Kind != "call" || s.Call == nil || w.Info(s.Call).Name != "func:(*premium.Setting).GetDefaultRate" || s.Idx != 0 {
					return false, "", false
				}
				fa := s.Call.Call.Args
				if len(fa) == 3 && e.isParam(fa[0], fn, 0) && e.isParam(fa[1], fn, 2) && e.isParam(fa[2], fn, 3) {
					return true, "", false
				}
				return true, "cannot establish that GetDefaultRate is called with this Setting and this call's (asset, operation)", false
			}))
		}
	}

	// --- Setting.GetDefaultRate
	if fn := e.fn("premium", "(*Setting).GetDefaultRate"); fn != nil {
		name := w.FuncName(fn)
		look := e.callsTo(fn, "func:(*premium.BBoltPremiumStore).GetDefaultRate")
		if len(look) == 0 && w.Summary(fn).HasEffect("func:(*premium.BBoltPremiumStore).GetDefaultRate") {
			c.Unknown("C27.R1", name+" store lookup", w.Pos(fn.Pos()), "the store lookup happens in a helper of GetDefaultRate; the return analysis does not follow it")
		} else if len(look) == 0 {
			c.Bad("C27.R1", name+" store lookup", w.Pos(fn.Pos()), "the stored global rate is never looked up: a configured default rate is ignored")
		} else if len(look) != 1 {
			c.Unknown("C27.R1", name+" store lookup", w.Pos(fn.Pos()), fmt.Sprintf("%d calls of the store lookup, expected one", len(look)))
		} else {
			l := look[0]
			a := l.Call.Args
			e.argOrder("C27.R1", name+" store lookup arguments", w.Pos(l.Pos()), fn, a, []int{-1, 1, 2},
				"store is asked for (asset, operation) in parameter order",
				"the default-rate lookup does not receive this call's (asset, operation)")
			count(e.resolverReturns(fn, l, "the built-in table", func(s an.Src) (bool, string, bool) {
				if s.Kind != "call" || s.Call == nil || w.Info(s.Call).Name != "func:premium.NewPremiumRate" || s.Idx != 0 {
					return false, "", false
				}
				fa := s.Call.Call.Args
				if len(fa) != 3 || !e.isParam(fa[0], fn, 1) || !e.isParam(fa[1], fn, 2) {
					return true, "cannot establish that the built-in rate is labelled with this call's (asset, operation)", false
				}
				ppm, ok := c27Strip(fa[2]).(*ssa.Call)
				if !ok || w.Info(ppm).Name != "func:premium.NewPPM" || len(ppm.Call.Args) != 1 {
					return false, "", false
				}
				ka, ko, ok := e.tableLookup(ppm.Call.Args[0])
				if !ok {
					return false, "", false
				}
				if !e.isParam(ka, fn, 1) || !e.isParam(ko, fn, 2) {
					return true, "cannot establish that the built-in table is indexed [asset][operation] with this call's parameters", false
				}
				return true, "", false
			}))
		}
	}
	c.AtLeast("C27.R1", "returns of a stored rate in GetRate/GetDefaultRate", nPrim, 2)
	c.AtLeast("C27.R1", "fallback returns in GetRate/GetDefaultRate", nFb, 2)

	// --- store level: default key
	var defKeys []string
	for _, spec := range []struct {
		fn, callee string
		argIdx     int
	}{
		{"(*BBoltPremiumStore).GetDefaultRate", "func:(*premium.BBoltPremiumStore).GetRate", 1},
		{"(*BBoltPremiumStore).SetDefaultRate", "func:(*premium.BBoltPremiumStore).SetRate", 1},
	} {
		fn := e.fn("premium", spec.fn)
		if fn == nil {
			continue
		}
		calls := e.callsTo(fn, spec.callee)
		if len(calls) != 1 {
			c.Unknown("C27.R1", w.FuncName(fn)+" default key", w.Pos(fn.Pos()), "does not delegate to the keyed store method exactly once")
			continue
		}
		k, ok := an.ConstString(calls[0].Call.Args[spec.argIdx])
		if !ok {
			c.Unknown("C27.R1", w.FuncName(fn)+" default key", w.Pos(calls[0].Pos()), "default peer key is not a constant")
			continue
		}
		defKeys = append(defKeys, k)
		// remaining arguments are forwarded in order
		fwd := true
		for i := spec.argIdx + 1; i < len(calls[0].Call.Args); i++ {
			if !e.isParam(calls[0].Call.Args[i], fn, i-1) {
				fwd = false
			}
		}
		if fwd && e.isParam(calls[0].Call.Args[0], fn, 0) {
			c.OK("C27.R1", w.FuncName(fn)+" forwards its arguments", w.Pos(calls[0].Pos()), "arguments forwarded in order")
		} else {
			c.Unknown("C27.R1", w.FuncName(fn)+" forwards its arguments", w.Pos(calls[0].Pos()), "cannot establish that the default-rate wrapper forwards its own arguments")
		}
	}
	if len(defKeys) == 2 {
		c.Decide(defKeys[0] == defKeys[1] && defKeys[0] != "", "C27.R1", "default peer key", "premium/store.go",
			fmt.Sprintf("SetDefaultRate and GetDefaultRate use the same key %q", defKeys[0]),
			fmt.Sprintf("SetDefaultRate writes under %q but GetDefaultRate reads %q: a stored global rate is never found", defKeys[1], defKeys[0]))
	}

	// --- store level: key format, bucket, primitive, value verb
	type keyUse struct {
		fn      *ssa.Function
		format  string
		types   []string
		bucket  string
		valVerb string
		pos     token.Pos
		ok      bool
	}
	uses := map[string]*keyUse{}
	nKeys := 0
	for _, spec := range []struct {
		meth, prim string
		// how the three key components must be derived in the *outer* method
		comp [3]string
	}{
		{"SetRate", "Put", [3]string{"param#1", "field:PremiumRate.asset@param#2", "field:PremiumRate.operation@param#2"}},
		{"GetRate", "Get", [3]string{"param#1", "param#2", "param#3"}},
		{"DeleteRate", "Delete", [3]string{"param#1", "param#2", "param#3"}},
	} {
		outer := e.fn("premium", "(*BBoltPremiumStore)."+spec.meth)
		if outer == nil {
			continue
		}
		cons := w.FuncName(outer) + " key"
		// the bbolt primitive may sit in the method or in a closure handed to Update/View
		var prims []*ssa.Call
		fns := append([]*ssa.Function{outer}, outer.AnonFuncs...)
		for _, f := range fns {
			for _, ci := range an.Calls(f) {
				call, ok := ci.(*ssa.Call)
				if !ok {
					continue
				}
				inf := w.Info(call)
				if inf.Static != nil && inf.Recv != nil && inf.Recv.Obj().Name() == "Bucket" && inf.Recv.Obj().Pkg() != nil &&
					strings.HasSuffix(inf.Recv.Obj().Pkg().Path(), "go.etcd.io/bbolt") &&
					(inf.Method == "Put" || inf.Method == "Get" || inf.Method == "Delete") {
					prims = append(prims, call)
				}
			}
		}
		if len(prims) != 1 {
			c.Unknown("C27.R1", cons, w.Pos(outer.Pos()), fmt.Sprintf("%d bbolt bucket operations, expected exactly one", len(prims)))
			continue
		}
		p := prims[0]
		nKeys++
		u := &keyUse{fn: outer, pos: p.Pos()}
		uses[spec.meth] = u
		if m := w.Info(p).Method; m != spec.prim {
			c.Bad("C27.R1", cons, w.Pos(p.Pos()), fmt.Sprintf("%s performs bucket.%s, a persistent map needs bucket.%s here", spec.meth, m, spec.prim))
			continue
		}
		// key argument <- fmt.Sprintf(format, a, b, c), possibly built by a key helper
		format, va, sp, why := e.keyExpr(p.Call.Args[1], 0)
		if why != "" {
			c.Unknown("C27.R1", cons, w.Pos(p.Pos()), why)
			continue
		}
		u.format = format
		// role of every key component: which of (peer, asset, operation) it is derived from
		roleSpec := map[string]string{"peer": spec.comp[0], "asset": spec.comp[1], "operation": spec.comp[2]}
		unknown := ""
		for i, v := range va {
			role := ""
			for _, r := range []string{"peer", "asset", "operation"} {
				if e.keyComponent(v, outer, roleSpec[r]) {
					role = r
				}
			}
			if role == "" {
				if _, isConst := c27Strip(v).(*ssa.Const); isConst {
					role = "const"
				} else {
					unknown = fmt.Sprintf("component %d (%s) is derived from %s", i, c27TypeName(v.Type()), w.Term(v))
				}
			}
			u.types = append(u.types, role)
		}
		if unknown != "" {
			c.Unknown("C27.R1", cons, w.Pos(sp.Pos()), "cannot name the role of a key component: "+unknown)
			continue
		}
		miss := ""
		for _, r := range []string{"peer", "asset", "operation"} {
			n := 0
			for _, t := range u.types {
				if t == r {
					n++
				}
			}
			if n != 1 {
				miss = r
			}
		}
		if miss != "" {
			c.Bad("C27.R1", cons, w.Pos(sp.Pos()), fmt.Sprintf("the key is built from %v: it does not contain the %s exactly once, so different (peer, asset, operation) triples share one entry", u.types, miss))
			continue
		}
		// bucket constant
		if bc, ok := c27Strip(p.Call.Args[0]).(*ssa.Call); ok && len(bc.Call.Args) == 2 {
			if s, ok := an.ConstString(bc.Call.Args[1]); ok {
				u.bucket = s
			}
		}
		u.ok = true
		c.OK("C27.R1", cons, w.Pos(sp.Pos()), fmt.Sprintf("bucket.%s with key Sprintf(%q, %s)", spec.prim, format, strings.Join(u.types, ", ")))

		// value codec
		switch spec.meth {
		case "SetRate":
			vs := w.Sources(p.Call.Args[2], an.FlowOpts{})
			if len(vs.Leaves) >= 1 {
				for _, l := range vs.Leaves {
					if l.Kind == "call" && l.Call != nil && w.Info(l.Call).Name == "func:fmt.Appendf" && len(l.Call.Call.Args) >= 2 {
						if f, ok := an.ConstString(l.Call.Call.Args[1]); ok {
							u.valVerb = f
							vv := c27Varargs(l.Call)
							okv := len(vv) == 1
							if okv {
								s := w.Sources(vv[0], an.FlowOpts{IntoCallees: true})
								okv = s.OnlyFrom(func(x an.Src) bool {
									return (x.Kind == "field" && strings.HasSuffix(x.Name, "PPM.ppmValue")) || (x.Kind == "const" && x.Name == "0")
								}) && s.HasPrefix("field", "")
							}
							if okv {
								c.OK("C27.R1", w.FuncName(outer)+" stored value", w.Pos(l.Call.Pos()), "the stored value is the ppm of the given rate")
							} else {
								c.Unknown("C27.R1", w.FuncName(outer)+" stored value", w.Pos(l.Call.Pos()), "cannot trace the value written to the ppm value of the rate argument")
							}
						}
					}
				}
			}
		case "GetRate":
			for _, f := range fns {
				for _, sc := range e.callsTo(f, "func:fmt.Sscanf") {
					if len(sc.Call.Args) >= 2 {
						if s, ok := an.ConstString(sc.Call.Args[1]); ok {
							u.valVerb = s
						}
					}
				}
			}
		}
	}
	c.AtLeast("C27.R1", "store key constructions", nKeys, 3)
	if s, g, d := uses["SetRate"], uses["GetRate"], uses["DeleteRate"]; s != nil && g != nil && d != nil && s.ok && g.ok && d.ok {
		sameOrder := reflect.DeepEqual(s.types, g.types) && reflect.DeepEqual(g.types, d.types)
		c.Decide(s.format == g.format && g.format == d.format && sameOrder && strings.Count(s.format, "%") == len(s.types), "C27.R1", "store key format", w.Pos(g.pos),
			fmt.Sprintf("Set/Get/Delete share the key format %q over (%s)", g.format, strings.Join(g.types, ", ")),
			fmt.Sprintf("keys differ: SetRate %q%v, GetRate %q%v, DeleteRate %q%v — a rate that was set is not found / not deleted", s.format, s.types, g.format, g.types, d.format, d.types))
		if s.bucket == "" || g.bucket == "" || d.bucket == "" {
			c.Unknown("C27.R1", "store bucket", w.Pos(g.pos), "the bucket name is not a constant at every accessor")
		} else {
			c.Decide(s.bucket == g.bucket && g.bucket == d.bucket, "C27.R1", "store bucket", w.Pos(g.pos),
				fmt.Sprintf("Set/Get/Delete use bucket %q", g.bucket),
				fmt.Sprintf("bucket names differ: SetRate %q, GetRate %q, DeleteRate %q", s.bucket, g.bucket, d.bucket))
		}
		if s.valVerb == "" || g.valVerb == "" {
			c.Unknown("C27.R1", "store value encoding", w.Pos(g.pos), "fmt.Appendf / fmt.Sscanf pair not found")
		} else {
			c.Decide(s.valVerb == g.valVerb, "C27.R1", "store value encoding", w.Pos(g.pos),
				fmt.Sprintf("value written and parsed with the same verb %q", g.valVerb),
				fmt.Sprintf("value written with %q but parsed with %q", s.valVerb, g.valVerb))
		}
	}
	// the decoded value is what GetRate hands out, labelled (asset, operation)
	if fn := e.fn("premium", "(*BBoltPremiumStore).GetRate"); fn != nil {
		okAll, n := true, 0
		for _, r := range an.Returns(fn) {
			ss := w.Sources(r.Results[0], an.FlowOpts{})
			for _, l := range ss.Leaves {
				if l.Kind != "call" {
					continue
				}
				n++
				a := l.Call.Call.Args
				if w.Info(l.Call).Name != "func:premium.NewPremiumRate" || len(a) != 3 || !e.isParam(a[0], fn, 2) || !e.isParam(a[1], fn, 3) {
					okAll = false
					continue
				}
				// third argument: NewPPM(<the scanned local>)
				ppm, ok := c27Strip(a[2]).(*ssa.Call)
				if !ok || w.Info(ppm).Name != "func:premium.NewPPM" {
					okAll = false
					continue
				}
				ps := w.Sources(ppm.Call.Args[0], an.FlowOpts{})
				if !ps.OnlyFrom(func(x an.Src) bool {
					return x.Kind == "call" && strings.HasPrefix(x.Name, "func:fmt.Sscanf") || x.Kind == "zero"
				}) {
					okAll = false
				}
			}
		}
		if n == 0 {
			c.Unknown("C27.R1", w.FuncName(fn)+" result", w.Pos(fn.Pos()), "no constructed rate is returned")
		} else {
			if okAll {
				c.OK("C27.R1", w.FuncName(fn)+" result", w.Pos(fn.Pos()), "returns NewPremiumRate(asset, operation, NewPPM(decoded value))")
			} else {
				c.Unknown("C27.R1", w.FuncName(fn)+" result", w.Pos(fn.Pos()), "cannot establish that the rate handed out is NewPremiumRate(asset, operation, NewPPM(<decoded value>)) with this call's parameters")
			}
		}
	}

	// --- Setting.Compute = GetRate(peer, asset, op) ; PPM.Compute(amount)
	if fn := e.fn("premium", "(*Setting).Compute"); fn != nil {
		name := w.FuncName(fn)
		gr := e.callsTo(fn, "func:(*premium.Setting).GetRate")
		pc := e.callsTo(fn, "func:(*premium.PPM).Compute")
		if len(gr) != 1 || len(pc) != 1 {
			c.Unknown("C27.R1", name, w.Pos(fn.Pos()), "expected one GetRate and one PPM.Compute call")
		} else {
			g, p := gr[0], pc[0]
			a := g.Call.Args
			e.argOrder("C27.R1", name+" resolver arguments", w.Pos(g.Pos()), fn, a, []int{0, 1, 2, 3},
				"GetRate(peerID, asset, operation) in parameter order",
				"Setting.Compute does not resolve the rate for this call's (peerID, asset, operation)")
			// receiver of PPM.Compute <- PremiumRatePPM(<rate of g>), amount <- param#4
			rs := w.Sources(p.Call.Args[0], an.FlowOpts{ThroughCalls: map[string]bool{"func:(*premium.PremiumRate).PremiumRatePPM": true}})
			recvOK := len(rs.Leaves) == 1 && c27LeafIsCall(rs.Leaves[0], g, 0) && rs.Ops["via:func:(*premium.PremiumRate).PremiumRatePPM"]
			if recvOK && e.isParam(p.Call.Args[1], fn, 4) {
				c.OK("C27.R1", name+" arithmetic operands", w.Pos(p.Pos()), "PPM.Compute runs on the resolved rate with the amount parameter")
			} else {
				c.Unknown("C27.R1", name+" arithmetic operands", w.Pos(p.Pos()), "cannot establish that PPM.Compute is applied to (resolved rate, amtSat)")
			}
			okE, _ := an.OkEdges(g)
			for _, r := range an.Returns(fn) {
				if len(r.Results) != 2 {
					continue
				}
				for _, rc := range c27ExpandReturn(r) {
					vs := w.Sources(rc.vals[0], an.FlowOpts{})
					es := w.Sources(rc.vals[1], an.FlowOpts{})
					isVal := len(vs.Leaves) == 1 && c27LeafIsCall(vs.Leaves[0], p, 0)
					switch {
					case isVal && rc.domAt(okE):
						c.OK("C27.R1", name+" value return", w.Pos(r.Pos()), "premium returned on the err==nil edge of GetRate")
					case isVal && e.uninterpretedGuard(rc, g) != "":
						c.Unknown("C27.R1", name+" value return", w.Pos(r.Pos()), "the premium is returned under the predicate "+e.uninterpretedGuard(rc, g)+", which the rule does not interpret")
					case isVal:
						c.Bad("C27.R1", name+" value return", w.Pos(r.Pos()), "the premium is computed although GetRate's error was not tested")
					case vs.OnlyFrom(func(l an.Src) bool { return l.Kind == "const" }):
						hasNil := false
						for _, l := range es.Leaves {
							if l.Kind == "zero" {
								hasNil = true
							}
						}
						switch {
						case len(es.Leaves) > 0 && es.OnlyFrom(func(l an.Src) bool { return l.Kind == "call" }):
							c.OK("C27.R1", name+" error return", w.Pos(r.Pos()), "a constant premium is returned only together with an error value")
						case hasNil:
							c.Bad("C27.R1", name+" error return", w.Pos(r.Pos()), "a constant premium is returned with a nil error")
						default:
							c.Unknown("C27.R1", name+" error return", w.Pos(r.Pos()), "cannot identify the error returned with a constant premium: "+strings.Join(es.Names(), ", "))
						}
					default:
						c.Unknown("C27.R1", name+" return", w.Pos(r.Pos()), "returned premium has sources "+strings.Join(vs.Names(), ", "))
					}
				}
			}
		}
	}
}

// keyExpr resolves the expression a bucket key is built from: one fmt.Sprintf,
// either at the accessor or inside an in-module helper whose parameters are
// bound to the helper call's arguments. It returns the format constant and the
// component values in the accessor's frame.
func (e *c27Env) keyExpr(v ssa.Value, depth int) (format string, comps []ssa.Value, at *ssa.Call, why string) {
	w := e.w
	ks := w.Sources(v, an.FlowOpts{})
	if len(ks.Leaves) != 1 || ks.Leaves[0].Kind != "call" || ks.Leaves[0].Call == nil {
		return "", nil, nil, "key is not the result of one call: " + strings.Join(ks.Names(), ", ")
	}
	call := ks.Leaves[0].Call
	inf := w.Info(call)
	if inf.Name == "func:fmt.Sprintf" {
		f, okF := an.ConstString(call.Call.Args[0])
		va := c27Varargs(call)
		if !okF || va == nil {
			return "", nil, nil, "key format is not a constant with a literal argument list"
		}
		return f, va, call, ""
	}
	if inf.Static == nil || !w.InModule(inf.Static) || inf.Static.Blocks == nil || depth >= 2 {
		return "", nil, nil, "key is built by " + inf.Name + ", which is not fmt.Sprintf or an in-module key helper"
	}
	callee := inf.Static
	first := true
	for _, r := range an.Returns(callee) {
		if len(r.Results) != 1 {
			return "", nil, nil, "key helper " + inf.Name + " has an unexpected result arity"
		}
		f, cs, _, why := e.keyExpr(r.Results[0], depth+1)
		if why != "" {
			return "", nil, nil, "in key helper " + inf.Name + ": " + why
		}
		// bind the helper's parameters to this call's arguments
		bound := make([]ssa.Value, len(cs))
		for i, cv := range cs {
			if _, isConst := c27Strip(cv).(*ssa.Const); isConst {
				bound[i] = cv
				continue
			}
			for pi := range callee.Params {
				if e.isParam(cv, callee, pi) && pi < len(call.Call.Args) {
					bound[i] = call.Call.Args[pi]
				}
			}
			if bound[i] == nil {
				return "", nil, nil, "key helper " + inf.Name + " builds a key component from something other than its parameters"
			}
		}
		if first {
			format, comps, first = f, bound, false
			continue
		}
		if f != format || len(bound) != len(comps) {
			return "", nil, nil, "key helper " + inf.Name + " builds different keys on different paths"
		}
		for i := range bound {
			if bound[i] != comps[i] {
				return "", nil, nil, "key helper " + inf.Name + " builds different keys on different paths"
			}
		}
	}
	if first {
		return "", nil, nil, "key helper " + inf.Name + " never returns"
	}
	return format, comps, call, ""
}

// keyComponent checks how a key component is derived inside a store method.
// spec is "param#N" or "field:T.f@param#N" (getter on parameter N).
func (e *c27Env) keyComponent(v ssa.Value, outer *ssa.Function, spec string) bool {
	if strings.HasPrefix(spec, "param#") {
		var n int
		fmt.Sscanf(spec, "param#%d", &n)
		return e.isParam(v, outer, n)
	}
	var field string
	var n int
	parts := strings.SplitN(strings.TrimPrefix(spec, "field:"), "@param#", 2)
	if len(parts) != 2 {
		return false
	}
	field = parts[0]
	fmt.Sscanf(parts[1], "%d", &n)
	call, ok := c27Strip(v).(*ssa.Call)
	if !ok {
		return false
	}
	inf := e.w.Info(call)
	if inf.Static == nil || !e.w.InModule(inf.Static) || len(call.Call.Args) != 1 || !e.isParam(call.Call.Args[0], outer, n) {
		return false
	}
	// the callee is a getter of that field of its receiver
	for _, r := range an.Returns(inf.Static) {
		if len(r.Results) != 1 {
			return false
		}
		ss := e.w.Sources(r.Results[0], an.FlowOpts{})
		if len(ss.Leaves) != 1 || ss.Leaves[0].Kind != "field" || ss.Leaves[0].Name != field {
			return false
		}
		_, root := e.w.FieldChain(ss.Leaves[0].Val)
		if p, ok := root.(*ssa.Parameter); !ok || p != inf.Static.Params[0] {
			return false
		}
	}
	return true
}

// ---- R2 ----------------------------------------------------------------------------------------

// c27Expr is the arithmetic a function performs on (amount, ppm), over the
// mathematical integers. Native int64 operators and the math/big vocabulary
// (NewInt, Set*, Mul, Quo, Div, Rem, Mod, Add, Sub, Neg, QuoRem, DivMod, Int64)
// build the same tree, so `int64(a)*p/1e6` and
// `new(big.Int).Quo(new(big.Int).Mul(big.NewInt(a), big.NewInt(p)), big.NewInt(1e6)).Int64()`
// are the same expression. quo/rem truncate toward zero (Go's / and %, big.Quo,
// big.Rem); div/mod are Euclidean (big.Div, big.Mod).
type c27Expr struct {
	op   string // amt | ppm | const | mul | quo | div | rem | mod | add | sub | neg
	k    *big.Int
	a, b *c27Expr
}

func (x *c27Expr) String() string {
	switch x.op {
	case "amt":
		return "amount"
	case "ppm":
		return "ppm"
	case "const":
		return x.k.String()
	case "neg":
		return "-(" + x.a.String() + ")"
	}
	sym := map[string]string{"mul": "*", "quo": " quo ", "div": " div ", "rem": " rem ", "mod": " mod ", "add": "+", "sub": "-"}[x.op]
	return "(" + x.a.String() + sym + x.b.String() + ")"
}

// eval computes the expression for concrete inputs (nil on division by zero).
func (x *c27Expr) eval(amt, ppm *big.Int) *big.Int {
	switch x.op {
	case "amt":
		return new(big.Int).Set(amt)
	case "ppm":
		return new(big.Int).Set(ppm)
	case "const":
		return new(big.Int).Set(x.k)
	case "neg":
		a := x.a.eval(amt, ppm)
		if a == nil {
			return nil
		}
		return a.Neg(a)
	}
	a, b := x.a.eval(amt, ppm), x.b.eval(amt, ppm)
	if a == nil || b == nil {
		return nil
	}
	switch x.op {
	case "mul":
		return a.Mul(a, b)
	case "add":
		return a.Add(a, b)
	case "sub":
		return a.Sub(a, b)
	}
	if b.Sign() == 0 {
		return nil
	}
	switch x.op {
	case "quo":
		return a.Quo(a, b)
	case "div":
		return a.Div(a, b)
	case "rem":
		return a.Rem(a, b)
	case "mod":
		return a.Mod(a, b)
	}
	return nil
}

// c27Arith builds expressions for the integer values of one function. big.Int
// objects are mutable, so the calls of the block that holds them are replayed in
// program order with one abstract state per object.
type c27Arith struct {
	e       *c27Env
	fn      *ssa.Function
	ints    map[ssa.Value]*c27Expr  // results of big.Int.Int64() at the time of the call
	objs    map[ssa.Value]ssa.Value // *big.Int value -> the object it denotes
	state   map[ssa.Value]*c27Expr  // object -> current value
	unknown string
}

func (ar *c27Arith) fail(why string) *c27Expr {
	if ar.unknown == "" {
		ar.unknown = why
	}
	return nil
}

func c27IsInteger(t types.Type) bool {
	b, ok := t.Underlying().(*types.Basic)
	return ok && b.Info()&types.IsInteger != 0
}

func c27IsSigned(t types.Type) bool {
	b, ok := t.Underlying().(*types.Basic)
	return ok && b.Info()&types.IsInteger != 0 && b.Info()&types.IsUnsigned == 0
}

// intExpr: the expression of a native integer value.
func (ar *c27Arith) intExpr(v ssa.Value, depth int) *c27Expr {
	if depth > 12 {
		return ar.fail("expression too deep")
	}
	if x, ok := ar.ints[v]; ok {
		return x
	}
	switch x := v.(type) {
	case *ssa.Const:
		k, ok := an.ConstInt(x)
		if !ok {
			return ar.fail("non-integer constant " + x.String())
		}
		return &c27Expr{op: "const", k: big.NewInt(k)}
	case *ssa.Parameter:
		if ar.e.isParam(x, ar.fn, 1) {
			return &c27Expr{op: "amt"}
		}
		return ar.fail("parameter " + x.Name() + " is not the amount")
	case *ssa.ChangeType:
		return ar.intExpr(x.X, depth+1)
	case *ssa.Convert:
		if !c27IsInteger(x.Type()) || !c27IsInteger(x.X.Type()) {
			return ar.fail("conversion " + x.X.Type().String() + " -> " + x.Type().String())
		}
		in := ar.intExpr(x.X, depth+1)
		if in == nil {
			return nil
		}
		// only the amount itself may change signedness (uint64 -> int64, value preserving below 2^63)
		if c27IsSigned(x.Type()) != c27IsSigned(x.X.Type()) && in.op != "amt" && in.op != "const" {
			return ar.fail("signedness conversion of a computed value")
		}
		return in
	case *ssa.UnOp:
		switch x.Op {
		case token.MUL:
			fa, ok := x.X.(*ssa.FieldAddr)
			if ok && an.FieldName(fa.X.Type(), fa.Field) == "PPM.ppmValue" && ar.e.isParam(fa.X, ar.fn, 0) {
				return &c27Expr{op: "ppm"}
			}
			return ar.fail("load of " + ar.e.w.Term(x))
		case token.SUB:
			in := ar.intExpr(x.X, depth+1)
			if in == nil {
				return nil
			}
			return &c27Expr{op: "neg", a: in}
		}
	case *ssa.BinOp:
		op := map[token.Token]string{token.MUL: "mul", token.QUO: "quo", token.REM: "rem", token.ADD: "add", token.SUB: "sub"}[x.Op]
		if op == "" {
			return ar.fail("operator " + x.Op.String())
		}
		if (op == "quo" || op == "rem") && !c27IsSigned(x.Type()) {
			return ar.fail("unsigned division (a negative premium cannot be represented)")
		}
		l, r := ar.intExpr(x.X, depth+1), ar.intExpr(x.Y, depth+1)
		if l == nil || r == nil {
			return nil
		}
		return &c27Expr{op: op, a: l, b: r}
	case *ssa.Call:
		return ar.fail("result of " + ar.e.w.Info(x).Name)
	}
	return ar.fail(fmt.Sprintf("%T", v))
}

// obj: the big.Int object a *big.Int value denotes.
func (ar *c27Arith) obj(v ssa.Value) ssa.Value {
	if o, ok := ar.objs[v]; ok {
		return o
	}
	if al, ok := v.(*ssa.Alloc); ok {
		if n := an.NamedOf(al.Type()); n != nil && n.Obj().Name() == "Int" && n.Obj().Pkg() != nil && n.Obj().Pkg().Path() == "math/big" {
			ar.objs[v] = v
			ar.state[v] = &c27Expr{op: "const", k: big.NewInt(0)}
			return v
		}
	}
	ar.fail("a *big.Int of unknown origin: " + ar.e.w.Term(v))
	return nil
}

func (ar *c27Arith) get(v ssa.Value) *c27Expr {
	o := ar.obj(v)
	if o == nil {
		return nil
	}
	return ar.state[o]
}

// replay interprets the math/big calls of fn in program order.
func (ar *c27Arith) replay() {
	w := ar.e.w
	var bigBlock *ssa.BasicBlock
	for _, b := range ar.fn.Blocks {
		for _, in := range b.Instrs {
			call, ok := in.(*ssa.Call)
			if !ok {
				continue
			}
			name := w.Info(call).Name
			if !strings.HasPrefix(name, "func:(*math/big.Int).") && !strings.HasPrefix(name, "func:math/big.") {
				continue
			}
			if bigBlock != nil && bigBlock != b {
				ar.fail("math/big operations spread over several blocks")
				return
			}
			bigBlock = b
			args := call.Call.Args
			set := func(z ssa.Value, x *c27Expr) {
				o := ar.obj(z)
				if o == nil || x == nil {
					ar.fail("cannot evaluate " + name)
					return
				}
				ar.state[o] = x
				ar.objs[call] = o
			}
			bin := func(op string) {
				if len(args) != 3 {
					ar.fail("unexpected arity of " + name)
					return
				}
				x, y := ar.get(args[1]), ar.get(args[2])
				if x == nil || y == nil {
					ar.fail("cannot evaluate an operand of " + name)
					return
				}
				set(args[0], &c27Expr{op: op, a: x, b: y})
			}
			switch strings.TrimPrefix(strings.TrimPrefix(name, "func:(*math/big.Int)."), "func:math/big.") {
			case "NewInt":
				x := ar.intExpr(args[0], 0)
				if x == nil {
					return
				}
				ar.objs[call] = call
				ar.state[call] = x
			case "SetInt64", "SetUint64":
				set(args[0], ar.intExpr(args[1], 0))
			case "Set":
				set(args[0], ar.get(args[1]))
			case "Mul":
				bin("mul")
			case "Quo":
				bin("quo")
			case "Div":
				bin("div")
			case "Rem":
				bin("rem")
			case "Mod":
				bin("mod")
			case "Add":
				bin("add")
			case "Sub":
				bin("sub")
			case "Neg":
				if x := ar.get(args[1]); x != nil {
					set(args[0], &c27Expr{op: "neg", a: x})
				}
			case "QuoRem", "DivMod":
				if len(args) != 4 {
					ar.fail("unexpected arity of " + name)
					return
				}
				x, y := ar.get(args[1]), ar.get(args[2])
				if x == nil || y == nil || ar.obj(args[3]) == nil {
					ar.fail("cannot evaluate an operand of " + name)
					return
				}
				q, r := "quo", "rem"
				if strings.HasSuffix(name, "DivMod") {
					q, r = "div", "mod"
				}
				ar.state[ar.obj(args[3])] = &c27Expr{op: r, a: x, b: y}
				set(args[0], &c27Expr{op: q, a: x, b: y})
			case "Int64":
				if x := ar.get(args[0]); x != nil {
					ar.ints[call] = x
				}
			default:
				ar.fail("math/big operation " + name + " is outside the vocabulary of the rule")
			}
			if ar.unknown != "" {
				return
			}
		}
	}
}

// c27Witnesses are the inputs the computed expression is compared on with the
// reference  trunc(amount * ppm / 10^6).  The first one is a negative rate whose
// product is not a multiple of 10^6 (truncation and floor differ there).
var c27Witnesses = [][2]int64{
	{123457, -1500}, {1, -1}, {999999, -1}, {1000000, 2000}, {999999, 1}, {0, 5}, {123456789, -999999}, {7, 1000000}, {1500000, 333333}, {21000000_00000000, 10000},
}

func (e *c27Env) r2() {
	c, w := e.c, e.w
	fn := e.fn("premium", "(*PPM).Compute")
	if fn == nil {
		return
	}
	name := w.FuncName(fn)
	rets := an.Returns(fn)
	c.AtLeast("C27.R2", "returns of PPM.Compute", len(rets), 1)
	million := big.NewInt(1_000_000)
	for _, r := range rets {
		pos := w.Pos(r.Pos())
		if len(r.Results) != 1 {
			c.Unknown("C27.R2", name, pos, "unexpected result arity")
			continue
		}
		ar := &c27Arith{e: e, fn: fn, ints: map[ssa.Value]*c27Expr{}, objs: map[ssa.Value]ssa.Value{}, state: map[ssa.Value]*c27Expr{}}
		ar.replay()
		var x *c27Expr
		if ar.unknown == "" {
			x = ar.intExpr(r.Results[0], 0)
		}
		if x == nil || ar.unknown != "" {
			c.Unknown("C27.R2", name, pos, "the result is not an integer expression over (amount, ppm) in the native / math/big vocabulary of the rule: "+ar.unknown)
			continue
		}
		// compare with the reference on the witnesses
		bad := ""
		for _, wt := range c27Witnesses {
			a, p := big.NewInt(wt[0]), big.NewInt(wt[1])
			want := new(big.Int).Mul(a, p)
			want.Quo(want, million)
			got := x.eval(a, p)
			if got == nil {
				bad = fmt.Sprintf("amount=%d, rate=%d ppm: division by zero", wt[0], wt[1])
				break
			}
			if got.Cmp(want) != 0 {
				bad = fmt.Sprintf("amount=%d sat, rate=%d ppm: the code computes %s = %s, the premium is %s (amount*rate/10^6 truncated toward zero)", wt[0], wt[1], x, got, want)
				break
			}
		}
		if bad != "" {
			c.Bad("C27.R2", name, pos, "the premium is not trunc(amount*ppm/1_000_000): "+bad)
			continue
		}
		isLeaf := func(y *c27Expr, op string) bool { return y != nil && y.op == op }
		canonical := x.op == "quo" && isLeaf(x.b, "const") && x.b.k.Cmp(million) == 0 && isLeaf(x.a, "mul") &&
			((isLeaf(x.a.a, "amt") && isLeaf(x.a.b, "ppm")) || (isLeaf(x.a.a, "ppm") && isLeaf(x.a.b, "amt")))
		if canonical {
			c.OK("C27.R2", name, pos, "computes "+x.String()+" with a truncating quotient")
		} else {
			c.Unknown("C27.R2", name, pos, "the expression "+x.String()+" agrees with trunc(amount*ppm/10^6) on the witnesses but is not the form the rule can prove equal")
		}
	}
}

// ---- R3 charging ----------------------------------------------------------------------------------

// c27LiquidFact classifies a dominating fact as "this swap is on Liquid" (+1),
// "this swap is not on Liquid" (-1) or neither (0). Two tests exist in the
// tree: SwapData.GetChain() compared with the constant "lbtc", and the
// request's Network field compared with "" (an empty network means the asset
// field is set, i.e. Liquid — see the comment in OnSwap*RequestReceived).
func c27LiquidFact(f an.Fact) int {
	if !f.NonNum || (f.Rel != "==" && f.Rel != "!=") {
		return 0
	}
	sign := 1
	if f.Rel == "!=" {
		sign = -1
	}
	has := func(a, b string) bool {
		return (strings.Contains(f.L, a) && f.R == b) || (strings.Contains(f.R, a) && f.L == b)
	}
	switch {
	case has("(*swap.SwapData).GetChain", `"lbtc"`):
		return sign
	case has("(*swap.SwapData).GetChain", `"btc"`):
		return -sign
	case has("RequestMessage.Network", `""`):
		return sign
	}
	return 0
}

// c27Alt is one constant a call argument may hold together with the facts that
// hold whenever that constant is the one selected.
type c27Alt struct {
	val   int64
	facts []an.Fact
}

// edgeFacts: the facts of the conditional edge pred -> to (none for a jump).
func (e *c27Env) edgeFacts(pred, to *ssa.BasicBlock) []an.Fact {
	if len(pred.Succs) != 2 || pred.Succs[0] == pred.Succs[1] {
		return nil
	}
	var out []an.Fact
	for _, f := range e.w.Facts(pred.Parent()) {
		if f.Edge.From == pred && f.Edge.To() == to {
			out = append(out, f)
		}
	}
	return out
}

// constAlts expands a constant or a phi of constants ("value selected into a
// local") into (constant, facts at the selecting predecessor) pairs.
func (e *c27Env) constAlts(v ssa.Value, depth int) ([]c27Alt, bool) {
	v = c27Strip(v)
	switch x := v.(type) {
	case *ssa.Const:
		k, ok := an.ConstInt(x)
		if !ok {
			return nil, false
		}
		return []c27Alt{{val: k}}, true
	case *ssa.Phi:
		if depth > 3 {
			return nil, false
		}
		var out []c27Alt
		for i, ed := range x.Edges {
			if i >= len(x.Block().Preds) {
				return nil, false
			}
			pred := x.Block().Preds[i]
			sub, ok := e.constAlts(ed, depth+1)
			if !ok {
				return nil, false
			}
			facts := append(append([]an.Fact{}, e.w.FactsDominatingBlock(pred)...), e.edgeFacts(pred, x.Block())...)
			for _, s := range sub {
				out = append(out, c27Alt{val: s.val, facts: append(append([]an.Fact{}, facts...), s.facts...)})
			}
		}
		return out, len(out) > 0
	}
	return nil, false
}

func (e *c27Env) r3charge() {
	c, w := e.c, e.w
	const computeName = "func:(*premium.Setting).Compute"
	type site struct {
		call *ssa.Call
		fn   *ssa.Function
		dir  string // "SwapIn"/"SwapOut" as implied by the message the premium is for
	}
	var sites []*site
	byCall := map[*ssa.Call]*site{}
	for _, fn := range prodFuncs(w) {
		if w.FnRel(fn) == "premium" {
			continue
		}
		for _, call := range e.callsTo(fn, computeName) {
			s := &site{call: call, fn: fn}
			sites = append(sites, s)
			byCall[call] = s
		}
	}

	// (a) who writes the Premium fields
	nW := 0
	for _, fld := range []struct{ key, dir string }{
		{"SwapInAgreementMessage.Premium", "SwapIn"},
		{"SwapOutAgreementMessage.Premium", "SwapOut"},
	} {
		for _, st := range w.FieldWriters(fld.key) {
			fn := st.Parent()
			if an.IsTestSupport(w.FnRel(fn)) {
				continue
			}
			nW++
			cons := w.FuncName(fn) + " store " + fld.key
			// look through in-module helpers that hand the computed premium back
			ss := w.Sources(st.Val, an.FlowOpts{IntoCallees: true, StopAt: map[string]bool{computeName: true}})
			bad, unknown := "", ""
			for _, l := range ss.Leaves {
				switch {
				case l.Kind == "call" && l.Call != nil && w.Info(l.Call).Name == computeName && l.Idx == 0:
					if s := byCall[l.Call]; s != nil {
						if s.dir != "" && s.dir != fld.dir {
							unknown = "one Compute result is used for both directions"
						}
						s.dir = fld.dir
					}
				case l.Kind == "zero":
					// `var premiumValue int64` before the branches
				case l.Kind == "const" && l.Name == "0":
					// error path of a helper that returns (0, err)
				case l.Kind == "const":
					bad = "a constant premium " + l.Name
				default:
					unknown = "value comes from " + l.String()
				}
			}
			if len(ss.Leaves) == 0 {
				unknown = "no source"
			}
			switch {
			case bad != "":
				c.Bad("C27.R3", cons, w.Pos(st.Pos()), "the premium put into the agreement is not the result of Setting.Compute: "+bad)
			case unknown != "":
				c.Unknown("C27.R3", cons, w.Pos(st.Pos()), "cannot trace the premium put into the agreement to Setting.Compute: "+unknown)
			default:
				c.OK("C27.R3", cons, w.Pos(st.Pos()), "the premium sent to the peer is the result of Setting.Compute")
			}
		}
	}
	c.AtLeast("C27.R3", "stores to the agreement Premium fields", nW, 2)

	// (b) every call site, per (asset, operation) constant it can be reached with
	nInst := 0
	for _, s := range sites {
		a := s.call.Call.Args
		cons0 := w.FuncName(s.fn) + " Setting.Compute"
		pos := w.Pos(s.call.Pos())
		if len(a) != 5 {
			nInst++
			c.Unknown("C27.R3", cons0, pos, "unexpected argument count")
			continue
		}
		assetAlts, okA := e.constAlts(a[2], 0)
		opAlts, okO := e.constAlts(a[3], 0)
		if !okA || !okO {
			nInst++
			c.Unknown("C27.R3", cons0, pos, "asset / operation are not enum constants (or a selection between enum constants) at the call: "+w.Term(a[2])+", "+w.Term(a[3]))
			continue
		}
		// direction: from the agreement field the result is stored to, else from
		// the request message type the amount is read from
		amt := w.Sources(a[4], an.FlowOpts{})
		dir := s.dir
		if dir == "" {
			for _, l := range amt.Leaves {
				if l.Kind == "field" && strings.HasSuffix(l.Name, "SwapInRequestMessage.Amount") {
					dir = "SwapIn"
				}
				if l.Kind == "field" && strings.HasSuffix(l.Name, "SwapOutRequestMessage.Amount") {
					if dir == "SwapIn" {
						dir = "?"
					} else {
						dir = "SwapOut"
					}
				}
			}
		}
		callFacts := w.FactsDominating(s.call)
		seenAsset := map[string]bool{}
		for _, aa := range assetAlts {
			for _, oa := range opAlts {
				if e.assets[aa.val] == "" || e.ops[oa.val] == "" {
					nInst++
					c.Unknown("C27.R3", cons0, pos, fmt.Sprintf("argument value %d/%d is not one of the asset / operation enum constants", aa.val, oa.val))
					continue
				}
				asset, op := e.assets[aa.val], e.ops[oa.val]
				if !seenAsset[asset+op] {
					seenAsset[asset+op] = true
					nInst++
				}
				cons := fmt.Sprintf("%s(%s,%s)", cons0, asset, op)
				if dir == "" || dir == "?" {
					c.Unknown("C27.R3", cons, pos, "cannot tell which swap direction this premium is for (result not stored to an agreement, amount not read from a request message)")
					continue
				}
				if dir != op {
					c.Bad("C27.R3", cons, pos, fmt.Sprintf("the premium for a %s message is computed with the %s rate: the peer is charged a rate other than the advertised one", dir, op))
					continue
				}
				// chain
				facts := append(append(append([]an.Fact{}, callFacts...), aa.facts...), oa.facts...)
				liquid := 0
				for _, f := range facts {
					if k := c27LiquidFact(f); k != 0 {
						if liquid != 0 && liquid != k {
							liquid = 2
							break
						}
						liquid = k
					}
				}
				desc := an.DescribeFacts(facts)
				switch {
				case liquid == 0 || liquid == 2:
					c.Unknown("C27.R3", cons, pos, "no recognised Liquid/Bitcoin test holds where this asset is selected; facts: "+desc)
					continue
				case (liquid == 1) != (asset == "LBTC"):
					c.Bad("C27.R3", cons, pos, fmt.Sprintf("asset %s is charged on the branch where the swap is%s on Liquid (facts: %s)", asset, map[bool]string{true: "", false: " not"}[liquid == 1], desc))
					continue
				}
				// amount and peer
				amtOK := len(amt.Leaves) > 0 && amt.OnlyFrom(func(l an.Src) bool {
					return (l.Kind == "call" && l.Name == "func:(*swap.SwapData).GetAmount#0") ||
						(l.Kind == "field" && strings.HasSuffix(l.Name, "Swap"+strings.TrimPrefix(dir, "Swap")+"RequestMessage.Amount"))
				})
				peer := w.Sources(a[1], an.FlowOpts{})
				peerOK := len(peer.Leaves) > 0 && peer.OnlyFrom(func(l an.Src) bool {
					if l.Kind == "field" {
						return l.Name == "SwapData.PeerNodeId"
					}
					// the handler's peer parameter: the only string parameter of the handler
					if p, ok := l.Val.(*ssa.Parameter); ok && l.Kind == "param" && p.Parent() == s.fn {
						n := 0
						for _, q := range s.fn.Params {
							if b, ok := q.Type().Underlying().(*types.Basic); ok && b.Kind() == types.String {
								n++
							}
						}
						return n == 1
					}
					return false
				})
				definitelyWrong := func(ss *an.SrcSet) bool {
					// only constants / message or swap-data fields: nothing a refactoring could hide behind
					return len(ss.Leaves) > 0 && ss.OnlyFrom(func(l an.Src) bool { return l.Kind == "const" || l.Kind == "zero" || l.Kind == "field" })
				}
				switch {
				case !amtOK && definitelyWrong(amt):
					c.Bad("C27.R3", cons, pos, "the amount the premium is computed on is not the swap amount: "+strings.Join(amt.Names(), ", "))
				case !amtOK:
					c.Unknown("C27.R3", cons, pos, "cannot identify the amount argument as the swap amount: "+strings.Join(amt.Names(), ", "))
				case !peerOK && definitelyWrong(peer):
					c.Bad("C27.R3", cons, pos, "the rate is not resolved for the swap's peer: "+strings.Join(peer.Names(), ", "))
				case !peerOK:
					c.Unknown("C27.R3", cons, pos, "cannot identify the peer argument as the swap's peer: "+strings.Join(peer.Names(), ", "))
				default:
					c.OK("C27.R3", cons, pos, fmt.Sprintf("%s/%s rate of the swap peer on the swap amount, on the %s branch", asset, op, map[bool]string{true: "Liquid", false: "Bitcoin"}[liquid == 1]))
				}
			}
		}
	}
	// 2 assets x 2 directions x (request handler, agreement action) on the pinned tree
	c.AtLeast("C27.R3", "(Setting.Compute call site, asset, operation) instances outside package premium", nInst, 8)
}

// ---- R3 advertising ------------------------------------------------------------------------------------

type c27Pair struct{ a, o string }

func (p c27Pair) String() string { return "(" + p.a + "," + p.o + ")" }

// pairAt reads the (asset, operation) constants at argument positions i, j.
func (e *c27Env) pairAt(args []ssa.Value, i, j int) (c27Pair, bool) {
	if i >= len(args) || j >= len(args) {
		return c27Pair{}, false
	}
	_, c1 := c27Strip(args[i]).(*ssa.Const)
	_, c2 := c27Strip(args[j]).(*ssa.Const)
	a, ok1 := an.ConstInt(args[i])
	o, ok2 := an.ConstInt(args[j])
	if !c1 || !c2 || !ok1 || !ok2 || e.assets[a] == "" || e.ops[o] == "" {
		return c27Pair{}, false
	}
	return c27Pair{e.assets[a], e.ops[o]}, true
}

func (e *c27Env) r3advertise() {
	c, w := e.c, e.w
	capT := w.Named("peersync", "PeerCapability")
	snapT := w.Named("peersync", "PeerCapabilitySnapshot")
	if capT == nil || snapT == nil {
		c.Anchor("peersync.PeerCapability / PeerCapabilitySnapshot do not resolve")
		return
	}

	// 1. GetPremiumRate arms: (asset,op) -> capability field
	arms := map[c27Pair]string{}
	if fn := e.fn("peersync", "(*PeerCapability).GetPremiumRate"); fn != nil {
		for _, r := range an.Returns(fn) {
			ss := w.Sources(r.Results[0], an.FlowOpts{})
			if ss.OnlyFrom(func(l an.Src) bool { return l.Kind == "zero" }) {
				continue
			}
			if len(ss.Leaves) != 1 || ss.Leaves[0].Kind != "field" || !strings.HasPrefix(ss.Leaves[0].Name, "PeerCapability.") {
				c.Unknown("C27.R3", w.FuncName(fn)+" arm", w.Pos(r.Pos()), "arm does not return one capability field: "+strings.Join(ss.Names(), ", "))
				continue
			}
			var av, ov []int64
			for _, f := range w.FactsDominatingBlock(r.Block()) {
				if f.NonNum || f.Rel != "==" || len(f.Terms) != 1 {
					continue
				}
				for k, coef := range f.Terms {
					if coef != 1 && coef != -1 {
						continue
					}
					val := -f.Const * coef
					switch k {
					case "param#1":
						av = append(av, val)
					case "param#2":
						ov = append(ov, val)
					}
				}
			}
			if len(av) != 1 || len(ov) != 1 || e.assets[av[0]] == "" || e.ops[ov[0]] == "" {
				c.Unknown("C27.R3", w.FuncName(fn)+" arm", w.Pos(r.Pos()), "arm is not selected by one asset and one operation constant: "+an.DescribeFacts(w.FactsDominatingBlock(r.Block())))
				continue
			}
			p := c27Pair{e.assets[av[0]], e.ops[ov[0]]}
			if prev, dup := arms[p]; dup && prev != ss.Leaves[0].Name {
				c.Unknown("C27.R3", w.FuncName(fn)+" arm", w.Pos(r.Pos()), "two arms for "+p.String())
				continue
			}
			arms[p] = ss.Leaves[0].Name
		}
	}
	if !c.AtLeast("C27.R3", "GetPremiumRate arms", len(arms), 4) {
		return
	}
	{
		inv := map[string]bool{}
		for _, f := range arms {
			inv[f] = true
		}
		c.Decide(len(inv) == 4, "C27.R3", "(*peersync.PeerCapability).GetPremiumRate arms", "peersync/peer.go",
			"four pairs select four distinct capability fields", fmt.Sprintf("two (asset,operation) pairs read the same capability field: %v", arms))
	}

	// 2. NewPeerCapability: parameter index -> capability field
	ctorField := map[int]string{}
	ctor := e.fn("peersync", "NewPeerCapability")
	if ctor == nil {
		return
	}
	for _, ci := range ctor.Blocks {
		for _, in := range ci.Instrs {
			st, ok := in.(*ssa.Store)
			if !ok {
				continue
			}
			fa, ok := st.Addr.(*ssa.FieldAddr)
			if !ok || an.NamedOf(fa.X.Type()) != capT {
				continue
			}
			for i := range ctor.Params {
				if e.isParam(st.Val, ctor, i) {
					ctorField[i] = an.FieldName(fa.X.Type(), fa.Field)
				}
			}
		}
	}

	// 3. localCapabilityForPeer: pairs at each rate argument of the constructor call
	// the function that builds the advertised capability: it asks PeerGuard.PremiumRate
	// and calls the capability constructor (localCapabilityForPeer on the pinned tree)
	var adv *ssa.Function
	for _, f := range prodFuncs(w) {
		if w.FnRel(f) != "peersync" {
			continue
		}
		if len(e.callsTo(f, "func:peersync.NewPeerCapability")) > 0 {
			for _, ci := range an.Calls(f) {
				if w.Info(ci).Name == "iface:peersync.PeerGuard.PremiumRate" {
					adv = f
				}
			}
		}
	}
	if adv == nil {
		c.Anchor("no production function in peersync both asks PeerGuard.PremiumRate and calls NewPeerCapability")
		return
	}
	for _, ci := range an.Calls(adv) {
		if cal := w.Info(ci).Static; cal != nil {
			if _, _, isTbl := e.tableDefault(cal); isTbl {
				c.OK("C27.R3", w.FuncName(cal), w.Pos(cal.Pos()), "built-in table indexed [asset][operation]")
			}
		}
	}
	nAdv := 0
	for _, call := range e.callsTo(adv, "func:peersync.NewPeerCapability") {
		for k, arg := range call.Call.Args {
			fld := ctorField[k]
			isRate := false
			for _, f := range arms {
				if f == fld {
					isRate = true
				}
			}
			if !isRate {
				continue
			}
			nAdv++
			pairs, why := e.advertisedPairs(arg, adv)
			cons := "advertised " + fld
			pos := w.Pos(call.Pos())
			if why != "" {
				c.Unknown("C27.R3", cons, pos, why)
				continue
			}
			var ps []string
			okAll := true
			for p := range pairs {
				ps = append(ps, p.String())
				if arms[p] != fld {
					okAll = false
				}
			}
			sort.Strings(ps)
			c.Decide(okAll && len(pairs) == 1, "C27.R3", cons, pos,
				"capability field "+fld+" is filled with the rate resolved for "+strings.Join(ps, ""),
				fmt.Sprintf("constructor argument #%d lands in %s, which GetPremiumRate reads for %s, but it is filled with the rate(s) resolved for %s: the peer is shown a rate of another asset/direction than it will be charged", k, fld, c27PairOf(arms, fld), strings.Join(ps, " ")))
		}
	}
	c.AtLeast("C27.R3", "advertised rate arguments", nAdv, 4)

	// the invoke resolves to peerGuard.PremiumRate only
	var guardImpl *ssa.Function
	if n := w.CG().Nodes[adv]; n != nil {
		impls := map[*ssa.Function]bool{}
		for _, out := range n.Out {
			if out.Site == nil || w.Info(out.Site).Name != "iface:peersync.PeerGuard.PremiumRate" {
				continue
			}
			if an.IsTestSupport(w.FnRel(out.Callee.Func)) || out.Callee.Func.Blocks == nil {
				continue
			}
			impls[out.Callee.Func] = true
		}
		var fs []*ssa.Function
		for f := range impls {
			fs = append(fs, f)
		}
		sort.Slice(fs, func(i, j int) bool { return w.FuncName(fs[i]) < w.FuncName(fs[j]) })
		for _, f := range fs {
			// the implementation the rule follows: the one that asks Setting.GetRate (directly or not)
			if guardImpl == nil && (len(fs) == 1 || w.Summary(f).HasEffect("func:(*premium.Setting).GetRate")) {
				guardImpl = f
				c.OK("C27.R3", "PeerGuard.PremiumRate implementation "+w.FuncName(f), w.Pos(f.Pos()), "the advertised rate is resolved by this implementation")
			} else {
				c.Unknown("C27.R3", "PeerGuard.PremiumRate implementation "+w.FuncName(f), w.Pos(f.Pos()), "a second production implementation of PeerGuard.PremiumRate can answer the advertising call; the rule follows only one")
			}
		}
	}
	if guardImpl == nil {
		c.Anchor("no production implementation of PeerGuard.PremiumRate is reachable from the advertising call")
	}

	// 4. snapshot: field -> JSON name, value <- ppmValue(GetPremiumRate(pair))
	if fn := e.fn("peersync", "SnapshotFromCapability"); fn != nil {
		// pass-throughs of a rate's ppm value: PPM.Value and in-module one-liners around it (ppmValue)
		passThrough := map[string]bool{"func:(*premium.PPM).Value": true}
		for _, ci := range an.Calls(fn) {
			if cal := w.Info(ci).Static; cal != nil && w.InModule(cal) && e.ppmPassThrough(cal) {
				passThrough[w.Info(ci).Name] = true
				c.OK("C27.R3", w.FuncName(cal), w.Pos(cal.Pos()), "returns the ppm of its argument (0 for nil)")
			}
		}
		st := snapT.Underlying().(*types.Struct)
		nS, unresolved := 0, 0
		seen := map[c27Pair]bool{}
		for _, b := range fn.Blocks {
			for _, in := range b.Instrs {
				sto, ok := in.(*ssa.Store)
				if !ok {
					continue
				}
				fa, ok := sto.Addr.(*ssa.FieldAddr)
				if !ok || an.NamedOf(fa.X.Type()) != snapT {
					continue
				}
				ss := w.Sources(sto.Val, an.FlowOpts{ThroughCalls: passThrough})
				var gp *ssa.Call
				for _, l := range ss.Leaves {
					if l.Kind == "call" && l.Call != nil && w.Info(l.Call).Name == "func:(*peersync.PeerCapability).GetPremiumRate" {
						gp = l.Call
					}
				}
				fname := st.Field(fa.Field).Name()
				cons := "snapshot field " + fname
				pos := w.Pos(sto.Pos())
				if gp == nil {
					wire := strings.Split(reflect.StructTag(st.Tag(fa.Field)).Get("json"), ",")[0]
					for _, wn := range c27WireNames {
						if wn == wire {
							nS++
							unresolved++
							c.Unknown("C27.R3", cons, pos, "a rate field of the wire format is not filled with ppmValue(capability.GetPremiumRate(<const>, <const>)): "+strings.Join(ss.Names(), ", "))
						}
					}
					continue
				}
				nS++
				p, ok := e.pairAt(gp.Call.Args, 1, 2)
				if !ok || len(ss.Leaves) != 1 || !e.isParam(gp.Call.Args[0], fn, 0) {
					unresolved++
					c.Unknown("C27.R3", cons, pos, "not ppmValue(capability.GetPremiumRate(<const>, <const>)): "+strings.Join(ss.Names(), ", "))
					continue
				}
				tag := reflect.StructTag(st.Tag(fa.Field)).Get("json")
				jname := strings.Split(tag, ",")[0]
				seen[p] = true
				c.Decide(jname == c27WireNames[[2]string{p.a, p.o}], "C27.R3", cons, pos,
					fmt.Sprintf("%s rate is sent as %q", p, jname),
					fmt.Sprintf("the %s rate is sent under the wire name %q, the protocol name for that pair is %q", p, jname, c27WireNames[[2]string{p.a, p.o}]))
			}
		}
		c.AtLeast("C27.R3", "rate fields of the snapshot", nS, 4)
		switch {
		case len(seen) == 4:
			c.OK("C27.R3", "snapshot covers the four pairs", w.Pos(fn.Pos()), "all four (asset,operation) pairs are sent")
		case unresolved > 0:
			c.Unknown("C27.R3", "snapshot covers the four pairs", w.Pos(fn.Pos()), fmt.Sprintf("%d pairs resolved, %d rate fields not understood", len(seen), unresolved))
		default:
			c.Bad("C27.R3", "snapshot covers the four pairs", w.Pos(fn.Pos()), fmt.Sprintf("only %d distinct pairs are sent", len(seen)))
		}
	}
	// 5. peerGuard.PremiumRate -> Setting.GetRate(peer, asset, op)
	if guardImpl != nil {
		fn := guardImpl
		name := w.FuncName(fn)
		gr := e.callsTo(fn, "func:(*premium.Setting).GetRate")
		if len(gr) == 0 && w.Summary(fn).HasEffect("func:(*premium.Setting).GetRate") {
			c.Unknown("C27.R3", name+" resolver arguments", w.Pos(fn.Pos()), "Setting.GetRate is called from a helper of peerGuard.PremiumRate; the return analysis does not follow it")
			return
		}
		if len(gr) == 0 {
			c.Bad("C27.R3", name+" resolver arguments", w.Pos(fn.Pos()), "the advertised rate is not resolved through Setting.GetRate, the resolver Setting.Compute charges with")
			return
		}
		if len(gr) != 1 {
			c.Unknown("C27.R3", name, w.Pos(fn.Pos()), fmt.Sprintf("%d calls of Setting.GetRate, expected one", len(gr)))
			return
		}
		g := gr[0]
		a := g.Call.Args
		// receiver <- field peerGuard.premium ; peer <- param#1.String()
		recv := w.Sources(a[0], an.FlowOpts{})
		peer := w.Sources(a[1], an.FlowOpts{ThroughCalls: map[string]bool{"func:(peersync.PeerID).String": true}})
		argsOK := len(a) == 4 && recv.OnlyFrom(func(l an.Src) bool { return l.Kind == "field" && c27TypeName(l.Val.Type()) != "" }) && c27RootIsParam(w, recv, fn) &&
			peer.OnlyFrom(func(l an.Src) bool { p, ok := l.Val.(*ssa.Parameter); return ok && p == fn.Params[1] }) &&
			e.isParam(a[2], fn, 2) && e.isParam(a[3], fn, 3)
		if argsOK {
			c.OK("C27.R3", name+" resolver arguments", w.Pos(g.Pos()), "peerGuard.premium.GetRate(peer, asset, operation) in parameter order")
		} else {
			c.Unknown("C27.R3", name+" resolver arguments", w.Pos(g.Pos()), "cannot establish that the advertised rate is resolved as peerGuard.premium.GetRate(peer, asset, operation) with this call's parameters")
		}
		// returns
		var excuse []an.Edge
		for _, f := range w.Facts(fn) {
			if !f.NonNum {
				continue
			}
			// `no setting configured`: the receiver GetRate is called on is nil
			if f.Rel == "==" && f.LV != nil && f.RV != nil {
				for _, side := range [][2]ssa.Value{{f.LV, f.RV}, {f.RV, f.LV}} {
					if an.IsNilConst(c27Strip(side[1])) {
						ca, ra := w.FieldChain(c27Strip(side[0]))
						cb, rb := w.FieldChain(c27Strip(a[0]))
						if ca != "" && ca == cb && ra == rb {
							excuse = append(excuse, f.Edge)
						}
					}
				}
			}
			switch {
			case an.EqIs(f, "!=", "call:func:(*premium.Setting).GetRate#1", "nil"),
				an.EqIs(f, "==", "call:func:(*premium.Setting).GetRate#0", "nil"),
				an.EqIs(f, "==", "call:func:(*premium.PremiumRate).PremiumRatePPM", "nil"):
				excuse = append(excuse, f.Edge)
			}
		}
		nMain, nNotUnderstood := 0, 0
		for _, r := range an.Returns(fn) {
			if len(r.Results) != 1 {
				continue
			}
			for _, rc := range c27ExpandReturn(r) {
				ss := w.Sources(rc.vals[0], an.FlowOpts{ThroughCalls: map[string]bool{"func:(*premium.PremiumRate).PremiumRatePPM": true}})
				pos := w.Pos(r.Pos())
				if len(ss.Leaves) == 1 && c27LeafIsCall(ss.Leaves[0], g, 0) {
					nMain++
					c.OK("C27.R3", name+" resolved return", pos, "returns the ppm of the rate Setting.GetRate resolved")
					continue
				}
				// a default: NewPPM(defaultPremiumRate(asset, operation)) on an excused edge only
				def := true
				for _, l := range ss.Leaves {
					if l.Kind != "call" || l.Call == nil || w.Info(l.Call).Name != "func:premium.NewPPM" {
						def = false
						continue
					}
					d, ok := c27Strip(l.Call.Call.Args[0]).(*ssa.Call)
					if !ok {
						def = false
						continue
					}
					ai, oi, isTbl := e.tableDefault(w.Info(d).Static)
					if !isTbl || !e.isParam(d.Call.Args[ai], fn, 2) || !e.isParam(d.Call.Args[oi], fn, 3) {
						def = false
					}
				}
				switch {
				case !def || len(ss.Leaves) == 0:
					nNotUnderstood++
					c.Unknown("C27.R3", name+" other return", pos, "cannot identify the returned rate as the resolved one or as the built-in default for (asset, operation): "+strings.Join(ss.Names(), ", "))
				case rc.domAt(excuse):
					c.OK("C27.R3", name+" default return", pos, "built-in default only when no setting is configured, the resolver failed or returned nil")
				case e.uninterpretedGuard(rc, g) != "":
					nNotUnderstood++
					c.Unknown("C27.R3", name+" default return", pos, "the built-in default is returned under the predicate "+e.uninterpretedGuard(rc, g)+", which the rule does not interpret")
				default:
					c.Bad("C27.R3", name+" default return", pos, "the built-in default is advertised on a path where the resolver succeeded: advertised rate differs from the charged one. Facts: "+an.DescribeFacts(e.factsAt(rc)))
				}
			}
		}
		switch {
		case nMain >= 1:
			c.OK("C27.R3", name+" resolved return exists", w.Pos(fn.Pos()), "some return hands out the resolved rate")
		case nNotUnderstood > 0:
			c.Unknown("C27.R3", name+" resolved return exists", w.Pos(fn.Pos()), "no return was identified as the resolved rate, and some returns were not understood")
		default:
			c.Bad("C27.R3", name+" resolved return exists", w.Pos(fn.Pos()), "no return hands out the rate Setting.GetRate resolved")
		}
		c.Note("C27.R3", name+" error fallback", w.Pos(g.Pos()), "when Setting.GetRate fails the built-in default is advertised while Setting.Compute refuses the swap with the error — advertised and charged rate are not compared on that edge")
	}
}

// tableDefault: fn(asset, operation) answers premium.DefaultPremiumRate[asset][operation]
// (or the constant 0 when the table has no entry); returns the parameter positions.
func (e *c27Env) tableDefault(fn *ssa.Function) (assetIdx, opIdx int, ok bool) {
	if fn == nil || !e.w.InModule(fn) || fn.Blocks == nil {
		return 0, 0, false
	}
	assetIdx, opIdx = -1, -1
	for i, p := range fn.Params {
		switch c27TypeName(p.Type()) {
		case "premium.AssetType":
			assetIdx = i
		case "premium.OperationType":
			opIdx = i
		}
	}
	if assetIdx < 0 || opIdx < 0 {
		return 0, 0, false
	}
	n := 0
	for _, r := range an.Returns(fn) {
		if len(r.Results) != 1 {
			return 0, 0, false
		}
		for _, rc := range c27ExpandReturn(r) {
			v := c27Strip(rc.vals[0])
			if cv, isC := v.(*ssa.Const); isC {
				if k, isInt := an.ConstInt(cv); !isInt || k != 0 {
					return 0, 0, false
				}
				continue
			}
			ka, ko, isLookup := e.tableLookup(v)
			if !isLookup || !e.isParam(ka, fn, assetIdx) || !e.isParam(ko, fn, opIdx) {
				return 0, 0, false
			}
			n++
		}
	}
	return assetIdx, opIdx, n > 0
}

// ppmPassThrough: fn(rate *premium.PPM) int64 answers rate's ppm value (0 for nil).
func (e *c27Env) ppmPassThrough(fn *ssa.Function) bool {
	if fn == nil || fn.Blocks == nil || len(fn.Params) != 1 || c27TypeName(fn.Params[0].Type()) != "*premium.PPM" || fn.Signature.Results().Len() != 1 {
		return false
	}
	n := 0
	for _, r := range an.Returns(fn) {
		for _, rc := range c27ExpandReturn(r) {
			v := c27Strip(rc.vals[0])
			if cv, isC := v.(*ssa.Const); isC {
				if k, isInt := an.ConstInt(cv); !isInt || k != 0 {
					return false
				}
				continue
			}
			ss := e.w.Sources(v, an.FlowOpts{IntoCallees: true})
			if !ss.OnlyFrom(func(l an.Src) bool {
				return (l.Kind == "field" && l.Name == "PPM.ppmValue") || (l.Kind == "const" && l.Name == "0")
			}) || !ss.Has("field", "PPM.ppmValue") {
				return false
			}
			// and it is the argument's ppm: a PPM.Value call on the parameter, or a load of its field
			if call, isCall := v.(*ssa.Call); isCall {
				if e.w.Info(call).Name != "func:(*premium.PPM).Value" || !e.isParam(call.Call.Args[0], fn, 0) {
					return false
				}
			} else if _, root := e.w.FieldChain(v); root != ssa.Value(fn.Params[0]) {
				return false
			}
			n++
		}
	}
	return n > 0
}

// c27RootIsParam: every field leaf hangs off the receiver parameter of fn.
func c27RootIsParam(w *an.World, ss *an.SrcSet, fn *ssa.Function) bool {
	for _, l := range ss.Leaves {
		_, root := w.FieldChain(l.Val)
		if p, ok := root.(*ssa.Parameter); !ok || len(fn.Params) == 0 || p != fn.Params[0] {
			return false
		}
	}
	return len(ss.Leaves) > 0
}

func c27PairOf(arms map[c27Pair]string, fld string) string {
	for p, f := range arms {
		if f == fld {
			return p.String()
		}
	}
	return "?"
}

// advertisedPairs resolves which (asset,operation) pairs a constructor
// argument of localCapabilityForPeer was resolved for.
func (e *c27Env) advertisedPairs(v ssa.Value, fn *ssa.Function) (map[c27Pair]bool, string) {
	w := e.w
	out := map[c27Pair]bool{}
	seen := map[ssa.Value]bool{}
	why := ""
	var rec func(v ssa.Value)
	rec = func(v ssa.Value) {
		v = c27Strip(v)
		if seen[v] {
			return
		}
		seen[v] = true
		switch x := v.(type) {
		case *ssa.Phi:
			for _, ed := range x.Edges {
				rec(ed)
			}
		case *ssa.Call:
			switch w.Info(x).Name {
			case "iface:peersync.PeerGuard.PremiumRate":
				p, ok := e.pairAt(x.Call.Args, 1, 2)
				if !ok {
					why = "PremiumRate is not called with enum constants"
					return
				}
				if !e.isParam(x.Call.Args[0], fn, 1) {
					why = "PremiumRate is not asked for the peer the capability is built for"
					return
				}
				out[p] = true
			case "func:premium.NewPPM":
				rec(x.Call.Args[0])
			default:
				if ai, oi, isTbl := e.tableDefault(w.Info(x).Static); isTbl {
					p, ok := e.pairAt(x.Call.Args, ai, oi)
					if !ok {
						why = "the built-in default is not looked up with enum constants"
						return
					}
					out[p] = true
					return
				}
				why = "rate argument comes from " + w.Info(x).Name
			}
		default:
			why = "rate argument comes from " + w.Term(v)
		}
	}
	rec(v)
	if why == "" && len(out) == 0 {
		why = "no rate source found"
	}
	return out, why
}

// ---- R3 wiring ----------------------------------------------------------------------------------------

func (e *c27Env) r3wiring() {
	c, w := e.c, e.w
	// constructors store their Setting parameter into the slot
	slots := []struct {
		ctorRel, ctor, role string
	}{
		{"swap", "NewSwapServices", "charging"},
		{"peersync", "NewPeerGuard", "advertising"},
	}
	for _, s := range slots {
		ctor := e.fn(s.ctorRel, s.ctor)
		if ctor == nil {
			continue
		}
		// the slot: the struct field the constructor stores its *premium.Setting parameter into
		field := ""
		for _, b := range ctor.Blocks {
			for _, in := range b.Instrs {
				st, ok := in.(*ssa.Store)
				if !ok {
					continue
				}
				fa, ok := st.Addr.(*ssa.FieldAddr)
				if !ok {
					continue
				}
				for i, p := range ctor.Params {
					if c27TypeName(p.Type()) == "*premium.Setting" && e.isParam(st.Val, ctor, i) {
						field = an.FieldName(fa.X.Type(), fa.Field)
					}
				}
			}
		}
		if field == "" {
			c.Unknown("C27.R3", "premium setting slot of "+w.FuncName(ctor), w.Pos(ctor.Pos()), "the constructor does not store its *premium.Setting parameter into a struct field")
			continue
		}
		n := 0
		for _, st := range w.FieldWriters(field) {
			fn := st.Parent()
			if an.IsTestSupport(w.FnRel(fn)) {
				continue
			}
			n++
			isCtorParam := false
			if fn == ctor {
				for i, p := range ctor.Params {
					if c27TypeName(p.Type()) == "*premium.Setting" && e.isParam(st.Val, ctor, i) {
						isCtorParam = true
					}
				}
			}
			if isCtorParam {
				c.OK("C27.R3", "writer of "+field+" in "+w.FuncName(fn), w.Pos(st.Pos()), "slot is written by its constructor from the *premium.Setting parameter")
			} else {
				c.Unknown("C27.R3", "writer of "+field+" in "+w.FuncName(fn), w.Pos(st.Pos()),
					"the premium setting used for "+s.role+" is (re)assigned outside its constructor: cannot decide that charging and advertising still share one resolver")
			}
		}
		c.AtLeast("C27.R3", "writers of "+field, n, 1)
	}
	// NewPeerSync hands its Setting parameter to NewPeerGuard and keeps the guard
	if fn := e.fn("peersync", "NewPeerSync"); fn != nil {
		okG := false
		var gcall *ssa.Call
		for _, call := range e.callsTo(fn, "func:peersync.NewPeerGuard") {
			gcall = call
			for i, p := range fn.Params {
				if c27TypeName(p.Type()) == "*premium.Setting" && e.isParam(call.Call.Args[1], fn, i) {
					okG = true
				}
			}
		}
		if okG {
			c.OK("C27.R3", w.FuncName(fn)+" guard construction", w.Pos(fn.Pos()), "NewPeerGuard receives NewPeerSync's *premium.Setting parameter")
		} else {
			c.Unknown("C27.R3", w.FuncName(fn)+" guard construction", w.Pos(fn.Pos()), "cannot establish that the guard that resolves advertised rates is built from NewPeerSync's premium setting")
		}
		nG := 0
		for _, st := range w.FieldWriters("PeerSync.guard") {
			f := st.Parent()
			if an.IsTestSupport(w.FnRel(f)) {
				continue
			}
			nG++
			ss := w.Sources(st.Val, an.FlowOpts{})
			if f == fn && gcall != nil && len(ss.Leaves) == 1 && c27LeafIsCall(ss.Leaves[0], gcall, 0) {
				c.OK("C27.R3", "writer of PeerSync.guard in "+w.FuncName(f), w.Pos(st.Pos()), "PeerSync.guard is the guard built in NewPeerSync")
			} else {
				c.Unknown("C27.R3", "writer of PeerSync.guard in "+w.FuncName(f), w.Pos(st.Pos()), "cannot establish that PeerSync.guard is the guard built from the premium setting: "+strings.Join(ss.Names(), ", "))
			}
		}
		c.AtLeast("C27.R3", "writers of PeerSync.guard", nG, 1)
	}
	// both mains: same premium.NewSetting result to NewSwapServices and NewPeerSync
	nMain := 0
	for _, fn := range prodFuncs(w) {
		if !strings.HasPrefix(w.FnRel(fn), "cmd/") {
			continue
		}
		sv := e.callsTo(fn, "func:swap.NewSwapServices")
		pv := e.callsTo(fn, "func:peersync.NewPeerSync")
		if len(sv) == 0 && len(pv) == 0 {
			continue
		}
		cons := w.FuncName(fn) + " premium setting wiring"
		if len(sv) != 1 || len(pv) != 1 {
			c.Unknown("C27.R3", cons, w.Pos(fn.Pos()), "NewSwapServices and NewPeerSync are not both called exactly once in the same function")
			continue
		}
		nMain++
		settingArg := func(call *ssa.Call) ssa.Value {
			for _, a := range call.Call.Args {
				if c27TypeName(a.Type()) == "*premium.Setting" {
					return a
				}
			}
			return nil
		}
		a1, a2 := settingArg(sv[0]), settingArg(pv[0])
		if a1 == nil || a2 == nil {
			c.Unknown("C27.R3", cons, w.Pos(fn.Pos()), "no *premium.Setting argument")
			continue
		}
		s1, s2 := w.Sources(a1, an.FlowOpts{}), w.Sources(a2, an.FlowOpts{})
		describe := func(ss *an.SrcSet) string {
			var out []string
			for _, l := range ss.Leaves {
				d := l.String()
				if l.Call != nil {
					d += " @" + w.Pos(l.Call.Pos())
				}
				out = append(out, d)
			}
			sort.Strings(out)
			return strings.Join(out, ", ")
		}
		same := len(s1.Leaves) == 1 && len(s2.Leaves) == 1 && s1.Leaves[0].Kind == "call" && s1.Leaves[0].Call != nil &&
			s1.Leaves[0].Call == s2.Leaves[0].Call && s1.Leaves[0].Idx == s2.Leaves[0].Idx &&
			w.Info(s1.Leaves[0].Call).Name == "func:premium.NewSetting"
		bothSettings := len(s1.Leaves) == 1 && len(s2.Leaves) == 1 && s1.Leaves[0].Kind == "call" && s2.Leaves[0].Kind == "call" &&
			s1.Leaves[0].Call != nil && s2.Leaves[0].Call != nil &&
			w.Info(s1.Leaves[0].Call).Name == "func:premium.NewSetting" && w.Info(s2.Leaves[0].Call).Name == "func:premium.NewSetting"
		switch {
		case same:
			c.OK("C27.R3", cons, w.Pos(pv[0].Pos()), "swap services and peer-sync receive the result of the same premium.NewSetting call")
		case bothSettings:
			c.Bad("C27.R3", cons, w.Pos(pv[0].Pos()), fmt.Sprintf("swap services get %s, peer-sync gets %s: charging and advertising do not share one resolver", describe(s1), describe(s2)))
		default:
			c.Unknown("C27.R3", cons, w.Pos(pv[0].Pos()), fmt.Sprintf("cannot establish that swap services (%s) and peer-sync (%s) receive the same premium setting", describe(s1), describe(s2)))
		}
	}
	c.AtLeast("C27.R3", "mains wiring the premium setting", nMain, 2)
}
