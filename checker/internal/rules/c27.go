package rules

import (
	"fmt"
	"go/constant"
	"go/token"
	"go/types"
	"reflect"
	"sort"
	"strings"

	"golang.org/x/tools/go/ssa"

	"psv/internal/an"
)

// C27 — premiums follow the configured rate and match what peer-sync advertises.
//
// Frozen repo-specific anchors (each must resolve or the check ends with exit 2):
//   - premium.Setting / premium.BBoltPremiumStore / premium.PPM and their methods
//     GetRate, GetDefaultRate, SetRate, DeleteRate, SetDefaultRate, Compute;
//   - the not-found sentinel premium.ErrRateNotFound and the built-in table
//     premium.DefaultPremiumRate;
//   - the enum constants premium.BTC/LBTC and premium.SwapIn/SwapOut;
//   - the wire names of the four advertised rates (protocol constants, c27WireNames);
//   - the two "this swap is on Liquid" tests used at the charging sites
//     (c27LiquidFact).

func init() {
	Register(&Prop{
		ID:   "C27",
		Expl: "Decides on SSA, for every return / call site / field of the anchored functions: (R1) Setting.GetRate and Setting.GetDefaultRate return the stored rate when the store lookup succeeded, fall back (to GetDefaultRate resp. the built-in table indexed [asset][operation]) only on edges on which the lookup error is ErrRateNotFound, never return (nil,nil) and never swallow an error; the store builds its key with one format constant and the argument sequence (peer string, AssetType, OperationType) in SetRate(Put)/GetRate(Get)/DeleteRate(Delete), uses one bucket constant, one default-peer constant for SetDefaultRate/GetDefaultRate, and one value verb for encode/decode; Setting.Compute is GetRate(peer,asset,op) followed by PPM.Compute(amount). (R2) PPM.Compute returns exactly int64(amount)*ppm/1_000_000 with one integer multiplication and one integer (truncating) division. (R3) every store to the Premium field of an agreement message comes from Setting.Compute; every Setting.Compute call site passes an (asset, operation) constant pair that matches the message direction and the dominating Liquid/Bitcoin test, the swap's peer and the swap amount; the advertised rates follow one (asset,operation) pair end to end: constants at the PeerGuard.PremiumRate call -> NewPeerCapability parameter -> capability field -> GetPremiumRate arm -> snapshot field -> JSON name; peerGuard.PremiumRate resolves through Setting.GetRate(peer,asset,op) and departs from it only on the nil/error edges; both mains hand the same premium.Setting value to the swap services and to peer-sync, and no other production code writes those slots.",
		NotD: "Values of the configured rates and of the built-in table; bbolt durability and transaction semantics; injectivity of the key format for peer ids that contain the separator; int64 overflow of amount*ppm; that the advertised rate is still current when the peer uses it (rates can change between poll and request); the behaviour when peerGuard falls back to the built-in table on a store error (advertised default vs. refused swap — reported as a note).",
		Run:  runC27,
	})
}

// (asset, operation) -> JSON name of the advertised rate (peer-sync wire format).
var c27WireNames = map[[2]string]string{
	{"BTC", "SwapIn"}:   "btc_swap_in_premium_rate_ppm",
	{"BTC", "SwapOut"}:  "btc_swap_out_premium_rate_ppm",
	{"LBTC", "SwapIn"}:  "lbtc_swap_in_premium_rate_ppm",
	{"LBTC", "SwapOut"}: "lbtc_swap_out_premium_rate_ppm",
}

type c27Env struct {
	c       *an.Check
	w       *an.World
	assets  map[int64]string // enum value -> "BTC"/"LBTC"
	ops     map[int64]string // enum value -> "SwapIn"/"SwapOut"
	errNF   string           // global name of the sentinel
	tblName string           // global name of the built-in table
}

func runC27(c *an.Check) {
	c.Rule("C27.R1", "resolver chain: stored peer rate, else (only on ErrRateNotFound) stored default rate, else (only on ErrRateNotFound) built-in table[asset][operation]; errors propagate; one key format / bucket / default key / value verb across Set, Get, Delete; Setting.Compute = GetRate + PPM.Compute")
	c.Rule("C27.R2", "PPM.Compute returns int64(amount) * ppm / 1_000_000 with integer (truncating) division and nothing else")
	c.Rule("C27.R3", "charging and advertising use one resolver and one (asset,operation) pair end to end")
	e := &c27Env{c: c, w: c.W, assets: map[int64]string{}, ops: map[int64]string{}}
	if !e.anchors() {
		return
	}
	e.r1()
	e.r2()
	e.r3charge()
	e.r3advertise()
	e.r3wiring()
}

// ---- anchors -----------------------------------------------------------------------

func (e *c27Env) constVal(rel, name string) (int64, bool) {
	p := e.w.ByRel[rel]
	if p == nil {
		return 0, false
	}
	o, ok := p.Types.Scope().Lookup(name).(*types.Const)
	if !ok || o.Val().Kind() != constant.Int {
		return 0, false
	}
	return constant.Int64Val(o.Val())
}

func (e *c27Env) anchors() bool {
	ok := true
	for _, n := range []string{"BTC", "LBTC"} {
		v, found := e.constVal("premium", n)
		if !found {
			e.c.Anchor("constant premium.%s does not resolve", n)
			ok = false
		}
		e.assets[v] = n
	}
	for _, n := range []string{"SwapIn", "SwapOut"} {
		v, found := e.constVal("premium", n)
		if !found {
			e.c.Anchor("constant premium.%s does not resolve", n)
			ok = false
		}
		e.ops[v] = n
	}
	if len(e.assets) != 2 || len(e.ops) != 2 {
		e.c.Anchor("premium asset/operation enum constants are not pairwise distinct")
		ok = false
	}
	sp := e.w.SSA["premium"]
	if sp == nil {
		e.c.Anchor("package premium not loaded")
		return false
	}
	for _, g := range []string{"ErrRateNotFound", "DefaultPremiumRate"} {
		if _, isG := sp.Members[g].(*ssa.Global); !isG {
			e.c.Anchor("global premium.%s does not resolve", g)
			ok = false
		}
	}
	e.errNF = "premium.ErrRateNotFound"
	e.tblName = "premium.DefaultPremiumRate"
	return ok
}

func (e *c27Env) fn(rel, name string) *ssa.Function {
	f := e.w.Func(rel, name)
	if f == nil || f.Blocks == nil {
		e.c.Anchor("function %s.%s does not resolve", rel, name)
		return nil
	}
	return f
}

// ---- small SSA helpers ---------------------------------------------------------------

func c27Strip(v ssa.Value) ssa.Value {
	for {
		switch x := v.(type) {
		case *ssa.ChangeType:
			v = x.X
		case *ssa.Convert:
			v = x.X
		case *ssa.MakeInterface:
			v = x.X
		case *ssa.ChangeInterface:
			v = x.X
		default:
			return v
		}
	}
}

// c27IsParam: v is (a copy of) parameter #idx of fn — directly, through a
// captured variable of an enclosing function, or through a local that is only
// ever assigned that parameter.
func (e *c27Env) isParam(v ssa.Value, fn *ssa.Function, idx int) bool {
	ss := e.w.Sources(v, an.FlowOpts{})
	if len(ss.Leaves) == 0 {
		return false
	}
	for _, l := range ss.Leaves {
		p, ok := l.Val.(*ssa.Parameter)
		if l.Kind != "param" || !ok || p.Parent() != fn || l.Idx != idx {
			return false
		}
	}
	for op := range ss.Ops {
		if !strings.HasPrefix(op, "convert:") {
			return false
		}
	}
	return true
}

// c27Varargs returns the element values of the variadic `...any` argument of a
// call (values before boxing), or nil when it is not a literal argument list.
func c27Varargs(call ssa.CallInstruction) []ssa.Value {
	args := call.Common().Args
	if len(args) == 0 {
		return nil
	}
	sl, ok := args[len(args)-1].(*ssa.Slice)
	if !ok {
		return nil
	}
	al, ok := sl.X.(*ssa.Alloc)
	if !ok || al.Referrers() == nil {
		return nil
	}
	at, ok := al.Type().Underlying().(*types.Pointer)
	if !ok {
		return nil
	}
	arr, ok := at.Elem().Underlying().(*types.Array)
	if !ok {
		return nil
	}
	out := make([]ssa.Value, arr.Len())
	for _, r := range *al.Referrers() {
		ia, ok := r.(*ssa.IndexAddr)
		if !ok || ia.Referrers() == nil {
			continue
		}
		i, ok := an.ConstInt(ia.Index)
		if !ok || i < 0 || i >= arr.Len() {
			return nil
		}
		for _, rr := range *ia.Referrers() {
			if st, ok := rr.(*ssa.Store); ok && st.Addr == ia {
				if out[i] != nil {
					return nil
				}
				out[i] = c27Strip(st.Val)
			}
		}
	}
	for _, v := range out {
		if v == nil {
			return nil
		}
	}
	return out
}

func c27TypeName(t types.Type) string {
	return types.TypeString(t, func(p *types.Package) string { return p.Name() })
}

// leafIsCall: the source leaf is result #idx of exactly this call.
func c27LeafIsCall(l an.Src, call *ssa.Call, idx int) bool {
	return l.Kind == "call" && l.Call == call && l.Idx == idx
}

func (e *c27Env) callsTo(fn *ssa.Function, name string) []*ssa.Call {
	var out []*ssa.Call
	for _, ci := range an.Calls(fn) {
		if call, ok := ci.(*ssa.Call); ok && e.w.Info(call).Name == name {
			out = append(out, call)
		}
	}
	return out
}

// notFoundEdges: edges of fn on which the error result of `lookup` is known to
// be the not-found sentinel (errors.Is(err, ErrRateNotFound) true, or err ==
// ErrRateNotFound).
func (e *c27Env) notFoundEdges(fn *ssa.Function, lookup *ssa.Call) []an.Edge {
	errIdx := an.ErrResultIndex(lookup)
	isErr := func(v ssa.Value) bool {
		ss := e.w.Sources(v, an.FlowOpts{})
		return len(ss.Leaves) == 1 && c27LeafIsCall(ss.Leaves[0], lookup, errIdx)
	}
	isSentinel := func(v ssa.Value) bool {
		ss := e.w.Sources(v, an.FlowOpts{})
		return len(ss.Leaves) == 1 && ss.Leaves[0].Kind == "global" && ss.Leaves[0].Name == e.errNF
	}
	var out []an.Edge
	for _, f := range e.w.Facts(fn) {
		switch {
		case f.Rel == "true":
			call, ok := f.Cond.(*ssa.Call)
			if !ok || e.w.Info(call).Name != "func:errors.Is" || len(call.Call.Args) != 2 {
				continue
			}
			if isErr(call.Call.Args[0]) && isSentinel(call.Call.Args[1]) {
				out = append(out, f.Edge)
			}
		case f.NonNum && f.Rel == "==" && f.LV != nil && f.RV != nil:
			if (isErr(f.LV) && isSentinel(f.RV)) || (isErr(f.RV) && isSentinel(f.LV)) {
				out = append(out, f.Edge)
			}
		}
	}
	return out
}

func c27EdgesDominate(es []an.Edge, b *ssa.BasicBlock) bool {
	return len(es) > 0 && an.EdgesDominate(es, b)
}

// ---- R1 ------------------------------------------------------------------------------------

// resolverReturns checks every return of a two-level resolver function.
// lookup is the store call; isFallback recognises the leaf that stands for the
// next level and validates it (returns "" when fine, else the defect).
func (e *c27Env) resolverReturns(fn *ssa.Function, lookup *ssa.Call, level string,
	isFallback func(l an.Src) (bool, string)) (nPrim, nFb int) {
	c, w := e.c, e.w
	name := w.FuncName(fn)
	errIdx := an.ErrResultIndex(lookup)
	okEdges, _ := an.OkEdges(lookup)
	nf := e.notFoundEdges(fn, lookup)
	for _, r := range an.Returns(fn) {
		if len(r.Results) != 2 {
			c.Unknown("C27.R1", name+" return", w.Pos(r.Pos()), "unexpected result arity")
			continue
		}
		pos := w.Pos(r.Pos())
		rate := w.Sources(r.Results[0], an.FlowOpts{})
		errS := w.Sources(r.Results[1], an.FlowOpts{})
		var prim, fb, none, other int
		var fbLeaf an.Src
		fbDefect := ""
		for _, l := range rate.Leaves {
			switch {
			case c27LeafIsCall(l, lookup, 0):
				prim++
			case l.Kind == "zero":
				none++
			default:
				if is, defect := isFallback(l); is {
					fb++
					fbLeaf = l
					if defect != "" {
						fbDefect = defect
					}
				} else {
					other++
				}
			}
		}
		switch {
		case other > 0 || (prim > 0 && fb > 0) || len(rate.Leaves) == 0:
			c.Unknown("C27.R1", name+" return of an unrecognised rate", pos, "returned rate has sources "+strings.Join(rate.Names(), ", ")+" — shape not supported")
		case prim > 0:
			nPrim++
			// stored rate: error must be nil under the ok edge, or the lookup error itself
			cons := name + " return of the stored rate"
			errIsLookup := len(errS.Leaves) > 0 && errS.OnlyFrom(func(l an.Src) bool { return c27LeafIsCall(l, lookup, errIdx) })
			errIsNil := len(errS.Leaves) > 0 && errS.OnlyFrom(func(l an.Src) bool { return l.Kind == "zero" })
			switch {
			case errIsLookup:
				c.OK("C27.R1", cons, pos, "returns the store result together with the store error")
			case errIsNil && c27EdgesDominate(okEdges, r.Block()):
				c.OK("C27.R1", cons, pos, "stored rate returned with a nil error on the err==nil edge of the lookup")
			case errIsNil:
				c.Bad("C27.R1", cons, pos, "the stored-rate result is returned with a nil error on a path where the lookup error was not tested to be nil: a store error other than ErrRateNotFound is swallowed and a nil rate is handed to the caller")
			default:
				c.Unknown("C27.R1", cons, pos, "error result has sources "+strings.Join(errS.Names(), ", "))
			}
		case fb > 0:
			nFb++
			cons := name + " fallback to " + level
			switch {
			case fbDefect != "":
				c.Bad("C27.R1", cons, pos, fbDefect)
			case !c27EdgesDominate(nf, r.Block()):
				c.Bad("C27.R1", cons, pos, "the fallback to "+level+" is not restricted to the edge on which the lookup error is ErrRateNotFound: any store error (corrupt value, missing bucket) silently yields "+level+" instead of propagating. Facts that do hold: "+an.DescribeFacts(w.FactsDominatingBlock(r.Block())))
			default:
				// the error returned with the fallback must be the fallback's own error
				fromSame := len(errS.Leaves) > 0 && errS.OnlyFrom(func(l an.Src) bool {
					return l.Kind == "call" && l.Call == fbLeaf.Call && l.Idx == an.ErrResultIndex(fbLeaf.Call)
				})
				if fromSame {
					c.OK("C27.R1", cons, pos, "fallback only under errors.Is(err, ErrRateNotFound); its error is returned")
				} else {
					c.Bad("C27.R1", cons, pos, "the error of the fallback is not returned with its rate (sources: "+strings.Join(errS.Names(), ", ")+"): a failing fallback yields (nil, nil)")
				}
			}
		default: // only nil rate
			cons := name + " error return"
			if len(errS.Leaves) > 0 && errS.OnlyFrom(func(l an.Src) bool { return l.Kind == "call" }) {
				c.OK("C27.R1", cons, pos, "nil rate is returned only together with an error value")
			} else {
				c.Bad("C27.R1", cons, pos, "a nil rate can be returned with a nil error (error sources: "+strings.Join(errS.Names(), ", ")+")")
			}
		}
	}
	return nPrim, nFb
}

// tableLookup: v is DefaultPremiumRate[a][o] (value result); returns a, o.
func (e *c27Env) tableLookup(v ssa.Value) (a, o ssa.Value, ok bool) {
	v = c27Strip(v)
	if ex, isEx := v.(*ssa.Extract); isEx && ex.Index == 0 {
		v = ex.Tuple
	}
	inner, isL := v.(*ssa.Lookup)
	if !isL {
		return nil, nil, false
	}
	x := c27Strip(inner.X)
	if ex, isEx := x.(*ssa.Extract); isEx && ex.Index == 0 {
		x = ex.Tuple
	}
	outer, isL := x.(*ssa.Lookup)
	if !isL {
		return nil, nil, false
	}
	ss := e.w.Sources(outer.X, an.FlowOpts{})
	if len(ss.Leaves) != 1 || ss.Leaves[0].Kind != "global" || ss.Leaves[0].Name != e.tblName {
		return nil, nil, false
	}
	return outer.Index, inner.Index, true
}

func (e *c27Env) r1() {
	c, w := e.c, e.w
	nPrim, nFb := 0, 0
	count := func(a, b int) { nPrim += a; nFb += b }

	// --- Setting.GetRate
	if fn := e.fn("premium", "(*Setting).GetRate"); fn != nil {
		name := w.FuncName(fn)
		look := e.callsTo(fn, "func:(*premium.BBoltPremiumStore).GetRate")
		if len(look) == 0 {
			c.Bad("C27.R1", name+" store lookup", w.Pos(fn.Pos()), "the peer-specific rate is never looked up in the store: a configured peer rate is ignored")
		} else if len(look) != 1 {
			c.Unknown("C27.R1", name+" store lookup", w.Pos(fn.Pos()), fmt.Sprintf("%d calls of the store lookup, expected one", len(look)))
		} else {
			l := look[0]
			a := l.Call.Args
			c.Decide(len(a) == 4 && e.isParam(a[1], fn, 1) && e.isParam(a[2], fn, 2) && e.isParam(a[3], fn, 3),
				"C27.R1", name+" store lookup arguments", w.Pos(l.Pos()),
				"store is asked for (peer, asset, operation) in parameter order",
				"the store lookup does not receive (peerID, asset, operation) in that order")
			count(e.resolverReturns(fn, l, "the default rate", func(s an.Src) (bool, string) {
				if s.Kind != "call" || s.Call == nil || w.Info(s.Call).Name != "func:(*premium.Setting).GetDefaultRate" || s.Idx != 0 {
					return false, ""
				}
				fa := s.Call.Call.Args
				if len(fa) == 3 && e.isParam(fa[0], fn, 0) && e.isParam(fa[1], fn, 2) && e.isParam(fa[2], fn, 3) {
					return true, ""
				}
				return true, "GetDefaultRate is not called with this Setting and (asset, operation) in parameter order"
			}))
		}
	}

	// --- Setting.GetDefaultRate
	if fn := e.fn("premium", "(*Setting).GetDefaultRate"); fn != nil {
		name := w.FuncName(fn)
		look := e.callsTo(fn, "func:(*premium.BBoltPremiumStore).GetDefaultRate")
		if len(look) == 0 {
			c.Bad("C27.R1", name+" store lookup", w.Pos(fn.Pos()), "the stored global rate is never looked up: a configured default rate is ignored")
		} else if len(look) != 1 {
			c.Unknown("C27.R1", name+" store lookup", w.Pos(fn.Pos()), fmt.Sprintf("%d calls of the store lookup, expected one", len(look)))
		} else {
			l := look[0]
			a := l.Call.Args
			c.Decide(len(a) == 3 && e.isParam(a[1], fn, 1) && e.isParam(a[2], fn, 2),
				"C27.R1", name+" store lookup arguments", w.Pos(l.Pos()),
				"store is asked for (asset, operation) in parameter order",
				"the default-rate lookup does not receive (asset, operation) in that order")
			count(e.resolverReturns(fn, l, "the built-in table", func(s an.Src) (bool, string) {
				if s.Kind != "call" || s.Call == nil || w.Info(s.Call).Name != "func:premium.NewPremiumRate" || s.Idx != 0 {
					return false, ""
				}
				fa := s.Call.Call.Args
				if len(fa) != 3 || !e.isParam(fa[0], fn, 1) || !e.isParam(fa[1], fn, 2) {
					return true, "the built-in rate is not labelled with (asset, operation) in parameter order"
				}
				ppm, ok := c27Strip(fa[2]).(*ssa.Call)
				if !ok || w.Info(ppm).Name != "func:premium.NewPPM" || len(ppm.Call.Args) != 1 {
					return false, ""
				}
				ka, ko, ok := e.tableLookup(ppm.Call.Args[0])
				if !ok {
					return false, ""
				}
				if !e.isParam(ka, fn, 1) || !e.isParam(ko, fn, 2) {
					return true, "the built-in table is not indexed [asset][operation] with this call's parameters"
				}
				return true, ""
			}))
		}
	}
	c.AtLeast("C27.R1", "returns of a stored rate in GetRate/GetDefaultRate", nPrim, 2)
	c.AtLeast("C27.R1", "fallback returns in GetRate/GetDefaultRate", nFb, 2)

	// --- store level: default key
	var defKeys []string
	for _, spec := range []struct {
		fn, callee string
		argIdx     int
	}{
		{"(*BBoltPremiumStore).GetDefaultRate", "func:(*premium.BBoltPremiumStore).GetRate", 1},
		{"(*BBoltPremiumStore).SetDefaultRate", "func:(*premium.BBoltPremiumStore).SetRate", 1},
	} {
		fn := e.fn("premium", spec.fn)
		if fn == nil {
			continue
		}
		calls := e.callsTo(fn, spec.callee)
		if len(calls) != 1 {
			c.Unknown("C27.R1", w.FuncName(fn)+" default key", w.Pos(fn.Pos()), "does not delegate to the keyed store method exactly once")
			continue
		}
		k, ok := an.ConstString(calls[0].Call.Args[spec.argIdx])
		if !ok {
			c.Unknown("C27.R1", w.FuncName(fn)+" default key", w.Pos(calls[0].Pos()), "default peer key is not a constant")
			continue
		}
		defKeys = append(defKeys, k)
		// remaining arguments are forwarded in order
		fwd := true
		for i := spec.argIdx + 1; i < len(calls[0].Call.Args); i++ {
			if !e.isParam(calls[0].Call.Args[i], fn, i-1) {
				fwd = false
			}
		}
		c.Decide(fwd && e.isParam(calls[0].Call.Args[0], fn, 0), "C27.R1", w.FuncName(fn)+" forwards its arguments", w.Pos(calls[0].Pos()),
			"arguments forwarded in order", "the default-rate wrapper does not forward its arguments in order")
	}
	if len(defKeys) == 2 {
		c.Decide(defKeys[0] == defKeys[1] && defKeys[0] != "", "C27.R1", "default peer key", "premium/store.go",
			fmt.Sprintf("SetDefaultRate and GetDefaultRate use the same key %q", defKeys[0]),
			fmt.Sprintf("SetDefaultRate writes under %q but GetDefaultRate reads %q: a stored global rate is never found", defKeys[1], defKeys[0]))
	}

	// --- store level: key format, bucket, primitive, value verb
	type keyUse struct {
		fn      *ssa.Function
		format  string
		types   []string
		bucket  string
		valVerb string
		pos     token.Pos
		ok      bool
	}
	uses := map[string]*keyUse{}
	nKeys := 0
	for _, spec := range []struct {
		meth, prim string
		// how the three key components must be derived in the *outer* method
		comp [3]string
	}{
		{"SetRate", "Put", [3]string{"param#1", "field:PremiumRate.asset@param#2", "field:PremiumRate.operation@param#2"}},
		{"GetRate", "Get", [3]string{"param#1", "param#2", "param#3"}},
		{"DeleteRate", "Delete", [3]string{"param#1", "param#2", "param#3"}},
	} {
		outer := e.fn("premium", "(*BBoltPremiumStore)."+spec.meth)
		if outer == nil {
			continue
		}
		cons := w.FuncName(outer) + " key"
		// the bbolt primitive may sit in the method or in a closure handed to Update/View
		var prims []*ssa.Call
		fns := append([]*ssa.Function{outer}, outer.AnonFuncs...)
		for _, f := range fns {
			for _, ci := range an.Calls(f) {
				call, ok := ci.(*ssa.Call)
				if !ok {
					continue
				}
				inf := w.Info(call)
				if inf.Static != nil && inf.Recv != nil && inf.Recv.Obj().Name() == "Bucket" && inf.Recv.Obj().Pkg() != nil &&
					strings.HasSuffix(inf.Recv.Obj().Pkg().Path(), "go.etcd.io/bbolt") &&
					(inf.Method == "Put" || inf.Method == "Get" || inf.Method == "Delete") {
					prims = append(prims, call)
				}
			}
		}
		if len(prims) != 1 {
			c.Unknown("C27.R1", cons, w.Pos(outer.Pos()), fmt.Sprintf("%d bbolt bucket operations, expected exactly one", len(prims)))
			continue
		}
		p := prims[0]
		nKeys++
		u := &keyUse{fn: outer, pos: p.Pos()}
		uses[spec.meth] = u
		if m := w.Info(p).Method; m != spec.prim {
			c.Bad("C27.R1", cons, w.Pos(p.Pos()), fmt.Sprintf("%s performs bucket.%s, a persistent map needs bucket.%s here", spec.meth, m, spec.prim))
			continue
		}
		// key argument <- fmt.Sprintf(format, a, b, c)
		ks := w.Sources(p.Call.Args[1], an.FlowOpts{})
		if len(ks.Leaves) != 1 || ks.Leaves[0].Kind != "call" || ks.Leaves[0].Call == nil || w.Info(ks.Leaves[0].Call).Name != "func:fmt.Sprintf" {
			c.Unknown("C27.R1", cons, w.Pos(p.Pos()), "key is not the result of one fmt.Sprintf: "+strings.Join(ks.Names(), ", "))
			continue
		}
		sp := ks.Leaves[0].Call
		format, okF := an.ConstString(sp.Call.Args[0])
		va := c27Varargs(sp)
		if !okF || va == nil {
			c.Unknown("C27.R1", cons, w.Pos(sp.Pos()), "key format is not a constant with a literal argument list")
			continue
		}
		u.format = format
		// role of every key component: which of (peer, asset, operation) it is derived from
		roleSpec := map[string]string{"peer": spec.comp[0], "asset": spec.comp[1], "operation": spec.comp[2]}
		unknown := ""
		for i, v := range va {
			role := ""
			for _, r := range []string{"peer", "asset", "operation"} {
				if e.keyComponent(v, outer, roleSpec[r]) {
					role = r
				}
			}
			if role == "" {
				if _, isConst := c27Strip(v).(*ssa.Const); isConst {
					role = "const"
				} else {
					unknown = fmt.Sprintf("component %d (%s) is derived from %s", i, c27TypeName(v.Type()), w.Term(v))
				}
			}
			u.types = append(u.types, role)
		}
		if unknown != "" {
			c.Unknown("C27.R1", cons, w.Pos(sp.Pos()), "cannot name the role of a key component: "+unknown)
			continue
		}
		miss := ""
		for _, r := range []string{"peer", "asset", "operation"} {
			n := 0
			for _, t := range u.types {
				if t == r {
					n++
				}
			}
			if n != 1 {
				miss = r
			}
		}
		if miss != "" {
			c.Bad("C27.R1", cons, w.Pos(sp.Pos()), fmt.Sprintf("the key is built from %v: it does not contain the %s exactly once, so different (peer, asset, operation) triples share one entry", u.types, miss))
			continue
		}
		// bucket constant
		if bc, ok := c27Strip(p.Call.Args[0]).(*ssa.Call); ok && len(bc.Call.Args) == 2 {
			if s, ok := an.ConstString(bc.Call.Args[1]); ok {
				u.bucket = s
			}
		}
		u.ok = true
		c.OK("C27.R1", cons, w.Pos(sp.Pos()), fmt.Sprintf("bucket.%s with key Sprintf(%q, %s)", spec.prim, format, strings.Join(u.types, ", ")))

		// value codec
		switch spec.meth {
		case "SetRate":
			vs := w.Sources(p.Call.Args[2], an.FlowOpts{})
			if len(vs.Leaves) >= 1 {
				for _, l := range vs.Leaves {
					if l.Kind == "call" && l.Call != nil && w.Info(l.Call).Name == "func:fmt.Appendf" && len(l.Call.Call.Args) >= 2 {
						if f, ok := an.ConstString(l.Call.Call.Args[1]); ok {
							u.valVerb = f
							vv := c27Varargs(l.Call)
							okv := len(vv) == 1
							if okv {
								s := w.Sources(vv[0], an.FlowOpts{IntoCallees: true})
								okv = s.OnlyFrom(func(x an.Src) bool {
									return (x.Kind == "field" && strings.HasSuffix(x.Name, "PPM.ppmValue")) || (x.Kind == "const" && x.Name == "0")
								}) && s.HasPrefix("field", "")
							}
							c.Decide(okv, "C27.R1", w.FuncName(outer)+" stored value", w.Pos(l.Call.Pos()),
								"the stored value is the ppm of the given rate", "the value written is not the ppm value of the rate argument")
						}
					}
				}
			}
		case "GetRate":
			for _, f := range fns {
				for _, sc := range e.callsTo(f, "func:fmt.Sscanf") {
					if len(sc.Call.Args) >= 2 {
						if s, ok := an.ConstString(sc.Call.Args[1]); ok {
							u.valVerb = s
						}
					}
				}
			}
		}
	}
	c.AtLeast("C27.R1", "store key constructions", nKeys, 3)
	if s, g, d := uses["SetRate"], uses["GetRate"], uses["DeleteRate"]; s != nil && g != nil && d != nil && s.ok && g.ok && d.ok {
		sameOrder := reflect.DeepEqual(s.types, g.types) && reflect.DeepEqual(g.types, d.types)
		c.Decide(s.format == g.format && g.format == d.format && sameOrder && strings.Count(s.format, "%") == len(s.types), "C27.R1", "store key format", w.Pos(g.pos),
			fmt.Sprintf("Set/Get/Delete share the key format %q over (%s)", g.format, strings.Join(g.types, ", ")),
			fmt.Sprintf("keys differ: SetRate %q%v, GetRate %q%v, DeleteRate %q%v — a rate that was set is not found / not deleted", s.format, s.types, g.format, g.types, d.format, d.types))
		c.Decide(s.bucket != "" && s.bucket == g.bucket && g.bucket == d.bucket, "C27.R1", "store bucket", w.Pos(g.pos),
			fmt.Sprintf("Set/Get/Delete use bucket %q", g.bucket),
			fmt.Sprintf("bucket names differ or are not constant: SetRate %q, GetRate %q, DeleteRate %q", s.bucket, g.bucket, d.bucket))
		if s.valVerb == "" || g.valVerb == "" {
			c.Unknown("C27.R1", "store value encoding", w.Pos(g.pos), "fmt.Appendf / fmt.Sscanf pair not found")
		} else {
			c.Decide(s.valVerb == g.valVerb, "C27.R1", "store value encoding", w.Pos(g.pos),
				fmt.Sprintf("value written and parsed with the same verb %q", g.valVerb),
				fmt.Sprintf("value written with %q but parsed with %q", s.valVerb, g.valVerb))
		}
	}
	// the decoded value is what GetRate hands out, labelled (asset, operation)
	if fn := e.fn("premium", "(*BBoltPremiumStore).GetRate"); fn != nil {
		okAll, n := true, 0
		for _, r := range an.Returns(fn) {
			ss := w.Sources(r.Results[0], an.FlowOpts{})
			for _, l := range ss.Leaves {
				if l.Kind != "call" {
					continue
				}
				n++
				a := l.Call.Call.Args
				if w.Info(l.Call).Name != "func:premium.NewPremiumRate" || len(a) != 3 || !e.isParam(a[0], fn, 2) || !e.isParam(a[1], fn, 3) {
					okAll = false
					continue
				}
				// third argument: NewPPM(<the scanned local>)
				ppm, ok := c27Strip(a[2]).(*ssa.Call)
				if !ok || w.Info(ppm).Name != "func:premium.NewPPM" {
					okAll = false
					continue
				}
				ps := w.Sources(ppm.Call.Args[0], an.FlowOpts{})
				if !ps.OnlyFrom(func(x an.Src) bool {
					return x.Kind == "call" && strings.HasPrefix(x.Name, "func:fmt.Sscanf") || x.Kind == "zero"
				}) {
					okAll = false
				}
			}
		}
		if n == 0 {
			c.Unknown("C27.R1", w.FuncName(fn)+" result", w.Pos(fn.Pos()), "no constructed rate is returned")
		} else {
			c.Decide(okAll, "C27.R1", w.FuncName(fn)+" result", w.Pos(fn.Pos()),
				"returns NewPremiumRate(asset, operation, NewPPM(decoded value))",
				"the rate handed out is not NewPremiumRate(asset, operation, NewPPM(<decoded value>)) with this call's parameters")
		}
	}

	// --- Setting.Compute = GetRate(peer, asset, op) ; PPM.Compute(amount)
	if fn := e.fn("premium", "(*Setting).Compute"); fn != nil {
		name := w.FuncName(fn)
		gr := e.callsTo(fn, "func:(*premium.Setting).GetRate")
		pc := e.callsTo(fn, "func:(*premium.PPM).Compute")
		if len(gr) != 1 || len(pc) != 1 {
			c.Unknown("C27.R1", name, w.Pos(fn.Pos()), "expected one GetRate and one PPM.Compute call")
		} else {
			g, p := gr[0], pc[0]
			a := g.Call.Args
			c.Decide(len(a) == 4 && e.isParam(a[0], fn, 0) && e.isParam(a[1], fn, 1) && e.isParam(a[2], fn, 2) && e.isParam(a[3], fn, 3),
				"C27.R1", name+" resolver arguments", w.Pos(g.Pos()),
				"GetRate(peerID, asset, operation) in parameter order",
				"Setting.Compute does not resolve the rate for (peerID, asset, operation) in that order")
			// receiver of PPM.Compute <- PremiumRatePPM(<rate of g>), amount <- param#4
			rs := w.Sources(p.Call.Args[0], an.FlowOpts{ThroughCalls: map[string]bool{"func:(*premium.PremiumRate).PremiumRatePPM": true}})
			recvOK := len(rs.Leaves) == 1 && c27LeafIsCall(rs.Leaves[0], g, 0) && rs.Ops["via:func:(*premium.PremiumRate).PremiumRatePPM"]
			c.Decide(recvOK && e.isParam(p.Call.Args[1], fn, 4), "C27.R1", name+" arithmetic operands", w.Pos(p.Pos()),
				"PPM.Compute runs on the resolved rate with the amount parameter",
				"PPM.Compute is not applied to (resolved rate, amtSat)")
			okE, _ := an.OkEdges(g)
			for _, r := range an.Returns(fn) {
				vs := w.Sources(r.Results[0], an.FlowOpts{})
				es := w.Sources(r.Results[1], an.FlowOpts{})
				isVal := len(vs.Leaves) == 1 && c27LeafIsCall(vs.Leaves[0], p, 0)
				switch {
				case isVal:
					c.Decide(c27EdgesDominate(okE, r.Block()), "C27.R1", name+" value return", w.Pos(r.Pos()),
						"premium returned on the err==nil edge of GetRate", "the premium is computed although GetRate's error was not tested")
				case vs.OnlyFrom(func(l an.Src) bool { return l.Kind == "const" }):
					c.Decide(es.OnlyFrom(func(l an.Src) bool { return c27LeafIsCall(l, g, 1) }), "C27.R1", name+" error return", w.Pos(r.Pos()),
						"resolver error is propagated", "a constant premium is returned without the resolver's error")
				default:
					c.Unknown("C27.R1", name+" return", w.Pos(r.Pos()), "returned premium has sources "+strings.Join(vs.Names(), ", "))
				}
			}
		}
	}
}

// keyComponent checks how a key component is derived inside a store method.
// spec is "param#N" or "field:T.f@param#N" (getter on parameter N).
func (e *c27Env) keyComponent(v ssa.Value, outer *ssa.Function, spec string) bool {
	if strings.HasPrefix(spec, "param#") {
		var n int
		fmt.Sscanf(spec, "param#%d", &n)
		return e.isParam(v, outer, n)
	}
	var field string
	var n int
	parts := strings.SplitN(strings.TrimPrefix(spec, "field:"), "@param#", 2)
	if len(parts) != 2 {
		return false
	}
	field = parts[0]
	fmt.Sscanf(parts[1], "%d", &n)
	call, ok := c27Strip(v).(*ssa.Call)
	if !ok {
		return false
	}
	inf := e.w.Info(call)
	if inf.Static == nil || !e.w.InModule(inf.Static) || len(call.Call.Args) != 1 || !e.isParam(call.Call.Args[0], outer, n) {
		return false
	}
	// the callee is a getter of that field of its receiver
	for _, r := range an.Returns(inf.Static) {
		if len(r.Results) != 1 {
			return false
		}
		ss := e.w.Sources(r.Results[0], an.FlowOpts{})
		if len(ss.Leaves) != 1 || ss.Leaves[0].Kind != "field" || ss.Leaves[0].Name != field {
			return false
		}
		_, root := e.w.FieldChain(ss.Leaves[0].Val)
		if p, ok := root.(*ssa.Parameter); !ok || p != inf.Static.Params[0] {
			return false
		}
	}
	return true
}

// ---- R2 ----------------------------------------------------------------------------------------

func (e *c27Env) r2() {
	c, w := e.c, e.w
	fn := e.fn("premium", "(*PPM).Compute")
	if fn == nil {
		return
	}
	name := w.FuncName(fn)
	rets := an.Returns(fn)
	c.AtLeast("C27.R2", "returns of PPM.Compute", len(rets), 1)
	for _, r := range rets {
		pos := w.Pos(r.Pos())
		if len(r.Results) != 1 {
			c.Unknown("C27.R2", name, pos, "unexpected result arity")
			continue
		}
		v := r.Results[0]
		// only integer arithmetic over params / the ppm field / constants is decided
		if why := e.r2Pure(v, 0); why != "" {
			c.Unknown("C27.R2", name, pos, "result is not a pure integer expression ("+why+"): shape not supported")
			continue
		}
		q, ok := v.(*ssa.BinOp)
		if !ok || q.Op != token.QUO {
			c.Bad("C27.R2", name, pos, "the result is not a quotient: expected int64(amount)*ppm / 1_000_000, found "+w.Term(v))
			continue
		}
		d, isC := an.ConstInt(q.Y)
		if _, isConst := q.Y.(*ssa.Const); !isConst || !isC || d != 1_000_000 {
			c.Bad("C27.R2", name, pos, "the divisor is not the constant 1_000_000 (parts per million): "+w.Term(q.Y))
			continue
		}
		if b, ok := q.Type().Underlying().(*types.Basic); !ok || b.Kind() != types.Int64 {
			c.Bad("C27.R2", name, pos, "the division is not performed in int64 (truncation toward zero on signed values): "+q.Type().String())
			continue
		}
		m, ok := q.X.(*ssa.BinOp)
		if !ok || m.Op != token.MUL {
			c.Bad("C27.R2", name, pos, "the dividend is not the product amount*ppm: "+w.Term(q.X))
			continue
		}
		isAmt := func(x ssa.Value) bool {
			if cv, ok := x.(*ssa.Convert); ok {
				x = cv.X
			}
			_, isP := x.(*ssa.Parameter)
			return isP && e.isParam(x, fn, 1)
		}
		isPpm := func(x ssa.Value) bool {
			ld, ok := x.(*ssa.UnOp)
			if !ok || ld.Op != token.MUL {
				return false
			}
			fa, ok := ld.X.(*ssa.FieldAddr)
			if !ok || an.FieldName(fa.X.Type(), fa.Field) != "PPM.ppmValue" {
				return false
			}
			return e.isParam(fa.X, fn, 0)
		}
		if (isAmt(m.X) && isPpm(m.Y)) || (isAmt(m.Y) && isPpm(m.X)) {
			c.OK("C27.R2", name, pos, "int64(amtSat) * p.ppmValue / 1000000 (int64 Quo)")
		} else {
			c.Bad("C27.R2", name, pos, "the product is not int64(amount parameter) * receiver.ppmValue: "+w.Term(m))
		}
	}
}

// r2Pure returns "" when v is built only from integer BinOps, conversions
// between integer types, parameters, loads of struct fields and constants.
func (e *c27Env) r2Pure(v ssa.Value, depth int) string {
	if depth > 10 {
		return "too deep"
	}
	isInt := func(t types.Type) bool {
		b, ok := t.Underlying().(*types.Basic)
		return ok && b.Info()&types.IsInteger != 0
	}
	switch x := v.(type) {
	case *ssa.Const:
		return ""
	case *ssa.Parameter:
		return ""
	case *ssa.BinOp:
		if !isInt(x.Type()) {
			return "non-integer operator " + x.Op.String()
		}
		if s := e.r2Pure(x.X, depth+1); s != "" {
			return s
		}
		return e.r2Pure(x.Y, depth+1)
	case *ssa.Convert:
		if !isInt(x.Type()) || !isInt(x.X.Type()) {
			return "conversion " + x.X.Type().String() + " -> " + x.Type().String()
		}
		return e.r2Pure(x.X, depth+1)
	case *ssa.ChangeType:
		return e.r2Pure(x.X, depth+1)
	case *ssa.UnOp:
		if x.Op == token.MUL {
			if _, ok := x.X.(*ssa.FieldAddr); ok {
				return ""
			}
		}
		if x.Op == token.SUB {
			return e.r2Pure(x.X, depth+1)
		}
	}
	return fmt.Sprintf("%T", v)
}

// ---- R3 charging ----------------------------------------------------------------------------------

// c27LiquidFact classifies a dominating fact as "this swap is on Liquid" (+1),
// "this swap is not on Liquid" (-1) or neither (0). Two tests exist in the
// tree: SwapData.GetChain() compared with the constant "lbtc", and the
// request's Network field compared with "" (an empty network means the asset
// field is set, i.e. Liquid — see the comment in OnSwap*RequestReceived).
func c27LiquidFact(f an.Fact) int {
	if !f.NonNum || (f.Rel != "==" && f.Rel != "!=") {
		return 0
	}
	sign := 1
	if f.Rel == "!=" {
		sign = -1
	}
	has := func(a, b string) bool {
		return (strings.Contains(f.L, a) && f.R == b) || (strings.Contains(f.R, a) && f.L == b)
	}
	switch {
	case has("(*swap.SwapData).GetChain", `"lbtc"`):
		return sign
	case has("(*swap.SwapData).GetChain", `"btc"`):
		return -sign
	case has("RequestMessage.Network", `""`):
		return sign
	}
	return 0
}

func (e *c27Env) r3charge() {
	c, w := e.c, e.w
	const computeName = "func:(*premium.Setting).Compute"
	type site struct {
		call *ssa.Call
		fn   *ssa.Function
		dir  string // "SwapIn"/"SwapOut" as implied by the message the premium is for
	}
	var sites []*site
	byCall := map[*ssa.Call]*site{}
	for _, fn := range prodFuncs(w) {
		if w.FnRel(fn) == "premium" {
			continue
		}
		for _, call := range e.callsTo(fn, computeName) {
			s := &site{call: call, fn: fn}
			sites = append(sites, s)
			byCall[call] = s
		}
	}
	c.AtLeast("C27.R3", "Setting.Compute call sites outside package premium", len(sites), 8)

	// (a) who writes the Premium fields
	nW := 0
	for _, fld := range []struct{ key, dir string }{
		{"SwapInAgreementMessage.Premium", "SwapIn"},
		{"SwapOutAgreementMessage.Premium", "SwapOut"},
	} {
		for _, st := range w.FieldWriters(fld.key) {
			fn := st.Parent()
			if an.IsTestSupport(w.FnRel(fn)) {
				continue
			}
			nW++
			cons := w.FuncName(fn) + " store " + fld.key
			ss := w.Sources(st.Val, an.FlowOpts{})
			bad := ""
			for _, l := range ss.Leaves {
				switch {
				case l.Kind == "call" && l.Call != nil && w.Info(l.Call).Name == computeName && l.Idx == 0:
					if s := byCall[l.Call]; s != nil {
						if s.dir != "" && s.dir != fld.dir {
							bad = "one Compute result is used for both directions"
						}
						s.dir = fld.dir
					}
				case l.Kind == "zero":
					// `var premiumValue int64` before the branches
				default:
					bad = "value comes from " + l.String()
				}
			}
			if len(ss.Leaves) == 0 {
				bad = "no source"
			}
			c.Decide(bad == "", "C27.R3", cons, w.Pos(st.Pos()),
				"the premium sent to the peer is the result of Setting.Compute",
				"the premium put into the agreement is not (only) the result of Setting.Compute: "+bad)
		}
	}
	c.AtLeast("C27.R3", "stores to the agreement Premium fields", nW, 2)

	// (b) every call site
	for _, s := range sites {
		a := s.call.Call.Args
		cons := w.FuncName(s.fn) + " Setting.Compute"
		pos := w.Pos(s.call.Pos())
		if len(a) != 5 {
			c.Unknown("C27.R3", cons, pos, "unexpected argument count")
			continue
		}
		av, okA := an.ConstInt(a[2])
		ov, okO := an.ConstInt(a[3])
		_, cA := c27Strip(a[2]).(*ssa.Const)
		_, cO := c27Strip(a[3]).(*ssa.Const)
		if !okA || !okO || !cA || !cO || e.assets[av] == "" || e.ops[ov] == "" {
			c.Unknown("C27.R3", cons, pos, "asset / operation are not enum constants at the call: "+w.Term(a[2])+", "+w.Term(a[3]))
			continue
		}
		asset, op := e.assets[av], e.ops[ov]
		cons = fmt.Sprintf("%s(%s,%s)", cons, asset, op)
		// direction: from the agreement field the result is stored to, else from
		// the request message type the amount is read from
		amt := w.Sources(a[4], an.FlowOpts{})
		dir := s.dir
		if dir == "" {
			for _, l := range amt.Leaves {
				if l.Kind == "field" && strings.HasSuffix(l.Name, "SwapInRequestMessage.Amount") {
					dir = "SwapIn"
				}
				if l.Kind == "field" && strings.HasSuffix(l.Name, "SwapOutRequestMessage.Amount") {
					if dir == "SwapIn" {
						dir = "?"
					} else {
						dir = "SwapOut"
					}
				}
			}
		}
		if dir == "" || dir == "?" {
			c.Unknown("C27.R3", cons, pos, "cannot tell which swap direction this premium is for (result not stored to an agreement, amount not read from a request message)")
			continue
		}
		if dir != op {
			c.Bad("C27.R3", cons, pos, fmt.Sprintf("the premium for a %s message is computed with the %s rate: the peer is charged a rate other than the advertised one", dir, op))
			continue
		}
		// chain
		liquid := 0
		for _, f := range w.FactsDominating(s.call) {
			if k := c27LiquidFact(f); k != 0 {
				if liquid != 0 && liquid != k {
					liquid = 2
					break
				}
				liquid = k
			}
		}
		facts := an.DescribeFacts(w.FactsDominating(s.call))
		switch {
		case liquid == 0 || liquid == 2:
			c.Unknown("C27.R3", cons, pos, "no recognised Liquid/Bitcoin test dominates the call; facts: "+facts)
			continue
		case (liquid == 1) != (asset == "LBTC"):
			c.Bad("C27.R3", cons, pos, fmt.Sprintf("asset %s is charged on the branch where the swap is%s on Liquid (facts: %s)", asset, map[bool]string{true: "", false: " not"}[liquid == 1], facts))
			continue
		}
		// amount and peer
		amtOK := len(amt.Leaves) > 0 && amt.OnlyFrom(func(l an.Src) bool {
			return (l.Kind == "call" && l.Name == "func:(*swap.SwapData).GetAmount#0") ||
				(l.Kind == "field" && strings.HasSuffix(l.Name, "Swap"+strings.TrimPrefix(dir, "Swap")+"RequestMessage.Amount"))
		})
		peer := w.Sources(a[1], an.FlowOpts{})
		peerOK := len(peer.Leaves) > 0 && peer.OnlyFrom(func(l an.Src) bool {
			if l.Kind == "field" {
				return l.Name == "SwapData.PeerNodeId"
			}
			// the handler's peer parameter: the only string parameter of the handler
			if p, ok := l.Val.(*ssa.Parameter); ok && l.Kind == "param" && p.Parent() == s.fn {
				n := 0
				for _, q := range s.fn.Params {
					if b, ok := q.Type().Underlying().(*types.Basic); ok && b.Kind() == types.String {
						n++
					}
				}
				return n == 1
			}
			return false
		})
		definitelyWrong := func(ss *an.SrcSet) bool {
			// only constants / message or swap-data fields: nothing a refactoring could hide behind
			return len(ss.Leaves) > 0 && ss.OnlyFrom(func(l an.Src) bool { return l.Kind == "const" || l.Kind == "zero" || l.Kind == "field" })
		}
		switch {
		case !amtOK && definitelyWrong(amt):
			c.Bad("C27.R3", cons, pos, "the amount the premium is computed on is not the swap amount: "+strings.Join(amt.Names(), ", "))
		case !amtOK:
			c.Unknown("C27.R3", cons, pos, "cannot identify the amount argument as the swap amount: "+strings.Join(amt.Names(), ", "))
		case !peerOK && definitelyWrong(peer):
			c.Bad("C27.R3", cons, pos, "the rate is not resolved for the swap's peer: "+strings.Join(peer.Names(), ", "))
		case !peerOK:
			c.Unknown("C27.R3", cons, pos, "cannot identify the peer argument as the swap's peer: "+strings.Join(peer.Names(), ", "))
		default:
			c.OK("C27.R3", cons, pos, fmt.Sprintf("%s/%s rate of the swap peer on the swap amount, on the %s branch", asset, op, map[bool]string{true: "Liquid", false: "Bitcoin"}[liquid == 1]))
		}
	}
}

// ---- R3 advertising ------------------------------------------------------------------------------------

type c27Pair struct{ a, o string }

func (p c27Pair) String() string { return "(" + p.a + "," + p.o + ")" }

// pairAt reads the (asset, operation) constants at argument positions i, j.
func (e *c27Env) pairAt(args []ssa.Value, i, j int) (c27Pair, bool) {
	if i >= len(args) || j >= len(args) {
		return c27Pair{}, false
	}
	_, c1 := c27Strip(args[i]).(*ssa.Const)
	_, c2 := c27Strip(args[j]).(*ssa.Const)
	a, ok1 := an.ConstInt(args[i])
	o, ok2 := an.ConstInt(args[j])
	if !c1 || !c2 || !ok1 || !ok2 || e.assets[a] == "" || e.ops[o] == "" {
		return c27Pair{}, false
	}
	return c27Pair{e.assets[a], e.ops[o]}, true
}

func (e *c27Env) r3advertise() {
	c, w := e.c, e.w
	capT := w.Named("peersync", "PeerCapability")
	snapT := w.Named("peersync", "PeerCapabilitySnapshot")
	if capT == nil || snapT == nil {
		c.Anchor("peersync.PeerCapability / PeerCapabilitySnapshot do not resolve")
		return
	}

	// 1. GetPremiumRate arms: (asset,op) -> capability field
	arms := map[c27Pair]string{}
	if fn := e.fn("peersync", "(*PeerCapability).GetPremiumRate"); fn != nil {
		for _, r := range an.Returns(fn) {
			ss := w.Sources(r.Results[0], an.FlowOpts{})
			if ss.OnlyFrom(func(l an.Src) bool { return l.Kind == "zero" }) {
				continue
			}
			if len(ss.Leaves) != 1 || ss.Leaves[0].Kind != "field" || !strings.HasPrefix(ss.Leaves[0].Name, "PeerCapability.") {
				c.Unknown("C27.R3", w.FuncName(fn)+" arm", w.Pos(r.Pos()), "arm does not return one capability field: "+strings.Join(ss.Names(), ", "))
				continue
			}
			var av, ov []int64
			for _, f := range w.FactsDominatingBlock(r.Block()) {
				if f.NonNum || f.Rel != "==" || len(f.Terms) != 1 {
					continue
				}
				for k, coef := range f.Terms {
					if coef != 1 && coef != -1 {
						continue
					}
					val := -f.Const * coef
					switch k {
					case "param#1":
						av = append(av, val)
					case "param#2":
						ov = append(ov, val)
					}
				}
			}
			if len(av) != 1 || len(ov) != 1 || e.assets[av[0]] == "" || e.ops[ov[0]] == "" {
				c.Unknown("C27.R3", w.FuncName(fn)+" arm", w.Pos(r.Pos()), "arm is not selected by one asset and one operation constant: "+an.DescribeFacts(w.FactsDominatingBlock(r.Block())))
				continue
			}
			p := c27Pair{e.assets[av[0]], e.ops[ov[0]]}
			if prev, dup := arms[p]; dup && prev != ss.Leaves[0].Name {
				c.Unknown("C27.R3", w.FuncName(fn)+" arm", w.Pos(r.Pos()), "two arms for "+p.String())
				continue
			}
			arms[p] = ss.Leaves[0].Name
		}
	}
	if !c.AtLeast("C27.R3", "GetPremiumRate arms", len(arms), 4) {
		return
	}
	{
		inv := map[string]bool{}
		for _, f := range arms {
			inv[f] = true
		}
		c.Decide(len(inv) == 4, "C27.R3", "(*peersync.PeerCapability).GetPremiumRate arms", "peersync/peer.go",
			"four pairs select four distinct capability fields", fmt.Sprintf("two (asset,operation) pairs read the same capability field: %v", arms))
	}

	// 2. NewPeerCapability: parameter index -> capability field
	ctorField := map[int]string{}
	ctor := e.fn("peersync", "NewPeerCapability")
	if ctor == nil {
		return
	}
	for _, ci := range ctor.Blocks {
		for _, in := range ci.Instrs {
			st, ok := in.(*ssa.Store)
			if !ok {
				continue
			}
			fa, ok := st.Addr.(*ssa.FieldAddr)
			if !ok || an.NamedOf(fa.X.Type()) != capT {
				continue
			}
			for i := range ctor.Params {
				if e.isParam(st.Val, ctor, i) {
					ctorField[i] = an.FieldName(fa.X.Type(), fa.Field)
				}
			}
		}
	}

	// 3. localCapabilityForPeer: pairs at each rate argument of the constructor call
	adv := e.fn("peersync", "(*PeerSync).localCapabilityForPeer")
	if adv == nil {
		return
	}
	nAdv := 0
	for _, call := range e.callsTo(adv, "func:peersync.NewPeerCapability") {
		for k, arg := range call.Call.Args {
			fld := ctorField[k]
			isRate := false
			for _, f := range arms {
				if f == fld {
					isRate = true
				}
			}
			if !isRate {
				continue
			}
			nAdv++
			pairs, why := e.advertisedPairs(arg, adv)
			cons := "advertised " + fld
			pos := w.Pos(call.Pos())
			if why != "" {
				c.Unknown("C27.R3", cons, pos, why)
				continue
			}
			var ps []string
			okAll := true
			for p := range pairs {
				ps = append(ps, p.String())
				if arms[p] != fld {
					okAll = false
				}
			}
			sort.Strings(ps)
			c.Decide(okAll && len(pairs) == 1, "C27.R3", cons, pos,
				"capability field "+fld+" is filled with the rate resolved for "+strings.Join(ps, ""),
				fmt.Sprintf("constructor argument #%d lands in %s, which GetPremiumRate reads for %s, but it is filled with the rate(s) resolved for %s: the peer is shown a rate of another asset/direction than it will be charged", k, fld, c27PairOf(arms, fld), strings.Join(ps, " ")))
		}
	}
	c.AtLeast("C27.R3", "advertised rate arguments", nAdv, 4)

	// the invoke resolves to peerGuard.PremiumRate only
	guardImpl := e.fn("peersync", "(*peerGuard).PremiumRate")
	if n := w.CG().Nodes[adv]; n != nil && guardImpl != nil {
		for _, out := range n.Out {
			if out.Site == nil || w.Info(out.Site).Name != "iface:peersync.PeerGuard.PremiumRate" {
				continue
			}
			if an.IsTestSupport(w.FnRel(out.Callee.Func)) {
				continue
			}
			c.Decide(out.Callee.Func == guardImpl, "C27.R3", "PeerGuard.PremiumRate implementation "+w.FuncName(out.Callee.Func), w.Pos(out.Callee.Func.Pos()),
				"the advertised rate is resolved by peerGuard.PremiumRate", "a second production implementation of PeerGuard.PremiumRate can answer the advertising call")
		}
	}

	// 4. snapshot: field -> JSON name, value <- ppmValue(GetPremiumRate(pair))
	if fn := e.fn("peersync", "SnapshotFromCapability"); fn != nil {
		st := snapT.Underlying().(*types.Struct)
		nS := 0
		seen := map[c27Pair]bool{}
		for _, b := range fn.Blocks {
			for _, in := range b.Instrs {
				sto, ok := in.(*ssa.Store)
				if !ok {
					continue
				}
				fa, ok := sto.Addr.(*ssa.FieldAddr)
				if !ok || an.NamedOf(fa.X.Type()) != snapT {
					continue
				}
				ss := w.Sources(sto.Val, an.FlowOpts{ThroughCalls: map[string]bool{"func:peersync.ppmValue": true}})
				var gp *ssa.Call
				for _, l := range ss.Leaves {
					if l.Kind == "call" && l.Call != nil && w.Info(l.Call).Name == "func:(*peersync.PeerCapability).GetPremiumRate" {
						gp = l.Call
					}
				}
				if gp == nil {
					continue
				}
				nS++
				fname := st.Field(fa.Field).Name()
				cons := "snapshot field " + fname
				pos := w.Pos(sto.Pos())
				p, ok := e.pairAt(gp.Call.Args, 1, 2)
				if !ok || len(ss.Leaves) != 1 || !e.isParam(gp.Call.Args[0], fn, 0) {
					c.Unknown("C27.R3", cons, pos, "not ppmValue(capability.GetPremiumRate(<const>, <const>)): "+strings.Join(ss.Names(), ", "))
					continue
				}
				tag := reflect.StructTag(st.Tag(fa.Field)).Get("json")
				jname := strings.Split(tag, ",")[0]
				seen[p] = true
				c.Decide(jname == c27WireNames[[2]string{p.a, p.o}], "C27.R3", cons, pos,
					fmt.Sprintf("%s rate is sent as %q", p, jname),
					fmt.Sprintf("the %s rate is sent under the wire name %q, the protocol name for that pair is %q", p, jname, c27WireNames[[2]string{p.a, p.o}]))
			}
		}
		c.AtLeast("C27.R3", "rate fields of the snapshot", nS, 4)
		c.Decide(len(seen) == 4, "C27.R3", "snapshot covers the four pairs", w.Pos(fn.Pos()), "all four (asset,operation) pairs are sent", fmt.Sprintf("only %d distinct pairs are sent", len(seen)))
	}
	// ppmValue is a pass-through of PPM.ppmValue
	if fn := e.fn("peersync", "ppmValue"); fn != nil {
		okAll := true
		for _, r := range an.Returns(fn) {
			v := c27Strip(r.Results[0])
			if _, isC := v.(*ssa.Const); isC {
				if k, _ := an.ConstInt(v); k != 0 {
					okAll = false
				}
				continue
			}
			call, ok := v.(*ssa.Call)
			if !ok || w.Info(call).Name != "func:(*premium.PPM).Value" || !e.isParam(call.Call.Args[0], fn, 0) {
				okAll = false
			}
		}
		val := e.fn("premium", "(*PPM).Value")
		if val != nil {
			ss := &an.SrcSet{}
			for _, r := range an.Returns(val) {
				s := w.Sources(r.Results[0], an.FlowOpts{})
				ss.Leaves = append(ss.Leaves, s.Leaves...)
			}
			if !ss.OnlyFrom(func(l an.Src) bool {
				return (l.Kind == "field" && l.Name == "PPM.ppmValue") || (l.Kind == "const" && l.Name == "0")
			}) || !ss.Has("field", "PPM.ppmValue") {
				okAll = false
			}
		}
		c.Decide(okAll, "C27.R3", "peersync.ppmValue", w.Pos(fn.Pos()), "ppmValue(rate) is rate.ppmValue (0 for nil)", "ppmValue does not return the ppm of its argument")
	}

	// 5. peerGuard.PremiumRate -> Setting.GetRate(peer, asset, op)
	if guardImpl != nil {
		fn := guardImpl
		name := w.FuncName(fn)
		gr := e.callsTo(fn, "func:(*premium.Setting).GetRate")
		if len(gr) == 0 {
			c.Bad("C27.R3", name+" resolver arguments", w.Pos(fn.Pos()), "the advertised rate is not resolved through Setting.GetRate, the resolver Setting.Compute charges with")
			return
		}
		if len(gr) != 1 {
			c.Unknown("C27.R3", name, w.Pos(fn.Pos()), fmt.Sprintf("%d calls of Setting.GetRate, expected one", len(gr)))
			return
		}
		g := gr[0]
		a := g.Call.Args
		// receiver <- field peerGuard.premium ; peer <- param#1.String()
		recv := w.Sources(a[0], an.FlowOpts{})
		peer := w.Sources(a[1], an.FlowOpts{ThroughCalls: map[string]bool{"func:(peersync.PeerID).String": true}})
		argsOK := len(a) == 4 && recv.OnlyFrom(func(l an.Src) bool { return l.Kind == "field" && l.Name == "peerGuard.premium" }) &&
			peer.OnlyFrom(func(l an.Src) bool { p, ok := l.Val.(*ssa.Parameter); return ok && p == fn.Params[1] }) &&
			e.isParam(a[2], fn, 2) && e.isParam(a[3], fn, 3)
		c.Decide(argsOK, "C27.R3", name+" resolver arguments", w.Pos(g.Pos()),
			"peerGuard.premium.GetRate(peer, asset, operation) in parameter order",
			"the advertised rate is not resolved as Setting.GetRate(peer, asset, operation) with this call's parameters in that order")
		// returns
		var excuse []an.Edge
		for _, f := range w.Facts(fn) {
			if !f.NonNum {
				continue
			}
			switch {
			case an.EqIs(f, "==", "field:peerGuard.premium", "nil"),
				an.EqIs(f, "!=", "call:func:(*premium.Setting).GetRate#1", "nil"),
				an.EqIs(f, "==", "call:func:(*premium.Setting).GetRate#0", "nil"),
				an.EqIs(f, "==", "call:func:(*premium.PremiumRate).PremiumRatePPM", "nil"):
				excuse = append(excuse, f.Edge)
			}
		}
		nMain := 0
		for _, r := range an.Returns(fn) {
			ss := w.Sources(r.Results[0], an.FlowOpts{ThroughCalls: map[string]bool{"func:(*premium.PremiumRate).PremiumRatePPM": true}})
			pos := w.Pos(r.Pos())
			if len(ss.Leaves) == 1 && c27LeafIsCall(ss.Leaves[0], g, 0) {
				nMain++
				c.OK("C27.R3", name+" resolved return", pos, "returns the ppm of the rate Setting.GetRate resolved")
				continue
			}
			// a default: NewPPM(defaultPremiumRate(asset, operation)) on an excused edge only
			def := true
			for _, l := range ss.Leaves {
				if l.Kind != "call" || l.Call == nil || w.Info(l.Call).Name != "func:premium.NewPPM" {
					def = false
					continue
				}
				d, ok := c27Strip(l.Call.Call.Args[0]).(*ssa.Call)
				if !ok || w.Info(d).Name != "func:peersync.defaultPremiumRate" || !e.isParam(d.Call.Args[0], fn, 2) || !e.isParam(d.Call.Args[1], fn, 3) {
					def = false
				}
			}
			switch {
			case !def || len(ss.Leaves) == 0:
				c.Bad("C27.R3", name+" other return", pos, "a rate that is neither the resolved one nor the built-in default for (asset, operation) is advertised: "+strings.Join(ss.Names(), ", "))
			case c27EdgesDominate(excuse, r.Block()):
				c.OK("C27.R3", name+" default return", pos, "built-in default only when no setting is configured, the resolver failed or returned nil")
			default:
				c.Bad("C27.R3", name+" default return", pos, "the built-in default is advertised on a path where the resolver succeeded: advertised rate differs from the charged one. Facts: "+an.DescribeFacts(w.FactsDominatingBlock(r.Block())))
			}
		}
		c.Decide(nMain >= 1, "C27.R3", name+" resolved return exists", w.Pos(fn.Pos()), "some return hands out the resolved rate", "no return hands out the rate Setting.GetRate resolved")
		c.Note("C27.R3", name+" error fallback", w.Pos(g.Pos()), "when Setting.GetRate fails the built-in default is advertised while Setting.Compute refuses the swap with the error — advertised and charged rate are not compared on that edge")
	}
	// defaultPremiumRate reads table[asset][operation]
	if fn := e.fn("peersync", "defaultPremiumRate"); fn != nil {
		okAll, n := true, 0
		for _, r := range an.Returns(fn) {
			v := c27Strip(r.Results[0])
			if _, isC := v.(*ssa.Const); isC {
				continue
			}
			n++
			ka, ko, ok := e.tableLookup(v)
			if !ok || !e.isParam(ka, fn, 0) || !e.isParam(ko, fn, 1) {
				okAll = false
			}
		}
		c.Decide(okAll && n >= 1, "C27.R3", w.FuncName(fn), w.Pos(fn.Pos()), "built-in table indexed [asset][operation]", "the default advertised rate is not premium.DefaultPremiumRate[asset][operation]")
	}
}

func c27PairOf(arms map[c27Pair]string, fld string) string {
	for p, f := range arms {
		if f == fld {
			return p.String()
		}
	}
	return "?"
}

// advertisedPairs resolves which (asset,operation) pairs a constructor
// argument of localCapabilityForPeer was resolved for.
func (e *c27Env) advertisedPairs(v ssa.Value, fn *ssa.Function) (map[c27Pair]bool, string) {
	w := e.w
	out := map[c27Pair]bool{}
	seen := map[ssa.Value]bool{}
	why := ""
	var rec func(v ssa.Value)
	rec = func(v ssa.Value) {
		v = c27Strip(v)
		if seen[v] {
			return
		}
		seen[v] = true
		switch x := v.(type) {
		case *ssa.Phi:
			for _, ed := range x.Edges {
				rec(ed)
			}
		case *ssa.Call:
			switch w.Info(x).Name {
			case "iface:peersync.PeerGuard.PremiumRate":
				p, ok := e.pairAt(x.Call.Args, 1, 2)
				if !ok {
					why = "PremiumRate is not called with enum constants"
					return
				}
				if !e.isParam(x.Call.Args[0], fn, 1) {
					why = "PremiumRate is not asked for the peer the capability is built for"
					return
				}
				out[p] = true
			case "func:premium.NewPPM":
				rec(x.Call.Args[0])
			case "func:peersync.defaultPremiumRate":
				p, ok := e.pairAt(x.Call.Args, 0, 1)
				if !ok {
					why = "defaultPremiumRate is not called with enum constants"
					return
				}
				out[p] = true
			default:
				why = "rate argument comes from " + w.Info(x).Name
			}
		default:
			why = "rate argument comes from " + w.Term(v)
		}
	}
	rec(v)
	if why == "" && len(out) == 0 {
		why = "no rate source found"
	}
	return out, why
}

// ---- R3 wiring ----------------------------------------------------------------------------------------

func (e *c27Env) r3wiring() {
	c, w := e.c, e.w
	// constructors store their Setting parameter into the slot
	slots := []struct {
		ctorRel, ctor string
		field         string
	}{
		{"swap", "NewSwapServices", "SwapServices.ps"},
		{"peersync", "NewPeerGuard", "peerGuard.premium"},
	}
	for _, s := range slots {
		ctor := e.fn(s.ctorRel, s.ctor)
		if ctor == nil {
			continue
		}
		n := 0
		for _, st := range w.FieldWriters(s.field) {
			fn := st.Parent()
			if an.IsTestSupport(w.FnRel(fn)) {
				continue
			}
			n++
			isCtorParam := false
			if fn == ctor {
				for i, p := range ctor.Params {
					if c27TypeName(p.Type()) == "*premium.Setting" && e.isParam(st.Val, ctor, i) {
						isCtorParam = true
					}
				}
			}
			if isCtorParam {
				c.OK("C27.R3", "writer of "+s.field+" in "+w.FuncName(fn), w.Pos(st.Pos()), "slot is written by its constructor from the *premium.Setting parameter")
			} else {
				c.Unknown("C27.R3", "writer of "+s.field+" in "+w.FuncName(fn), w.Pos(st.Pos()),
					"the premium setting used for "+map[string]string{"SwapServices.ps": "charging", "peerGuard.premium": "advertising"}[s.field]+" is (re)assigned outside its constructor: cannot decide that charging and advertising still share one resolver")
			}
		}
		c.AtLeast("C27.R3", "writers of "+s.field, n, 1)
	}
	// NewPeerSync hands its Setting parameter to NewPeerGuard and keeps the guard
	if fn := e.fn("peersync", "NewPeerSync"); fn != nil {
		okG := false
		var gcall *ssa.Call
		for _, call := range e.callsTo(fn, "func:peersync.NewPeerGuard") {
			gcall = call
			for i, p := range fn.Params {
				if c27TypeName(p.Type()) == "*premium.Setting" && e.isParam(call.Call.Args[1], fn, i) {
					okG = true
				}
			}
		}
		c.Decide(okG, "C27.R3", w.FuncName(fn)+" guard construction", w.Pos(fn.Pos()),
			"NewPeerGuard receives NewPeerSync's *premium.Setting parameter", "the guard that resolves advertised rates is not built from NewPeerSync's premium setting")
		nG := 0
		for _, st := range w.FieldWriters("PeerSync.guard") {
			f := st.Parent()
			if an.IsTestSupport(w.FnRel(f)) {
				continue
			}
			nG++
			ss := w.Sources(st.Val, an.FlowOpts{})
			c.Decide(f == fn && gcall != nil && len(ss.Leaves) == 1 && c27LeafIsCall(ss.Leaves[0], gcall, 0), "C27.R3", "writer of PeerSync.guard in "+w.FuncName(f), w.Pos(st.Pos()),
				"PeerSync.guard is the guard built in NewPeerSync", "PeerSync.guard is assigned something other than the guard built from the premium setting")
		}
		c.AtLeast("C27.R3", "writers of PeerSync.guard", nG, 1)
	}
	// both mains: same premium.NewSetting result to NewSwapServices and NewPeerSync
	nMain := 0
	for _, fn := range prodFuncs(w) {
		if !strings.HasPrefix(w.FnRel(fn), "cmd/") {
			continue
		}
		sv := e.callsTo(fn, "func:swap.NewSwapServices")
		pv := e.callsTo(fn, "func:peersync.NewPeerSync")
		if len(sv) == 0 && len(pv) == 0 {
			continue
		}
		cons := w.FuncName(fn) + " premium setting wiring"
		if len(sv) != 1 || len(pv) != 1 {
			c.Unknown("C27.R3", cons, w.Pos(fn.Pos()), "NewSwapServices and NewPeerSync are not both called exactly once in the same function")
			continue
		}
		nMain++
		settingArg := func(call *ssa.Call) ssa.Value {
			for _, a := range call.Call.Args {
				if c27TypeName(a.Type()) == "*premium.Setting" {
					return a
				}
			}
			return nil
		}
		a1, a2 := settingArg(sv[0]), settingArg(pv[0])
		if a1 == nil || a2 == nil {
			c.Unknown("C27.R3", cons, w.Pos(fn.Pos()), "no *premium.Setting argument")
			continue
		}
		s1, s2 := w.Sources(a1, an.FlowOpts{}), w.Sources(a2, an.FlowOpts{})
		describe := func(ss *an.SrcSet) string {
			var out []string
			for _, l := range ss.Leaves {
				d := l.String()
				if l.Call != nil {
					d += " @" + w.Pos(l.Call.Pos())
				}
				out = append(out, d)
			}
			sort.Strings(out)
			return strings.Join(out, ", ")
		}
		same := len(s1.Leaves) == 1 && len(s2.Leaves) == 1 && s1.Leaves[0].Kind == "call" && s1.Leaves[0].Call != nil &&
			s1.Leaves[0].Call == s2.Leaves[0].Call && s1.Leaves[0].Idx == s2.Leaves[0].Idx &&
			w.Info(s1.Leaves[0].Call).Name == "func:premium.NewSetting"
		c.Decide(same, "C27.R3", cons, w.Pos(pv[0].Pos()),
			"swap services and peer-sync receive the result of the same premium.NewSetting call",
			fmt.Sprintf("swap services get %s, peer-sync gets %s: charging and advertising do not share one resolver", describe(s1), describe(s2)))
	}
	c.AtLeast("C27.R3", "mains wiring the premium setting", nMain, 2)
}
