package rules

import (
	"go/token"
	"strings"

	"golang.org/x/tools/go/ssa"

	"psv/internal/an"
)

func init() {
	Register(&Prop{
		ID:   "C22",
		Expl: "Decides the start/stop structure of the retransmitter: (R1) messages.NewRedundantMessenger is created only in actions that register it with MessengerManager.AddSender before its first send, the registration's error fails the action, and Manager.AddSender stores into its map only on the not-present edge under its lock; (R2) let W be the success target of a retry-sending state: every other state entered from W or from the retry-sending state, and every terminal state, has an outermost action that calls MessengerManager.RemoveSender with the swap id on every path before it returns; (R3) RemoveSender stops the registered sender, Stop closes the channel on which the sender goroutine's select returns, and only the ticker arm sends; (R4) no other action or recovery path adds a sender.",
		NotD: "How many already-due ticks race with Stop at run time (at most one by the select structure); timing.",
		Run:  runC22,
	})
}

func runC22(c *an.Check) {
	c.Rule("C22.R1", "a retransmitter is created only where it is registered (AddSender) before its first send; AddSender refuses duplicates under its lock")
	c.Rule("C22.R2", "every state that leaves the retransmitting/waiting state, and every terminal state, calls RemoveSender on every path")
	c.Rule("C22.R3", "RemoveSender -> Stop closes the channel the sender goroutine returns on; only the ticker arm sends")
	c.Rule("C22.R4", "AddSender is reached only from retry-sending actions")
	if !needEffects(c, fxAddSender, fxRemoveSender, fxSendMessage) {
		return
	}
	w := c.W
	ts := tables(c)
	if ts == nil {
		return
	}
	newRM := w.Func("messages", "NewRedundantMessenger")
	if newRM == nil {
		c.Anchor("messages.NewRedundantMessenger does not resolve")
		return
	}
	rmSend := w.Func("messages", "(*RedundantMessenger).SendMessage")
	rmStop := w.Func("messages", "(*RedundantMessenger).Stop")
	mgrAdd := w.Func("messages", "(*Manager).AddSender")
	mgrRemove := w.Func("messages", "(*Manager).RemoveSender")
	if rmSend == nil || rmStop == nil || mgrAdd == nil || mgrRemove == nil {
		c.Anchor("messages.RedundantMessenger / Manager methods do not resolve")
		return
	}

	// ---- R1 / R4: creation sites ---------------------------------------------------
	nNew := 0
	retryFns := map[*ssa.Function]bool{}
	for _, fn := range prodFuncs(w) {
		for _, call := range an.Calls(fn) {
			if call.Common().StaticCallee() != newRM {
				continue
			}
			nNew++
			name := w.FuncName(fn)
			adds := callsNamed(w, fn, fxAddSender)
			var sends []ssa.CallInstruction
			for _, x := range an.Calls(fn) {
				if x.Common().StaticCallee() == rmSend {
					sends = append(sends, x)
				}
			}
			if len(adds) == 0 || len(sends) == 0 {
				c.Bad("C22.R1", name+" registers-before-send", w.Pos(call.Pos()), "a RedundantMessenger is created here but not registered with the manager and started in the same function: nothing can ever stop it")
				continue
			}
			retryFns[fn] = true
			var addI []ssa.Instruction
			for _, a := range adds {
				addI = append(addI, a)
			}
			good := true
			for _, s := range sends {
				if !an.MustPassInstr(s, addI) {
					good = false
				}
				// the send must be on the nil-error edge of AddSender
				okDom := false
				for _, a := range adds {
					if ac, ok := a.(*ssa.Call); ok {
						okE, _ := an.OkEdges(ac)
						if len(okE) > 0 && an.EdgesDominate(okE, s.Block()) {
							okDom = true
						}
					}
				}
				if !okDom {
					good = false
				}
			}
			// registered value is the created messenger, id is the swap id
			for _, a := range adds {
				args := a.Common().Args
				if len(args) == 2 {
					src := w.Sources(args[1], an.FlowOpts{})
					if !src.HasPrefix("call", "func:messages.NewRedundantMessenger") {
						good = false
					}
				}
			}
			c.Decide(good, "C22.R1", name+" registers-before-send", w.Pos(call.Pos()), "AddSender(id, rm) succeeds before rm.SendMessage starts the goroutine", "the retransmitter is started without (or before) a successful registration with the manager: a second one can be started for the same swap and neither is stopped")
		}
	}
	c.AtLeast("C22.R1", "NewRedundantMessenger call sites", nNew, 1)

	// Manager.AddSender: map store only on the not-present edge, lock held
	{
		var stores []ssa.Instruction
		for _, b := range mgrAdd.Blocks {
			for _, in := range b.Instrs {
				if mu, ok := in.(*ssa.MapUpdate); ok {
					stores = append(stores, mu)
				}
			}
		}
		good := len(stores) > 0
		for _, st := range stores {
			facts := w.FactsDominating(st)
			if !an.AnyFact(facts, func(f an.Fact) bool {
				return (f.Rel == "false" || f.Rel == "true") && strings.Contains(f.Atom, "Manager.messengers[") && strings.HasSuffix(f.Atom, "#1") && f.Rel == "false"
			}) {
				good = false
			}
			var locks []ssa.Instruction
			for _, x := range an.Calls(mgrAdd) {
				if n := w.Info(x).Name; n == "func:(*sync.Mutex).Lock" && !w.Info(x).IsDefer {
					locks = append(locks, x)
				}
			}
			if !an.MustPassInstr(st, locks) {
				good = false
			}
		}
		c.Decide(good, "C22.R1", "(*messages.Manager).AddSender refuses-duplicate", w.Pos(mgrAdd.Pos()), "the map store is dominated by the not-present test, under the lock", "AddSender can replace an existing sender (the old goroutine keeps retransmitting and can no longer be stopped)")
	}

	// ---- R2 ---------------------------------------------------------------------------
	nRetry := 0
	for _, t := range ts {
		for _, s := range t.T.Order {
			isRetry := false
			for _, fn := range t.Sum[s].Execs {
				if retryFns[fn] {
					isRetry = true
				}
			}
			if !isRetry {
				continue
			}
			nRetry++
			e := t.T.States[s]
			wst, ok := e.Events[evSucceeded]
			if !ok {
				c.Bad("C22.R2", t.key(s), t.pos(c, s), "retry-sending state has no success edge")
				continue
			}
			must := map[string]string{}
			for ev, nx := range e.Events {
				if nx != wst {
					must[nx] = s + " --" + ev
				}
			}
			for ev, nx := range t.T.States[wst].Events {
				if nx != wst {
					must[nx] = wst + " --" + ev
				}
			}
			for nx, via := range must {
				c.Decide(c22StopsFirst(w, t, nx), "C22.R2", t.key(nx)+" stops-retransmission", t.pos(c, nx), "RemoveSender(swap id) on every path of the outermost action (entered via "+via+")",
					"the swap leaves the state in which it retransmits opening_tx_broadcasted (via "+via+") into a state whose action does not stop the retransmitter on every path")
			}
		}
		for _, s := range t.terminals() {
			// terminal states of tables that can retransmit
			has := false
			for _, x := range t.T.Order {
				for _, fn := range t.Sum[x].Execs {
					if retryFns[fn] {
						has = true
					}
				}
			}
			if !has {
				continue
			}
			// the cancelled terminal is entered only from before the broadcast; require it for the claimed ones
			if len(t.Sum[s].Sites(fxRemoveSender)) == 0 {
				// acceptable only if unreachable from the retry-sending state
				reach := false
				for _, x := range t.T.Order {
					for _, fn := range t.Sum[x].Execs {
						if retryFns[fn] && t.T.Reach(x)[s] {
							reach = true
						}
					}
				}
				c.Decide(!reach, "C22.R2", t.key(s)+" terminal-stops", t.pos(c, s), "terminal not reachable after retransmission started", "a terminal state reachable after retransmission started does not call RemoveSender")
				continue
			}
			c.Decide(c22StopsFirst(w, t, s), "C22.R2", t.key(s)+" terminal-stops", t.pos(c, s), "terminal action removes the sender", "terminal action does not remove the sender on every path")
		}
	}
	c.AtLeast("C22.R2", "retry-sending states", nRetry, 2)

	// ---- R3 ---------------------------------------------------------------------------
	{
		// RemoveSender: calls Stop on the looked-up sender and deletes the entry
		stops := callsNamed(w, mgrRemove, "iface:messages.StoppableMessenger.Stop")
		dels := callsNamed(w, mgrRemove, "builtin:delete")
		c.Decide(len(stops) > 0 && len(dels) > 0, "C22.R3", "(*messages.Manager).RemoveSender stops-and-deletes", w.Pos(mgrRemove.Pos()), "Stop() on the registered sender and delete from the map", "RemoveSender does not stop the sender / free the slot")
		// Stop closes a channel field
		var closed string
		for _, call := range an.Calls(rmStop) {
			if w.Info(call).Name == "builtin:close" && len(call.Common().Args) == 1 {
				closed = w.Term(call.Common().Args[0])
			}
		}
		c.Decide(closed != "", "C22.R3", "(*messages.RedundantMessenger).Stop closes-channel", w.Pos(rmStop.Pos()), "closes "+closed, "Stop does not close a channel")
		// goroutine in SendMessage: select with a recv on that channel whose arm returns; sends only on the other arm
		good := false
		why := "no goroutine with a select found"
		for _, g := range rmSend.AnonFuncs {
			for _, b := range g.Blocks {
				for _, in := range b.Instrs {
					sel, ok := in.(*ssa.Select)
					if !ok {
						continue
					}
					stopIdx := -1
					for i, st := range sel.States {
						if st.Dir == 2 /* types.RecvOnly */ && closed != "" && w.Term(st.Chan) == closed {
							stopIdx = i
						}
					}
					if stopIdx < 0 {
						why = "the sender goroutine's select has no receive on the channel that Stop closes (" + closed + ")"
						continue
					}
					// the stop arm must reach a return without reaching a send or the select again
					good, why = c22StopArmReturns(w, g, sel, stopIdx)
				}
			}
		}
		c.Decide(good, "C22.R3", "(*messages.RedundantMessenger).SendMessage goroutine-stops", w.Pos(rmSend.Pos()), "the stop arm returns without sending", why)
	}

	// ---- R4 ---------------------------------------------------------------------------
	for _, site := range findCallSites(w, fxAddSender) {
		fn := site.Parent()
		c.Decide(retryFns[fn], "C22.R4", w.FuncName(fn)+" AddSender", w.Pos(site.Pos()), "sender added by a retry-sending action", "a sender is registered outside the retry-sending action")
	}
	// retry-sending functions are run only by their table states (not by Recover specials or service helpers)
	for fn := range retryFns {
		users := 0
		for _, f2 := range prodFuncs(w) {
			for _, call := range an.Calls(f2) {
				if call.Common().StaticCallee() == fn {
					users++
				}
			}
		}
		c.Decide(users == 0, "C22.R4", w.FuncName(fn)+" only-via-table", w.Pos(fn.Pos()), "invoked only through the state tables", "the retry-sending action is also invoked directly outside the tables")
	}
}

// c22StopsFirst: the outermost action of state s calls RemoveSender with the
// swap id on every path before it returns.
func c22StopsFirst(w *an.World, t *TI, s string) bool {
	ss := t.Sum[s]
	for i, fn := range ss.Execs {
		if c22FnStopsFirst(w, fn) {
			return true
		}
		// a pure wrapper (every return is the result of next.Execute) passes the
		// obligation on to the next action of the tree
		pure := i+1 < len(ss.Execs)
		for _, r := range an.Returns(fn) {
			for _, res := range r.Results {
				evs := eventValues(w, res)
				if len(evs) != 1 || evs[0] != "NEXT" {
					pure = false
				}
			}
		}
		if !pure {
			return false
		}
	}
	return false
}

func c22FnStopsFirst(w *an.World, fn *ssa.Function) bool {
	var rem []ssa.Instruction
	for _, call := range callsNamed(w, fn, fxRemoveSender) {
		args := call.Common().Args
		if len(args) != 1 {
			continue
		}
		src := w.Sources(args[0], an.FlowOpts{})
		idOK := false
		for _, n := range src.Names() {
			if strings.Contains(n, "SwapId") || strings.Contains(n, ".GetId") {
				idOK = true
			}
		}
		if idOK {
			rem = append(rem, call)
		}
	}
	if len(rem) == 0 {
		return false
	}
	for _, r := range an.Returns(fn) {
		if !an.MustPassInstr(r, rem) {
			return false
		}
	}
	// and before delegating to the next action
	for _, ex := range callsNamed(w, fn, fxActionExecute) {
		if !an.MustPassInstr(ex, rem) {
			return false
		}
	}
	return true
}

// c22StopArmReturns checks the select loop of the sender goroutine.
func c22StopArmReturns(w *an.World, g *ssa.Function, sel *ssa.Select, stopIdx int) (bool, string) {
	// the selected index is Extract #0 of the select; find the If chain testing it
	var idx ssa.Value
	if sel.Referrers() != nil {
		for _, r := range *sel.Referrers() {
			if ex, ok := r.(*ssa.Extract); ok && ex.Index == 0 {
				idx = ex
			}
		}
	}
	if idx == nil {
		return false, "cannot find the select's chosen-index value"
	}
	var stopStart *ssa.BasicBlock
	if idx.Referrers() != nil {
		for _, r := range *idx.Referrers() {
			bo, ok := r.(*ssa.BinOp)
			if !ok || bo.Op != token.EQL {
				continue
			}
			k, ok := an.ConstInt(bo.Y)
			if !ok || int(k) != stopIdx {
				continue
			}
			for _, ce := range an.CondUses(bo) {
				stopStart = ce.True.To()
			}
		}
	}
	if stopStart == nil {
		// last arm of a blocking select is the else branch of the chain
		return false, "cannot isolate the stop arm of the select"
	}
	stop := map[*ssa.BasicBlock]bool{sel.Block(): true}
	reach := an.ReachBlocks([]*ssa.BasicBlock{stopStart}, nil, stop)
	if reach[sel.Block()] {
		return false, "after Stop() the sender goroutine loops back into the select instead of returning: retransmission never stops"
	}
	for b := range reach {
		for _, in := range b.Instrs {
			if call, ok := in.(ssa.CallInstruction); ok {
				if n := w.Info(call).Name; strings.HasSuffix(n, "Messenger.SendMessage") {
					return false, "the stop arm still sends a message"
				}
			}
		}
	}
	ret := false
	for _, r := range an.Returns(g) {
		if reach[r.Block()] {
			ret = true
		}
	}
	if !ret {
		return false, "the stop arm does not return"
	}
	return true, ""
}
