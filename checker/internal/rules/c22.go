package rules

import (
	"go/token"
	"go/types"
	"sort"
	"strings"

	"golang.org/x/tools/go/ssa"

	"psv/internal/an"
)

func init() {
	Register(&Prop{
		ID:   "C22",
		Expl: "Decides the start/stop structure of the retransmitter: (R1) a messages.NewRedundantMessenger (created directly or through a constructor helper that only returns one) is created only in actions that register it with MessengerManager.AddSender before its first send, the registration's error fails the action, and Manager.AddSender stores into its map only on the not-present edge under its lock; (R2) let W be the success target of a retry-sending state: every other state entered from W or from the retry-sending state, and every terminal state, has an outermost action that calls MessengerManager.RemoveSender with the swap id (directly or through a helper that does so on all of its paths) on every path before it returns; (R3) RemoveSender stops the registered sender, Stop closes the channel on which the sender goroutine's select returns, only the ticker arm sends, and that channel cannot be replaced under the running goroutine: the goroutine holds the channel value itself, or the field it re-reads on every pass is written only when the messenger is built or before the go statement; (R4) no other action or recovery path adds a sender.",
		NotD: "How many already-due ticks race with Stop at run time (at most one by the select structure); timing.",
		Run:  runC22,
	})
}

const c22Depth = 3

func runC22(c *an.Check) {
	c.Rule("C22.R1", "a retransmitter is created only where it is registered (AddSender) before its first send; AddSender refuses duplicates under its lock")
	c.Rule("C22.R2", "every state that leaves the retransmitting/waiting state, and every terminal state, calls RemoveSender on every path")
	c.Rule("C22.R3", "RemoveSender -> Stop closes the channel the sender goroutine returns on; only the ticker arm sends")
	c.Rule("C22.R4", "AddSender is reached only from retry-sending actions")
	if !needEffects(c, fxAddSender, fxRemoveSender, fxSendMessage) {
		return
	}
	w := c.W
	ts := tables(c)
	if ts == nil {
		return
	}
	newRM := w.Func("messages", "NewRedundantMessenger")
	if newRM == nil {
		c.Anchor("messages.NewRedundantMessenger does not resolve")
		return
	}
	rmSend := w.Func("messages", "(*RedundantMessenger).SendMessage")
	rmStop := w.Func("messages", "(*RedundantMessenger).Stop")
	mgrAdd := w.Func("messages", "(*Manager).AddSender")
	mgrRemove := w.Func("messages", "(*Manager).RemoveSender")
	if rmSend == nil || rmStop == nil || mgrAdd == nil || mgrRemove == nil {
		c.Anchor("messages.RedundantMessenger / Manager methods do not resolve")
		return
	}

	// ---- R1 / R4: creation sites ---------------------------------------------------
	// constructors: NewRedundantMessenger and in-module functions every return of
	// which is the result of a constructor
	ctors := map[*ssa.Function]bool{newRM: true}
	for round := 0; round < c22Depth; round++ {
		grew := false
		for _, fn := range prodFuncs(w) {
			if ctors[fn] || fn.Signature.Results().Len() != 1 {
				continue
			}
			calls := false
			for _, call := range an.Calls(fn) {
				if g := call.Common().StaticCallee(); g != nil && ctors[g] {
					calls = true
				}
			}
			if !calls {
				continue
			}
			all := true
			rets := an.Returns(fn)
			for _, r := range rets {
				if len(r.Results) != 1 || !c22FromCtor(w, r.Results[0], ctors) {
					all = false
				}
			}
			if all && len(rets) > 0 {
				ctors[fn] = true
				grew = true
			}
		}
		if !grew {
			break
		}
	}
	nNew := 0
	retryFns := map[*ssa.Function]bool{}
	for _, fn := range prodFuncs(w) {
		if ctors[fn] {
			continue
		}
		for _, call := range an.Calls(fn) {
			if g := call.Common().StaticCallee(); g == nil || !ctors[g] {
				continue
			}
			nNew++
			name := w.FuncName(fn)
			cons := name + " registers-before-send"
			pos := w.Pos(call.Pos())
			adds := callsNamed(w, fn, fxAddSender)
			var sends []ssa.CallInstruction
			for _, x := range an.Calls(fn) {
				if x.Common().StaticCallee() == rmSend {
					sends = append(sends, x)
				}
			}
			if len(adds) == 0 || len(sends) == 0 {
				// registered / started somewhere we do not look into?
				sum := w.Summary(fn)
				viaCallee := false
				for _, ef := range sum.Effects {
					if ef.In != fn && (ef.Name == fxAddSender || ef.Info.Static == rmSend) {
						viaCallee = true
					}
				}
				if cv, ok := call.(*ssa.Call); ok && c22Escapes(w, cv, rmSend) {
					viaCallee = true
				}
				if viaCallee {
					c.Unknown("C22.R1", cons, pos, "a RedundantMessenger is created here and handed to another function (or registered / started in a callee): the register-before-send order could not be followed")
				} else {
					c.Bad("C22.R1", cons, pos, "a RedundantMessenger is created here but not registered with the manager and started in the same function: nothing can ever stop it")
				}
				continue
			}
			retryFns[fn] = true
			var addI []ssa.Instruction
			for _, a := range adds {
				addI = append(addI, a)
			}
			bad, unk := "", ""
			for _, s := range sends {
				if !an.MustPassInstr(s, addI) {
					bad = "a send is reachable without a preceding AddSender"
				}
				// the send must be on the nil-error edge of AddSender
				okDom, tested := false, false
				for _, a := range adds {
					if ac, ok := a.(*ssa.Call); ok {
						okE, failE := an.OkEdges(ac)
						if len(okE)+len(failE) > 0 {
							tested = true
						}
						if len(okE) > 0 && an.EdgesDominate(okE, s.Block()) {
							okDom = true
						}
					}
				}
				if !okDom {
					if tested {
						bad = "a send is reachable after a failed AddSender"
					} else if c22ErrUsed(adds) {
						unk = "the error of AddSender is not tested by a nil comparison: shape not interpreted"
					} else {
						bad = "the error of AddSender is discarded"
					}
				}
			}
			// registered value is the created messenger that is started
			for _, a := range adds {
				args := a.Common().Args
				if len(args) != 2 {
					continue
				}
				reg, regPure := c22CtorCalls(w, args[1], ctors)
				if len(reg) == 0 {
					unk = "the value registered with AddSender could not be traced to a NewRedundantMessenger call"
					continue
				}
				for _, s := range sends {
					sa := s.Common().Args
					if len(sa) == 0 {
						continue
					}
					started, startedPure := c22CtorCalls(w, sa[0], ctors)
					common := false
					for v := range reg {
						if started[v] {
							common = true
						}
					}
					if !common {
						if regPure && startedPure && len(started) > 0 {
							bad = "the messenger that is started is not the one that was registered"
						} else {
							unk = "cannot relate the started messenger to the registered one"
						}
					}
				}
			}
			switch {
			case bad != "":
				c.Bad("C22.R1", cons, pos, "the retransmitter is started without (or before) a successful registration with the manager ("+bad+"): a second one can be started for the same swap and neither is stopped")
			case unk != "":
				c.Unknown("C22.R1", cons, pos, unk)
			default:
				c.OK("C22.R1", cons, pos, "AddSender(id, rm) succeeds before rm.SendMessage starts the goroutine")
			}
		}
	}
	c.AtLeast("C22.R1", "RedundantMessenger creation sites", nNew, 1)

	// Manager.AddSender: map store only on the not-present edge, lock held
	{
		var stores []ssa.Instruction
		for _, b := range mgrAdd.Blocks {
			for _, in := range b.Instrs {
				if mu, ok := in.(*ssa.MapUpdate); ok {
					stores = append(stores, mu)
				}
			}
		}
		// the comma-ok result of a lookup in the map that is stored into (identified
		// by the store's own map operand, not by a field name)
		isPresenceOf := func(mapTerm, keyTerm string) func(an.Fact) bool {
			return func(f an.Fact) bool {
				if f.Rel != "false" && f.Rel != "true" {
					return false
				}
				if keyTerm != "" {
					return f.Atom == mapTerm+"["+keyTerm+"]#1"
				}
				return strings.HasPrefix(f.Atom, mapTerm+"[") && strings.HasSuffix(f.Atom, "#1")
			}
		}
		var locks []ssa.Instruction
		lockSomewhere := false
		for _, x := range an.Calls(mgrAdd) {
			if n := w.Info(x).Name; strings.HasSuffix(n, ").Lock") && !w.Info(x).IsDefer {
				lockSomewhere = true
				if n == "func:(*sync.Mutex).Lock" {
					locks = append(locks, x)
				}
			}
		}
		for _, ef := range w.Summary(mgrAdd).Effects {
			if strings.HasSuffix(ef.Name, ").Lock") {
				lockSomewhere = true
			}
		}
		bad, unk := "", ""
		if len(stores) == 0 {
			unk = "no map store found in AddSender itself"
		}
		for _, st := range stores {
			mu := st.(*ssa.MapUpdate)
			facts := w.FactsDominating(st)
			isPresence := isPresenceOf(w.Term(mu.Map), w.Term(mu.Key))
			hasTest := an.AnyFact(w.Facts(mgrAdd), isPresenceOf(w.Term(mu.Map), ""))
			if !an.AnyFact(facts, func(f an.Fact) bool { return isPresence(f) && f.Rel == "false" }) {
				if hasTest {
					bad = "the map store is not dominated by the not-present edge of the lookup"
				} else {
					unk = "no presence test of the messengers map was recognised"
				}
			}
			if !an.MustPassInstr(st, locks) {
				if lockSomewhere {
					unk = "the lock is taken in a way that could not be followed (other lock type / helper / conditional)"
				} else {
					bad = "the map store is not under the manager's lock"
				}
			}
		}
		cons := "(*messages.Manager).AddSender refuses-duplicate"
		switch {
		case bad != "":
			c.Bad("C22.R1", cons, w.Pos(mgrAdd.Pos()), "AddSender can replace an existing sender (the old goroutine keeps retransmitting and can no longer be stopped): "+bad)
		case unk != "":
			c.Unknown("C22.R1", cons, w.Pos(mgrAdd.Pos()), unk)
		default:
			c.OK("C22.R1", cons, w.Pos(mgrAdd.Pos()), "the map store is dominated by the not-present test, under the lock")
		}
	}

	// ---- R2 ---------------------------------------------------------------------------
	decideStops := func(t *TI, s, cons, okText, badText string) {
		switch v, why := c22StopsFirst(w, t, s); v {
		case 1:
			c.OK("C22.R2", cons, t.pos(c, s), okText)
		case 0:
			c.Unknown("C22.R2", cons, t.pos(c, s), "RemoveSender is reached from this state's action, but not in a shape that could be followed: "+why)
		default:
			c.Bad("C22.R2", cons, t.pos(c, s), badText+" ("+why+")")
		}
	}
	nRetry := 0
	for _, t := range ts {
		for _, s := range t.T.Order {
			isRetry := false
			for _, fn := range t.Sum[s].Execs {
				if retryFns[fn] {
					isRetry = true
				}
			}
			if !isRetry {
				continue
			}
			nRetry++
			e := t.T.States[s]
			wst, ok := e.Events[evSucceeded]
			if !ok {
				c.Bad("C22.R2", t.key(s), t.pos(c, s), "retry-sending state has no success edge")
				continue
			}
			must := map[string]string{}
			for ev, nx := range e.Events {
				if nx != wst {
					must[nx] = s + " --" + ev
				}
			}
			for ev, nx := range t.T.States[wst].Events {
				if nx != wst {
					must[nx] = wst + " --" + ev
				}
			}
			var nxs []string
			for nx := range must {
				nxs = append(nxs, nx)
			}
			sort.Strings(nxs)
			for _, nx := range nxs {
				via := must[nx]
				decideStops(t, nx, t.key(nx)+" stops-retransmission", "RemoveSender(swap id) on every path of the outermost action (entered via "+via+")",
					"the swap leaves the state in which it retransmits opening_tx_broadcasted (via "+via+") into a state whose action does not stop the retransmitter on every path")
			}
		}
		for _, s := range t.terminals() {
			// terminal states of tables that can retransmit
			has := false
			for _, x := range t.T.Order {
				for _, fn := range t.Sum[x].Execs {
					if retryFns[fn] {
						has = true
					}
				}
			}
			if !has {
				continue
			}
			// the cancelled terminal is entered only from before the broadcast; require it for the claimed ones
			if len(t.Sum[s].Sites(fxRemoveSender)) == 0 {
				// acceptable only if unreachable from the retry-sending state
				reach := false
				for _, x := range t.T.Order {
					for _, fn := range t.Sum[x].Execs {
						if retryFns[fn] && t.T.Reach(x)[s] {
							reach = true
						}
					}
				}
				c.Decide(!reach, "C22.R2", t.key(s)+" terminal-stops", t.pos(c, s), "terminal not reachable after retransmission started", "a terminal state reachable after retransmission started does not call RemoveSender")
				continue
			}
			decideStops(t, s, t.key(s)+" terminal-stops", "terminal action removes the sender", "terminal action does not remove the sender on every path")
		}
	}
	c.AtLeast("C22.R2", "retry-sending states", nRetry, 2)

	// ---- R3 ---------------------------------------------------------------------------
	{
		// RemoveSender: calls Stop on the looked-up sender and deletes the entry
		rs := w.Summary(mgrRemove)
		c.Decide(rs.HasEffect("iface:messages.StoppableMessenger.Stop") && rs.HasEffect("builtin:delete"), "C22.R3", "(*messages.Manager).RemoveSender stops-and-deletes", w.Pos(mgrRemove.Pos()), "Stop() on the registered sender and delete from the map", "RemoveSender does not stop the sender / free the slot")
		// Stop closes a channel field (itself or in a callee)
		var closed string
		for _, ef := range w.Summary(rmStop).Effects {
			if ef.Name == "builtin:close" && len(ef.Info.Instr.Common().Args) == 1 {
				closed = w.Term(ef.Info.Instr.Common().Args[0])
			}
		}
		c.Decide(closed != "", "C22.R3", "(*messages.RedundantMessenger).Stop closes-channel", w.Pos(rmStop.Pos()), "closes "+closed, "Stop does not close a channel")
		// the goroutine(s) started by SendMessage: a select with a recv on that
		// channel whose arm returns; sends only on the other arm
		var bodies []*ssa.Function
		seenBody := map[*ssa.Function]bool{}
		var addBody func(g *ssa.Function, depth int)
		addBody = func(g *ssa.Function, depth int) {
			if g == nil || g.Blocks == nil || seenBody[g] || !w.InModule(g) || depth > c22Depth {
				return
			}
			seenBody[g] = true
			bodies = append(bodies, g)
			for _, call := range an.Calls(g) {
				if _, isGo := call.(*ssa.Go); isGo {
					continue
				}
				addBody(call.Common().StaticCallee(), depth+1)
			}
		}
		nGo := 0
		var goSites []*ssa.Go
		type c22StopSel struct {
			g   *ssa.Function
			sel *ssa.Select
			ch  ssa.Value
		}
		var stopSels []c22StopSel
		starters := []*ssa.Function{rmSend}
		for _, ef := range w.Summary(rmSend).Effects {
			if ef.Info.Static != nil && !strings.HasPrefix(ef.Name, "go:") && w.InModule(ef.Info.Static) {
				starters = append(starters, ef.Info.Static)
			}
		}
		for _, sf := range starters {
			for _, call := range an.Calls(sf) {
				if g, isGo := call.(*ssa.Go); isGo {
					nGo++
					goSites = append(goSites, g)
					addBody(g.Common().StaticCallee(), 0)
				}
			}
		}
		verdict, why := 0, "no goroutine with a select found in SendMessage"
		if nGo == 0 {
			why = "SendMessage starts no goroutine with a `go` statement"
		}
		for _, g := range bodies {
			for _, b := range g.Blocks {
				for _, in := range b.Instrs {
					sel, ok := in.(*ssa.Select)
					if !ok {
						continue
					}
					stopIdx := -1
					for i, st := range sel.States {
						if st.Dir != 2 /* types.RecvOnly */ || closed == "" {
							continue
						}
						if w.Term(st.Chan) == closed {
							stopIdx = i
						} else if v := c22CapturedOnce(st.Chan); v != nil && w.Term(v) == closed {
							stopIdx = i // a local copy of the channel, captured by the closure
						}
					}
					if stopIdx < 0 {
						if verdict == 0 {
							why = "the sender goroutine's select has no receive that could be matched to the channel that Stop closes (" + closed + ")"
						}
						continue
					}
					stopSels = append(stopSels, c22StopSel{g, sel, sel.States[stopIdx].Chan})
					// the stop arm must reach a return without reaching a send or the select again
					v, y := c22StopArmReturns(w, g, sel, stopIdx)
					if v == -1 || verdict == 0 {
						verdict, why = v, y
					}
				}
			}
		}
		cons := "(*messages.RedundantMessenger).SendMessage goroutine-stops"
		switch verdict {
		case 1:
			c.OK("C22.R3", cons, w.Pos(rmSend.Pos()), "the stop arm returns without sending")
		case -1:
			c.Bad("C22.R3", cons, w.Pos(rmSend.Pos()), why)
		default:
			c.Unknown("C22.R3", cons, w.Pos(rmSend.Pos()), why)
		}
		// the channel the goroutine waits on is, for its whole life, the object Stop closes
		for _, ss := range stopSels {
			v, y := c22StopChannelStable(w, ss.sel, ss.ch, goSites)
			cons := "(*messages.RedundantMessenger).SendMessage stop-channel-stable"
			switch v {
			case 1:
				c.OK("C22.R3", cons, w.Pos(ss.sel.Pos()), y)
			case -1:
				c.Bad("C22.R3", cons, w.Pos(ss.sel.Pos()), y)
			default:
				c.Unknown("C22.R3", cons, w.Pos(ss.sel.Pos()), y)
			}
		}
	}

	// ---- R4 ---------------------------------------------------------------------------
	for _, site := range findCallSites(w, fxAddSender) {
		fn := site.Parent()
		v := c22OnlyFromRetry(w, fn, retryFns, 0)
		cons := w.FuncName(fn) + " AddSender"
		switch v {
		case 1:
			c.OK("C22.R4", cons, w.Pos(site.Pos()), "sender added by a retry-sending action")
		case 0:
			c.Unknown("C22.R4", cons, w.Pos(site.Pos()), "AddSender is called in a helper / closure whose callers could not all be followed")
		default:
			c.Bad("C22.R4", cons, w.Pos(site.Pos()), "a sender is registered outside the retry-sending action")
		}
	}
	// retry-sending functions are run only by their table states (not by Recover specials or service helpers)
	var rfs []*ssa.Function
	for fn := range retryFns {
		rfs = append(rfs, fn)
	}
	sort.Slice(rfs, func(i, j int) bool { return w.FuncName(rfs[i]) < w.FuncName(rfs[j]) })
	for _, fn := range rfs {
		users := 0
		for _, f2 := range prodFuncs(w) {
			for _, call := range an.Calls(f2) {
				if call.Common().StaticCallee() == fn {
					users++
				}
			}
		}
		c.Decide(users == 0, "C22.R4", w.FuncName(fn)+" only-via-table", w.Pos(fn.Pos()), "invoked only through the state tables", "the retry-sending action is also invoked directly outside the tables")
	}
}

// c22FromCtor: every source of v is the result of a constructor call.
func c22FromCtor(w *an.World, v ssa.Value, ctors map[*ssa.Function]bool) bool {
	calls, pure := c22CtorCalls(w, v, ctors)
	return pure && len(calls) > 0
}

// c22CtorCalls returns the constructor calls v may come from (within its
// function) and whether it comes from nothing else.
func c22CtorCalls(w *an.World, v ssa.Value, ctors map[*ssa.Function]bool) (map[ssa.Value]bool, bool) {
	out := map[ssa.Value]bool{}
	pure := true
	src := w.Sources(v, an.FlowOpts{})
	for _, l := range src.Leaves {
		if l.Kind == "call" && l.Call != nil {
			if g := l.Call.Common().StaticCallee(); g != nil && ctors[g] {
				out[l.Call] = true
				continue
			}
		}
		pure = false
	}
	return out, pure && len(src.Leaves) > 0
}

// c22Escapes: the created messenger is returned, stored outside locals or passed
// to an in-module function other than its own SendMessage.
func c22Escapes(w *an.World, created *ssa.Call, rmSend *ssa.Function) bool {
	seen := map[ssa.Value]bool{}
	esc := false
	var rec func(v ssa.Value)
	rec = func(v ssa.Value) {
		if seen[v] || v.Referrers() == nil {
			return
		}
		seen[v] = true
		for _, r := range *v.Referrers() {
			switch x := r.(type) {
			case *ssa.MakeInterface:
				rec(x)
			case *ssa.ChangeInterface:
				rec(x)
			case *ssa.ChangeType:
				rec(x)
			case *ssa.Phi:
				rec(x)
			case *ssa.Return, *ssa.MakeClosure:
				esc = true
			case *ssa.Store:
				if al, ok := x.Addr.(*ssa.Alloc); ok && x.Val == v {
					for _, ld := range an.LoadsReachedBy(x) {
						rec(ld)
					}
					_ = al
				} else if x.Val == v {
					esc = true
				}
			case ssa.CallInstruction:
				g := x.Common().StaticCallee()
				if g == rmSend {
					continue
				}
				if g == nil || w.InModule(g) {
					esc = true
				}
			}
		}
	}
	rec(created)
	return esc
}

func c22ErrUsed(adds []ssa.CallInstruction) bool {
	for _, a := range adds {
		if ac, ok := a.(*ssa.Call); ok {
			for _, rv := range an.ResultValues(ac, an.ErrResultIndex(ac)) {
				if rv.Referrers() != nil && len(*rv.Referrers()) > 0 {
					return true
				}
			}
		}
	}
	return false
}

// c22OnlyFromRetry: fn is a retry-sending action, or every production caller
// chain of fn starts in one: 1 yes, -1 no, 0 cannot follow.
func c22OnlyFromRetry(w *an.World, fn *ssa.Function, retryFns map[*ssa.Function]bool, depth int) int {
	if retryFns[fn] {
		return 1
	}
	if fn.Parent() != nil {
		// a closure: judged by the function that creates it
		return c22OnlyFromRetry(w, an.EnclosingTop(fn), retryFns, depth)
	}
	if depth >= c22Depth {
		return 0
	}
	var callers []*ssa.Function
	for _, f2 := range prodFuncs(w) {
		if isDummy(w, f2) {
			continue
		}
		for _, call := range an.Calls(f2) {
			if call.Common().StaticCallee() == fn {
				callers = append(callers, f2)
			}
		}
	}
	if len(callers) == 0 {
		return -1
	}
	worst := 1
	for _, f2 := range callers {
		if v := c22OnlyFromRetry(w, f2, retryFns, depth+1); v < worst {
			worst = v
		}
	}
	return worst
}

// c22StopsFirst: the outermost action of state s calls RemoveSender with the
// swap id on every path before it returns: 1 yes, -1 established that it does
// not, 0 RemoveSender is reached in a shape that could not be followed.
func c22StopsFirst(w *an.World, t *TI, s string) (int, string) {
	ss := t.Sum[s]
	if len(ss.Sites(fxRemoveSender)) == 0 {
		return -1, "no RemoveSender call in the action's call tree"
	}
	for i, fn := range ss.Execs {
		v, why := c22FnStopsFirst(w, fn)
		if v == 1 {
			return 1, ""
		}
		// a pure wrapper (every return is the result of next.Execute) passes the
		// obligation on to the next action of the tree
		pure := i+1 < len(ss.Execs)
		for _, r := range an.Returns(fn) {
			for _, res := range r.Results {
				evs := eventValues(w, res)
				if len(evs) != 1 || evs[0] != "NEXT" {
					pure = false
				}
			}
		}
		if !pure || c22ReachesRemove(w, fn) {
			return v, why
		}
	}
	return -1, "no action of the tree removes the sender before it returns"
}

func c22ReachesRemove(w *an.World, fn *ssa.Function) bool {
	return w.Summary(fn).HasEffect(fxRemoveSender)
}

// c22IdArg judges the id argument of a RemoveSender call in the frame of fn:
// 1 it is the swap id, -1 it is definitely something else, 0 unknown. params
// maps parameters of fn to the arguments bound at the call under consideration.
func c22IdArg(w *an.World, v ssa.Value, bind map[*ssa.Parameter]ssa.Value, depth int) int {
	isId := func(names []string) bool {
		for _, n := range names {
			if strings.Contains(n, "SwapId") || strings.Contains(n, ".GetId") {
				return true
			}
		}
		return false
	}
	src := w.Sources(v, an.FlowOpts{})
	if isId(src.Names()) {
		return 1
	}
	// through the helper's parameter to the caller's argument
	worst := 1
	bound := false
	for _, l := range src.Leaves {
		if p, ok := l.Val.(*ssa.Parameter); ok && l.Kind == "param" && bind[p] != nil && depth < c22Depth {
			bound = true
			if r := c22IdArg(w, bind[p], nil, depth+1); r < worst {
				worst = r
			}
		}
	}
	if bound && worst == 1 && len(src.Leaves) == 1 {
		return 1
	}
	// an id produced by an in-module helper (swapKey(swap))
	if isId(w.Sources(v, an.FlowOpts{IntoCallees: true}).Names()) {
		return 1
	}
	definite := len(src.Leaves) > 0
	for _, l := range src.Leaves {
		switch {
		case l.Kind == "const":
		case l.Kind == "field" && strings.HasPrefix(l.Name, "SwapData."):
		default:
			definite = false
		}
	}
	if definite {
		return -1
	}
	return 0
}

// c22RemovePoints lists the instructions of fn after which RemoveSender(swap id)
// has been called: direct calls, and calls of in-module functions that call it
// on every path to each of their returns. wrongId / opaque report why points
// were rejected.
func c22RemovePoints(w *an.World, fn *ssa.Function, bind map[*ssa.Parameter]ssa.Value, depth int, seen map[*ssa.Function]bool) (pts []ssa.Instruction, wrongId, opaque bool) {
	if seen[fn] {
		return nil, false, false
	}
	seen[fn] = true
	defer delete(seen, fn)
	for _, call := range an.Calls(fn) {
		ci := w.Info(call)
		if _, isGo := call.(*ssa.Go); isGo {
			if ci.Name == fxRemoveSender {
				opaque = true
			}
			continue
		}
		if ci.Name == fxRemoveSender {
			args := call.Common().Args
			if len(args) != 1 {
				opaque = true
				continue
			}
			switch c22IdArg(w, args[0], bind, depth) {
			case 1:
				pts = append(pts, call)
			case -1:
				wrongId = true
			default:
				opaque = true
			}
			continue
		}
		g := ci.Static
		if g == nil || !w.InModule(g) || g.Blocks == nil || !w.Summary(g).HasEffect(fxRemoveSender) {
			continue
		}
		if depth >= c22Depth {
			opaque = true
			continue
		}
		b2 := map[*ssa.Parameter]ssa.Value{}
		for k, a := range call.Common().Args {
			if k < len(g.Params) {
				// resolve the argument through our own binding first
				if p, ok := a.(*ssa.Parameter); ok && bind[p] != nil {
					a = bind[p]
				}
				b2[g.Params[k]] = a
			}
		}
		sub, wr, op := c22RemovePoints(w, g, b2, depth+1, seen)
		if wr {
			wrongId = true
		}
		if op {
			opaque = true
		}
		rets := an.Returns(g)
		all := len(sub) > 0 && len(rets) > 0
		for _, r := range rets {
			if !an.MustPassInstr(r, sub) {
				all = false
			}
		}
		if all {
			pts = append(pts, call)
		} else if !(len(sub) == 0 && wr && !op) {
			opaque = true // removal happens in the callee, but not on all of its paths
		}
	}
	return pts, wrongId, opaque
}

func c22FnStopsFirst(w *an.World, fn *ssa.Function) (int, string) {
	rem, wrongId, opaque := c22RemovePoints(w, fn, nil, 0, map[*ssa.Function]bool{})
	fail := func(why string) (int, string) {
		if opaque {
			return 0, why + " (a RemoveSender call inside a helper, closure or with an id that could not be traced was not counted)"
		}
		return -1, why
	}
	if len(rem) == 0 {
		if wrongId {
			return fail("RemoveSender is called with something other than the swap id")
		}
		return fail("no RemoveSender(swap id) call in " + w.FuncName(fn))
	}
	for _, r := range an.Returns(fn) {
		if !an.MustPassInstr(r, rem) {
			return fail("a return of " + w.FuncName(fn) + " is reachable without RemoveSender")
		}
	}
	// and before delegating to the next action
	for _, ex := range callsNamed(w, fn, fxActionExecute) {
		if !an.MustPassInstr(ex, rem) {
			return fail("the next action is run before RemoveSender")
		}
	}
	return 1, ""
}

// c22StopArmReturns checks the select loop of the sender goroutine: 1 the stop
// arm returns without sending, -1 it does not, 0 the select's lowering could not
// be interpreted.
func c22StopArmReturns(w *an.World, g *ssa.Function, sel *ssa.Select, stopIdx int) (int, string) {
	// the selected index is Extract #0 of the select; find the If chain testing it
	var idx ssa.Value
	if sel.Referrers() != nil {
		for _, r := range *sel.Referrers() {
			if ex, ok := r.(*ssa.Extract); ok && ex.Index == 0 {
				idx = ex
			}
		}
	}
	if idx == nil {
		return 0, "cannot find the select's chosen-index value"
	}
	var stopStart *ssa.BasicBlock
	if idx.Referrers() != nil {
		for _, r := range *idx.Referrers() {
			bo, ok := r.(*ssa.BinOp)
			if !ok || bo.Op != token.EQL {
				continue
			}
			k, ok := an.ConstInt(bo.Y)
			if !ok || int(k) != stopIdx {
				continue
			}
			for _, ce := range an.CondUses(bo) {
				stopStart = ce.True.To()
			}
		}
	}
	if stopStart == nil {
		// last arm of a blocking select is the else branch of the chain
		return 0, "cannot isolate the stop arm of the select"
	}
	stop := map[*ssa.BasicBlock]bool{sel.Block(): true}
	reach := an.ReachBlocks([]*ssa.BasicBlock{stopStart}, nil, stop)
	if reach[sel.Block()] {
		return -1, "after Stop() the sender goroutine loops back into the select instead of returning: retransmission never stops"
	}
	for b := range reach {
		for _, in := range b.Instrs {
			if call, ok := in.(ssa.CallInstruction); ok {
				if n := w.Info(call).Name; strings.HasSuffix(n, "Messenger.SendMessage") {
					return -1, "the stop arm still sends a message"
				}
			}
		}
	}
	ret := false
	for _, r := range an.Returns(g) {
		if reach[r.Block()] {
			ret = true
		}
	}
	if !ret {
		return -1, "the stop arm does not return"
	}
	return 1, ""
}

// c22StopChannelStable: the channel on which the sender goroutine's select waits
// for the stop signal cannot be replaced while the goroutine runs. Either the
// goroutine holds the channel value itself (captured before its loop, a
// parameter or a closure variable), or it re-reads a field on every pass and
// that field is written only when the object is built (store into a freshly
// allocated object) or before the `go` statement of the function that starts the
// goroutine: 1 yes, -1 another function writes the field, 0 cannot trace.
func c22StopChannelStable(w *an.World, sel *ssa.Select, ch ssa.Value, goSites []*ssa.Go) (int, string) {
	inLoop := func(b *ssa.BasicBlock) bool {
		fromSel := an.ReachBlocks(sel.Block().Succs, nil, nil)
		if !fromSel[sel.Block()] || !fromSel[b] {
			return false // the select is not in a loop, or b is not reached again after it
		}
		return an.ReachBlocks(b.Succs, nil, nil)[sel.Block()] || b == sel.Block()
	}
	var fa *ssa.FieldAddr
	switch x := ch.(type) {
	case *ssa.Parameter:
		return 1, "the goroutine receives the channel value as a parameter: it cannot be replaced under it"
	case *ssa.FreeVar:
		if _, isPtr := x.Type().Underlying().(*types.Pointer); isPtr {
			return 0, "the stop channel is a variable captured by reference: its writers were not traced"
		}
		return 1, "the goroutine captured the channel value before it started: it cannot be replaced under it"
	case *ssa.UnOp:
		if x.Op != token.MUL {
			return 0, "the stop channel of the select is computed in a way that was not traced"
		}
		if c22CapturedOnce(x) != nil {
			return 1, "the goroutine waits on a local copy of the channel that is assigned once, before the goroutine starts"
		}
		f, ok := x.X.(*ssa.FieldAddr)
		if !ok {
			return 0, "the stop channel is loaded from something other than a struct field: not traced"
		}
		if !inLoop(x.Block()) {
			return 1, "the goroutine reads the channel field once, before its loop"
		}
		fa = f
	default:
		return 0, "the stop channel of the select is computed in a way that was not traced"
	}
	key := an.FieldName(fa.X.Type(), fa.Field)
	var bad []string
	n := 0
	for _, st := range w.FieldWriters(key) {
		fn := st.Parent()
		if an.IsTestSupport(w.FnRel(fn)) || isDummy(w, fn) {
			continue
		}
		n++
		sfa, ok := st.Addr.(*ssa.FieldAddr)
		if !ok {
			return 0, "a store to " + key + " in " + w.FuncName(fn) + " could not be interpreted"
		}
		if _, fresh := sfa.X.(*ssa.Alloc); fresh {
			continue // initialisation of a newly built object
		}
		// initialisation that precedes the `go` statement in the starting function
		before := false
		for _, g := range goSites {
			if g.Parent() != fn {
				continue
			}
			after := an.ReachFromInstr(g)[st.Block()] || (g.Block() == st.Block() && an.InstrIndex(st) > an.InstrIndex(g))
			if !after && an.MustPassInstr(g, []ssa.Instruction{st}) {
				before = true
			}
		}
		if before {
			continue
		}
		bad = append(bad, w.FuncName(fn)+" ("+w.Pos(st.Pos())+")")
	}
	if len(bad) > 0 {
		sort.Strings(bad)
		return -1, "the sender goroutine re-reads the field " + key + " on every pass through its select, and " + strings.Join(bad, ", ") + " stores a new channel into it: a goroutine that is busy sending while that store runs comes back to a fresh, open channel, never sees the close and retransmits forever although the manager dropped the sender"
	}
	if n == 0 {
		return 0, "no store to " + key + " found: where the channel is created was not traced"
	}
	return 1, "the field " + key + " is written only when the messenger is built (or before the go statement)"
}

// c22CapturedOnce: v is the load of a closure variable (captured by reference)
// that is assigned exactly once in the enclosing function; returns the assigned
// value, else nil.
func c22CapturedOnce(v ssa.Value) ssa.Value {
	ld, ok := v.(*ssa.UnOp)
	if !ok || ld.Op != token.MUL {
		return nil
	}
	fv, ok := ld.X.(*ssa.FreeVar)
	if !ok {
		return nil
	}
	fn := fv.Parent()
	idx := -1
	for i, x := range fn.FreeVars {
		if x == fv {
			idx = i
		}
	}
	par := fn.Parent()
	if par == nil || idx < 0 {
		return nil
	}
	var al *ssa.Alloc
	for _, b := range par.Blocks {
		for _, in := range b.Instrs {
			if mc, ok := in.(*ssa.MakeClosure); ok && mc.Fn == fn && idx < len(mc.Bindings) {
				a, ok := mc.Bindings[idx].(*ssa.Alloc)
				if !ok || (al != nil && al != a) {
					return nil
				}
				al = a
			}
		}
	}
	if al == nil || al.Referrers() == nil {
		return nil
	}
	var val ssa.Value
	for _, r := range *al.Referrers() {
		switch x := r.(type) {
		case *ssa.Store:
			if x.Addr != al || val != nil {
				return nil
			}
			val = x.Val
		case *ssa.MakeClosure, *ssa.UnOp, *ssa.DebugRef:
		default:
			return nil // address escapes
		}
	}
	// other closures must not write it either
	for _, af := range par.AnonFuncs {
		for i, b := range af.FreeVars {
			_ = i
			if b.Referrers() == nil {
				continue
			}
			for _, r := range *b.Referrers() {
				if st, ok := r.(*ssa.Store); ok && st.Addr == ssa.Value(b) {
					// a closure stores into one of its captured variables: is it ours?
					for _, pb := range par.Blocks {
						for _, in := range pb.Instrs {
							if mc, ok := in.(*ssa.MakeClosure); ok && mc.Fn == af && i < len(mc.Bindings) && mc.Bindings[i] == ssa.Value(al) {
								return nil
							}
						}
					}
				}
			}
		}
	}
	return val
}
