package rules

import (
	"fmt"
	"go/constant"
	"go/token"
	"go/types"
	"reflect"
	"regexp"
	"sort"
	"strings"

	"golang.org/x/tools/go/ssa"

	"psv/internal/an"
)

func init() {
	Register(&Prop{
		ID: "C25",
		Expl: "Decides the structural form of the invariant 'the in-memory policy is a pure function of the policy file': " +
			"(R1) over ALL stores of the production program into a policy.Policy object: each one initialises a freshly allocated object, or is the whole-object overwrite with the value just parsed from the file, or restores the path field with the value it had before that overwrite; no mutator edits a field in place, and every success return after the overwrite has the path restored; " +
			"(R2) over ALL methods of *Policy that reach a file write: every file write is dominated by policy.mu.Lock, every read of policy memory that feeds a branch of the mutator (already-listed / already-in-target-state tests, directly or through a helper handed the receiver) happens with policy.mu held, i.e. test, write and reload are one critical section, by the pubkey validator passing on the very parameter that is written (validator = anchored regexp over the whole string, decided by interpreting the pattern constant on probe strings) and, for additions, by the not-already-present test on the list the written ini key belongs to; every path from a successful write to a return reloads the file first, the reload error is not dropped, and a nil return that wrote nothing is justified by a dominating test that memory already equals the written value; " +
			"(R3) the ini lines: every written key is the ini name of a Policy field of the matching type, the line appended and the line removed for the same key have the same format, and the two toggles write/remove each other's lines; the rewrite helper copies a scanned line into the new file only on the edge `line != argument` (directly, or through a generic filter whose predicate closure is exactly that comparison), so every copy of the target line is dropped and the match is on the whole `key=value` line; a remove-mutator that hands the helper the bare parameter while no ini key is known to the helper is reported; " +
			"Guards, the lock and the reload are also recognised when they sit in an in-module helper whose tested outcome implies them, or (lock, fresh-object initialisers, path restore) in every caller of an unexported function; shapes that are not interpreted end as undecided, never as a violation. (R4) every non-mutating method of the swap.Policy interface (and Get) computes its result only from the live fields of its receiver. The quantifier is over all stores, all mutators, all their CFG paths and all written lines, i.e. over all sequences of operations.",
		NotD: "Semantics of the go-flags ini parser (sections, `key = value` spelling, last-wins for repeated scalar keys), a pre-existing file without trailing newline and whether a rewrite that does not use bufio.Scanner re-terminates every kept line (only the raw strings.Split(content, newline) comparison, which never matches on CRLF files, is reported; other splitting shapes end undecided), file-system atomicity and I/O failures between the two writes of a toggle, in-place mutation of a list through a library call or through the slices returned by Get(), whether the lock is held by readers (owned by C19; listed as info under R4).",
		Run:  runC25,
	})
}

// c25ReportErrorPathAsViolation: an error return between the whole-object
// overwrite and the path restore loses the path. It needs an environment fault
// (open(2) failing), which is outside the property's quantifier, so it is
// reported as info, not as a violation.
const c25ReportErrorPathAsViolation = false

type c25ctx struct {
	c     *an.Check
	w     *an.World
	polT  *types.Named
	polSt *types.Struct
	mu    *ssa.Global
	// ini key -> field index
	iniKey  map[string]int
	callers map[*ssa.Function][]ssa.CallInstruction
	acq     map[*ssa.Function]bool
}

func runC25(c *an.Check) {
	c.Rule("C25.R1", "every store into a policy.Policy object is an initialisation of a fresh object, the whole-object overwrite with the freshly parsed file, or the restore of `path`; success returns after the overwrite have `path` restored")
	c.Rule("C25.R2", "mutators: file writes under policy.mu and dominated by validator(param) [and not-present(list of the key, param) for additions]; write ⇒ reload before every return; reload error propagated; nil-without-write only when memory already equals the target")
	c.Rule("C25.R3", "written ini keys are the ini names of Policy fields of the right type; add/remove formats of a key agree; toggles write/remove each other's lines")
	c.Rule("C25.R4", "non-mutating swap.Policy methods and Get derive their result only from live receiver fields (lock discipline: info, owned by C19)")
	w := c.W
	x := &c25ctx{c: c, w: w, iniKey: map[string]int{}}
	x.polT = w.Named("policy", "Policy")
	if x.polT == nil {
		c.Anchor("type policy.Policy does not resolve")
		return
	}
	st, ok := x.polT.Underlying().(*types.Struct)
	if !ok {
		c.Anchor("policy.Policy is not a struct")
		return
	}
	x.polSt = st
	if sp := w.SSA["policy"]; sp != nil {
		if g, ok := sp.Members["mu"].(*ssa.Global); ok {
			x.mu = g
		}
	}
	if x.mu == nil {
		c.Anchor("package-level mutex policy.mu does not resolve")
		return
	}
	for i := 0; i < st.NumFields(); i++ {
		tag := reflect.StructTag(st.Tag(i))
		if tag.Get("no-ini") != "" {
			continue
		}
		k := tag.Get("ini-name")
		if k == "" {
			k = tag.Get("long")
		}
		if k != "" {
			x.iniKey[k] = i
		}
	}
	if !c.AtLeast("C25", "Policy fields with an ini name", len(x.iniKey), 6) {
		return
	}
	overwriters := x.r1()
	muts := x.r2(overwriters)
	x.r3(muts)
	x.r4(muts)
}

// ---- small SSA helpers ----------------------------------------------------------

func (x *c25ctx) isPol(t types.Type) bool {
	n := an.NamedOf(t)
	return n != nil && n.Obj() == x.polT.Obj()
}

func (x *c25ctx) isPolPtr(t types.Type) bool {
	p, ok := t.Underlying().(*types.Pointer)
	if !ok {
		return false
	}
	n, ok := p.Elem().(*types.Named)
	return ok && n.Obj() == x.polT.Obj()
}

func (x *c25ctx) isPolVal(t types.Type) bool {
	n, ok := t.(*types.Named)
	return ok && n.Obj() == x.polT.Obj()
}

// reachable returns of fn (the recover block is not reachable from the entry).
func c25Returns(fn *ssa.Function) []*ssa.Return {
	if len(fn.Blocks) == 0 {
		return nil
	}
	reach := an.ReachBlocks([]*ssa.BasicBlock{fn.Blocks[0]}, nil, nil)
	var out []*ssa.Return
	for _, r := range an.Returns(fn) {
		if reach[r.Block()] {
			out = append(out, r)
		}
	}
	return out
}

// c25RetVals resolves result #idx of a return through the `*t0 = v; rundefers;
// t = *t0; return t` shape that named/deferred returns take in SSA.
func c25RetVals(r *ssa.Return, idx int) []ssa.Value {
	if idx >= len(r.Results) {
		return nil
	}
	v := r.Results[idx]
	ld, ok := v.(*ssa.UnOp)
	if !ok || ld.Op != token.MUL {
		return []ssa.Value{v}
	}
	al, ok := ld.X.(*ssa.Alloc)
	if !ok {
		return []ssa.Value{v}
	}
	// the last store to al before the load in the same block
	var last ssa.Value
	for _, in := range r.Block().Instrs {
		if in == ssa.Instruction(ld) {
			break
		}
		if s, ok := in.(*ssa.Store); ok && s.Addr == al {
			last = s.Val
		}
	}
	if last != nil {
		return []ssa.Value{last}
	}
	var out []ssa.Value
	if al.Referrers() != nil {
		for _, ref := range *al.Referrers() {
			if s, ok := ref.(*ssa.Store); ok && s.Addr == al {
				out = append(out, s.Val)
			}
		}
	}
	if len(out) == 0 {
		return []ssa.Value{v}
	}
	return out
}

// freshPtr: v is a pointer to an object allocated on the way (never the
// published policy): an Alloc, or the result of an in-module function all of
// whose results are fresh.
func (x *c25ctx) freshPtr(v ssa.Value, depth int, seen map[ssa.Value]bool) bool {
	if depth > 6 || seen[v] {
		return depth <= 6
	}
	seen[v] = true
	switch y := v.(type) {
	case *ssa.Alloc:
		return true
	case *ssa.Const:
		return y.Value == nil
	case *ssa.Phi:
		for _, e := range y.Edges {
			if !x.freshPtr(e, depth, seen) {
				return false
			}
		}
		return true
	case *ssa.Extract:
		if call, ok := y.Tuple.(*ssa.Call); ok {
			return x.freshCall(call, y.Index, depth, seen)
		}
	case *ssa.Call:
		return x.freshCall(y, 0, depth, seen)
	}
	return false
}

func (x *c25ctx) freshCall(call *ssa.Call, idx, depth int, seen map[ssa.Value]bool) bool {
	f := x.w.Info(call).Static
	if f == nil || !x.w.InModule(f) || f.Blocks == nil {
		return false
	}
	rets := c25Returns(f)
	if len(rets) == 0 {
		return false
	}
	for _, r := range rets {
		for _, v := range c25RetVals(r, idx) {
			if !x.freshPtr(v, depth+1, seen) {
				return false
			}
		}
	}
	return true
}

func (x *c25ctx) fresh(v ssa.Value) bool { return x.freshPtr(v, 0, map[ssa.Value]bool{}) }

// parsedFromFile: the pointer comes from an in-module call that (transitively)
// runs the ini parser.
func (x *c25ctx) parsedFromFile(v ssa.Value) bool {
	var call *ssa.Call
	switch y := v.(type) {
	case *ssa.Extract:
		call, _ = y.Tuple.(*ssa.Call)
	case *ssa.Call:
		call = y
	}
	if call == nil {
		return false
	}
	f := x.w.Info(call).Static
	if f == nil || !x.w.InModule(f) {
		return false
	}
	for _, e := range x.w.Summary(f).Effects {
		if strings.HasSuffix(e.Name, "go-flags.IniParser).Parse") {
			return true
		}
	}
	return false
}

func (x *c25ctx) fieldIdx(name string) int {
	for i := 0; i < x.polSt.NumFields(); i++ {
		if x.polSt.Field(i).Name() == name {
			return i
		}
	}
	return -1
}

// polFieldLoad: v is a load `*(&base.F)` (or base.F) of a Policy field; returns base, field index.
func (x *c25ctx) polFieldLoad(v ssa.Value) (ssa.Value, int, ssa.Instruction) {
	switch y := v.(type) {
	case *ssa.UnOp:
		if y.Op == token.MUL {
			if fa, ok := y.X.(*ssa.FieldAddr); ok && x.isPolPtr(fa.X.Type()) {
				return fa.X, fa.Field, y
			}
		}
	case *ssa.Field:
		if x.isPolVal(y.X.Type()) {
			return y.X, y.Field, y
		}
	}
	return nil, -1, nil
}

// after reports whether instruction b can execute after instruction a.
func c25After(a, b ssa.Instruction) bool {
	if a.Block() == b.Block() {
		if an.InstrIndex(b) > an.InstrIndex(a) {
			return true
		}
	}
	return an.ReachFromInstr(a)[b.Block()] && (a.Block() != b.Block() || c25InLoop(a.Block()))
}

func c25InLoop(b *ssa.BasicBlock) bool { return an.ReachBlocks(b.Succs, nil, nil)[b] }

// ---- R1 -------------------------------------------------------------------------------

type c25restore struct {
	st   *ssa.Store
	base ssa.Value
	load ssa.Instruction
}

func c25exported(fn *ssa.Function) bool { return fn.Object() != nil && fn.Object().Exported() }

// c25root strips loads/field selections down to the base value.
func c25root(v ssa.Value) ssa.Value {
	for {
		switch y := v.(type) {
		case *ssa.UnOp:
			if y.Op == token.MUL {
				v = y.X
				continue
			}
		case *ssa.FieldAddr:
			v = y.X
			continue
		case *ssa.Field:
			v = y.X
			continue
		}
		return v
	}
}

// staticCallers lists the production call sites whose static callee is fn.
func (x *c25ctx) staticCallers(fn *ssa.Function) []ssa.CallInstruction {
	if x.callers == nil {
		x.callers = map[*ssa.Function][]ssa.CallInstruction{}
		for _, g := range prodFuncs(x.w) {
			for _, ci := range an.Calls(g) {
				if f := x.w.Info(ci).Static; f != nil && x.w.InModule(f) {
					x.callers[f] = append(x.callers[f], ci)
				}
			}
		}
	}
	return x.callers[fn]
}

// liveness decides whether a *Policy value is a freshly allocated object
// ("fresh"), the published object ("live") or neither can be established.
func (x *c25ctx) liveness(v ssa.Value, depth int) (string, string) {
	if x.fresh(v) {
		return "fresh", "allocated on the way"
	}
	if depth > 3 {
		return "unknown", "call chain too deep"
	}
	switch y := v.(type) {
	case *ssa.Parameter:
		fn := y.Parent()
		idx := -1
		for i, p := range fn.Params {
			if p == y {
				idx = i
			}
		}
		if fn.Parent() != nil || idx < 0 {
			return "unknown", "parameter of a closure"
		}
		if c25exported(fn) && (fn.Signature.Recv() == nil || x.w.FnRel(fn) == "policy") && fn.Signature.Recv() != nil && idx == 0 {
			return "live", "receiver of the exported method " + x.w.FuncName(fn)
		}
		sites := x.staticCallers(fn)
		if len(sites) == 0 {
			if c25exported(fn) {
				return "live", "parameter of the exported function " + x.w.FuncName(fn) + " that any caller can hand the published policy"
			}
			return "unknown", x.w.FuncName(fn) + " has no static caller"
		}
		allFresh := true
		for _, s := range sites {
			if idx >= len(s.Common().Args) {
				return "unknown", "argument not found at a call of " + x.w.FuncName(fn)
			}
			l, why := x.liveness(s.Common().Args[idx], depth+1)
			if l == "live" {
				return "live", "called from " + x.w.FuncName(s.Parent()) + " with " + why
			}
			if l != "fresh" {
				allFresh = false
			}
		}
		if allFresh {
			return "fresh", "every caller passes a fresh object"
		}
		return "unknown", "some caller of " + x.w.FuncName(fn) + " passes an object of unknown origin"
	case *ssa.UnOp:
		if y.Op == token.MUL {
			switch y.X.(type) {
			case *ssa.FieldAddr, *ssa.Global:
				return "live", "the pointer is read from a field or package variable: " + x.w.Term(v)
			}
		}
	case *ssa.Phi:
		res := "fresh"
		for _, e := range y.Edges {
			l, why := x.liveness(e, depth+1)
			if l == "live" {
				return l, why
			}
			if l != "fresh" {
				res = "unknown"
			}
		}
		return res, "phi"
	}
	return "unknown", "origin of " + x.w.Term(v) + " not understood"
}

// parsedHere: the fresh pointer is handed to a call in fn and fn itself runs the ini parser
// (create inlined into the overwriting function).
func (x *c25ctx) parsedHere(fn *ssa.Function, ptr ssa.Value) bool {
	parses := false
	for _, e := range x.w.Summary(fn).Effects {
		if strings.HasSuffix(e.Name, "go-flags.IniParser).Parse") {
			parses = true
		}
	}
	return parses && x.escapesToCall(ptr)
}

func (x *c25ctx) escapesToCall(ptr ssa.Value) bool {
	if ptr.Referrers() == nil {
		return false
	}
	for _, ref := range *ptr.Referrers() {
		switch y := ref.(type) {
		case ssa.CallInstruction:
			return true
		case *ssa.MakeInterface:
			if y.Referrers() != nil {
				for _, r2 := range *y.Referrers() {
					if _, ok := r2.(ssa.CallInstruction); ok {
						return true
					}
				}
			}
		}
	}
	return false
}

// pathLostVerdict: fn returns success with an empty path. That is a violation
// when fn is an entry point (exported) or when some caller chain up to an entry
// point does not restore the path; "ok" when every caller restores it.
func (x *c25ctx) pathLostVerdict(fn *ssa.Function, restores map[*ssa.Function][]c25restore, over map[*ssa.Function]*c25overwrite, depth int) (string, string) {
	if c25exported(fn) {
		return "bad", "exported function " + x.w.FuncName(fn)
	}
	if depth > 3 {
		return "unknown", "call chain too deep"
	}
	sites := x.staticCallers(fn)
	if len(sites) == 0 {
		return "unknown", x.w.FuncName(fn) + " is unexported and has no static caller"
	}
	res, why := "ok", "callers of "+x.w.FuncName(fn)+" restore the path"
	for _, s := range sites {
		caller := s.Parent()
		call, isCall := s.(*ssa.Call)
		if !isCall || len(s.Common().Args) == 0 {
			return "unknown", "deferred or asynchronous call of " + x.w.FuncName(fn)
		}
		base := s.Common().Args[0]
		stop := map[*ssa.BasicBlock]bool{}
		same := false
		for _, rs := range restores[caller] {
			if rs.base == base && !c25After(s, rs.load) {
				if rs.st.Block() == s.Block() && an.InstrIndex(rs.st) > an.InstrIndex(s) {
					same = true
				}
				stop[rs.st.Block()] = true
			}
		}
		if same {
			continue
		}
		okE, _ := an.OkEdges(call)
		var start []*ssa.BasicBlock
		for _, e := range okE {
			start = append(start, e.To())
		}
		if len(okE) == 0 {
			start = s.Block().Succs
		}
		reach := an.ReachBlocks(start, nil, stop)
		if len(okE) == 0 {
			reach[s.Block()] = true
		}
		lost := false
		for _, r := range c25Returns(caller) {
			if !reach[r.Block()] || stop[r.Block()] {
				continue
			}
			for _, v := range c25RetVals(r, len(r.Results)-1) {
				if an.IsNilConst(v) || v == ssa.Value(call) {
					lost = true
				}
			}
			if len(r.Results) == 0 {
				lost = true
			}
		}
		if !lost {
			continue
		}
		v, w2 := x.pathLostVerdict(caller, restores, over, depth+1)
		if v == "bad" {
			return "bad", "reached without a restore from " + w2
		}
		if v != "ok" {
			res, why = "unknown", w2
		}
	}
	return res, why
}

type c25overwrite struct {
	fn         *ssa.Function
	store      *ssa.Store
	preserving bool // the parsed object gets the old path before it is copied over
}

func (x *c25ctx) r1() map[*ssa.Function]*c25overwrite {
	c, w := x.c, x.w
	pathIdx := x.fieldIdx("path")
	if pathIdx < 0 {
		c.Anchor("field policy.Policy.path does not resolve")
		return nil
	}
	over := map[*ssa.Function]*c25overwrite{}
	type restore = c25restore
	restores := map[*ssa.Function][]restore{}
	restoreBases := func(m map[*ssa.Function][]restore) map[*ssa.Function][]c25restore { return m }
	nInit, nOver, nRestore := 0, 0, 0
	for _, fn := range prodFuncs(w) {
		for _, b := range fn.Blocks {
			for _, in := range b.Instrs {
				st, ok := in.(*ssa.Store)
				if !ok {
					continue
				}
				pos := w.Pos(st.Pos())
				switch a := st.Addr.(type) {
				case *ssa.FieldAddr:
					if !x.isPolPtr(a.X.Type()) {
						continue
					}
					fname := x.polSt.Field(a.Field).Name()
					cons := w.FuncName(fn) + " store Policy." + fname
					if x.fresh(a.X) {
						nInit++
						c.OK("C25.R1", cons, pos, "initialises a freshly allocated policy object")
						continue
					}
					if a.Field == pathIdx {
						if lb, lf, ld := x.polFieldLoad(st.Val); lb == a.X && lf == pathIdx {
							restores[fn] = append(restores[fn], restore{st, a.X, ld})
							continue // decided below, once the overwrite calls are known
						}
					}
					switch live, why := x.liveness(a.X, 0); live {
					case "fresh":
						nInit++
						c.OK("C25.R1", cons, pos, "initialises a policy object that every caller has just allocated")
					case "live":
						c.Bad("C25.R1", cons, pos, "a field of the live policy object is edited in place ("+why+"): memory stops being a function of the policy file (a failing or skipped file write, or the next reload, makes them disagree). Value: "+w.Term(st.Val))
					default:
						c.Unknown("C25.R1", cons, pos, "a field of a policy object is written and it cannot be decided whether that object is the published one or a fresh one ("+why+")")
					}
				case *ssa.IndexAddr:
					if lb, lf, _ := x.polFieldLoad(a.X); lb != nil && !x.fresh(lb) {
						cons := w.FuncName(fn) + " store element of Policy." + x.polSt.Field(lf).Name()
						switch live, why := x.liveness(lb, 0); live {
						case "fresh":
						case "live":
							c.Bad("C25.R1", cons, pos, "an element of a list of the live policy object is overwritten in place ("+why+")")
						default:
							c.Unknown("C25.R1", cons, pos, "an element of a list of a policy object is overwritten; cannot decide whether the object is the published one ("+why+")")
						}
					}
				default:
					if !x.isPolPtr(st.Addr.Type()) || !x.isPolVal(st.Val.Type()) {
						continue
					}
					cons := w.FuncName(fn) + " store *Policy"
					if x.fresh(st.Addr) {
						nInit++
						c.OK("C25.R1", cons, pos, "copies into a freshly allocated policy object")
						continue
					}
					ld, isLd := st.Val.(*ssa.UnOp)
					if isLd && ld.Op == token.MUL && x.fresh(ld.X) && (x.parsedFromFile(ld.X) || x.parsedHere(fn, ld.X)) {
						nOver++
						ow := &c25overwrite{fn: fn, store: st}
						// does the parsed object get the old path first?
						if ld.X.Referrers() != nil {
							for _, ref := range *ld.X.Referrers() {
								fa, ok := ref.(*ssa.FieldAddr)
								if !ok || fa.Field != pathIdx || fa.Referrers() == nil {
									continue
								}
								for _, rr := range *fa.Referrers() {
									s2, ok := rr.(*ssa.Store)
									if !ok || s2.Addr != fa {
										continue
									}
									if lb, lf, _ := x.polFieldLoad(s2.Val); lb == st.Addr && lf == pathIdx && an.MustPassInstr(st, []ssa.Instruction{s2}) {
										ow.preserving = true
									}
								}
							}
						}
						over[fn] = ow
						c.OK("C25.R1", cons, pos, "whole-object overwrite with the policy freshly parsed from the file")
						continue
					}
					if live, why := x.liveness(st.Addr, 0); live == "fresh" {
						nInit++
						c.OK("C25.R1", cons, pos, "copies into a policy object that every caller has just allocated")
					} else if isLd && ld.Op == token.MUL && x.fresh(ld.X) && !x.escapesToCall(ld.X) && live == "live" {
						c.Bad("C25.R1", cons, pos, "the live policy object is overwritten with a freshly built value that never went through the ini parser: "+w.Term(st.Val))
					} else if _, isAlloc := c25root(st.Val).(*ssa.Alloc); isAlloc && live == "live" {
						c.Bad("C25.R1", cons, pos, "the live policy object is overwritten with a locally composed value, not with the parsed file: "+w.Term(st.Val))
					} else {
						c.Unknown("C25.R1", cons, pos, "a policy object is overwritten as a whole and it cannot be decided that the value is the freshly parsed file ("+why+"): "+w.Term(st.Val))
					}
				}
			}
		}
	}
	c.AtLeast("C25.R1", "initialising stores into fresh Policy objects", nInit, 3)
	if !c.AtLeast("C25.R1", "whole-object overwrites with the parsed file", nOver, 1) {
		return over
	}

	// callers of the overwriting function: path restored on every success return
	nCalls := 0
	for _, fn := range prodFuncs(w) {
		var ocs []*ssa.Call
		for _, ci := range an.Calls(fn) {
			call, ok := ci.(*ssa.Call)
			if !ok {
				continue
			}
			if f := w.Info(call).Static; f != nil && over[f] != nil {
				ocs = append(ocs, call)
			}
		}
		// restores: the restored value must have been read before any overwrite
		for _, rs := range restores[fn] {
			cons := w.FuncName(fn) + " store Policy.path"
			around, stale := false, false
			for _, oc := range ocs {
				if len(oc.Call.Args) == 0 || oc.Call.Args[0] != rs.base {
					continue
				}
				if c25After(oc, rs.load) {
					stale = true // reads the already overwritten (empty) path
				} else {
					around = true
				}
			}
			switch {
			case stale:
				c.Bad("C25.R1", cons, w.Pos(rs.st.Pos()), "path is assigned from the object's own path field read after the whole-object overwrite: it restores the empty path")
			case around:
				nRestore++
				c.OK("C25.R1", cons, w.Pos(rs.st.Pos()), "restores the path read before the overwrite")
			default:
				c.OK("C25.R1", cons, w.Pos(rs.st.Pos()), "assigns the object's own path to itself (no overwrite of this object in between)")
			}
		}
		for _, oc := range ocs {
			nCalls++
			ow := over[w.Info(oc).Static]
			cons := w.FuncName(fn) + " after " + w.FuncName(ow.fn)
			if ow.preserving {
				nRestore++
				c.OK("C25.R1", cons, w.Pos(oc.Pos()), "the overwrite itself carries the old path over")
				continue
			}
			stop := map[*ssa.BasicBlock]bool{}
			sameBlockRestore := false
			for _, rs := range restores[fn] {
				if len(oc.Call.Args) > 0 && rs.base == oc.Call.Args[0] && !c25After(oc, rs.load) {
					if rs.st.Block() == oc.Block() {
						if an.InstrIndex(rs.st) > an.InstrIndex(oc) {
							sameBlockRestore = true
						}
						continue
					}
					stop[rs.st.Block()] = true
				}
			}
			if sameBlockRestore {
				c.OK("C25.R1", cons, w.Pos(oc.Pos()), "path restored right after the overwrite")
				continue
			}
			okE, _ := an.OkEdges(oc)
			var start []*ssa.BasicBlock
			for _, e := range okE {
				start = append(start, e.To())
			}
			if len(okE) == 0 {
				start = oc.Block().Succs
			}
			reach := an.ReachBlocks(start, nil, stop)
			if len(okE) == 0 {
				reach[oc.Block()] = true // `return p.reload(f)`: the return sits in the call block
			}
			good := true
			for _, r := range c25Returns(fn) {
				if !reach[r.Block()] || stop[r.Block()] {
					continue
				}
				idx := len(r.Results) - 1
				isNil := false
				for _, v := range c25RetVals(r, idx) {
					if an.IsNilConst(v) {
						isNil = true
					}
				}
				// a return of the overwriter's own result in the call block (return p.reload(f))
				direct := false
				for _, v := range c25RetVals(r, idx) {
					if v == ssa.Value(oc) {
						direct = true
					}
				}
				if isNil || direct || c25ReportErrorPathAsViolation {
					good = false
					verdict, why := x.pathLostVerdict(fn, restoreBases(restores), over, 0)
					msg := "a return reached after the policy object was overwritten by the parsed file leaves `path` empty: every later mutation and reload answers 'no policy file given', so changes are no longer written and reloads no longer apply (" + why + ")"
					switch verdict {
					case "bad":
						c.Bad("C25.R1", cons, w.Pos(r.Pos()), msg)
					case "ok":
						c.OK("C25.R1", cons, w.Pos(r.Pos()), "path is empty on this return but every caller restores it: "+why)
					default:
						c.Unknown("C25.R1", cons, w.Pos(r.Pos()), "cannot decide: "+msg)
					}
				} else {
					c.Note("C25.R1", cons+" error return without restore", w.Pos(r.Pos()), "an error return between the overwrite and the path restore leaves path empty (needs open(2) to fail after the first open succeeded; environment fault, outside the property's quantifier): "+w.Term(c25RetVals(r, idx)[0]))
				}
			}
			if good {
				c.OK("C25.R1", cons, w.Pos(oc.Pos()), "every success return after the overwrite passes the path restore")
			}
		}
	}
	c.AtLeast("C25.R1", "call sites of the overwriting function", nCalls, 1)
	c.AtLeast("C25.R1", "path restores", nRestore, 1)
	return over
}

// ---- facts through helpers ---------------------------------------------------------------

// c25dfact is a fact that holds at some instruction, possibly established inside a
// helper whose outcome is tested there; bind maps a value of the fact's own
// function to the corresponding value of the function the query was made in
// (parameters are replaced by the call's arguments).
type c25dfact struct {
	f    an.Fact
	bind func(ssa.Value) ssa.Value
}

func c25ident(v ssa.Value) ssa.Value { return v }

// c25retCase is one way a result can be produced: the value and the place
// (block, and for a phi the incoming edge) under which it is produced.
type c25retCase struct {
	val  ssa.Value
	at   *ssa.BasicBlock // facts dominating this block hold
	edge *an.Edge        // additionally the fact on this edge
}

// c25retCases expands result #idx of every reachable return of f through the
// defer spill and through phis.
func c25retCases(f *ssa.Function, idx int) []c25retCase {
	var out []c25retCase
	for _, r := range c25Returns(f) {
		if idx >= len(r.Results) {
			continue
		}
		for _, v := range c25RetVals(r, idx) {
			out = append(out, c25expandPhi(v, r.Block(), nil, 0)...)
		}
	}
	return out
}

func c25expandPhi(v ssa.Value, at *ssa.BasicBlock, edge *an.Edge, depth int) []c25retCase {
	phi, ok := v.(*ssa.Phi)
	if !ok || depth > 3 {
		return []c25retCase{{v, at, edge}}
	}
	var out []c25retCase
	for i, e := range phi.Edges {
		pred := phi.Block().Preds[i]
		var ed *an.Edge
		for j, sc := range pred.Succs {
			if sc == phi.Block() {
				ed = &an.Edge{From: pred, Idx: j}
			}
		}
		out = append(out, c25expandPhi(e, pred, ed, depth+1)...)
	}
	return out
}

// factsAtCase: the facts of the function that hold when the case is taken.
func (x *c25ctx) factsAtCase(f *ssa.Function, rc c25retCase) []an.Fact {
	var out []an.Fact
	for _, fa := range x.w.Facts(f) {
		if rc.edge != nil && fa.Edge == *rc.edge {
			out = append(out, fa)
			continue
		}
		if fa.Edge.From != rc.at && an.EdgeDominates(fa.Edge, rc.at) {
			out = append(out, fa)
		}
	}
	return out
}

// mayBe: can the value be `want` ("nil", "true", "false") in the given case?
func (x *c25ctx) mayBe(f *ssa.Function, rc c25retCase, want string) bool {
	v := rc.val
	switch y := v.(type) {
	case *ssa.Const:
		switch want {
		case "nil":
			return y.Value == nil
		default:
			return y.Value != nil && y.Value.String() == want
		}
	case *ssa.MakeInterface:
		return want != "nil" // a concrete error value is never the nil interface
	case *ssa.UnOp:
		if _, isG := y.X.(*ssa.Global); isG && y.Op == token.MUL && want == "nil" {
			return false // package-level sentinel error
		}
	case *ssa.Call:
		if n := x.w.Info(y).Name; want == "nil" && (n == "func:errors.New" || n == "func:fmt.Errorf") {
			return false
		}
	}
	if want == "nil" {
		// `if err != nil { return err }`
		t := x.w.Term(v)
		for _, fa := range x.factsAtCase(f, rc) {
			if fa.NonNum && fa.Rel == "!=" && ((fa.L == "nil" && fa.R == t) || (fa.R == "nil" && fa.L == t)) {
				return false
			}
		}
	}
	return true
}

// impliedBy: the facts of helper h that hold whenever its result #idx is `want`.
func (x *c25ctx) impliedBy(h *ssa.Function, idx int, want string) []an.Fact {
	var keep []an.Fact
	first := true
	for _, rc := range c25retCases(h, idx) {
		if !x.mayBe(h, rc, want) {
			continue
		}
		fs := x.factsAtCase(h, rc)
		if first {
			keep, first = fs, false
			continue
		}
		var nk []an.Fact
		for _, k := range keep {
			for _, g := range fs {
				if g.Edge == k.Edge {
					nk = append(nk, k)
					break
				}
			}
		}
		keep = nk
	}
	return keep
}

// helperOutcome: the fact tests the outcome of an in-module helper call.
func (x *c25ctx) helperOutcome(f an.Fact) (call *ssa.Call, idx int, want string) {
	asCall := func(v ssa.Value) (*ssa.Call, int) {
		switch y := v.(type) {
		case *ssa.Call:
			return y, 0
		case *ssa.Extract:
			if cl, ok := y.Tuple.(*ssa.Call); ok {
				return cl, y.Index
			}
		}
		return nil, -1
	}
	switch {
	case f.Rel == "true" || f.Rel == "false":
		call, idx = asCall(f.Cond)
		want = f.Rel
	case f.NonNum && f.Rel == "==" && f.LV != nil && f.RV != nil && an.IsNilConst(f.LV):
		call, idx = asCall(f.RV)
		want = "nil"
	case f.NonNum && f.Rel == "==" && f.LV != nil && f.RV != nil && an.IsNilConst(f.RV):
		call, idx = asCall(f.LV)
		want = "nil"
	}
	if call == nil {
		return nil, -1, ""
	}
	h := x.w.Info(call).Static
	if h == nil || !x.w.InModule(h) || h.Blocks == nil {
		return nil, -1, ""
	}
	return call, idx, want
}

// factsAt: the facts dominating instr plus, to depth 2, the facts that the tested
// outcomes of in-module helpers imply.
func (x *c25ctx) factsAt(instr ssa.Instruction) []c25dfact {
	var out []c25dfact
	var expand func(f an.Fact, bind func(ssa.Value) ssa.Value, depth int)
	expand = func(f an.Fact, bind func(ssa.Value) ssa.Value, depth int) {
		out = append(out, c25dfact{f, bind})
		if depth >= 2 {
			return
		}
		call, idx, want := x.helperOutcome(f)
		if call == nil {
			return
		}
		h := x.w.Info(call).Static
		args := call.Call.Args
		inner := func(v ssa.Value) ssa.Value {
			if p, ok := v.(*ssa.Parameter); ok && p.Parent() == h {
				for i, q := range h.Params {
					if q == p && i < len(args) {
						return bind(args[i])
					}
				}
			}
			return v
		}
		for _, g := range x.impliedBy(h, idx, want) {
			expand(g, inner, depth+1)
		}
	}
	for _, f := range x.w.FactsDominating(instr) {
		expand(f, c25ident, 0)
	}
	return out
}

// ---- R2 -------------------------------------------------------------------------------

type c25line struct {
	format string // "key=%s" or "key=value"
	key    string
	val    string         // "%s" or the constant value
	param  *ssa.Parameter // for %s
	ok     bool
	why    string
}

type c25write struct {
	call    *ssa.Call
	kind    string // append | rewrite
	line    c25line
	lineIdx int // index of the line argument in the helper call
}

type c25mut struct {
	fn      *ssa.Function
	writes  []*c25write
	reloads []*ssa.Call
	kind    string // add | remove | toggle | ?
}

func (x *c25ctx) helperKind(f *ssa.Function) string {
	if f == nil || !x.w.InModule(f) || f.Blocks == nil {
		return ""
	}
	app, rew := false, false
	for _, e := range x.w.Summary(f).Effects {
		switch e.Name {
		case "func:(*os.File).WriteString", "func:(*os.File).Write", "func:(*os.File).WriteAt":
			app = true
		case "func:os.WriteFile", "func:os.Rename", "func:(*os.File).Truncate":
			rew = true
		}
	}
	switch {
	case app && rew:
		return "both"
	case app:
		return "append"
	case rew:
		return "rewrite"
	}
	return ""
}

func (x *c25ctx) reaches(f *ssa.Function, over map[*ssa.Function]*c25overwrite) bool {
	if f == nil {
		return false
	}
	if over[f] != nil {
		return true
	}
	if !x.w.InModule(f) {
		return false
	}
	for _, e := range x.w.Summary(f).Effects {
		if e.Info.Static != nil && over[e.Info.Static] != nil {
			return true
		}
	}
	return false
}

func (x *c25ctx) lineOf(fn *ssa.Function, v ssa.Value) c25line {
	if s, ok := an.ConstString(v); ok {
		i := strings.Index(s, "=")
		if i <= 0 {
			return c25line{why: "constant line without `=`: " + s}
		}
		return c25line{format: s, key: strings.TrimSpace(s[:i]), val: strings.TrimSpace(s[i+1:]), ok: true}
	}
	asParam := func(v ssa.Value) *ssa.Parameter {
		for {
			switch y := v.(type) {
			case *ssa.MakeInterface:
				v = y.X
				continue
			case *ssa.ChangeType:
				v = y.X
				continue
			case *ssa.Parameter:
				if y.Parent() == fn {
					return y
				}
			}
			return nil
		}
	}
	switch y := v.(type) {
	case *ssa.BinOp:
		if y.Op == token.ADD {
			if s, ok := an.ConstString(y.X); ok && strings.HasSuffix(s, "=") && len(s) > 1 && !strings.Contains(s[:len(s)-1], "=") {
				if p := asParam(y.Y); p != nil {
					return c25line{format: s + "%s", key: s[:len(s)-1], val: "%s", param: p, ok: true}
				}
			}
		}
	case *ssa.Call:
		if x.w.Info(y).Name != "func:fmt.Sprintf" || len(y.Call.Args) != 2 {
			break
		}
		f, ok := an.ConstString(y.Call.Args[0])
		if !ok {
			return c25line{why: "non-constant format"}
		}
		if strings.Count(f, "%") != strings.Count(f, "%s") {
			return c25line{why: "format uses verbs other than %s: " + f}
		}
		sl, ok := y.Call.Args[1].(*ssa.Slice)
		if !ok {
			break
		}
		al, ok := sl.X.(*ssa.Alloc)
		if !ok || al.Referrers() == nil {
			break
		}
		vals := map[int64]ssa.Value{}
		for _, ref := range *al.Referrers() {
			if ia, ok := ref.(*ssa.IndexAddr); ok && ia.Referrers() != nil {
				i, isC := an.ConstInt(ia.Index)
				for _, rr := range *ia.Referrers() {
					if s, ok := rr.(*ssa.Store); ok && s.Addr == ia {
						if _, dup := vals[i]; dup || !isC {
							return c25line{why: "format arguments not understood"}
						}
						vals[i] = s.Val
					}
				}
			}
		}
		if len(vals) != strings.Count(f, "%s") {
			return c25line{why: "number of format arguments does not match the format " + f}
		}
		// substitute the constant arguments; at most one parameter may remain
		var p *ssa.Parameter
		var sb strings.Builder
		rest := f
		for i := int64(0); ; i++ {
			j := strings.Index(rest, "%s")
			if j < 0 {
				sb.WriteString(rest)
				break
			}
			sb.WriteString(rest[:j])
			rest = rest[j+2:]
			v := vals[i]
			if v == nil {
				return c25line{why: "format arguments not understood"}
			}
			if mi, ok := v.(*ssa.MakeInterface); ok {
				v = mi.X
			}
			if cs, ok := an.ConstString(v); ok {
				if strings.Contains(cs, "%") {
					return c25line{why: "constant argument contains %"}
				}
				sb.WriteString(cs)
				continue
			}
			q := asParam(v)
			if q == nil || p != nil {
				return c25line{why: "formatted value is not a single parameter of the mutator: " + x.w.Term(v)}
			}
			p = q
			sb.WriteString("%s")
		}
		g := sb.String()
		if p == nil {
			return x.lineOf(fn, ssa.NewConst(constant.MakeString(g), types.Typ[types.String]))
		}
		eq := strings.Index(g, "=")
		if !strings.HasSuffix(g, "%s") || strings.Count(g, "=") != 1 || eq <= 0 || strings.TrimSpace(g[eq+1:]) != "%s" {
			return c25line{why: "format is not `key=%s`: " + g}
		}
		return c25line{format: g, key: strings.TrimSpace(g[:eq]), val: "%s", param: p, ok: true}
	}
	return c25line{why: "unsupported line expression " + x.w.Term(v)}
}

func (x *c25ctx) lockCalls(fn *ssa.Function) (locks []ssa.Instruction, unlocks []ssa.CallInstruction) {
	for _, ci := range an.Calls(fn) {
		info := x.w.Info(ci)
		if !info.IsDefer && !info.IsGo && info.Static != nil && x.acquires(info.Static, 0) {
			locks = append(locks, ci) // a helper that returns with policy.mu held
			continue
		}
		if len(ci.Common().Args) == 0 || ci.Common().Args[0] != ssa.Value(x.mu) {
			continue
		}
		switch info.Name {
		case "func:(*sync.Mutex).Lock":
			if !info.IsDefer && !info.IsGo {
				locks = append(locks, ci)
			}
		case "func:(*sync.Mutex).Unlock":
			if !info.IsDefer {
				unlocks = append(unlocks, ci)
			}
		}
	}
	return
}

// acquires: the in-module function returns with policy.mu locked on every path
// (it locks and never unlocks, e.g. `func lock() func() { mu.Lock(); return mu.Unlock }`).
func (x *c25ctx) acquires(f *ssa.Function, depth int) bool {
	if f == nil || !x.w.InModule(f) || f.Blocks == nil || depth > 2 {
		return false
	}
	if v, ok := x.acq[f]; ok {
		return v
	}
	if x.acq == nil {
		x.acq = map[*ssa.Function]bool{}
	}
	x.acq[f] = false
	var locks []ssa.Instruction
	for _, ci := range an.Calls(f) {
		info := x.w.Info(ci)
		isMu := len(ci.Common().Args) > 0 && ci.Common().Args[0] == ssa.Value(x.mu)
		switch {
		case isMu && info.Name == "func:(*sync.Mutex).Unlock":
			return false
		case isMu && info.Name == "func:(*sync.Mutex).Lock" && !info.IsDefer && !info.IsGo:
			locks = append(locks, ci)
		case !info.IsDefer && !info.IsGo && info.Static != nil && info.Static != f && x.acquires(info.Static, depth+1):
			locks = append(locks, ci)
		}
	}
	if len(locks) == 0 {
		return false
	}
	for _, r := range c25Returns(f) {
		if !an.MustPassInstr(r, locks) {
			return false
		}
	}
	x.acq[f] = true
	return true
}

// lockState: "held" when every path to g has taken policy.mu (in the function
// itself or in every caller of an unexported function), "free" when an entry
// point reaches g without it, else "unknown".
func (x *c25ctx) lockState(g ssa.Instruction, depth int) (string, string) {
	fn := g.Parent()
	locks, unlocks := x.lockCalls(fn)
	if an.MustPassInstr(g, locks) {
		for _, u := range unlocks {
			if c25After(u, g) {
				return "unknown", "policy.mu is unlocked explicitly in " + x.w.FuncName(fn) + " before the operation"
			}
		}
		return "held", ""
	}
	if fn.Parent() != nil {
		return "unknown", "inside a closure"
	}
	if c25exported(fn) {
		return "free", "the exported function " + x.w.FuncName(fn) + " reaches it without taking policy.mu"
	}
	if depth > 3 {
		return "unknown", "call chain too deep"
	}
	sites := x.staticCallers(fn)
	if len(sites) == 0 {
		return "unknown", x.w.FuncName(fn) + " is unexported and has no static caller"
	}
	res, why := "held", ""
	for _, s := range sites {
		if x.w.Info(s).IsGo {
			return "unknown", "started as a goroutine"
		}
		st, w2 := x.lockState(s, depth+1)
		if st == "free" {
			return "free", w2
		}
		if st != "held" {
			res, why = "unknown", w2
		}
	}
	return res, why
}

// condCall: the fact's condition is result #idx of a call.
func c25CondCall(f an.Fact) (*ssa.Call, int) {
	switch y := f.Cond.(type) {
	case *ssa.Call:
		return y, 0
	case *ssa.Extract:
		if call, ok := y.Tuple.(*ssa.Call); ok {
			return call, y.Index
		}
	}
	return nil, -1
}

func (x *c25ctx) r2(over map[*ssa.Function]*c25overwrite) []*c25mut {
	c, w := x.c, x.w
	var muts []*c25mut
	helpers := map[string]int{}
	for _, fn := range prodFuncs(w) {
		if w.FnRel(fn) != "policy" || fn.Parent() != nil {
			continue
		}
		hk := x.helperKind(fn)
		if hk == "" {
			continue
		}
		isMethod := fn.Signature.Recv() != nil && x.isPol(fn.Signature.Recv().Type())
		m := &c25mut{fn: fn}
		direct := false // calls a write primitive itself
		wrapsOnly := true
		for _, ci := range an.Calls(fn) {
			call, ok := ci.(*ssa.Call)
			info := w.Info(ci)
			switch info.Name {
			case "func:(*os.File).WriteString", "func:(*os.File).Write", "func:(*os.File).WriteAt", "func:os.WriteFile", "func:os.Rename", "func:(*os.File).Truncate":
				direct = true
			}
			if !ok {
				continue
			}
			if k := x.helperKind(info.Static); k != "" {
				callee := info.Static
				calleeIsMethod := callee.Signature.Recv() != nil && x.isPol(callee.Signature.Recv().Type())
				if !calleeIsMethod {
					wrapsOnly = false
					m.writes = append(m.writes, &c25write{call: call, kind: k})
				}
			}
			if x.reaches(info.Static, over) {
				m.reloads = append(m.reloads, call)
			}
		}
		if !isMethod {
			// a helper that only delegates to another file helper is judged where it is used (C25.R3)
			if direct {
				helpers[hk]++
			} else {
				c.Note("C25.R2", w.FuncName(fn), w.Pos(fn.Pos()), "file helper that reaches the file write only through other helpers")
			}
			continue
		}
		if direct {
			c.Unknown("C25.R2", w.FuncName(fn), w.Pos(fn.Pos()), "a *Policy method calls a file-write primitive directly: line and guards cannot be related (unsupported shape)")
			continue
		}
		if len(m.writes) == 0 {
			if wrapsOnly {
				c.Note("C25.R2", w.FuncName(fn), w.Pos(fn.Pos()), "reaches the file only through other mutators (which are checked)")
			}
			continue
		}
		muts = append(muts, m)
	}
	sort.Slice(muts, func(i, j int) bool { return w.FuncName(muts[i].fn) < w.FuncName(muts[j].fn) })
	if !c.AtLeast("C25.R2", "mutators (methods of *Policy that write the file)", len(muts), 3) {
		return muts
	}
	c.AtLeast("C25.R2", "append helpers", helpers["append"], 1)
	c.AtLeast("C25.R2", "rewrite helpers", helpers["rewrite"], 1)

	nWrites := 0
	for _, m := range muts {
		fn := m.fn
		name := w.FuncName(fn)
		pos := w.Pos(fn.Pos())
		if len(fn.Params) == 0 {
			continue
		}
		recv := fn.Params[0]
		// ---- lines
		shapeOK := true
		for _, wr := range m.writes {
			nWrites++
			var lineArgs []ssa.Value
			pathOK := false
			for _, a := range wr.call.Call.Args {
				b, ok := a.Type().Underlying().(*types.Basic)
				if !ok || b.Kind() != types.String {
					continue
				}
				if lb, lf, _ := x.polFieldLoad(a); lb == ssa.Value(recv) && lf == x.fieldIdx("path") {
					pathOK = true
					continue
				}
				lineArgs = append(lineArgs, a)
			}
			if !pathOK || len(lineArgs) != 1 {
				c.Unknown("C25.R2", name+" "+wr.kind, w.Pos(wr.call.Pos()), "cannot tell the path argument (must be the receiver's path field) from the line argument of the file helper")
				shapeOK = false
				continue
			}
			wr.line = x.lineOf(fn, lineArgs[0])
			for i, a := range wr.call.Call.Args {
				if a == lineArgs[0] {
					wr.lineIdx = i
				}
			}
			if !wr.line.ok && wr.kind == "rewrite" {
				x.keylessRemove(fn, wr, lineArgs[0])
			}
			if !wr.line.ok {
				c.Unknown("C25.R2", name+" "+wr.kind, w.Pos(wr.call.Pos()), "written line not understood: "+wr.line.why)
				shapeOK = false
			}
		}
		if !shapeOK {
			continue
		}
		nApp, nRew, nPar := 0, 0, 0
		for _, wr := range m.writes {
			if wr.kind == "append" {
				nApp++
			} else {
				nRew++
			}
			if wr.line.param != nil {
				nPar++
			}
		}
		switch {
		case nApp == 1 && nRew == 0 && nPar == 1:
			m.kind = "add"
		case nApp == 0 && nRew == 1 && nPar == 1:
			m.kind = "remove"
		case nApp == 1 && nRew == 1 && nPar == 0:
			m.kind = "toggle"
		default:
			c.Unknown("C25.R2", name, pos, fmt.Sprintf("mutator shape not understood: %d appends, %d rewrites, %d parameter lines", nApp, nRew, nPar))
			continue
		}

		// ---- lock
		var guarded []ssa.Instruction
		for _, wr := range m.writes {
			guarded = append(guarded, wr.call)
		}
		for _, rc := range m.reloads {
			guarded = append(guarded, rc)
		}
		lockRes, lockWhy := "held", ""
		for _, g := range guarded {
			st, why := x.lockState(g, 0)
			if st == "free" {
				lockRes, lockWhy = st, why
				break
			}
			if st != "held" {
				lockRes, lockWhy = st, why
			}
		}
		switch lockRes {
		case "held":
			c.OK("C25.R2", name+" lock", pos, "file writes and reload run with policy.mu held")
		case "free":
			c.Bad("C25.R2", name+" lock", pos, "a file write or the reload can run without policy.mu ("+lockWhy+"): two concurrent mutations interleave their read-modify-write of the file and of memory")
		default:
			c.Unknown("C25.R2", name+" lock", pos, "cannot decide whether policy.mu is held at the file write / reload: "+lockWhy)
		}

		// ---- atomicity: the tests that decide the write read policy memory inside the critical section
		{
			verdict, why, wpos := "ok", "", pos
			worse := func(v, y, p string) {
				if verdict == "bad" || (verdict == "unknown" && v != "bad") {
					return
				}
				verdict, why, wpos = v, y, p
			}
			for _, b := range fn.Blocks {
				for _, in := range b.Instrs {
					var val ssa.Value
					what := ""
					if v, isV := in.(ssa.Value); isV {
						if lb, lf, ld := x.polFieldLoad(v); ld != nil && lb == ssa.Value(recv) {
							val, what = v, "Policy."+x.polSt.Field(lf).Name()
						}
					}
					// a helper that reads the policy object for the mutator
					if call, isCall := in.(*ssa.Call); isCall && val == nil {
						if g := w.Info(call).Static; g != nil && w.InModule(g) && g.Blocks != nil && !x.acquires(g, 0) && !x.reaches(g, over) && x.readsPolicy(g) {
							for _, a := range call.Call.Args {
								if a == ssa.Value(recv) {
									val, what = call, "the policy fields read by "+w.FuncName(g)
								}
							}
						}
					}
					if val == nil || !c25flowsToBranch(val) {
						continue
					}
					st, lw := x.lockState(in, 0)
					switch st {
					case "held":
					case "free":
						worse("bad", what+" is read for a decision before policy.mu is taken ("+lw+")", w.Pos(in.Pos()))
					default:
						worse("unknown", what+": "+lw, w.Pos(in.Pos()))
					}
				}
			}
			cons := name + " decisions inside the critical section"
			switch verdict {
			case "ok":
				c.OK("C25.R2", cons, pos, "every read of policy memory that feeds a branch of the mutator happens with policy.mu held")
			case "bad":
				c.Bad("C25.R2", cons, wpos, why+": the test (already listed / already in the target state) and the file write are not one critical section, so concurrent calls all pass the test on the old state and each performs its write — duplicate lines in the file and, after the reload, in memory")
			default:
				c.Unknown("C25.R2", cons, wpos, "cannot decide whether policy.mu is held where the mutator reads policy memory for a decision: "+why)
			}
		}

		// ---- guards
		for _, wr := range m.writes {
			if wr.line.param == nil {
				continue
			}
			facts := w.FactsDominating(wr.call)
			dfacts := x.factsAt(wr.call)
			cons := name + " " + wr.kind + " " + wr.line.key
			// a guard that is not found in an unexported mutator may be applied by its callers
			missing := func(what, msg string) {
				if !c25exported(fn) {
					c.Unknown("C25.R2", cons+" "+what, w.Pos(wr.call.Pos()), "not found in the unexported "+name+" (its callers may apply it): "+msg)
					return
				}
				c.Bad("C25.R2", cons+" "+what, w.Pos(wr.call.Pos()), msg)
			}
			// validator
			var vfn, otherV *ssa.Function
			for _, d := range dfacts {
				call, idx := c25CondCall(d.f)
				if call == nil || idx != 0 || d.f.Rel != "true" {
					continue
				}
				callee := w.Info(call).Static
				if callee == nil || !w.InModule(callee) || len(call.Call.Args) != 1 || d.bind(call.Call.Args[0]) != ssa.Value(wr.line.param) {
					continue
				}
				if x.validatorShape(callee) {
					vfn = callee
				} else {
					otherV = callee
				}
			}
			if vfn == nil && otherV != nil {
				c.Unknown("C25.R2", cons+" validator", w.Pos(wr.call.Pos()), "the write is dominated by "+w.FuncName(otherV)+"(param) passing, but that function is not of the supported validator shape (regexp.MatchString(constant, param)): cannot decide what it accepts")
			} else if vfn == nil {
				missing("validator", "the line written to the policy file contains the parameter without a dominating pubkey validation of that parameter: an invalid key (or one containing a newline and a second ini line) reaches the file. Facts that hold: "+an.DescribeFacts(facts))
			} else {
				c.OK("C25.R2", cons+" validator", w.Pos(wr.call.Pos()), "dominated by "+w.FuncName(vfn)+"(param) passing")
				x.validator(vfn)
			}
			if m.kind != "add" {
				continue
			}
			// not-already-present on the list of this key
			fi, known := x.iniKey[wr.line.key]
			dupOK := false
			var seenLists []string
			for _, d := range dfacts {
				call, idx := c25CondCall(d.f)
				if call == nil || idx != 0 || d.f.Rel != "false" || !strings.HasPrefix(w.Info(call).Name, "func:slices.Contains") || len(call.Call.Args) != 2 {
					continue
				}
				lb, lf, _ := x.polFieldLoad(d.bind(call.Call.Args[0]))
				if lb == nil || (lb != ssa.Value(recv) && d.bind(lb) != ssa.Value(recv)) || d.bind(call.Call.Args[1]) != ssa.Value(wr.line.param) {
					continue
				}
				seenLists = append(seenLists, x.polSt.Field(lf).Name())
				if known && lf == fi {
					dupOK = true
				}
			}
			want := "?"
			if known {
				want = x.polSt.Field(fi).Name()
			}
			if !dupOK && known {
				// a membership test written as a loop (here or in a helper) is not recognised: do not call it missing
				pt := w.Term(wr.line.param)
				unrec := ""
				for _, f := range w.Facts(fn) {
					if f.NonNum && (f.L == pt || f.R == pt) && (strings.Contains(f.L, "field:Policy."+want) || strings.Contains(f.R, "field:Policy."+want)) {
						unrec = f.String()
					}
				}
				for _, d := range dfacts {
					if call, _, _ := x.helperOutcome(d.f); call != nil {
						uses := false
						for _, a := range call.Call.Args {
							if d.bind(a) == ssa.Value(wr.line.param) {
								uses = true
							}
						}
						if uses && !x.validatorShape(w.Info(call).Static) {
							unrec = "outcome of " + w.FuncName(w.Info(call).Static) + " on the parameter"
						}
					}
				}
				if unrec != "" {
					c.Unknown("C25.R2", cons+" not-present", w.Pos(wr.call.Pos()), "the parameter is tested in a form other than slices.Contains(Policy."+want+", param): cannot decide whether the write is guarded ("+unrec+")")
					continue
				}
			}
			if dupOK {
				c.OK("C25.R2", cons+" not-present", w.Pos(wr.call.Pos()), "dominated by !slices.Contains(Policy."+want+", param)")
			} else {
				missing("not-present", fmt.Sprintf("an addition to ini key %s is not dominated by the not-already-present test on Policy.%s with the written parameter (tests found on: %v): a duplicate addition changes the file. Facts that hold: %s", wr.line.key, want, seenLists, an.DescribeFacts(facts)))
			}
		}

		// ---- write ⇒ reload before every return
		reloadBlocks := map[*ssa.BasicBlock]bool{}
		for _, rc := range m.reloads {
			reloadBlocks[rc.Block()] = true
		}
		cut := map[an.Edge]bool{}
		for _, wr := range m.writes {
			_, fail := an.OkEdges(wr.call)
			for _, e := range fail {
				cut[e] = true
			}
		}
		rets := c25Returns(fn)
		noReload := func(cons, pos, msg string) {
			if !c25exported(fn) {
				c.Unknown("C25.R2", cons, pos, "the unexported "+name+" does not reload itself (its callers may): "+msg)
				return
			}
			c.Bad("C25.R2", cons, pos, msg)
		}
		for _, wr := range m.writes {
			cons := name + " " + wr.kind + " " + wr.line.format + " then reload"
			okE, _ := an.OkEdges(wr.call)
			var start []*ssa.BasicBlock
			for _, e := range okE {
				start = append(start, e.To())
			}
			if len(okE) == 0 {
				c.Note("C25.R2", cons+" (error of the write ignored)", w.Pos(wr.call.Pos()), "the result of the file helper is not tested")
				// reload later in the same block?
				later := false
				for _, rc := range m.reloads {
					if rc.Block() == wr.call.Block() && an.InstrIndex(rc) > an.InstrIndex(wr.call) {
						later = true
					}
				}
				if later {
					c.OK("C25.R2", cons, w.Pos(wr.call.Pos()), "reload follows in the same block")
					continue
				}
				start = wr.call.Block().Succs
				if len(start) == 0 {
					noReload(cons, w.Pos(wr.call.Pos()), "returns right after the file write without reloading")
					continue
				}
			}
			// a reload in a start block placed before... blocks are entered at their top, so a reload anywhere in the block precedes its return
			reach := an.ReachBlocks(start, cut, reloadBlocks)
			good := true
			for _, r := range rets {
				if reach[r.Block()] && !reloadBlocks[r.Block()] {
					good = false
					noReload(cons, w.Pos(r.Pos()), "a return is reached after the file was written without reloading it: the change does not apply to the next request (memory keeps the old policy until a restart)")
				}
			}
			// the reload must come after the write also inside a shared block
			for _, rc := range m.reloads {
				if rc.Block() == wr.call.Block() && an.InstrIndex(rc) < an.InstrIndex(wr.call) && !c25InLoop(rc.Block()) {
					// harmless: an extra reload before; the reachability above still demands one after
					_ = rc
				}
			}
			if good {
				c.OK("C25.R2", cons, w.Pos(wr.call.Pos()), "every return after a successful write passes the reload")
			}
		}
		if len(m.reloads) == 0 {
			noReload(name+" reload", pos, "mutator never reloads the file")
		}
		// ---- reload error propagated
		for _, rc := range m.reloads {
			okE, _ := an.OkEdges(rc)
			returned := false
			for _, r := range rets {
				for _, v := range c25RetVals(r, len(r.Results)-1) {
					if v == ssa.Value(rc) {
						returned = true
					}
				}
			}
			used := rc.Referrers() != nil && len(*rc.Referrers()) > 0
			switch {
			case returned || len(okE) > 0:
				c.OK("C25.R2", name+" reload result", w.Pos(rc.Pos()), "the reload error is returned or tested")
			case !used:
				c.Bad("C25.R2", name+" reload result", w.Pos(rc.Pos()), "the error of the reload is dropped: a file that no longer parses leaves memory and file different while the operation reports success")
			default:
				c.Unknown("C25.R2", name+" reload result", w.Pos(rc.Pos()), "the reload error is used in a way that is not understood (neither returned directly nor compared with nil)")
			}
		}
		// ---- nil returns that wrote nothing
		for _, r := range rets {
			afterWrite := false
			for _, wr := range m.writes {
				if r.Block() == wr.call.Block() || an.ReachFromInstr(wr.call)[r.Block()] {
					afterWrite = true
				}
			}
			if afterWrite {
				continue
			}
			isNil := false
			for _, v := range c25RetVals(r, len(r.Results)-1) {
				if an.IsNilConst(v) {
					isNil = true
				}
			}
			if !isNil {
				continue
			}
			cons := name + " nil-without-write"
			facts := w.FactsDominatingBlock(r.Block())
			just := false
			switch m.kind {
			case "toggle":
				for _, wr := range m.writes {
					if wr.kind != "append" {
						continue
					}
					fi, known := x.iniKey[wr.line.key]
					if !known || (wr.line.val != "true" && wr.line.val != "false") {
						continue
					}
					for _, f := range facts {
						if lb, lf, truth, ok := x.boolFieldFact(f); ok && lb == ssa.Value(recv) && lf == fi && truth == wr.line.val {
							just = true
						}
					}
				}
			case "add":
				for _, wr := range m.writes {
					fi, known := x.iniKey[wr.line.key]
					for _, f := range facts {
						call, idx := c25CondCall(f)
						if call == nil || idx != 0 || f.Rel != "true" || !strings.HasPrefix(w.Info(call).Name, "func:slices.Contains") || len(call.Call.Args) != 2 {
							continue
						}
						if lb, lf, _ := x.polFieldLoad(call.Call.Args[0]); known && lb == ssa.Value(recv) && lf == fi && call.Call.Args[1] == ssa.Value(wr.line.param) {
							just = true
						}
					}
				}
			}
			// positively wrong: a test of the toggled field with the opposite value, or no condition at all
			contrary := len(facts) == 0
			if m.kind == "toggle" {
				for _, wr := range m.writes {
					fi, known := x.iniKey[wr.line.key]
					for _, f := range facts {
						if lb, lf, truth, ok := x.boolFieldFact(f); wr.kind == "append" && known && ok && lb == ssa.Value(recv) && lf == fi && truth != wr.line.val {
							contrary = true
						}
					}
				}
			}
			msg := "the mutator reports success without writing the file and without a dominating test that the policy already has the target value: the operation is silently skipped. Facts that hold: " + an.DescribeFacts(facts)
			switch {
			case just:
				c.OK("C25.R2", cons, w.Pos(r.Pos()), "success without a write only when memory already has the value the mutator would write")
			case contrary && c25exported(fn):
				c.Bad("C25.R2", cons, w.Pos(r.Pos()), msg)
			default:
				c.Unknown("C25.R2", cons, w.Pos(r.Pos()), "cannot interpret the condition of a success return that writes nothing: "+msg)
			}
		}
	}
	// semantic floor: distinct (append|rewrite, line) operations understood, not call sites
	ops := map[string]bool{}
	undecided := false
	for _, m := range muts {
		if m.kind == "" {
			undecided = true
		}
		for _, wr := range m.writes {
			if wr.line.ok {
				ops[wr.kind+" "+wr.line.format] = true
			}
		}
	}
	_ = nWrites
	if !undecided {
		c.AtLeast("C25.R2", "distinct file operations (append/rewrite of a line) in mutators", len(ops), 6)
	}
	return muts
}

// validatorShape: f(param string) (bool, ...) that returns true only under a
// regexp match of its parameter against a constant pattern.
func (x *c25ctx) validatorShape(f *ssa.Function) bool {
	_, _, ok := x.validatorParts(f)
	return ok
}

func (x *c25ctx) validatorParts(f *ssa.Function) (pattern string, match *ssa.Call, ok bool) {
	if f == nil || f.Blocks == nil || len(f.Params) != 1 {
		return "", nil, false
	}
	for _, ci := range an.Calls(f) {
		call, isCall := ci.(*ssa.Call)
		if !isCall || x.w.Info(ci).Name != "func:regexp.MatchString" || len(call.Call.Args) != 2 {
			continue
		}
		p, isConst := an.ConstString(call.Call.Args[0])
		if !isConst || call.Call.Args[1] != ssa.Value(f.Params[0]) {
			continue
		}
		return p, call, true
	}
	return "", nil, false
}

// validator decides the validator function itself (once per run).
func (x *c25ctx) validator(f *ssa.Function) {
	c, w := x.c, x.w
	name := w.FuncName(f)
	pat, match, _ := x.validatorParts(f)
	// true is returned only when the match result is true
	verdict := "ok"
	nTrue := 0
	for _, rc := range c25retCases(f, 0) {
		v := rc.val
		if k, isC := v.(*ssa.Const); isC && k.Value != nil && k.Value.String() == "false" {
			continue
		}
		nTrue++
		if ex, ok := v.(*ssa.Extract); ok && ex.Tuple == ssa.Value(match) && ex.Index == 0 {
			continue // the match result itself
		}
		under := false
		for _, fa := range x.factsAtCase(f, rc) {
			call, idx := c25CondCall(fa)
			if call == match && idx == 0 && fa.Rel == "true" {
				under = true
			}
		}
		if under {
			continue
		}
		if k, isC := v.(*ssa.Const); isC && k.Value != nil && k.Value.String() == "true" {
			verdict = "bad"
		} else if verdict != "bad" {
			verdict = "unknown"
		}
	}
	switch {
	case verdict == "bad" || nTrue == 0:
		c.Bad("C25.R2", name+" returns true only on match", w.Pos(f.Pos()), "the validator can return true without the regexp having matched (or never returns true)")
	case verdict == "unknown":
		c.Unknown("C25.R2", name+" returns true only on match", w.Pos(f.Pos()), "the validator returns a value that is neither a constant nor the match result: cannot decide")
	default:
		c.OK("C25.R2", name+" returns true only on match", w.Pos(f.Pos()), "`true` is returned only under the regexp match")
	}
	re, err := regexp.Compile(pat)
	if err != nil {
		c.Bad("C25.R2", name+" pattern", w.Pos(match.Pos()), "pattern constant does not compile: "+err.Error())
		return
	}
	hex66 := "02" + strings.Repeat("ab", 32)
	must := []string{hex66, "03" + strings.Repeat("0", 64), strings.Repeat("9", 66)}
	mustNot := map[string]string{
		"":                                "empty",
		hex66[:64]:                        "64 hex digits",
		hex66 + "ab":                      "68 hex digits",
		hex66[:65]:                        "65 hex digits",
		strings.ToUpper(hex66):            "upper-case hex",
		hex66[:65] + "g":                  "non-hex character",
		hex66 + "\n":                      "trailing newline",
		"\n" + hex66:                      "leading newline",
		hex66 + "\nallow_new_swaps=false": "second ini line after the key",
		"x\n" + hex66:                     "key on a second line",
		hex66 + " ":                       "trailing blank",
		hex66[:33] + "\n" + hex66[33:66]:  "newline inside",
		"[" + hex66[:64] + "]":            "ini section header",
	}
	var bad []string
	for _, s := range must {
		if !re.MatchString(s) {
			bad = append(bad, "rejects a 66-digit lower-case hex key")
		}
	}
	for s, what := range mustNot {
		if re.MatchString(s) {
			bad = append(bad, "accepts "+what)
		}
	}
	sort.Strings(bad)
	c.Decide(len(bad) == 0, "C25.R2", name+" pattern", w.Pos(match.Pos()),
		"pattern constant accepts exactly 66 lower-case hex digits on the probe set (whole string, no newline)",
		fmt.Sprintf("pattern %q %s: such input is written as a line of the policy file", pat, strings.Join(bad, ", ")))
}

// boolFieldFact: the fact says that a bool field of a policy object is true / false
// (`if p.F`, `if !p.F`, `if p.F == false`, ...).
func (x *c25ctx) boolFieldFact(f an.Fact) (base ssa.Value, field int, truth string, ok bool) {
	if f.Rel == "true" || f.Rel == "false" {
		if lb, lf, _ := x.polFieldLoad(f.Cond); lb != nil {
			return lb, lf, f.Rel, true
		}
		return nil, -1, "", false
	}
	if !f.NonNum || (f.Rel != "==" && f.Rel != "!=") {
		return nil, -1, "", false
	}
	try := func(k, v ssa.Value) (ssa.Value, int, string, bool) {
		kc, isC := k.(*ssa.Const)
		if !isC || kc.Value == nil || (kc.Value.String() != "true" && kc.Value.String() != "false") {
			return nil, -1, "", false
		}
		lb, lf, _ := x.polFieldLoad(v)
		if lb == nil {
			return nil, -1, "", false
		}
		t := kc.Value.String()
		if f.Rel == "!=" {
			if t == "true" {
				t = "false"
			} else {
				t = "true"
			}
		}
		return lb, lf, t, true
	}
	if b, i, t, ok := try(f.LV, f.RV); ok {
		return b, i, t, true
	}
	return try(f.RV, f.LV)
}

// ---- R3 -------------------------------------------------------------------------------

func (x *c25ctx) r3(muts []*c25mut) {
	c := x.c
	type use struct {
		app, rew map[string]string // format -> position
	}
	keys := map[string]*use{}
	get := func(k string) *use {
		if keys[k] == nil {
			keys[k] = &use{app: map[string]string{}, rew: map[string]string{}}
		}
		return keys[k]
	}
	for _, m := range muts {
		if m.kind == "" {
			continue
		}
		for _, wr := range m.writes {
			u := get(wr.line.key)
			pos := x.w.Pos(wr.call.Pos())
			if wr.kind == "append" {
				u.app[wr.line.format] = pos
			} else {
				u.rew[wr.line.format] = pos
			}
			// key ↔ field
			cons := x.w.FuncName(m.fn) + " " + wr.kind + " key " + wr.line.key
			fi, known := x.iniKey[wr.line.key]
			if !known {
				var ks []string
				for k := range x.iniKey {
					ks = append(ks, k)
				}
				sort.Strings(ks)
				c.Bad("C25.R3", cons, pos, fmt.Sprintf("the written ini key %q is not the ini name of any Policy field (%v): the line is ignored by the parser (IgnoreUnknown), so the change neither applies nor survives", wr.line.key, ks))
				continue
			}
			ft := x.polSt.Field(fi).Type().Underlying()
			typeOK := false
			switch t := ft.(type) {
			case *types.Slice:
				b, ok := t.Elem().Underlying().(*types.Basic)
				typeOK = wr.line.val == "%s" && ok && b.Kind() == types.String
			case *types.Basic:
				if t.Kind() == types.Bool {
					typeOK = wr.line.val == "true" || wr.line.val == "false"
				}
			}
			c.Decide(typeOK, "C25.R3", cons, pos, "key is the ini name of Policy."+x.polSt.Field(fi).Name()+" and the value fits its type",
				fmt.Sprintf("value %q does not fit Policy.%s (%s)", wr.line.val, x.polSt.Field(fi).Name(), ft.String()))
		}
	}
	var ks []string
	for k := range keys {
		ks = append(ks, k)
	}
	sort.Strings(ks)
	incomplete := false
	for _, m := range muts {
		if m.kind == "" {
			incomplete = true
		}
	}
	// the rewrite helpers drop exactly the lines equal to the line they are given
	doneHelper := map[string]bool{}
	nHelpers := 0
	for _, m := range muts {
		for _, wr := range m.writes {
			h := x.w.Info(wr.call).Static
			if wr.kind != "rewrite" || !wr.line.ok || h == nil {
				continue
			}
			k := fmt.Sprintf("%s#%d", x.w.FuncName(h), wr.lineIdx)
			if doneHelper[k] {
				continue
			}
			doneHelper[k] = true
			nHelpers++
			cons := x.w.FuncName(h) + " drops every line equal to its argument"
			switch v, why := x.dropsEqual(h, wr.lineIdx, 0); v {
			case "ok":
				c.OK("C25.R3", cons, x.w.Pos(h.Pos()), "a scanned line is copied to the new file only on the edge `line != argument`: "+why)
			case "bad":
				c.Bad("C25.R3", cons, x.w.Pos(h.Pos()), "a line equal to the target can be copied into the rewritten file ("+why+"): with a repeated line in the file a removal (or a toggle) leaves one copy behind, so the change is reported but after the reload the peer is still listed / the old switch value still present")
			default:
				c.Unknown("C25.R3", cons, x.w.Pos(h.Pos()), "cannot decide that the rewrite drops every line equal to its argument: "+why)
			}
		}
	}
	if !incomplete {
		c.AtLeast("C25.R3", "rewrite helpers whose filter is decided", nHelpers, 1)
	}
	if !incomplete {
		// when a mutator was not understood, C25.R2 already reports it as undecided
		c.AtLeast("C25.R3", "distinct written ini keys", len(ks), 3)
	}
	setOf := func(m map[string]string) []string {
		var out []string
		for k := range m {
			out = append(out, k)
		}
		sort.Strings(out)
		return out
	}
	for _, k := range ks {
		u := keys[k]
		a, r := setOf(u.app), setOf(u.rew)
		pos := "-"
		for _, p := range u.rew {
			pos = p
		}
		for _, p := range u.app {
			if pos == "-" {
				pos = p
			}
		}
		if len(a) == 0 || len(r) == 0 {
			c.Note("C25.R3", "key "+k+" formats", pos, fmt.Sprintf("only appended %v / only removed %v", a, r))
			continue
		}
		same := strings.Join(a, "|") == strings.Join(r, "|")
		if !same && incomplete {
			c.Unknown("C25.R3", "key "+k+" formats", pos, fmt.Sprintf("lines appended %v and removed %v differ, but the lines of some mutators were not understood (see C25.R2): cannot decide", a, r))
			continue
		}
		c.Decide(same, "C25.R3", "key "+k+" formats", pos,
			fmt.Sprintf("lines appended and lines removed for the key are the same set %v", a),
			fmt.Sprintf("lines appended %v and lines removed %v for the same key differ: a removal does not find the line an addition wrote (the change is reported but does not survive the reload), or a toggle leaves the opposite line in the file", a, r))
	}
	// inside one toggle the removed and the appended line differ (same key, opposite value)
	for _, m := range muts {
		if m.kind != "toggle" {
			continue
		}
		var app, rew *c25write
		for _, wr := range m.writes {
			if wr.kind == "append" {
				app = wr
			} else {
				rew = wr
			}
		}
		cons := x.w.FuncName(m.fn) + " toggle lines"
		good := app.line.key == rew.line.key && app.line.val != rew.line.val
		c.Decide(good, "C25.R3", cons, x.w.Pos(app.call.Pos()), "removes the opposite line of the key it appends", fmt.Sprintf("removes %q but appends %q", rew.line.format, app.line.format))
		// the old line must be gone before the new one could be shadowed: order is irrelevant for a last-wins parser, not checked
	}
}

// ---- R4 -------------------------------------------------------------------------------

func (x *c25ctx) r4(muts []*c25mut) {
	c, w := x.c, x.w
	isMut := map[string]bool{}
	for _, m := range muts {
		isMut[m.fn.Name()] = true
	}
	var names []string
	if it := w.Named("swap", "Policy"); it != nil {
		if ifc, ok := it.Underlying().(*types.Interface); ok {
			for i := 0; i < ifc.NumMethods(); i++ {
				names = append(names, ifc.Method(i).Name())
			}
		}
	}
	if len(names) == 0 {
		c.Anchor("interface swap.Policy does not resolve")
		return
	}
	names = append(names, "Get")
	sort.Strings(names)
	n := 0
	for _, nm := range names {
		if isMut[nm] {
			continue
		}
		fn := w.Method(x.polT, nm)
		if fn == nil || fn.Blocks == nil {
			c.Anchor("method (*policy.Policy).%s required by swap.Policy does not resolve", nm)
			continue
		}
		n++
		cons := w.FuncName(fn)
		// library functions are taken as pure functions of their arguments
		through := map[string]bool{}
		for _, ci := range an.Calls(fn) {
			info := w.Info(ci)
			if info.Static != nil && !w.InModule(info.Static) && !strings.HasPrefix(info.Name, "func:(*sync.") {
				through[info.Name] = true
			}
		}
		var badLeaves, unkLeaves []string
		nField := 0
		for _, r := range c25Returns(fn) {
			for i := range r.Results {
				for _, v := range c25RetVals(r, i) {
					ss := w.Sources(v, an.FlowOpts{ThroughCalls: through})
					for _, l := range ss.Leaves {
						switch l.Kind {
						case "const", "zero":
						case "param":
							if p, ok := l.Val.(*ssa.Parameter); ok && p == fn.Params[0] {
								nField++ // the receiver object read as a whole (`snapshot := *p`)
							}
						case "field":
							base, _, _ := x.polFieldLoad(l.Val)
							if fa, ok := l.Val.(*ssa.FieldAddr); ok && x.isPolPtr(fa.X.Type()) {
								base = fa.X
							}
							switch {
							case base == ssa.Value(fn.Params[0]):
								nField++
							case base != nil:
								badLeaves = append(badLeaves, l.String()+" of another policy object")
							default:
								unkLeaves = append(unkLeaves, l.String())
							}
						case "global":
							if g, ok := l.Val.(*ssa.Global); ok && x.writtenAfterInit(g) {
								badLeaves = append(badLeaves, l.String())
							}
							// a package variable that is only initialised counts as a constant
						default:
							unkLeaves = append(unkLeaves, l.String())
						}
					}
				}
			}
		}
		sort.Strings(badLeaves)
		sort.Strings(unkLeaves)
		switch {
		case len(badLeaves) > 0:
			c.Bad("C25.R4", cons, w.Pos(fn.Pos()), fmt.Sprintf("the answer also depends on %v, not only on the live fields of the policy object: a change written to the file and reloaded does not (fully) apply to the next request", badLeaves))
		case len(unkLeaves) > 0:
			c.Unknown("C25.R4", cons, w.Pos(fn.Pos()), fmt.Sprintf("the answer is computed through %v, which is not interpreted: cannot decide that it depends only on the live fields of the policy object", unkLeaves))
		case nField == 0:
			c.Bad("C25.R4", cons, w.Pos(fn.Pos()), "the answer does not read any field of the policy object")
		default:
			c.OK("C25.R4", cons, w.Pos(fn.Pos()), "result derives only from live receiver fields, parameters and constants")
		}
		// lock: info only
		locks, _ := x.lockCalls(fn)
		unl := false
		for _, b := range fn.Blocks {
			for _, in := range b.Instrs {
				if _, fi, ld := x.polFieldLoad(c25ValueOf(in)); fi >= 0 && ld != nil && !an.MustPassInstr(ld, locks) {
					unl = true
				}
			}
		}
		if unl {
			c.Note("C25.R4", cons+" lock", w.Pos(fn.Pos()), "reads policy fields without policy.mu (data race with the whole-object overwrite in reload; verdict owned by C19, DESIGN §4 F10)")
		}
	}
	c.AtLeast("C25.R4", "non-mutating policy methods", n, 6)
	// ReloadFile is public and takes no lock itself
	for _, fn := range prodFuncs(w) {
		if w.FnRel(fn) == "policy" || an.IsTestSupport(w.FnRel(fn)) {
			continue
		}
		for _, ci := range an.Calls(fn) {
			if f := w.Info(ci).Static; f != nil && w.FnRel(f) == "policy" && f.Signature.Recv() != nil && x.isPol(f.Signature.Recv().Type()) {
				locks, _ := x.lockCalls(f)
				if len(locks) == 0 && x.writesPolicy(f) {
					c.Note("C25.R4", w.FuncName(f)+" called from "+w.FuncName(fn), w.Pos(ci.Pos()), "overwrites the policy object without taking policy.mu (C19, DESIGN §4 F10)")
				}
			}
		}
	}
}

func (x *c25ctx) writesPolicy(f *ssa.Function) bool {
	for _, e := range x.w.Summary(f).Effects {
		if e.Info.Static != nil {
			for _, b := range e.Info.Static.Blocks {
				for _, in := range b.Instrs {
					if st, ok := in.(*ssa.Store); ok && x.isPolPtr(st.Addr.Type()) && x.isPolVal(st.Val.Type()) && !x.fresh(st.Addr) {
						return true
					}
				}
			}
		}
	}
	return false
}

func c25ValueOf(in ssa.Instruction) ssa.Value {
	if v, ok := in.(ssa.Value); ok {
		return v
	}
	return nil
}

// writtenAfterInit: some production function other than a package initialiser stores into the global.
func (x *c25ctx) writtenAfterInit(g *ssa.Global) bool {
	for _, fn := range x.w.SrcFuncs(nil) {
		if fn.Name() == "init" && fn.Synthetic != "" {
			continue
		}
		for _, b := range fn.Blocks {
			for _, in := range b.Instrs {
				if st, ok := in.(*ssa.Store); ok && c25root(st.Addr) == ssa.Value(g) {
					return true
				}
			}
		}
	}
	return false
}

// ---- the rewrite helper's filter ----------------------------------------------------------------

func c25isScanLine(w *an.World, v ssa.Value) bool {
	for {
		switch y := v.(type) {
		case *ssa.Convert:
			v = y.X
			continue
		case *ssa.ChangeType:
			v = y.X
			continue
		case *ssa.Call:
			n := w.Info(y).Name
			return n == "func:(*bufio.Scanner).Text" || n == "func:(*bufio.Scanner).Bytes"
		}
		return false
	}
}

// copySinks: calls inside a loop that write a scanned line to the output.
func (x *c25ctx) copySinks(h *ssa.Function) []ssa.CallInstruction {
	var out []ssa.CallInstruction
	for _, ci := range an.Calls(h) {
		if !c25InLoop(ci.Block()) {
			continue
		}
		switch x.w.Info(ci).Name {
		case "func:(*bytes.Buffer).Write", "func:(*bytes.Buffer).WriteString", "func:(*strings.Builder).WriteString", "func:(*strings.Builder).Write",
			"func:(*bufio.Writer).Write", "func:(*bufio.Writer).WriteString", "func:fmt.Fprintln", "func:fmt.Fprintf", "func:fmt.Fprint", "builtin:append":
		default:
			continue
		}
		for _, a := range ci.Common().Args {
			ss := x.w.Sources(a, an.FlowOpts{})
			if ss.HasPrefix("call", "func:(*bufio.Scanner).Text") || ss.HasPrefix("call", "func:(*bufio.Scanner).Bytes") {
				out = append(out, ci)
				break
			}
		}
	}
	return out
}

// dropsEqual: helper h copies a scanned line only when it differs from its parameter #idx.
func (x *c25ctx) dropsEqual(h *ssa.Function, idx int, depth int) (string, string) {
	w := x.w
	if h == nil || h.Blocks == nil || idx >= len(h.Params) || depth > 3 {
		return "unknown", "helper not analysable"
	}
	target := h.Params[idx]
	sinks := x.copySinks(h)
	if len(sinks) > 0 {
		// is there any comparison of the scanned line with the target at all?
		compares := false
		for _, f := range w.Facts(h) {
			if f.NonNum && f.LV != nil && f.RV != nil && ((c25isScanLine(w, f.LV) && f.RV == ssa.Value(target)) || (c25isScanLine(w, f.RV) && f.LV == ssa.Value(target))) {
				compares = true
			}
		}
		for _, sk := range sinks {
			ok := false
			for _, f := range w.FactsDominating(sk) {
				if f.NonNum && f.Rel == "!=" && f.LV != nil && f.RV != nil && ((c25isScanLine(w, f.LV) && f.RV == ssa.Value(target)) || (c25isScanLine(w, f.RV) && f.LV == ssa.Value(target))) {
					ok = true
				}
			}
			if ok {
				continue
			}
			if compares {
				return "bad", "the copy at " + w.Pos(sk.Pos()) + " is reachable without passing the edge `scanned line != argument` (other state decides as well)"
			}
			return "unknown", "the copy at " + w.Pos(sk.Pos()) + " is not guarded by a comparison of the scanned line with the argument"
		}
		return "ok", w.FuncName(h)
	}
	// lines obtained by splitting the file content at "\n" and compared raw keep their "\r"
	if v, why := x.rawSplitCompare(h, target); v != "" {
		return v, why
	}
	// no loop here: the work is delegated
	for _, ci := range an.Calls(h) {
		call, isCall := ci.(*ssa.Call)
		g := w.Info(ci).Static
		if !isCall || g == nil || g == h || !w.InModule(g) || x.helperKind(g) == "" {
			continue
		}
		for j, a := range call.Call.Args {
			if a == ssa.Value(target) {
				return x.dropsEqual(g, j, depth+1)
			}
		}
		// a generic filter with a predicate closure that captures the target
		for j, a := range call.Call.Args {
			mc, isMC := a.(*ssa.MakeClosure)
			if !isMC {
				continue
			}
			captured := -1
			for bi, bv := range mc.Bindings {
				if bv == ssa.Value(target) {
					captured = bi
				}
				// captured by reference: the parameter spilled into a cell
				if al, ok := bv.(*ssa.Alloc); ok && al.Referrers() != nil {
					n, hit := 0, false
					for _, r := range *al.Referrers() {
						if st, ok := r.(*ssa.Store); ok && st.Addr == ssa.Value(al) {
							n++
							hit = st.Val == ssa.Value(target)
						}
					}
					if n == 1 && hit {
						captured = bi
					}
				}
			}
			pf, _ := mc.Fn.(*ssa.Function)
			if captured < 0 || pf == nil {
				continue
			}
			if v, why := x.filterKeepsOn(g, j); v != "ok" {
				return v, why
			}
			return x.predicateIsNotEqual(pf, captured)
		}
	}
	return "unknown", w.FuncName(h) + " neither filters lines itself nor hands its argument to a helper that does"
}

// filterKeepsOn: g copies a scanned line only when its func-typed parameter #k answers true for that line.
func (x *c25ctx) filterKeepsOn(g *ssa.Function, k int) (string, string) {
	w := x.w
	if g.Blocks == nil || k >= len(g.Params) {
		return "unknown", "filter not analysable"
	}
	sinks := x.copySinks(g)
	if len(sinks) == 0 {
		return "unknown", w.FuncName(g) + " has no copy loop"
	}
	for _, sk := range sinks {
		ok := false
		for _, f := range w.FactsDominating(sk) {
			call, isCall := f.Cond.(*ssa.Call)
			if f.Rel == "true" && isCall && call.Call.Value == ssa.Value(g.Params[k]) && len(call.Call.Args) == 1 && c25isScanLine(w, call.Call.Args[0]) {
				ok = true
			}
		}
		if !ok {
			return "unknown", "the copy in " + w.FuncName(g) + " is not simply guarded by the predicate parameter"
		}
	}
	return "ok", ""
}

// predicateIsNotEqual: the closure answers true only when its argument differs from the captured target.
func (x *c25ctx) predicateIsNotEqual(pf *ssa.Function, captured int) (string, string) {
	w := x.w
	if pf.Blocks == nil || len(pf.Params) != 1 || captured >= len(pf.FreeVars) {
		return "unknown", "predicate not analysable"
	}
	line, fv := ssa.Value(pf.Params[0]), ssa.Value(pf.FreeVars[captured])
	// the target is the free variable, or a load of it when it was captured by reference
	isTgt := func(v ssa.Value) bool {
		if v == fv {
			return true
		}
		ld, ok := v.(*ssa.UnOp)
		return ok && ld.Op == token.MUL && ld.X == fv
	}
	for _, b := range pf.Blocks {
		for _, in := range b.Instrs {
			if st, ok := in.(*ssa.Store); ok && st.Addr == fv {
				return "unknown", "the predicate assigns the captured target"
			}
		}
	}
	isNE := func(v ssa.Value) bool {
		b, ok := v.(*ssa.BinOp)
		return ok && b.Op == token.NEQ && ((b.X == line && isTgt(b.Y)) || (isTgt(b.X) && b.Y == line))
	}
	usesTarget := false
	for _, b := range pf.Blocks {
		for _, in := range b.Instrs {
			for _, op := range in.Operands(nil) {
				if *op != nil && isTgt(*op) {
					usesTarget = true
				}
			}
		}
	}
	for _, rc := range c25retCases(pf, 0) {
		if !x.mayBe(pf, rc, "true") {
			continue
		}
		if isNE(rc.val) {
			continue
		}
		under := false
		for _, f := range x.factsAtCase(pf, rc) {
			if f.NonNum && f.Rel == "!=" && f.LV != nil && f.RV != nil && ((f.LV == line && isTgt(f.RV)) || (isTgt(f.LV) && f.RV == line)) {
				under = true
			}
		}
		if under {
			continue
		}
		if usesTarget {
			return "bad", "the predicate " + w.FuncName(pf) + " can keep a line without comparing the whole line with the target"
		}
		return "unknown", "the predicate " + w.FuncName(pf) + " is not understood"
	}
	return "ok", "predicate " + w.FuncName(pf)
}

// keylessRemove: a remove-mutator hands the bare parameter (no `key=` part) to the
// rewrite helper. Unless an ini key is built into the helper, the deletion cannot
// be matched on the key: it also deletes the peer's line under the other key.
func (x *c25ctx) keylessRemove(fn *ssa.Function, wr *c25write, arg ssa.Value) {
	c, w := x.c, x.w
	p, isParam := arg.(*ssa.Parameter)
	h := w.Info(wr.call).Static
	if !isParam || p.Parent() != fn || h == nil {
		return
	}
	// every function the helper can run: static in-module callees and closures created on the way
	seen := map[*ssa.Function]bool{}
	var fns []*ssa.Function
	var walk func(f *ssa.Function, depth int)
	walk = func(f *ssa.Function, depth int) {
		if f == nil || seen[f] || f.Blocks == nil || !w.InModule(f) || depth > 4 {
			return
		}
		seen[f] = true
		fns = append(fns, f)
		for _, b := range f.Blocks {
			for _, in := range b.Instrs {
				switch y := in.(type) {
				case *ssa.MakeClosure:
					if g, ok := y.Fn.(*ssa.Function); ok {
						walk(g, depth+1)
					}
				case ssa.CallInstruction:
					walk(w.Info(y).Static, depth+1)
				}
			}
		}
	}
	walk(h, 0)
	var keyConsts []string
	for _, f := range fns {
		for _, b := range f.Blocks {
			for _, in := range b.Instrs {
				for _, op := range in.Operands(nil) {
					if *op == nil {
						continue
					}
					if cs, ok := an.ConstString(*op); ok {
						for k := range x.iniKey {
							if strings.Contains(cs, k) {
								keyConsts = append(keyConsts, cs)
							}
						}
					}
				}
			}
		}
	}
	cons := w.FuncName(fn) + " " + wr.kind + " match involves the key"
	if len(keyConsts) == 0 {
		c.Bad("C25.R3", cons, w.Pos(wr.call.Pos()), "the remove-mutator hands only the bare parameter to "+w.FuncName(h)+" and neither the argument nor the helper contains the ini key: the deletion is matched on the value alone, so it also deletes the line of the same peer under every other key (removing a peer from one list removes it from the other; the change to the other list was never requested and survives the reload)")
		return
	}
	sort.Strings(keyConsts)
	c.Unknown("C25.R3", cons, w.Pos(wr.call.Pos()), fmt.Sprintf("the remove-mutator hands only the bare parameter to %s; the helper contains the key constant(s) %v but how they enter the match is not analysed", w.FuncName(h), keyConsts))
}

// readsPolicy: the function loads a field of a policy.Policy object.
func (x *c25ctx) readsPolicy(g *ssa.Function) bool {
	for _, b := range g.Blocks {
		for _, in := range b.Instrs {
			if v, ok := in.(ssa.Value); ok {
				if _, _, ld := x.polFieldLoad(v); ld != nil {
					return true
				}
			}
		}
	}
	return false
}

// c25flowsToBranch: the value (or something computed from it) is the condition of a branch.
func c25flowsToBranch(v ssa.Value) bool {
	seen := map[ssa.Value]bool{}
	var rec func(v ssa.Value, depth int) bool
	rec = func(v ssa.Value, depth int) bool {
		if seen[v] || depth > 12 || v.Referrers() == nil {
			return false
		}
		seen[v] = true
		for _, r := range *v.Referrers() {
			switch y := r.(type) {
			case *ssa.If:
				return true
			case *ssa.Store:
				if al, ok := y.Addr.(*ssa.Alloc); ok && y.Val == v {
					for _, ld := range an.LoadsReachedBy(y) {
						if rec(ld, depth+1) {
							return true
						}
					}
					_ = al
				}
			case *ssa.Call:
				// an argument of a library or in-module function whose result is tested
				if rec(y, depth+1) {
					return true
				}
			case *ssa.Return, *ssa.Defer, *ssa.Go:
			case ssa.Value:
				if rec(y, depth+1) {
					return true
				}
			}
		}
		return false
	}
	return rec(v, 0)
}

// rawSplitCompare: the helper splits the file content with strings.Split(content, "\n")
// and compares the raw elements with the target. Unlike bufio.Scanner's ScanLines this
// keeps the "\r" of a CRLF file on every element, so no line of such a file (which the
// ini parser loads without complaint) ever equals the target: the removal reports
// success and changes nothing. "" when the shape is not present.
func (x *c25ctx) rawSplitCompare(h *ssa.Function, target *ssa.Parameter) (string, string) {
	w := x.w
	var split *ssa.Call
	for _, ci := range an.Calls(h) {
		call, ok := ci.(*ssa.Call)
		if !ok || len(call.Call.Args) != 2 {
			continue
		}
		switch w.Info(ci).Name {
		case "func:strings.Split", "func:strings.SplitN", "func:strings.SplitAfter", "func:bytes.Split":
			if sep, ok := an.ConstString(call.Call.Args[1]); ok && sep == "\n" {
				split = call
			}
		}
	}
	if split == nil {
		return "", ""
	}
	name := w.Info(split).Name + "#0"
	for _, f := range w.Facts(h) {
		if !f.NonNum || f.LV == nil || f.RV == nil || (f.Rel != "!=" && f.Rel != "==") {
			continue
		}
		var other ssa.Value
		switch {
		case f.LV == ssa.Value(target):
			other = f.RV
		case f.RV == ssa.Value(target):
			other = f.LV
		default:
			continue
		}
		ss := w.Sources(other, an.FlowOpts{})
		raw := len(ss.Leaves) > 0
		for _, l := range ss.Leaves {
			if !(l.Kind == "call" && l.Name == name) {
				raw = false
			}
		}
		if raw {
			return "bad", "the lines come from " + strings.TrimPrefix(w.Info(split).Name, "func:") + `(content, "\n") and are compared untrimmed: on a file with CRLF line ends every element ends in "\r" and never equals the target, so the removal is reported but nothing is removed (bufio.Scanner's ScanLines, which the helper must be equivalent to, drops the "\r")`
		}
		return "unknown", "the lines come from a split at \"\\n\" and are transformed before the comparison; whether \"\\r\" is dropped and every kept line is re-terminated is not analysed"
	}
	return "unknown", "the helper splits the content at \"\\n\" but no comparison with the target was recognised"
}
