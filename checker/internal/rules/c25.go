package rules

import (
	"fmt"
	"go/token"
	"go/types"
	"reflect"
	"regexp"
	"sort"
	"strings"

	"golang.org/x/tools/go/ssa"

	"psv/internal/an"
)

func init() {
	Register(&Prop{
		ID: "C25",
		Expl: "Decides the structural form of the invariant 'the in-memory policy is a pure function of the policy file': " +
			"(R1) over ALL stores of the production program into a policy.Policy object: each one initialises a freshly allocated object, or is the whole-object overwrite with the value just parsed from the file, or restores the path field with the value it had before that overwrite; no mutator edits a field in place, and every success return after the overwrite has the path restored; " +
			"(R2) over ALL methods of *Policy that reach a file write: every file write is dominated by policy.mu.Lock, by the pubkey validator passing on the very parameter that is written (validator = anchored regexp over the whole string, decided by interpreting the pattern constant on probe strings) and, for additions, by the not-already-present test on the list the written ini key belongs to; every path from a successful write to a return reloads the file first, the reload error is not dropped, and a nil return that wrote nothing is justified by a dominating test that memory already equals the written value; " +
			"(R3) the ini lines: every written key is the ini name of a Policy field of the matching type, the line appended and the line removed for the same key have the same format, and the two toggles write/remove each other's lines; " +
			"(R4) every non-mutating method of the swap.Policy interface (and Get) computes its result only from the live fields of its receiver. The quantifier is over all stores, all mutators, all their CFG paths and all written lines, i.e. over all sequences of operations.",
		NotD: "Semantics of the go-flags ini parser (sections, `key = value` spelling, last-wins for repeated scalar keys), a pre-existing file without trailing newline, file-system atomicity and I/O failures between the two writes of a toggle, in-place mutation of a list through a library call or through the slices returned by Get(), whether the lock is held by readers (owned by C19; listed as info under R4).",
		Run:  runC25,
	})
}

// c25ReportErrorPathAsViolation: an error return between the whole-object
// overwrite and the path restore loses the path. It needs an environment fault
// (open(2) failing), which is outside the property's quantifier, so it is
// reported as info, not as a violation.
const c25ReportErrorPathAsViolation = false

type c25ctx struct {
	c     *an.Check
	w     *an.World
	polT  *types.Named
	polSt *types.Struct
	mu    *ssa.Global
	// ini key -> field index
	iniKey map[string]int
}

func runC25(c *an.Check) {
	c.Rule("C25.R1", "every store into a policy.Policy object is an initialisation of a fresh object, the whole-object overwrite with the freshly parsed file, or the restore of `path`; success returns after the overwrite have `path` restored")
	c.Rule("C25.R2", "mutators: file writes under policy.mu and dominated by validator(param) [and not-present(list of the key, param) for additions]; write ⇒ reload before every return; reload error propagated; nil-without-write only when memory already equals the target")
	c.Rule("C25.R3", "written ini keys are the ini names of Policy fields of the right type; add/remove formats of a key agree; toggles write/remove each other's lines")
	c.Rule("C25.R4", "non-mutating swap.Policy methods and Get derive their result only from live receiver fields (lock discipline: info, owned by C19)")
	w := c.W
	x := &c25ctx{c: c, w: w, iniKey: map[string]int{}}
	x.polT = w.Named("policy", "Policy")
	if x.polT == nil {
		c.Anchor("type policy.Policy does not resolve")
		return
	}
	st, ok := x.polT.Underlying().(*types.Struct)
	if !ok {
		c.Anchor("policy.Policy is not a struct")
		return
	}
	x.polSt = st
	if sp := w.SSA["policy"]; sp != nil {
		if g, ok := sp.Members["mu"].(*ssa.Global); ok {
			x.mu = g
		}
	}
	if x.mu == nil {
		c.Anchor("package-level mutex policy.mu does not resolve")
		return
	}
	for i := 0; i < st.NumFields(); i++ {
		tag := reflect.StructTag(st.Tag(i))
		if tag.Get("no-ini") != "" {
			continue
		}
		k := tag.Get("ini-name")
		if k == "" {
			k = tag.Get("long")
		}
		if k != "" {
			x.iniKey[k] = i
		}
	}
	if !c.AtLeast("C25", "Policy fields with an ini name", len(x.iniKey), 6) {
		return
	}
	overwriters := x.r1()
	muts := x.r2(overwriters)
	x.r3(muts)
	x.r4(muts)
}

// ---- small SSA helpers ----------------------------------------------------------

func (x *c25ctx) isPol(t types.Type) bool {
	n := an.NamedOf(t)
	return n != nil && n.Obj() == x.polT.Obj()
}

func (x *c25ctx) isPolPtr(t types.Type) bool {
	p, ok := t.Underlying().(*types.Pointer)
	if !ok {
		return false
	}
	n, ok := p.Elem().(*types.Named)
	return ok && n.Obj() == x.polT.Obj()
}

func (x *c25ctx) isPolVal(t types.Type) bool {
	n, ok := t.(*types.Named)
	return ok && n.Obj() == x.polT.Obj()
}

// reachable returns of fn (the recover block is not reachable from the entry).
func c25Returns(fn *ssa.Function) []*ssa.Return {
	if len(fn.Blocks) == 0 {
		return nil
	}
	reach := an.ReachBlocks([]*ssa.BasicBlock{fn.Blocks[0]}, nil, nil)
	var out []*ssa.Return
	for _, r := range an.Returns(fn) {
		if reach[r.Block()] {
			out = append(out, r)
		}
	}
	return out
}

// c25RetVals resolves result #idx of a return through the `*t0 = v; rundefers;
// t = *t0; return t` shape that named/deferred returns take in SSA.
func c25RetVals(r *ssa.Return, idx int) []ssa.Value {
	if idx >= len(r.Results) {
		return nil
	}
	v := r.Results[idx]
	ld, ok := v.(*ssa.UnOp)
	if !ok || ld.Op != token.MUL {
		return []ssa.Value{v}
	}
	al, ok := ld.X.(*ssa.Alloc)
	if !ok {
		return []ssa.Value{v}
	}
	// the last store to al before the load in the same block
	var last ssa.Value
	for _, in := range r.Block().Instrs {
		if in == ssa.Instruction(ld) {
			break
		}
		if s, ok := in.(*ssa.Store); ok && s.Addr == al {
			last = s.Val
		}
	}
	if last != nil {
		return []ssa.Value{last}
	}
	var out []ssa.Value
	if al.Referrers() != nil {
		for _, ref := range *al.Referrers() {
			if s, ok := ref.(*ssa.Store); ok && s.Addr == al {
				out = append(out, s.Val)
			}
		}
	}
	if len(out) == 0 {
		return []ssa.Value{v}
	}
	return out
}

// freshPtr: v is a pointer to an object allocated on the way (never the
// published policy): an Alloc, or the result of an in-module function all of
// whose results are fresh.
func (x *c25ctx) freshPtr(v ssa.Value, depth int, seen map[ssa.Value]bool) bool {
	if depth > 6 || seen[v] {
		return depth <= 6
	}
	seen[v] = true
	switch y := v.(type) {
	case *ssa.Alloc:
		return true
	case *ssa.Const:
		return y.Value == nil
	case *ssa.Phi:
		for _, e := range y.Edges {
			if !x.freshPtr(e, depth, seen) {
				return false
			}
		}
		return true
	case *ssa.Extract:
		if call, ok := y.Tuple.(*ssa.Call); ok {
			return x.freshCall(call, y.Index, depth, seen)
		}
	case *ssa.Call:
		return x.freshCall(y, 0, depth, seen)
	}
	return false
}

func (x *c25ctx) freshCall(call *ssa.Call, idx, depth int, seen map[ssa.Value]bool) bool {
	f := x.w.Info(call).Static
	if f == nil || !x.w.InModule(f) || f.Blocks == nil {
		return false
	}
	rets := c25Returns(f)
	if len(rets) == 0 {
		return false
	}
	for _, r := range rets {
		for _, v := range c25RetVals(r, idx) {
			if !x.freshPtr(v, depth+1, seen) {
				return false
			}
		}
	}
	return true
}

func (x *c25ctx) fresh(v ssa.Value) bool { return x.freshPtr(v, 0, map[ssa.Value]bool{}) }

// parsedFromFile: the pointer comes from an in-module call that (transitively)
// runs the ini parser.
func (x *c25ctx) parsedFromFile(v ssa.Value) bool {
	var call *ssa.Call
	switch y := v.(type) {
	case *ssa.Extract:
		call, _ = y.Tuple.(*ssa.Call)
	case *ssa.Call:
		call = y
	}
	if call == nil {
		return false
	}
	f := x.w.Info(call).Static
	if f == nil || !x.w.InModule(f) {
		return false
	}
	for _, e := range x.w.Summary(f).Effects {
		if strings.HasSuffix(e.Name, "go-flags.IniParser).Parse") {
			return true
		}
	}
	return false
}

func (x *c25ctx) fieldIdx(name string) int {
	for i := 0; i < x.polSt.NumFields(); i++ {
		if x.polSt.Field(i).Name() == name {
			return i
		}
	}
	return -1
}

// polFieldLoad: v is a load `*(&base.F)` (or base.F) of a Policy field; returns base, field index.
func (x *c25ctx) polFieldLoad(v ssa.Value) (ssa.Value, int, ssa.Instruction) {
	switch y := v.(type) {
	case *ssa.UnOp:
		if y.Op == token.MUL {
			if fa, ok := y.X.(*ssa.FieldAddr); ok && x.isPolPtr(fa.X.Type()) {
				return fa.X, fa.Field, y
			}
		}
	case *ssa.Field:
		if x.isPolVal(y.X.Type()) {
			return y.X, y.Field, y
		}
	}
	return nil, -1, nil
}

// after reports whether instruction b can execute after instruction a.
func c25After(a, b ssa.Instruction) bool {
	if a.Block() == b.Block() {
		if an.InstrIndex(b) > an.InstrIndex(a) {
			return true
		}
	}
	return an.ReachFromInstr(a)[b.Block()] && (a.Block() != b.Block() || c25InLoop(a.Block()))
}

func c25InLoop(b *ssa.BasicBlock) bool { return an.ReachBlocks(b.Succs, nil, nil)[b] }

// ---- R1 -------------------------------------------------------------------------------

type c25overwrite struct {
	fn         *ssa.Function
	store      *ssa.Store
	preserving bool // the parsed object gets the old path before it is copied over
}

func (x *c25ctx) r1() map[*ssa.Function]*c25overwrite {
	c, w := x.c, x.w
	pathIdx := x.fieldIdx("path")
	if pathIdx < 0 {
		c.Anchor("field policy.Policy.path does not resolve")
		return nil
	}
	over := map[*ssa.Function]*c25overwrite{}
	type restore struct {
		st   *ssa.Store
		base ssa.Value
		load ssa.Instruction
	}
	restores := map[*ssa.Function][]restore{}
	nInit, nOver, nRestore := 0, 0, 0
	for _, fn := range prodFuncs(w) {
		for _, b := range fn.Blocks {
			for _, in := range b.Instrs {
				st, ok := in.(*ssa.Store)
				if !ok {
					continue
				}
				pos := w.Pos(st.Pos())
				switch a := st.Addr.(type) {
				case *ssa.FieldAddr:
					if !x.isPolPtr(a.X.Type()) {
						continue
					}
					fname := x.polSt.Field(a.Field).Name()
					cons := w.FuncName(fn) + " store Policy." + fname
					if x.fresh(a.X) {
						nInit++
						c.OK("C25.R1", cons, pos, "initialises a freshly allocated policy object")
						continue
					}
					if a.Field == pathIdx {
						if lb, lf, ld := x.polFieldLoad(st.Val); lb == a.X && lf == pathIdx {
							restores[fn] = append(restores[fn], restore{st, a.X, ld})
							continue // decided below, once the overwrite calls are known
						}
					}
					c.Bad("C25.R1", cons, pos, "a field of the live policy object is edited in place: memory stops being a function of the policy file (a failing or skipped file write, or the next reload, makes them disagree). Value: "+w.Term(st.Val))
				case *ssa.IndexAddr:
					if lb, lf, _ := x.polFieldLoad(a.X); lb != nil && !x.fresh(lb) {
						c.Bad("C25.R1", w.FuncName(fn)+" store element of Policy."+x.polSt.Field(lf).Name(), pos, "an element of a list of the live policy object is overwritten in place")
					}
				default:
					if !x.isPolPtr(st.Addr.Type()) || !x.isPolVal(st.Val.Type()) {
						continue
					}
					cons := w.FuncName(fn) + " store *Policy"
					if x.fresh(st.Addr) {
						nInit++
						c.OK("C25.R1", cons, pos, "copies into a freshly allocated policy object")
						continue
					}
					ld, isLd := st.Val.(*ssa.UnOp)
					if isLd && ld.Op == token.MUL && x.fresh(ld.X) && x.parsedFromFile(ld.X) {
						nOver++
						ow := &c25overwrite{fn: fn, store: st}
						// does the parsed object get the old path first?
						if ld.X.Referrers() != nil {
							for _, ref := range *ld.X.Referrers() {
								fa, ok := ref.(*ssa.FieldAddr)
								if !ok || fa.Field != pathIdx || fa.Referrers() == nil {
									continue
								}
								for _, rr := range *fa.Referrers() {
									s2, ok := rr.(*ssa.Store)
									if !ok || s2.Addr != fa {
										continue
									}
									if lb, lf, _ := x.polFieldLoad(s2.Val); lb == st.Addr && lf == pathIdx && an.MustPassInstr(st, []ssa.Instruction{s2}) {
										ow.preserving = true
									}
								}
							}
						}
						over[fn] = ow
						c.OK("C25.R1", cons, pos, "whole-object overwrite with the policy freshly parsed from the file")
						continue
					}
					c.Bad("C25.R1", cons, pos, "the live policy object is overwritten with a value that is not the freshly parsed file: "+w.Term(st.Val))
				}
			}
		}
	}
	c.AtLeast("C25.R1", "initialising stores into fresh Policy objects", nInit, 7)
	if !c.AtLeast("C25.R1", "whole-object overwrites with the parsed file", nOver, 1) {
		return over
	}

	// callers of the overwriting function: path restored on every success return
	nCalls := 0
	for _, fn := range prodFuncs(w) {
		var ocs []*ssa.Call
		for _, ci := range an.Calls(fn) {
			call, ok := ci.(*ssa.Call)
			if !ok {
				continue
			}
			if f := w.Info(call).Static; f != nil && over[f] != nil {
				ocs = append(ocs, call)
			}
		}
		// restores: the restored value must have been read before any overwrite
		for _, rs := range restores[fn] {
			cons := w.FuncName(fn) + " store Policy.path"
			okRestore := len(ocs) > 0
			for _, oc := range ocs {
				if len(oc.Call.Args) == 0 || oc.Call.Args[0] != rs.base {
					okRestore = false
				}
				if c25After(oc, rs.load) {
					okRestore = false // reads the already overwritten (empty) path
				}
			}
			if okRestore {
				nRestore++
				c.OK("C25.R1", cons, w.Pos(rs.st.Pos()), "restores the path read before the overwrite")
			} else {
				c.Bad("C25.R1", cons, w.Pos(rs.st.Pos()), "path is assigned from the object's own path field but not as a restore around the whole-object overwrite (the value is read after the overwrite, or there is no overwrite here)")
			}
		}
		for _, oc := range ocs {
			nCalls++
			ow := over[w.Info(oc).Static]
			cons := w.FuncName(fn) + " after " + w.FuncName(ow.fn)
			if ow.preserving {
				nRestore++
				c.OK("C25.R1", cons, w.Pos(oc.Pos()), "the overwrite itself carries the old path over")
				continue
			}
			stop := map[*ssa.BasicBlock]bool{}
			sameBlockRestore := false
			for _, rs := range restores[fn] {
				if len(oc.Call.Args) > 0 && rs.base == oc.Call.Args[0] && !c25After(oc, rs.load) {
					if rs.st.Block() == oc.Block() {
						if an.InstrIndex(rs.st) > an.InstrIndex(oc) {
							sameBlockRestore = true
						}
						continue
					}
					stop[rs.st.Block()] = true
				}
			}
			if sameBlockRestore {
				c.OK("C25.R1", cons, w.Pos(oc.Pos()), "path restored right after the overwrite")
				continue
			}
			okE, _ := an.OkEdges(oc)
			var start []*ssa.BasicBlock
			for _, e := range okE {
				start = append(start, e.To())
			}
			if len(okE) == 0 {
				start = oc.Block().Succs
			}
			reach := an.ReachBlocks(start, nil, stop)
			if len(okE) == 0 {
				reach[oc.Block()] = true // `return p.reload(f)`: the return sits in the call block
			}
			good := true
			for _, r := range c25Returns(fn) {
				if !reach[r.Block()] || stop[r.Block()] {
					continue
				}
				idx := len(r.Results) - 1
				isNil := false
				for _, v := range c25RetVals(r, idx) {
					if an.IsNilConst(v) {
						isNil = true
					}
				}
				// a return of the overwriter's own result in the call block (return p.reload(f))
				direct := false
				for _, v := range c25RetVals(r, idx) {
					if v == ssa.Value(oc) {
						direct = true
					}
				}
				if isNil || direct || c25ReportErrorPathAsViolation {
					good = false
					c.Bad("C25.R1", cons, w.Pos(r.Pos()), "a return reached after the policy object was overwritten by the parsed file leaves `path` empty: every later mutation and reload answers 'no policy file given', so changes are no longer written and reloads no longer apply")
				} else {
					c.Note("C25.R1", cons+" error return without restore", w.Pos(r.Pos()), "an error return between the overwrite and the path restore leaves path empty (needs open(2) to fail after the first open succeeded; environment fault, outside the property's quantifier): "+w.Term(c25RetVals(r, idx)[0]))
				}
			}
			if good {
				c.OK("C25.R1", cons, w.Pos(oc.Pos()), "every success return after the overwrite passes the path restore")
			}
		}
	}
	c.AtLeast("C25.R1", "call sites of the overwriting function", nCalls, 1)
	c.AtLeast("C25.R1", "path restores", nRestore, 1)
	return over
}

// ---- R2 -------------------------------------------------------------------------------

type c25line struct {
	format string // "key=%s" or "key=value"
	key    string
	val    string         // "%s" or the constant value
	param  *ssa.Parameter // for %s
	ok     bool
	why    string
}

type c25write struct {
	call *ssa.Call
	kind string // append | rewrite
	line c25line
}

type c25mut struct {
	fn      *ssa.Function
	writes  []*c25write
	reloads []*ssa.Call
	kind    string // add | remove | toggle | ?
}

func (x *c25ctx) helperKind(f *ssa.Function) string {
	if f == nil || !x.w.InModule(f) || f.Blocks == nil {
		return ""
	}
	app, rew := false, false
	for _, e := range x.w.Summary(f).Effects {
		switch e.Name {
		case "func:(*os.File).WriteString", "func:(*os.File).Write", "func:(*os.File).WriteAt":
			app = true
		case "func:os.WriteFile", "func:os.Rename", "func:(*os.File).Truncate":
			rew = true
		}
	}
	switch {
	case app && rew:
		return "both"
	case app:
		return "append"
	case rew:
		return "rewrite"
	}
	return ""
}

func (x *c25ctx) reaches(f *ssa.Function, over map[*ssa.Function]*c25overwrite) bool {
	if f == nil {
		return false
	}
	if over[f] != nil {
		return true
	}
	if !x.w.InModule(f) {
		return false
	}
	for _, e := range x.w.Summary(f).Effects {
		if e.Info.Static != nil && over[e.Info.Static] != nil {
			return true
		}
	}
	return false
}

func (x *c25ctx) lineOf(fn *ssa.Function, v ssa.Value) c25line {
	if s, ok := an.ConstString(v); ok {
		i := strings.Index(s, "=")
		if i <= 0 {
			return c25line{why: "constant line without `=`: " + s}
		}
		return c25line{format: s, key: strings.TrimSpace(s[:i]), val: strings.TrimSpace(s[i+1:]), ok: true}
	}
	asParam := func(v ssa.Value) *ssa.Parameter {
		for {
			switch y := v.(type) {
			case *ssa.MakeInterface:
				v = y.X
				continue
			case *ssa.ChangeType:
				v = y.X
				continue
			case *ssa.Parameter:
				if y.Parent() == fn {
					return y
				}
			}
			return nil
		}
	}
	switch y := v.(type) {
	case *ssa.BinOp:
		if y.Op == token.ADD {
			if s, ok := an.ConstString(y.X); ok && strings.HasSuffix(s, "=") && len(s) > 1 && !strings.Contains(s[:len(s)-1], "=") {
				if p := asParam(y.Y); p != nil {
					return c25line{format: s + "%s", key: s[:len(s)-1], val: "%s", param: p, ok: true}
				}
			}
		}
	case *ssa.Call:
		if x.w.Info(y).Name != "func:fmt.Sprintf" || len(y.Call.Args) != 2 {
			break
		}
		f, ok := an.ConstString(y.Call.Args[0])
		if !ok {
			return c25line{why: "non-constant format"}
		}
		eq := strings.Index(f, "=")
		if !strings.HasSuffix(f, "%s") || strings.Count(f, "%") != 1 || strings.Count(f, "=") != 1 || eq <= 0 || strings.TrimSpace(f[eq+1:]) != "%s" {
			return c25line{why: "format is not `key=%s`: " + f}
		}
		sl, ok := y.Call.Args[1].(*ssa.Slice)
		if !ok {
			break
		}
		al, ok := sl.X.(*ssa.Alloc)
		if !ok || al.Referrers() == nil {
			break
		}
		var vals []ssa.Value
		for _, ref := range *al.Referrers() {
			if ia, ok := ref.(*ssa.IndexAddr); ok && ia.Referrers() != nil {
				for _, rr := range *ia.Referrers() {
					if s, ok := rr.(*ssa.Store); ok && s.Addr == ia {
						vals = append(vals, s.Val)
					}
				}
			}
		}
		if len(vals) != 1 {
			return c25line{why: "format arguments are not a single value"}
		}
		p := asParam(vals[0])
		if p == nil {
			return c25line{why: "formatted value is not a parameter of the mutator: " + x.w.Term(vals[0])}
		}
		return c25line{format: f, key: strings.TrimSpace(f[:eq]), val: "%s", param: p, ok: true}
	}
	return c25line{why: "unsupported line expression " + x.w.Term(v)}
}

func (x *c25ctx) lockCalls(fn *ssa.Function) (locks []ssa.Instruction, unlocks []ssa.CallInstruction) {
	for _, ci := range an.Calls(fn) {
		info := x.w.Info(ci)
		if len(ci.Common().Args) == 0 || ci.Common().Args[0] != ssa.Value(x.mu) {
			continue
		}
		switch info.Name {
		case "func:(*sync.Mutex).Lock":
			if !info.IsDefer && !info.IsGo {
				locks = append(locks, ci)
			}
		case "func:(*sync.Mutex).Unlock":
			if !info.IsDefer {
				unlocks = append(unlocks, ci)
			}
		}
	}
	return
}

// condCall: the fact's condition is result #idx of a call.
func c25CondCall(f an.Fact) (*ssa.Call, int) {
	switch y := f.Cond.(type) {
	case *ssa.Call:
		return y, 0
	case *ssa.Extract:
		if call, ok := y.Tuple.(*ssa.Call); ok {
			return call, y.Index
		}
	}
	return nil, -1
}

func (x *c25ctx) r2(over map[*ssa.Function]*c25overwrite) []*c25mut {
	c, w := x.c, x.w
	var muts []*c25mut
	helpers := map[string]int{}
	for _, fn := range prodFuncs(w) {
		if w.FnRel(fn) != "policy" || fn.Parent() != nil {
			continue
		}
		hk := x.helperKind(fn)
		if hk == "" {
			continue
		}
		isMethod := fn.Signature.Recv() != nil && x.isPol(fn.Signature.Recv().Type())
		m := &c25mut{fn: fn}
		direct := false // calls a write primitive itself
		wrapsOnly := true
		for _, ci := range an.Calls(fn) {
			call, ok := ci.(*ssa.Call)
			info := w.Info(ci)
			switch info.Name {
			case "func:(*os.File).WriteString", "func:(*os.File).Write", "func:(*os.File).WriteAt", "func:os.WriteFile", "func:os.Rename", "func:(*os.File).Truncate":
				direct = true
			}
			if !ok {
				continue
			}
			if k := x.helperKind(info.Static); k != "" {
				callee := info.Static
				calleeIsMethod := callee.Signature.Recv() != nil && x.isPol(callee.Signature.Recv().Type())
				if !calleeIsMethod {
					wrapsOnly = false
					m.writes = append(m.writes, &c25write{call: call, kind: k})
				}
			}
			if x.reaches(info.Static, over) {
				m.reloads = append(m.reloads, call)
			}
		}
		if !isMethod {
			if direct {
				helpers[hk]++
			} else {
				c.Unknown("C25.R2", w.FuncName(fn), w.Pos(fn.Pos()), "a non-method of package policy reaches a file write only through other functions: unsupported helper shape")
			}
			continue
		}
		if direct {
			c.Unknown("C25.R2", w.FuncName(fn), w.Pos(fn.Pos()), "a *Policy method calls a file-write primitive directly: line and guards cannot be related (unsupported shape)")
			continue
		}
		if len(m.writes) == 0 {
			if wrapsOnly {
				c.Note("C25.R2", w.FuncName(fn), w.Pos(fn.Pos()), "reaches the file only through other mutators (which are checked)")
			}
			continue
		}
		muts = append(muts, m)
	}
	sort.Slice(muts, func(i, j int) bool { return w.FuncName(muts[i].fn) < w.FuncName(muts[j].fn) })
	if !c.AtLeast("C25.R2", "mutators (methods of *Policy that write the file)", len(muts), 6) {
		return muts
	}
	c.AtLeast("C25.R2", "append helpers", helpers["append"], 1)
	c.AtLeast("C25.R2", "rewrite helpers", helpers["rewrite"], 1)

	nWrites := 0
	for _, m := range muts {
		fn := m.fn
		name := w.FuncName(fn)
		pos := w.Pos(fn.Pos())
		if len(fn.Params) == 0 {
			continue
		}
		recv := fn.Params[0]
		// ---- lines
		shapeOK := true
		for _, wr := range m.writes {
			nWrites++
			var lineArgs []ssa.Value
			pathOK := false
			for _, a := range wr.call.Call.Args {
				b, ok := a.Type().Underlying().(*types.Basic)
				if !ok || b.Kind() != types.String {
					continue
				}
				if lb, lf, _ := x.polFieldLoad(a); lb == ssa.Value(recv) && lf == x.fieldIdx("path") {
					pathOK = true
					continue
				}
				lineArgs = append(lineArgs, a)
			}
			if !pathOK || len(lineArgs) != 1 {
				c.Unknown("C25.R2", name+" "+wr.kind, w.Pos(wr.call.Pos()), "cannot tell the path argument (must be the receiver's path field) from the line argument of the file helper")
				shapeOK = false
				continue
			}
			wr.line = x.lineOf(fn, lineArgs[0])
			if !wr.line.ok {
				c.Unknown("C25.R2", name+" "+wr.kind, w.Pos(wr.call.Pos()), "written line not understood: "+wr.line.why)
				shapeOK = false
			}
		}
		if !shapeOK {
			continue
		}
		nApp, nRew, nPar := 0, 0, 0
		for _, wr := range m.writes {
			if wr.kind == "append" {
				nApp++
			} else {
				nRew++
			}
			if wr.line.param != nil {
				nPar++
			}
		}
		switch {
		case nApp == 1 && nRew == 0 && nPar == 1:
			m.kind = "add"
		case nApp == 0 && nRew == 1 && nPar == 1:
			m.kind = "remove"
		case nApp == 1 && nRew == 1 && nPar == 0:
			m.kind = "toggle"
		default:
			c.Unknown("C25.R2", name, pos, fmt.Sprintf("mutator shape not understood: %d appends, %d rewrites, %d parameter lines", nApp, nRew, nPar))
			continue
		}

		// ---- lock
		locks, unlocks := x.lockCalls(fn)
		var guarded []ssa.Instruction
		for _, wr := range m.writes {
			guarded = append(guarded, wr.call)
		}
		for _, rc := range m.reloads {
			guarded = append(guarded, rc)
		}
		lockOK := true
		for _, g := range guarded {
			if !an.MustPassInstr(g, locks) {
				lockOK = false
			}
			for _, u := range unlocks {
				if c25After(u, g) {
					lockOK = false
				}
			}
		}
		c.Decide(lockOK, "C25.R2", name+" lock", pos, "file writes and reload run with policy.mu held", "a file write or the reload can run without policy.mu: two concurrent mutations interleave their read-modify-write of the file and of memory")

		// ---- guards
		for _, wr := range m.writes {
			if wr.line.param == nil {
				continue
			}
			facts := w.FactsDominating(wr.call)
			cons := name + " " + wr.kind + " " + wr.line.key
			// validator
			var vfn, otherV *ssa.Function
			for _, f := range facts {
				call, idx := c25CondCall(f)
				if call == nil || idx != 0 || f.Rel != "true" {
					continue
				}
				callee := w.Info(call).Static
				if callee == nil || !w.InModule(callee) || len(call.Call.Args) != 1 || call.Call.Args[0] != ssa.Value(wr.line.param) {
					continue
				}
				if x.validatorShape(callee) {
					vfn = callee
				} else {
					otherV = callee
				}
			}
			if vfn == nil && otherV != nil {
				c.Unknown("C25.R2", cons+" validator", w.Pos(wr.call.Pos()), "the write is dominated by "+w.FuncName(otherV)+"(param) passing, but that function is not of the supported validator shape (regexp.MatchString(constant, param)): cannot decide what it accepts")
			} else if vfn == nil {
				c.Bad("C25.R2", cons+" validator", w.Pos(wr.call.Pos()), "the line written to the policy file contains the parameter without a dominating pubkey validation of that parameter: an invalid key (or one containing a newline and a second ini line) reaches the file. Facts that hold: "+an.DescribeFacts(facts))
			} else {
				c.OK("C25.R2", cons+" validator", w.Pos(wr.call.Pos()), "dominated by "+w.FuncName(vfn)+"(param) passing")
				x.validator(vfn)
			}
			if m.kind != "add" {
				continue
			}
			// not-already-present on the list of this key
			fi, known := x.iniKey[wr.line.key]
			dupOK := false
			var seenLists []string
			for _, f := range facts {
				call, idx := c25CondCall(f)
				if call == nil || idx != 0 || f.Rel != "false" || !strings.HasPrefix(w.Info(call).Name, "func:slices.Contains") || len(call.Call.Args) != 2 {
					continue
				}
				lb, lf, _ := x.polFieldLoad(call.Call.Args[0])
				if lb != ssa.Value(recv) || call.Call.Args[1] != ssa.Value(wr.line.param) {
					continue
				}
				seenLists = append(seenLists, x.polSt.Field(lf).Name())
				if known && lf == fi {
					dupOK = true
				}
			}
			want := "?"
			if known {
				want = x.polSt.Field(fi).Name()
			}
			if !dupOK && known {
				// a membership test written as a loop is not recognised: do not call it missing
				pt := w.Term(wr.line.param)
				for _, f := range w.Facts(fn) {
					if f.NonNum && (f.L == pt || f.R == pt) && (strings.Contains(f.L, "field:Policy."+want) || strings.Contains(f.R, "field:Policy."+want)) {
						c.Unknown("C25.R2", cons+" not-present", w.Pos(wr.call.Pos()), "the parameter is compared with elements of Policy."+want+" in a form other than slices.Contains: cannot decide whether the write is guarded ("+f.String()+")")
						dupOK = true
						break
					}
				}
				if dupOK {
					continue
				}
			}
			c.Decide(dupOK, "C25.R2", cons+" not-present", w.Pos(wr.call.Pos()),
				"dominated by !slices.Contains(Policy."+want+", param)",
				fmt.Sprintf("an addition to ini key %s is not dominated by the not-already-present test on Policy.%s with the written parameter (tests found on: %v): a duplicate addition changes the file. Facts that hold: %s", wr.line.key, want, seenLists, an.DescribeFacts(facts)))
		}

		// ---- write ⇒ reload before every return
		reloadBlocks := map[*ssa.BasicBlock]bool{}
		for _, rc := range m.reloads {
			reloadBlocks[rc.Block()] = true
		}
		cut := map[an.Edge]bool{}
		for _, wr := range m.writes {
			_, fail := an.OkEdges(wr.call)
			for _, e := range fail {
				cut[e] = true
			}
		}
		rets := c25Returns(fn)
		for _, wr := range m.writes {
			cons := name + " " + wr.kind + " " + wr.line.format + " then reload"
			okE, _ := an.OkEdges(wr.call)
			var start []*ssa.BasicBlock
			for _, e := range okE {
				start = append(start, e.To())
			}
			if len(okE) == 0 {
				c.Note("C25.R2", cons+" (error of the write ignored)", w.Pos(wr.call.Pos()), "the result of the file helper is not tested")
				// reload later in the same block?
				later := false
				for _, rc := range m.reloads {
					if rc.Block() == wr.call.Block() && an.InstrIndex(rc) > an.InstrIndex(wr.call) {
						later = true
					}
				}
				if later {
					c.OK("C25.R2", cons, w.Pos(wr.call.Pos()), "reload follows in the same block")
					continue
				}
				start = wr.call.Block().Succs
				if len(start) == 0 {
					c.Bad("C25.R2", cons, w.Pos(wr.call.Pos()), "returns right after the file write without reloading")
					continue
				}
			}
			// a reload in a start block placed before... blocks are entered at their top, so a reload anywhere in the block precedes its return
			reach := an.ReachBlocks(start, cut, reloadBlocks)
			good := true
			for _, r := range rets {
				if reach[r.Block()] && !reloadBlocks[r.Block()] {
					good = false
					c.Bad("C25.R2", cons, w.Pos(r.Pos()), "a return is reached after the file was written without reloading it: the change does not apply to the next request (memory keeps the old policy until a restart)")
				}
			}
			// the reload must come after the write also inside a shared block
			for _, rc := range m.reloads {
				if rc.Block() == wr.call.Block() && an.InstrIndex(rc) < an.InstrIndex(wr.call) && !c25InLoop(rc.Block()) {
					// harmless: an extra reload before; the reachability above still demands one after
					_ = rc
				}
			}
			if good {
				c.OK("C25.R2", cons, w.Pos(wr.call.Pos()), "every return after a successful write passes the reload")
			}
		}
		if len(m.reloads) == 0 {
			c.Bad("C25.R2", name+" reload", pos, "mutator never reloads the file")
		}
		// ---- reload error propagated
		for _, rc := range m.reloads {
			okE, _ := an.OkEdges(rc)
			returned := false
			for _, r := range rets {
				for _, v := range c25RetVals(r, len(r.Results)-1) {
					if v == ssa.Value(rc) {
						returned = true
					}
				}
			}
			c.Decide(returned || len(okE) > 0, "C25.R2", name+" reload result", w.Pos(rc.Pos()), "the reload error is returned or tested", "the error of the reload is dropped: a file that no longer parses leaves memory and file different while the operation reports success")
		}
		// ---- nil returns that wrote nothing
		for _, r := range rets {
			afterWrite := false
			for _, wr := range m.writes {
				if r.Block() == wr.call.Block() || an.ReachFromInstr(wr.call)[r.Block()] {
					afterWrite = true
				}
			}
			if afterWrite {
				continue
			}
			isNil := false
			for _, v := range c25RetVals(r, len(r.Results)-1) {
				if an.IsNilConst(v) {
					isNil = true
				}
			}
			if !isNil {
				continue
			}
			cons := name + " nil-without-write"
			facts := w.FactsDominatingBlock(r.Block())
			just := false
			switch m.kind {
			case "toggle":
				for _, wr := range m.writes {
					if wr.kind != "append" {
						continue
					}
					fi, known := x.iniKey[wr.line.key]
					if !known || (wr.line.val != "true" && wr.line.val != "false") {
						continue
					}
					for _, f := range facts {
						if lb, lf, truth, ok := x.boolFieldFact(f); ok && lb == ssa.Value(recv) && lf == fi && truth == wr.line.val {
							just = true
						}
					}
				}
			case "add":
				for _, wr := range m.writes {
					fi, known := x.iniKey[wr.line.key]
					for _, f := range facts {
						call, idx := c25CondCall(f)
						if call == nil || idx != 0 || f.Rel != "true" || !strings.HasPrefix(w.Info(call).Name, "func:slices.Contains") || len(call.Call.Args) != 2 {
							continue
						}
						if lb, lf, _ := x.polFieldLoad(call.Call.Args[0]); known && lb == ssa.Value(recv) && lf == fi && call.Call.Args[1] == ssa.Value(wr.line.param) {
							just = true
						}
					}
				}
			}
			c.Decide(just, "C25.R2", cons, w.Pos(r.Pos()),
				"success without a write only when memory already has the value the mutator would write",
				"the mutator reports success without writing the file and without a dominating test that the policy already has the target value: the operation is silently skipped. Facts that hold: "+an.DescribeFacts(facts))
		}
	}
	c.AtLeast("C25.R2", "file-write call sites in mutators", nWrites, 8)
	return muts
}

// validatorShape: f(param string) (bool, ...) that returns true only under a
// regexp match of its parameter against a constant pattern.
func (x *c25ctx) validatorShape(f *ssa.Function) bool {
	_, _, ok := x.validatorParts(f)
	return ok
}

func (x *c25ctx) validatorParts(f *ssa.Function) (pattern string, match *ssa.Call, ok bool) {
	if f == nil || f.Blocks == nil || len(f.Params) != 1 {
		return "", nil, false
	}
	for _, ci := range an.Calls(f) {
		call, isCall := ci.(*ssa.Call)
		if !isCall || x.w.Info(ci).Name != "func:regexp.MatchString" || len(call.Call.Args) != 2 {
			continue
		}
		p, isConst := an.ConstString(call.Call.Args[0])
		if !isConst || call.Call.Args[1] != ssa.Value(f.Params[0]) {
			continue
		}
		return p, call, true
	}
	return "", nil, false
}

// validator decides the validator function itself (once per run).
func (x *c25ctx) validator(f *ssa.Function) {
	c, w := x.c, x.w
	name := w.FuncName(f)
	pat, match, _ := x.validatorParts(f)
	// true is returned only when the match result is true
	good := true
	nTrue := 0
	for _, r := range c25Returns(f) {
		for _, v := range c25RetVals(r, 0) {
			k, isC := v.(*ssa.Const)
			if isC && k.Value != nil && k.Value.String() == "false" {
				continue
			}
			nTrue++
			under := false
			for _, fa := range w.FactsDominatingBlock(r.Block()) {
				call, idx := c25CondCall(fa)
				if call == match && idx == 0 && fa.Rel == "true" {
					under = true
				}
			}
			if !under && v != ssa.Value(nil) {
				// returning the match result itself is fine too
				if ex, ok := v.(*ssa.Extract); ok && ex.Tuple == ssa.Value(match) && ex.Index == 0 {
					under = true
				}
			}
			if !under {
				good = false
			}
		}
	}
	c.Decide(good && nTrue > 0, "C25.R2", name+" returns true only on match", w.Pos(f.Pos()), "`true` is returned only under the regexp match", "the validator can return true without the regexp having matched")
	re, err := regexp.Compile(pat)
	if err != nil {
		c.Bad("C25.R2", name+" pattern", w.Pos(match.Pos()), "pattern constant does not compile: "+err.Error())
		return
	}
	hex66 := "02" + strings.Repeat("ab", 32)
	must := []string{hex66, "03" + strings.Repeat("0", 64), strings.Repeat("9", 66)}
	mustNot := map[string]string{
		"":                                "empty",
		hex66[:64]:                        "64 hex digits",
		hex66 + "ab":                      "68 hex digits",
		hex66[:65]:                        "65 hex digits",
		strings.ToUpper(hex66):            "upper-case hex",
		hex66[:65] + "g":                  "non-hex character",
		hex66 + "\n":                      "trailing newline",
		"\n" + hex66:                      "leading newline",
		hex66 + "\nallow_new_swaps=false": "second ini line after the key",
		"x\n" + hex66:                     "key on a second line",
		hex66 + " ":                       "trailing blank",
		hex66[:33] + "\n" + hex66[33:66]:  "newline inside",
		"[" + hex66[:64] + "]":            "ini section header",
	}
	var bad []string
	for _, s := range must {
		if !re.MatchString(s) {
			bad = append(bad, "rejects a 66-digit lower-case hex key")
		}
	}
	for s, what := range mustNot {
		if re.MatchString(s) {
			bad = append(bad, "accepts "+what)
		}
	}
	sort.Strings(bad)
	c.Decide(len(bad) == 0, "C25.R2", name+" pattern", w.Pos(match.Pos()),
		"pattern constant accepts exactly 66 lower-case hex digits on the probe set (whole string, no newline)",
		fmt.Sprintf("pattern %q %s: such input is written as a line of the policy file", pat, strings.Join(bad, ", ")))
}

// boolFieldFact: the fact says that a bool field of a policy object is true / false
// (`if p.F`, `if !p.F`, `if p.F == false`, ...).
func (x *c25ctx) boolFieldFact(f an.Fact) (base ssa.Value, field int, truth string, ok bool) {
	if f.Rel == "true" || f.Rel == "false" {
		if lb, lf, _ := x.polFieldLoad(f.Cond); lb != nil {
			return lb, lf, f.Rel, true
		}
		return nil, -1, "", false
	}
	if !f.NonNum || (f.Rel != "==" && f.Rel != "!=") {
		return nil, -1, "", false
	}
	try := func(k, v ssa.Value) (ssa.Value, int, string, bool) {
		kc, isC := k.(*ssa.Const)
		if !isC || kc.Value == nil || (kc.Value.String() != "true" && kc.Value.String() != "false") {
			return nil, -1, "", false
		}
		lb, lf, _ := x.polFieldLoad(v)
		if lb == nil {
			return nil, -1, "", false
		}
		t := kc.Value.String()
		if f.Rel == "!=" {
			if t == "true" {
				t = "false"
			} else {
				t = "true"
			}
		}
		return lb, lf, t, true
	}
	if b, i, t, ok := try(f.LV, f.RV); ok {
		return b, i, t, true
	}
	return try(f.RV, f.LV)
}

// ---- R3 -------------------------------------------------------------------------------

func (x *c25ctx) r3(muts []*c25mut) {
	c := x.c
	type use struct {
		app, rew map[string]string // format -> position
	}
	keys := map[string]*use{}
	get := func(k string) *use {
		if keys[k] == nil {
			keys[k] = &use{app: map[string]string{}, rew: map[string]string{}}
		}
		return keys[k]
	}
	for _, m := range muts {
		if m.kind == "" {
			continue
		}
		for _, wr := range m.writes {
			u := get(wr.line.key)
			pos := x.w.Pos(wr.call.Pos())
			if wr.kind == "append" {
				u.app[wr.line.format] = pos
			} else {
				u.rew[wr.line.format] = pos
			}
			// key ↔ field
			cons := x.w.FuncName(m.fn) + " " + wr.kind + " key " + wr.line.key
			fi, known := x.iniKey[wr.line.key]
			if !known {
				var ks []string
				for k := range x.iniKey {
					ks = append(ks, k)
				}
				sort.Strings(ks)
				c.Bad("C25.R3", cons, pos, fmt.Sprintf("the written ini key %q is not the ini name of any Policy field (%v): the line is ignored by the parser (IgnoreUnknown), so the change neither applies nor survives", wr.line.key, ks))
				continue
			}
			ft := x.polSt.Field(fi).Type().Underlying()
			typeOK := false
			switch t := ft.(type) {
			case *types.Slice:
				b, ok := t.Elem().Underlying().(*types.Basic)
				typeOK = wr.line.val == "%s" && ok && b.Kind() == types.String
			case *types.Basic:
				if t.Kind() == types.Bool {
					typeOK = wr.line.val == "true" || wr.line.val == "false"
				}
			}
			c.Decide(typeOK, "C25.R3", cons, pos, "key is the ini name of Policy."+x.polSt.Field(fi).Name()+" and the value fits its type",
				fmt.Sprintf("value %q does not fit Policy.%s (%s)", wr.line.val, x.polSt.Field(fi).Name(), ft.String()))
		}
	}
	var ks []string
	for k := range keys {
		ks = append(ks, k)
	}
	sort.Strings(ks)
	c.AtLeast("C25.R3", "distinct written ini keys", len(ks), 3)
	setOf := func(m map[string]string) []string {
		var out []string
		for k := range m {
			out = append(out, k)
		}
		sort.Strings(out)
		return out
	}
	for _, k := range ks {
		u := keys[k]
		a, r := setOf(u.app), setOf(u.rew)
		pos := "-"
		for _, p := range u.rew {
			pos = p
		}
		for _, p := range u.app {
			if pos == "-" {
				pos = p
			}
		}
		if len(a) == 0 || len(r) == 0 {
			c.Note("C25.R3", "key "+k+" formats", pos, fmt.Sprintf("only appended %v / only removed %v", a, r))
			continue
		}
		c.Decide(strings.Join(a, "|") == strings.Join(r, "|"), "C25.R3", "key "+k+" formats", pos,
			fmt.Sprintf("lines appended and lines removed for the key are the same set %v", a),
			fmt.Sprintf("lines appended %v and lines removed %v for the same key differ: a removal does not find the line an addition wrote (the change is reported but does not survive the reload), or a toggle leaves the opposite line in the file", a, r))
	}
	// inside one toggle the removed and the appended line differ (same key, opposite value)
	for _, m := range muts {
		if m.kind != "toggle" {
			continue
		}
		var app, rew *c25write
		for _, wr := range m.writes {
			if wr.kind == "append" {
				app = wr
			} else {
				rew = wr
			}
		}
		cons := x.w.FuncName(m.fn) + " toggle lines"
		good := app.line.key == rew.line.key && app.line.val != rew.line.val
		c.Decide(good, "C25.R3", cons, x.w.Pos(app.call.Pos()), "removes the opposite line of the key it appends", fmt.Sprintf("removes %q but appends %q", rew.line.format, app.line.format))
		// the old line must be gone before the new one could be shadowed: order is irrelevant for a last-wins parser, not checked
	}
}

// ---- R4 -------------------------------------------------------------------------------

func (x *c25ctx) r4(muts []*c25mut) {
	c, w := x.c, x.w
	isMut := map[string]bool{}
	for _, m := range muts {
		isMut[m.fn.Name()] = true
	}
	var names []string
	if it := w.Named("swap", "Policy"); it != nil {
		if ifc, ok := it.Underlying().(*types.Interface); ok {
			for i := 0; i < ifc.NumMethods(); i++ {
				names = append(names, ifc.Method(i).Name())
			}
		}
	}
	if len(names) == 0 {
		c.Anchor("interface swap.Policy does not resolve")
		return
	}
	names = append(names, "Get")
	sort.Strings(names)
	n := 0
	for _, nm := range names {
		if isMut[nm] {
			continue
		}
		fn := w.Method(x.polT, nm)
		if fn == nil || fn.Blocks == nil {
			c.Anchor("method (*policy.Policy).%s required by swap.Policy does not resolve", nm)
			continue
		}
		n++
		cons := w.FuncName(fn)
		through := map[string]bool{}
		for _, ci := range an.Calls(fn) {
			if nmc := w.Info(ci).Name; strings.HasPrefix(nmc, "func:slices.Contains") {
				through[nmc] = true
			}
		}
		var badLeaves []string
		nField := 0
		for _, r := range c25Returns(fn) {
			for i := range r.Results {
				for _, v := range c25RetVals(r, i) {
					ss := w.Sources(v, an.FlowOpts{ThroughCalls: through})
					for _, l := range ss.Leaves {
						switch l.Kind {
						case "const", "zero", "param":
						case "field":
							base, _, _ := x.polFieldLoad(l.Val)
							if fa, ok := l.Val.(*ssa.FieldAddr); ok && x.isPolPtr(fa.X.Type()) {
								base = fa.X
							}
							if base == ssa.Value(fn.Params[0]) {
								nField++
							} else {
								badLeaves = append(badLeaves, l.String())
							}
						default:
							badLeaves = append(badLeaves, l.String())
						}
					}
				}
			}
		}
		sort.Strings(badLeaves)
		switch {
		case len(badLeaves) > 0:
			c.Bad("C25.R4", cons, w.Pos(fn.Pos()), fmt.Sprintf("the answer also depends on %v, not only on the live fields of the policy object: a change written to the file and reloaded does not (fully) apply to the next request", badLeaves))
		case nField == 0:
			c.Bad("C25.R4", cons, w.Pos(fn.Pos()), "the answer does not read any field of the policy object")
		default:
			c.OK("C25.R4", cons, w.Pos(fn.Pos()), "result derives only from live receiver fields, parameters and constants")
		}
		// lock: info only
		locks, _ := x.lockCalls(fn)
		unl := false
		for _, b := range fn.Blocks {
			for _, in := range b.Instrs {
				if _, fi, ld := x.polFieldLoad(c25ValueOf(in)); fi >= 0 && ld != nil && !an.MustPassInstr(ld, locks) {
					unl = true
				}
			}
		}
		if unl {
			c.Note("C25.R4", cons+" lock", w.Pos(fn.Pos()), "reads policy fields without policy.mu (data race with the whole-object overwrite in reload; verdict owned by C19, DESIGN §4 F10)")
		}
	}
	c.AtLeast("C25.R4", "non-mutating policy methods", n, 6)
	// ReloadFile is public and takes no lock itself
	for _, fn := range prodFuncs(w) {
		if w.FnRel(fn) == "policy" || an.IsTestSupport(w.FnRel(fn)) {
			continue
		}
		for _, ci := range an.Calls(fn) {
			if f := w.Info(ci).Static; f != nil && w.FnRel(f) == "policy" && f.Signature.Recv() != nil && x.isPol(f.Signature.Recv().Type()) {
				locks, _ := x.lockCalls(f)
				if len(locks) == 0 && x.writesPolicy(f) {
					c.Note("C25.R4", w.FuncName(f)+" called from "+w.FuncName(fn), w.Pos(ci.Pos()), "overwrites the policy object without taking policy.mu (C19, DESIGN §4 F10)")
				}
			}
		}
	}
}

func (x *c25ctx) writesPolicy(f *ssa.Function) bool {
	for _, e := range x.w.Summary(f).Effects {
		if e.Info.Static != nil {
			for _, b := range e.Info.Static.Blocks {
				for _, in := range b.Instrs {
					if st, ok := in.(*ssa.Store); ok && x.isPolPtr(st.Addr.Type()) && x.isPolVal(st.Val.Type()) && !x.fresh(st.Addr) {
						return true
					}
				}
			}
		}
	}
	return false
}

func c25ValueOf(in ssa.Instruction) ssa.Value {
	if v, ok := in.(ssa.Value); ok {
		return v
	}
	return nil
}
